(* Per-operation refinement obligations for the read-only / read-like operations:
   OGet, OReadSync, ORead, OReopen; plus the closed form of what reads return.
   Axiom-free; stdlib only. *)
From XS Require Import Proofs.Inv.
From Coq Require Import Lia ZifyN ZifyBool Sorting.Sorted.

Open Scope N_scope.

(* ------------------------------------------------------------------------ *)
(* 1. the two read loops: unfolding equations, closed form, produced tasks *)

Lemma rs_loop_nil now rem : rs_loop now [] rem = ([], []).
Proof. cbn [rs_loop]. destruct (limit_hit rem); reflexivity. Qed.

Lemma rs_loop_cons now f r rem :
  rs_loop now (f :: r) rem =
  if limit_hit rem then ([], [])
  else if expired now f
       then (fst (rs_loop now r rem), GcRemove (f_id f) :: snd (rs_loop now r rem))
       else (f :: fst (rs_loop now r (dec_limit rem)), snd (rs_loop now r (dec_limit rem))).
Proof.
  cbn [rs_loop]. destruct (limit_hit rem); [reflexivity|].
  destruct (expired now f).
  - destruct (rs_loop now r rem); reflexivity.
  - destruct (rs_loop now r (dec_limit rem)); reflexivity.
Qed.

Lemma rh_loop_nil now rem : rh_loop now [] rem = ([], []).
Proof. reflexivity. Qed.

Lemma rh_loop_cons now f r rem :
  rh_loop now (f :: r) rem =
  if expired now f
  then (fst (rh_loop now r rem), GcRemove (f_id f) :: snd (rh_loop now r rem))
  else if limit_hit rem then ([], [])
       else (f :: fst (rh_loop now r (dec_limit rem)), snd (rh_loop now r (dec_limit rem))).
Proof.
  cbn [rh_loop]. destruct (expired now f).
  - destruct (rh_loop now r rem); reflexivity.
  - destruct (limit_hit rem); [reflexivity|].
    destruct (rh_loop now r (dec_limit rem)); reflexivity.
Qed.

Lemma firstn_pos_cons {A} (p : positive) (x : A) (l : list A) :
  firstn (N.to_nat (N.pos p)) (x :: l) = x :: firstn (N.to_nat (N.pred (N.pos p))) l.
Proof.
  rewrite N2Nat.inj_pred.
  destruct (N.to_nat (N.pos p)) as [|k] eqn:E; [lia|].
  reflexivity.
Qed.

Lemma rs_loop_spec : forall now fs lim,
  fst (rs_loop now fs lim) =
  match lim with
  | Some n => firstn (N.to_nat n) (filter (fun g => negb (expired now g)) fs)
  | None => filter (fun g => negb (expired now g)) fs
  end.
Proof.
  intros now fs. induction fs as [|f r IH]; intros lim.
  - rewrite rs_loop_nil. cbn [fst filter]. destruct lim; [|reflexivity].
    symmetry. apply firstn_nil.
  - rewrite rs_loop_cons. cbn [filter]. destruct lim as [[|p]|].
    + reflexivity.
    + cbn [limit_hit]. destruct (expired now f); cbn [negb fst].
      * apply (IH (Some (N.pos p))).
      * rewrite (IH (dec_limit (Some (N.pos p)))). cbn [dec_limit option_map].
        symmetry. apply firstn_pos_cons.
    + cbn [limit_hit]. destruct (expired now f); cbn [negb fst].
      * apply (IH None).
      * rewrite (IH (dec_limit None)). reflexivity.
Qed.

Lemma rh_loop_spec : forall now fs lim,
  fst (rh_loop now fs lim) =
  match lim with
  | Some n => firstn (N.to_nat n) (filter (fun g => negb (expired now g)) fs)
  | None => filter (fun g => negb (expired now g)) fs
  end.
Proof.
  intros now fs. induction fs as [|f r IH]; intros lim.
  - rewrite rh_loop_nil. cbn [fst filter]. destruct lim; [|reflexivity].
    symmetry. apply firstn_nil.
  - rewrite rh_loop_cons. cbn [filter].
    destruct (expired now f); cbn [negb fst].
    + apply IH.
    + destruct lim as [[|p]|]; cbn [limit_hit fst].
      * reflexivity.
      * rewrite (IH (dec_limit (Some (N.pos p)))). cbn [dec_limit option_map].
        symmetry. apply firstn_pos_cons.
      * rewrite (IH (dec_limit None)). reflexivity.
Qed.

(* every task a read enqueues is the removal of a frame it met *)
Lemma rs_loop_tasks : forall now fs lim t,
  In t (snd (rs_loop now fs lim)) -> exists f, In f fs /\ t = GcRemove (f_id f).
Proof.
  intros now fs. induction fs as [|f r IH]; intros lim t.
  - rewrite rs_loop_nil. intros [].
  - rewrite rs_loop_cons. destruct (limit_hit lim); [intros []|].
    destruct (expired now f); cbn [snd].
    + intros [E|H].
      * exists f. split; [left; reflexivity|symmetry; exact E].
      * destruct (IH _ _ H) as (g & Hg & Et). exists g. split; [right; exact Hg|exact Et].
    + intros H. destruct (IH _ _ H) as (g & Hg & Et). exists g. split; [right; exact Hg|exact Et].
Qed.

Lemma rh_loop_tasks : forall now fs lim t,
  In t (snd (rh_loop now fs lim)) -> exists f, In f fs /\ t = GcRemove (f_id f).
Proof.
  intros now fs. induction fs as [|f r IH]; intros lim t.
  - rewrite rh_loop_nil. intros [].
  - rewrite rh_loop_cons. destruct (expired now f); cbn [snd].
    + intros [E|H].
      * exists f. split; [left; reflexivity|symmetry; exact E].
      * destruct (IH _ _ H) as (g & Hg & Et). exists g. split; [right; exact Hg|exact Et].
    + destruct (limit_hit lim); [intros []|]. cbn [snd].
      intros H. destruct (IH _ _ H) as (g & Hg & Et). exists g. split; [right; exact Hg|exact Et].
Qed.

Lemma read_sync_eq s l lim c :
  read_sync s l lim c =
  (fst (rs_loop (s_now s) (iter_frames s c l) lim),
   enqueue s (snd (rs_loop (s_now s) (iter_frames s c l) lim))).
Proof. unfold read_sync. destruct (rs_loop _ _ _); reflexivity. Qed.

Lemma read_hist_eq s l lim c :
  read_hist s l lim c =
  (fst (rh_loop (s_now s) (iter_frames s c l) lim),
   enqueue s (snd (rh_loop (s_now s) (iter_frames s c l) lim))).
Proof. unfold read_hist. destruct (rh_loop _ _ _); reflexivity. Qed.

Lemma a_read_sync_eq a l lim c :
  a_read_sync a l lim c =
  (fst (rs_loop (a_now a) (a_iter a c l) lim),
   a_enqueue a (snd (rs_loop (a_now a) (a_iter a c l) lim))).
Proof. unfold a_read_sync. destruct (rs_loop _ _ _); reflexivity. Qed.

Lemma a_read_hist_eq a l lim c :
  a_read_hist a l lim c =
  (fst (rh_loop (a_now a) (a_iter a c l) lim),
   a_enqueue a (snd (rh_loop (a_now a) (a_iter a c l) lim))).
Proof. unfold a_read_hist. destruct (rh_loop _ _ _); reflexivity. Qed.

Corollary a_read_sync_spec : forall a l lim c,
  fst (a_read_sync a l lim c) = spec_read (a_live a) (a_now a) c l lim.
Proof.
  intros a l lim c. rewrite a_read_sync_eq. cbn [fst].
  rewrite rs_loop_spec. reflexivity.
Qed.

Corollary a_read_hist_spec : forall a l lim c,
  fst (a_read_hist a l lim c) = spec_read (a_live a) (a_now a) c l lim.
Proof.
  intros a l lim c. rewrite a_read_hist_eq. cbn [fst].
  rewrite rh_loop_spec. reflexivity.
Qed.

(* the two read programs return the same frames (they differ in the tasks) *)
Corollary rs_rh_same_frames : forall now fs lim,
  fst (rs_loop now fs lim) = fst (rh_loop now fs lim).
Proof. intros. rewrite rs_loop_spec, rh_loop_spec. reflexivity. Qed.

(* ------------------------------------------------------------------------ *)
(* 2. generic facts about strongly sorted lists *)

Lemma SS_impl_in {A} (R R' : A -> A -> Prop) l :
  (forall x y, In x l -> In y l -> R x y -> R' x y) ->
  StronglySorted R l -> StronglySorted R' l.
Proof.
  intros H S. revert H. induction S as [|x r S IH Hx]; intros H; constructor.
  - apply IH. intros y z Hy Hz. apply H; right; assumption.
  - rewrite Forall_forall in *. intros y Hy.
    apply H; [left; reflexivity|right; exact Hy|apply Hx; exact Hy].
Qed.

Lemma SS_filter {A} (R : A -> A -> Prop) p l :
  StronglySorted R l -> StronglySorted R (filter p l).
Proof.
  intros S. induction S as [|x r S IH Hx]; cbn [filter]; [constructor|].
  destruct (p x); [|exact IH]. constructor; [exact IH|].
  rewrite Forall_forall in *. intros y Hy. apply filter_In in Hy. apply Hx, Hy.
Qed.

Lemma SS_map {A B} (R : B -> B -> Prop) (f : A -> B) l :
  StronglySorted (fun x y => R (f x) (f y)) l -> StronglySorted R (map f l).
Proof.
  intros S. induction S as [|x r S IH Hx]; cbn [map]; constructor; [exact IH|].
  rewrite Forall_forall in *. intros y Hy.
  apply in_map_iff in Hy. destruct Hy as (z & <- & Hz). apply Hx, Hz.
Qed.

(* canonical form: a finite set of numbers has one strictly increasing enumeration *)
Lemma SS_lt_unique : forall l1 l2,
  StronglySorted N.lt l1 -> StronglySorted N.lt l2 ->
  (forall x, In x l1 <-> In x l2) -> l1 = l2.
Proof.
  intros l1; induction l1 as [|x r1 IH]; intros [|y r2] S1 S2 H.
  - reflexivity.
  - exfalso. apply (H y). left; reflexivity.
  - exfalso. apply (H x). left; reflexivity.
  - apply StronglySorted_inv in S1. destruct S1 as [S1 F1].
    apply StronglySorted_inv in S2. destruct S2 as [S2 F2].
    rewrite Forall_forall in F1, F2.
    assert (E : x = y).
    { destruct (proj1 (H x) (or_introl eq_refl)) as [E|Hx]; [symmetry; exact E|].
      destruct (proj2 (H y) (or_introl eq_refl)) as [E|Hy]; [exact E|].
      apply F2 in Hx. apply F1 in Hy. lia. }
    subst y. f_equal. apply IH; try assumption.
    intros z. split; intros Hz.
    + destruct (proj1 (H z) (or_intror Hz)) as [E|Hz']; [|exact Hz'].
      apply F1 in Hz. lia.
    + destruct (proj2 (H z) (or_intror Hz)) as [E|Hz']; [|exact Hz'].
      apply F2 in Hz. lia.
Qed.

(* ------------------------------------------------------------------------ *)
(* 3. get *)

Lemma frame_ok_ids live :
  Forall frame_ok live -> Forall (fun g => f_id g < two128) live.
Proof. apply Forall_impl. intros g (H & _). exact H. Qed.

Lemma frame_ok_idok f : frame_ok f -> idok f.
Proof. intros (Hi & Hc & _). pose proof max128_lt. split; [exact Hi|lia]. Qed.

Lemma kv_get_enc i l :
  i < two128 -> Forall (fun g => f_id g < two128) l ->
  kv_get (skey i) (map enc l) = find (fun g => f_id g =? i) l.
Proof.
  intros Hi Hl. unfold kv_get, skey.
  induction Hl as [|g r Hg Hr IH]; cbn [map find]; [reflexivity|].
  change (fst (enc g)) with (be16 (f_id g)).
  rewrite (be16_eqb _ _ Hi Hg), (N.eqb_sym i).
  destruct (f_id g =? i); [reflexivity|exact IH].
Qed.

Lemma get_eq s live i :
  s_stream s = map enc live -> Forall frame_ok live -> i < two128 ->
  get s i = find (fun g => f_id g =? i) live.
Proof.
  intros Hs Hok Hi. unfold get. rewrite Hs.
  apply kv_get_enc; [exact Hi|apply frame_ok_ids; exact Hok].
Qed.

Lemma find_sorted_id live f :
  StronglySorted id_lt live -> In f live ->
  find (fun g => f_id g =? f_id f) live = Some f.
Proof.
  intros S. induction S as [|x r S IH Hx]; intros Hf; [destruct Hf|].
  cbn [find]. destruct Hf as [E|Hf].
  - subst x. rewrite N.eqb_refl. reflexivity.
  - rewrite Forall_forall in Hx. pose proof (Hx _ Hf) as L. unfold id_lt in L.
    destruct (N.eqb_spec (f_id x) (f_id f)) as [E|E]; [lia|].
    apply IH. exact Hf.
Qed.

Lemma get_live s live f :
  StronglySorted id_lt live -> Forall frame_ok live -> s_stream s = map enc live ->
  In f live -> get s (f_id f) = Some f.
Proof.
  intros S Hok Hs Hf.
  rewrite (get_eq s live (f_id f) Hs Hok).
  - apply find_sorted_id; assumption.
  - rewrite Forall_forall in Hok. apply (Hok _ Hf).
Qed.

Theorem refines_get : forall i, refines_op (OGet i).
Proof.
  intros i s a HI Hh. cbn [step a_step fst snd]. split; [|exact HI].
  f_equal. unfold a_get. apply get_eq.
  - apply (inv_stream _ _ HI).
  - apply (inv_ok _ _ HI).
  - cbn [hyp_ok] in Hh. unfold id_ok in Hh. apply N.ltb_lt. exact Hh.
Qed.

(* ------------------------------------------------------------------------ *)
(* 4. iter_frames = a_iter *)

Definition scope_ok (c : option N) : Prop :=
  match c with Some c => c < max128 | None => True end.
Definition last_ok (l : option N) : Prop :=
  match l with Some l => l < two128 | None => True end.

(* 4a. all contexts: a range scan of the stream partition *)
Lemma iter_all_eq live l :
  Forall (fun g => f_id g < two128) live -> last_ok l ->
  map snd (kv_range (match l with Some l => Excl (be16 l) | None => Unb end) Unb
                    (map enc live))
  = filter (fun g => in_scope None g && after l g) live.
Proof.
  intros Hl Hlast. unfold kv_range.
  induction Hl as [|g r Hg Hr IH]; cbn [map filter]; [reflexivity|].
  change (fst (enc g)) with (be16 (f_id g)).
  assert (E : above (match l with Some l0 => Excl (be16 l0) | None => Unb end)
                    (be16 (f_id g)) && below Unb (be16 (f_id g))
              = in_scope None g && after l g).
  { cbn [below in_scope andb]. rewrite andb_true_r.
    destruct l as [l0|]; cbn [above after]; [|reflexivity].
    apply be16_ltb; [exact Hlast|exact Hg]. }
  rewrite E. destruct (in_scope None g && after l g); cbn [map]; [|exact IH].
  change (snd (enc g)) with g. rewrite IH. reflexivity.
Qed.

(* 4b. one context: a range scan of the context index, then one get per entry *)
Definition idk (e : bytes * unit) : N := of_be (skipn 16 (fst e)).

Definition ctx_lo (c : N) (l : option N) : bound :=
  match l with Some l => Excl (be16 c ++ be16 l) | None => Incl (be16 c) end.

Definition ctx_test (c : N) (l : option N) (k : bytes) : bool :=
  above (ctx_lo c l) k && below (Excl (ctx_range_end c)) k.

Lemma ctx_test_ckey c l f :
  c < max128 -> last_ok l -> frame_ok f ->
  ctx_test c l (ckey f) = in_scope (Some c) f && after l f.
Proof.
  intros Hc Hl Hf. apply frame_ok_idok in Hf. unfold ctx_test, ctx_lo.
  destruct l as [l0|]; cbn [in_scope after].
  - apply ckey_range_after; assumption.
  - rewrite andb_true_r. apply ckey_range_all; assumption.
Qed.

Section Ictx.
  Variable live : list frame.
  Variable ictx : kv unit.
  Hypothesis Hsorted : StronglySorted id_lt live.
  Hypothesis Hok : Forall frame_ok live.
  Hypothesis Hks : StronglySorted key_lt ictx.
  Hypothesis Hk : forall k, In k (map fst ictx) <-> exists f, In f live /\ k = ckey f.
  Variable c : N.
  Variable l : option N.
  Hypothesis Hc : c < max128.
  Hypothesis Hl : last_ok l.

  Lemma range_char e :
    In e (kv_range (ctx_lo c l) (Excl (ctx_range_end c)) ictx) ->
    exists f, In f live /\ fst e = ckey f /\ (in_scope (Some c) f && after l f) = true.
  Proof.
    unfold kv_range. intros H. apply filter_In in H. destruct H as [He Ht].
    destruct (proj1 (Hk (fst e)) (in_map fst _ _ He)) as (f & Hf & Ek).
    exists f. split; [exact Hf|]. split; [exact Ek|].
    rewrite <- (ctx_test_ckey c l f Hc Hl).
    - unfold ctx_test. rewrite <- Ek. exact Ht.
    - rewrite Forall_forall in Hok. apply Hok, Hf.
  Qed.

  Lemma live_id f : In f live -> f_id f < two128.
  Proof. intros Hf. rewrite Forall_forall in Hok. apply (Hok _ Hf). Qed.

  Lemma range_ids_mem i :
    In i (map idk (kv_range (ctx_lo c l) (Excl (ctx_range_end c)) ictx)) <->
    In i (map f_id (filter (fun g => in_scope (Some c) g && after l g) live)).
  Proof.
    rewrite !in_map_iff. split.
    - intros (e & Ei & He). destruct (range_char e He) as (f & Hf & Ek & HP).
      exists f. split.
      + rewrite <- Ei. unfold idk. rewrite Ek. symmetry. apply id_of_ckey, live_id, Hf.
      + apply filter_In. split; assumption.
    - intros (f & Ei & Hf). apply filter_In in Hf. destruct Hf as [Hf HP].
      assert (Hin : In (ckey f) (map fst ictx)) by (apply Hk; exists f; split; [exact Hf|reflexivity]).
      apply in_map_iff in Hin. destruct Hin as (e & Ek & He).
      exists e. split.
      + rewrite <- Ei. unfold idk. rewrite Ek. apply id_of_ckey, live_id, Hf.
      + unfold kv_range. apply filter_In. split; [exact He|].
        rewrite Ek. fold (ctx_test c l (ckey f)). rewrite ctx_test_ckey; try assumption.
        rewrite Forall_forall in Hok. apply Hok, Hf.
  Qed.

  Lemma range_ids_sorted :
    StronglySorted N.lt (map idk (kv_range (ctx_lo c l) (Excl (ctx_range_end c)) ictx)).
  Proof.
    apply SS_map. apply (SS_impl_in key_lt).
    - intros e1 e2 H1 H2 HL.
      destruct (range_char e1 H1) as (f1 & Hf1 & Ek1 & HP1).
      destruct (range_char e2 H2) as (f2 & Hf2 & Ek2 & HP2).
      unfold idk. rewrite Ek1, Ek2.
      rewrite (id_of_ckey f1 (live_id f1 Hf1)), (id_of_ckey f2 (live_id f2 Hf2)).
      unfold key_lt in HL. rewrite Ek1, Ek2 in HL.
      apply andb_true_iff in HP1, HP2. destruct HP1 as [C1 _]. destruct HP2 as [C2 _].
      cbn [in_scope] in C1, C2. apply N.eqb_eq in C1, C2.
      rewrite Forall_forall in Hok.
      rewrite ckey_ltb_same_ctx in HL.
      + apply N.ltb_lt. exact HL.
      + apply frame_ok_idok, Hok, Hf1.
      + apply frame_ok_idok, Hok, Hf2.
      + congruence.
    - unfold kv_range. apply SS_filter. exact Hks.
  Qed.

  Lemma live_ids_sorted :
    StronglySorted N.lt (map f_id (filter (fun g => in_scope (Some c) g && after l g) live)).
  Proof. apply SS_map. apply SS_filter. exact Hsorted. Qed.

  Lemma range_ids_eq :
    map idk (kv_range (ctx_lo c l) (Excl (ctx_range_end c)) ictx)
    = map f_id (filter (fun g => in_scope (Some c) g && after l g) live).
  Proof.
    apply SS_lt_unique.
    - apply range_ids_sorted.
    - apply live_ids_sorted.
    - apply range_ids_mem.
  Qed.

  Lemma range_len e :
    In e (kv_range (ctx_lo c l) (Excl (ctx_range_end c)) ictx) ->
    length (skipn 16 (fst e)) = 16%nat.
  Proof.
    intros He. destruct (range_char e He) as (f & _ & Ek & _).
    rewrite Ek. apply skip16_ckey_length.
  Qed.
End Ictx.

Lemma filter_map_ids (s : store) L fs :
  map idk L = map f_id fs ->
  (forall e, In e L -> length (skipn 16 (fst e)) = 16%nat) ->
  (forall f, In f fs -> get s (f_id f) = Some f) ->
  filter_map (fun e => let idb := skipn 16 (fst e) in
                       if Nat.eqb (length idb) 16 then get s (of_be idb) else None) L = fs.
Proof.
  revert fs. induction L as [|e L IH]; intros [|f fs] E Hlen Hget;
    cbn [map] in E; try discriminate; [reflexivity|].
  injection E as E1 E2. cbn [filter_map]. cbv zeta. unfold idk in E1. unfold bytes in *.
  rewrite (Hlen e (or_introl eq_refl)). rewrite PeanoNat.Nat.eqb_refl.
  unfold idk in E1. rewrite E1. rewrite (Hget f (or_introl eq_refl)).
  f_equal. apply IH.
  - exact E2.
  - intros e' He'. apply Hlen. right; exact He'.
  - intros f' Hf'. apply Hget. right; exact Hf'.
Qed.

Lemma iter_frames_eq s live c l :
  StronglySorted id_lt live -> Forall frame_ok live -> s_stream s = map enc live ->
  StronglySorted key_lt (s_ictx s) ->
  (forall k, In k (map fst (s_ictx s)) <-> exists f, In f live /\ k = ckey f) ->
  scope_ok c -> last_ok l ->
  iter_frames s c l = filter (fun g => in_scope c g && after l g) live.
Proof.
  intros S Hok Hs Hks Hk Hc Hl. unfold iter_frames. destruct c as [c|].
  - cbn [scope_ok] in Hc. fold (ctx_lo c l).
    apply filter_map_ids.
    + apply (range_ids_eq live (s_ictx s)); assumption.
    + apply (range_len live (s_ictx s)); assumption.
    + intros f Hf. apply filter_In in Hf. destruct Hf as [Hf _].
      apply (get_live s live); assumption.
  - rewrite Hs. apply iter_all_eq; [apply frame_ok_ids; exact Hok|exact Hl].
Qed.

Lemma hyp_read_ok (l c : option N) :
  match l with Some l => id_ok l | None => true end
  && match c with Some c => id_ok c && negb (c =? max128) | None => true end = true ->
  scope_ok c /\ last_ok l.
Proof.
  intros H. apply andb_true_iff in H. destruct H as [H1 H2]. split.
  - destruct c as [c|]; [|exact I]. cbn [scope_ok].
    apply andb_true_iff in H2. destruct H2 as [Hc Hm]. unfold id_ok in Hc.
    apply N.ltb_lt in Hc. apply negb_true_iff in Hm. apply N.eqb_neq in Hm.
    unfold max128 in *. lia.
  - destruct l as [l|]; [|exact I]. cbn [last_ok]. unfold id_ok in H1.
    apply N.ltb_lt. exact H1.
Qed.

Lemma iter_frames_inv s a c l :
  Inv s a -> scope_ok c -> last_ok l -> iter_frames s c l = a_iter a c l.
Proof.
  intros HI Hc Hl. unfold a_iter. apply iter_frames_eq; try assumption.
  - apply (inv_sorted _ _ HI).
  - apply (inv_ok _ _ HI).
  - apply (inv_stream _ _ HI).
  - apply (inv_ictx_sorted _ _ HI).
  - apply (inv_ictx _ _ HI).
Qed.

(* ------------------------------------------------------------------------ *)
(* 5. reads *)

Lemma inv_enqueue s a g :
  Inv s a -> Forall task_ok g -> Inv (enqueue s g) (a_enqueue a g).
Proof.
  intros [H1 H2 H3 H4 H5 H6 H7 H8 H9 H10 H11 H12 H13] Hg.
  constructor;
    cbn [enqueue a_enqueue s_stream s_itopic s_ictx s_ctxs s_gcq s_now s_bcast
         a_live a_gcq a_now a_bcast]; try assumption.
  - rewrite H10. reflexivity.
  - apply Forall_app. split; assumption.
Qed.

Lemma tasks_ok_of live (P : frame -> bool) g :
  Forall frame_ok live ->
  (forall t, In t g -> exists f, In f (filter P live) /\ t = GcRemove (f_id f)) ->
  Forall task_ok g.
Proof.
  intros Hok H. rewrite Forall_forall in *. intros t Ht.
  destruct (H t Ht) as (f & Hf & ->). apply filter_In in Hf. destruct Hf as [Hf _].
  cbn [task_ok]. apply (Hok _ Hf).
Qed.

Theorem refines_readsync : forall l lim c, refines_op (OReadSync l lim c).
Proof.
  intros l lim c s a HI Hh. cbn [hyp_ok] in Hh. apply hyp_read_ok in Hh.
  destruct Hh as [Hc Hl].
  cbn [step a_step]. rewrite read_sync_eq, a_read_sync_eq.
  rewrite (iter_frames_inv s a c l HI Hc Hl), (inv_now _ _ HI).
  cbn [fst snd]. split; [reflexivity|].
  apply inv_enqueue; [exact HI|].
  unfold a_iter. eapply tasks_ok_of; [apply (inv_ok _ _ HI)|].
  intros t Ht. eapply rs_loop_tasks. exact Ht.
Qed.

Theorem refines_read : forall l lim c, refines_op (ORead l lim c).
Proof.
  intros l lim c s a HI Hh. cbn [hyp_ok] in Hh. apply hyp_read_ok in Hh.
  destruct Hh as [Hc Hl].
  cbn [step a_step]. rewrite read_hist_eq, a_read_hist_eq.
  rewrite (iter_frames_inv s a c l HI Hc Hl), (inv_now _ _ HI).
  cbn [fst snd]. split; [reflexivity|].
  apply inv_enqueue; [exact HI|].
  unfold a_iter. eapply tasks_ok_of; [apply (inv_ok _ _ HI)|].
  intros t Ht. eapply rh_loop_tasks. exact Ht.
Qed.

(* ------------------------------------------------------------------------ *)
(* 6. reopen: the registry is rebuilt from the non-expired frames of context 0 *)

Lemma zero_lt_max128 : 0 < max128.
Proof. vm_compute. reflexivity. Qed.

Lemma mem_cons x y l : mem x (y :: l) = (x =? y) || mem x l.
Proof. reflexivity. Qed.

Lemma mem_set_add x y l : mem x (set_add y l) = (x =? y) || mem x l.
Proof.
  unfold set_add. destruct (mem y l) eqn:Hm; [|apply mem_cons].
  destruct (N.eqb_spec x y) as [E|E]; [|reflexivity].
  subst x. rewrite Hm. reflexivity.
Qed.

Lemma mem_rebuild c fs : forall acc,
  mem c (fold_left (fun cs f => if is_ctx_topic (f_topic f) then set_add (f_id f) cs else cs)
                   fs acc)
  = mem c acc || existsb (fun f => is_ctx_topic (f_topic f) && (c =? f_id f)) fs.
Proof.
  induction fs as [|f r IH]; intros acc; cbn [fold_left existsb].
  - rewrite orb_false_r. reflexivity.
  - rewrite IH. destruct (is_ctx_topic (f_topic f)); cbn [andb orb].
    + rewrite mem_set_add. rewrite orb_assoc. f_equal. apply orb_comm.
    + reflexivity.
Qed.

Lemma reg_persistent_not_expired now f :
  ttl_persistent (f_ttl f) = true -> expired now f = false.
Proof.
  unfold ttl_persistent, expired. destruct (f_ttl f) as [[| |ms|n]|]; try reflexivity.
  discriminate.
Qed.

Lemma rebuild_exists c now live :
  Forall (fun f => registers f = true -> ttl_persistent (f_ttl f) = true) live ->
  existsb (fun f => is_ctx_topic (f_topic f) && (c =? f_id f))
          (filter (fun g => negb (expired now g))
                  (filter (fun g => in_scope (Some 0) g && after None g) live))
  = existsb (N.eqb c) (map f_id (filter registers live)).
Proof.
  intros H. induction H as [|f r Hf Hr IH]; [reflexivity|].
  cbn [filter in_scope after]. rewrite andb_true_r. unfold registers at 1.
  destruct (f_ctx f =? 0) eqn:Ec.
  - cbn [filter]. destruct (is_ctx_topic (f_topic f)) eqn:Et; cbn [andb].
    + assert (Hreg : registers f = true) by (unfold registers; rewrite Et, Ec; reflexivity).
      rewrite (reg_persistent_not_expired now f (Hf Hreg)). cbn [negb map existsb].
      rewrite Et. cbn [andb]. f_equal. exact IH.
    + destruct (expired now f); cbn [negb existsb]; [exact IH|].
      rewrite Et. cbn [andb orb]. exact IH.
  - rewrite andb_false_r. exact IH.
Qed.

Theorem refines_reopen : refines_op OReopen.
Proof.
  intros s a HI _. cbn [step a_step fst snd]. split; [reflexivity|].
  unfold reopen, a_reopen. rewrite read_sync_eq, a_read_sync_eq.
  cbn [fst snd enqueue a_enqueue s_stream s_itopic s_ictx s_ctxs s_gcq s_now s_bcast
       a_live a_gcq a_now a_bcast].
  rewrite (iter_frames_eq _ (a_live a) (Some 0) None);
    cbn [s_stream s_ictx scope_ok last_ok];
    [ | apply (inv_sorted _ _ HI) | apply (inv_ok _ _ HI) | apply (inv_stream _ _ HI)
      | apply (inv_ictx_sorted _ _ HI) | apply (inv_ictx _ _ HI) | exact zero_lt_max128 | exact I ].
  unfold a_iter. cbn [a_live]. rewrite (inv_now _ _ HI).
  destruct HI as [H1 H2 H3 H4 H5 H6 H7 H8 H9 H10 H11 H12 H13].
  constructor;
    cbn [s_stream s_itopic s_ictx s_ctxs s_gcq s_now s_bcast a_live a_gcq a_now a_bcast];
    try assumption; try reflexivity.
  - intros c. rewrite mem_rebuild, rs_loop_spec.
    rewrite (rebuild_exists c (a_now a) (a_live a) H9).
    unfold a_ctxs. rewrite mem_cons. cbn [mem existsb]. rewrite orb_false_r. reflexivity.
  - cbn [app]. eapply tasks_ok_of; [exact H2|].
    intros t Ht. eapply rs_loop_tasks. exact Ht.
Qed.

(* ------------------------------------------------------------------------ *)

Print Assumptions rs_loop_spec.
Print Assumptions rh_loop_spec.
Print Assumptions a_read_sync_spec.
Print Assumptions a_read_hist_spec.
Print Assumptions refines_get.
Print Assumptions refines_readsync.
Print Assumptions refines_read.
Print Assumptions refines_reopen.
