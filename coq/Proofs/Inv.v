(* The lock-step invariant relating the concrete store (three key-sorted partitions,
   registry set) to the abstract spec (one id-sorted list of live frames).
   Definitions + the shape of the per-operation refinement obligation. *)
From XS Require Export Model.Spec Proofs.BytesP Proofs.KeysP.
From Coq Require Export Sorting.Sorted.

Definition frame_ok (f : frame) : Prop :=
  f_id f < two128 /\ f_ctx f < max128 /\ has_nul (f_topic f) = false.

Definition id_lt (f g : frame) : Prop := f_id f < f_id g.
Definition key_lt {V} (e1 e2 : bytes * V) : Prop := lex_ltb (fst e1) (fst e2) = true.
Definition enc (f : frame) : bytes * frame := (skey (f_id f), f).

Definition task_ok (t : gctask) : Prop :=
  match t with
  | GcRemove i => i < two128
  | GcCheckHead c t _ => c < max128 /\ has_nul t = false
  end.

Record Inv (s : store) (a : astore) : Prop := mkInv {
  inv_sorted : StronglySorted id_lt (a_live a);
  inv_ok : Forall frame_ok (a_live a);
  inv_stream : s_stream s = map enc (a_live a);
  inv_itopic_sorted : StronglySorted key_lt (s_itopic s);
  inv_itopic : forall k, In k (map fst (s_itopic s)) <-> exists f, In f (a_live a) /\ k = tkey f;
  inv_ictx_sorted : StronglySorted key_lt (s_ictx s);
  inv_ictx : forall k, In k (map fst (s_ictx s)) <-> exists f, In f (a_live a) /\ k = ckey f;
  inv_ctxs : forall c, mem c (s_ctxs s) = mem c (a_ctxs (a_live a));
  inv_reg_persistent :
    Forall (fun f => registers f = true -> ttl_persistent (f_ttl f) = true) (a_live a);
  inv_gcq : s_gcq s = a_gcq a;
  inv_gcq_ok : Forall task_ok (a_gcq a);
  inv_now : s_now s = a_now a;
  inv_bcast : s_bcast s = a_bcast a }.

(* what has to be shown for every operation [o] *)
Definition refines_op (o : op) : Prop :=
  forall s a, Inv s a -> hyp_ok a o = true ->
    fst (step s o) = fst (a_step a o) /\ Inv (snd (step s o)) (snd (a_step a o)).

Lemma inv_init now : Inv (empty_store now) (a_empty now).
Proof.
  constructor; cbn [empty_store a_empty a_live a_gcq a_now a_bcast s_stream s_itopic s_ictx
                    s_ctxs s_gcq s_now s_bcast map a_ctxs filter];
    try reflexivity; try (now constructor).
  - intros k0. split; [intros []|intros (f & [] & _)].
  - intros k0. split; [intros []|intros (f & [] & _)].
Qed.
