(* Property-level corollaries: the refinement theorem (concrete byte-keyed store = abstract
   spec machine, Proofs/Refine.v) composed with the spec-level lemmas (Proofs/SpecP.v). *)
From XS Require Import Proofs.Inv Proofs.RefineA Proofs.RefineB Proofs.Refine.
From XS Require Proofs.SpecP.
From Coq Require Import Lia.

(* the concrete and the abstract state after a history, from the empty store *)
Definition c_after (now : N) (ops : list op) : store := run ops (empty_store now).
Definition a_after (now : N) (ops : list op) : astore := a_run ops (a_empty now).

(* a history is admissible when every operation meets the refinement hypotheses *)
Definition admissible (now : N) (ops : list op) : Prop := hyps_all ops (a_empty now) = true.

Lemma hyps_all_app ops1 : forall ops2 a,
  hyps_all (ops1 ++ ops2) a = hyps_all ops1 a && hyps_all ops2 (a_run ops1 a).
Proof.
  induction ops1 as [|o r IH]; intros ops2 a; cbn [app hyps_all a_run]; [reflexivity|].
  rewrite IH. rewrite andb_assoc. reflexivity.
Qed.

Lemma admissible_app now ops o :
  admissible now (ops ++ [o]) ->
  admissible now ops /\ hyp_all (a_after now ops) o = true.
Proof.
  unfold admissible, a_after. rewrite hyps_all_app. cbn [hyps_all].
  intros H. apply andb_true_iff in H. destruct H as [H1 H2].
  rewrite andb_true_r in H2. split; assumption.
Qed.

Lemma after_inv now ops : admissible now ops -> InvZ (c_after now ops) (a_after now ops).
Proof. intros H. apply reachable_inv; [apply invz_init|exact H]. Qed.

(* the observation of one more operation after an admissible history *)
Theorem obs_after now ops o :
  admissible now (ops ++ [o]) ->
  fst (step (c_after now ops) o) = fst (a_step (a_after now ops) o).
Proof.
  intros H. apply admissible_app in H. destruct H as [Hops Ho].
  unfold hyp_all in Ho. apply andb_true_iff in Ho. destruct Ho as [Hok Hnz].
  destruct (refines_every_op o _ _ (after_inv now ops Hops) Hok (nonzero_reg_nz o Hnz)) as [H _].
  exact H.
Qed.

Lemma after_sorted now ops : admissible now ops -> StronglySorted SpecP.sid_lt (a_live (a_after now ops)).
Proof. intros H. destruct (after_inv now ops H) as [[Hs _] _]. exact Hs. Qed.

(* ---- C01: reads return exactly the live history ---- *)
Theorem read_sync_exact now ops l lim c :
  admissible now (ops ++ [OReadSync l lim c]) ->
  fst (read_sync (c_after now ops) l lim c)
  = spec_read (a_live (a_after now ops)) (a_now (a_after now ops)) c l lim.
Proof.
  intros H. pose proof (obs_after now ops _ H) as E. cbn [step a_step] in E.
  destruct (read_sync (c_after now ops) l lim c) as [fs s'] eqn:Ec.
  destruct (a_read_sync (a_after now ops) l lim c) as [fa a'] eqn:Ea.
  cbn [fst] in *. inversion E. subst fs.
  rewrite <- SpecP.a_read_sync_spec. rewrite Ea. reflexivity.
Qed.

Theorem read_hist_exact now ops l lim c :
  admissible now (ops ++ [ORead l lim c]) ->
  fst (read_hist (c_after now ops) l lim c)
  = spec_read (a_live (a_after now ops)) (a_now (a_after now ops)) c l lim.
Proof.
  intros H. pose proof (obs_after now ops _ H) as E. cbn [step a_step] in E.
  destruct (read_hist (c_after now ops) l lim c) as [fs s'] eqn:Ec.
  destruct (a_read_hist (a_after now ops) l lim c) as [fa a'] eqn:Ea.
  cbn [fst] in *. inversion E. subst fs.
  rewrite <- SpecP.a_read_hist_spec. rewrite Ea. reflexivity.
Qed.

Theorem read_sorted_nodup now ops l lim c :
  admissible now ops ->
  let r := spec_read (a_live (a_after now ops)) (a_now (a_after now ops)) c l lim in
  StronglySorted SpecP.sid_lt r /\ NoDup r.
Proof.
  intros H r. split.
  - apply SpecP.spec_read_sorted, after_sorted, H.
  - apply SpecP.spec_read_NoDup, after_sorted, H.
Qed.

Theorem get_exact now ops i :
  admissible now (ops ++ [OGet i]) ->
  get (c_after now ops) i = a_get (a_after now ops) i.
Proof.
  intros H. pose proof (obs_after now ops _ H) as E. cbn [step a_step fst] in E.
  inversion E. reflexivity.
Qed.

Theorem get_iff now ops i f :
  admissible now (ops ++ [OGet i]) ->
  (get (c_after now ops) i = Some f <-> In f (a_live (a_after now ops)) /\ f_id f = i).
Proof.
  intros H. rewrite (get_exact now ops i H).
  apply SpecP.a_get_in. apply after_sorted. apply (admissible_app now ops _ H).
Qed.

(* ---- C05: head ---- *)
Theorem head_exact now ops t c :
  admissible now (ops ++ [OHead t c]) ->
  head (c_after now ops) t c = a_head (a_after now ops) t c.
Proof.
  intros H. pose proof (obs_after now ops _ H) as E. cbn [step a_step fst] in E.
  inversion E. reflexivity.
Qed.

(* ---- C07: the registry is a function of the live frames ---- *)
Theorem registry_function now ops c :
  admissible now ops ->
  mem c (s_ctxs (c_after now ops)) = mem c (a_ctxs (a_live (a_after now ops))).
Proof. intros H. destruct (after_inv now ops H) as [HI _]. apply (inv_ctxs _ _ HI). Qed.

Lemma a_run_snoc_reopen ops : forall a, a_reopen (a_run ops a) = a_run (ops ++ [OReopen]) a.
Proof.
  induction ops as [|o r IH]; intros a; cbn [app a_run]; [reflexivity|apply IH].
Qed.

Theorem registry_reopen now ops c :
  admissible now ops ->
  mem c (s_ctxs (c_after now (ops ++ [OReopen]))) = mem c (s_ctxs (c_after now ops)).
Proof.
  intros H.
  assert (Ha : admissible now (ops ++ [OReopen])).
  { unfold admissible in *. rewrite hyps_all_app. rewrite H. reflexivity. }
  rewrite (registry_function now _ c Ha), (registry_function now _ c H).
  unfold a_after. replace (a_run (ops ++ [OReopen]) (a_empty now))
    with (a_reopen (a_run ops (a_empty now))).
  - rewrite SpecP.a_reopen_ctxs. reflexivity.
  - apply a_run_snoc_reopen.
Qed.

(* appends of ordinary topics are accepted iff the context is usable, at every reachable state *)
Theorem append_accept_reachable now ops i f :
  admissible now (ops ++ [OAppend i f]) ->
  is_ctx_topic (f_topic f) = false -> has_nul (f_topic f) = false ->
  ((exists g s', append (c_after now ops) i f = (Ok g, s'))
   <-> mem (f_ctx f) (a_ctxs (a_live (a_after now ops))) = true).
Proof.
  intros H Hc Hn. apply admissible_app in H. destruct H as [Hops _].
  rewrite <- (registry_function now ops _ Hops).
  unfold append. cbn [f_topic f_ctx f_ttl f_hash f_meta f_id]. rewrite Hc.
  destruct (mem (f_ctx f) (s_ctxs (c_after now ops))) eqn:Hm.
  - cbn [f_topic]. rewrite Hn. split; [reflexivity|]. intros _. eauto.
  - split; [|discriminate]. intros (g & s' & E). inversion E.
Qed.

(* ---- C05: all lookups agree (for frames the stream reads do not filter as expired) ---- *)
Theorem lookups_agree_concrete now ops f :
  admissible now (ops ++ [OGet (f_id f)]) ->
  admissible now (ops ++ [OReadSync None None None]) ->
  admissible now (ops ++ [OReadSync None None (Some (f_ctx f))]) ->
  expired (a_now (a_after now ops)) f = false ->
  (get (c_after now ops) (f_id f) = Some f
   <-> In f (fst (read_sync (c_after now ops) None None None))) /\
  (In f (fst (read_sync (c_after now ops) None None None))
   <-> In f (fst (read_sync (c_after now ops) None None (Some (f_ctx f))))).
Proof.
  intros Hg Ha Hc He.
  rewrite (get_exact now ops _ Hg), (read_sync_exact now ops _ _ _ Ha),
    (read_sync_exact now ops _ _ _ Hc).
  apply SpecP.lookups_agree; [|exact He].
  apply after_sorted. apply (admissible_app now ops _ Hg).
Qed.

(* head is the newest frame of exactly that (context, topic): byte-for-byte topic equality *)
Theorem head_is_newest now ops t c f :
  admissible now (ops ++ [OHead t c]) ->
  head (c_after now ops) t c = Some f ->
  In f (a_live (a_after now ops)) /\ f_ctx f = c /\ f_topic f = t /\
  (forall g, In g (a_live (a_after now ops)) -> f_ctx g = c -> f_topic g = t -> f_id g <= f_id f).
Proof.
  intros H E. rewrite (head_exact now ops t c H) in E.
  apply SpecP.a_head_some; [|exact E]. apply after_sorted. apply (admissible_app now ops _ H).
Qed.

Theorem head_none_iff now ops t c :
  admissible now (ops ++ [OHead t c]) ->
  (head (c_after now ops) t c = None
   <-> forall g, In g (a_live (a_after now ops)) -> ~ (f_ctx g = c /\ f_topic g = t)).
Proof. intros H. rewrite (head_exact now ops t c H). apply SpecP.a_head_none. Qed.

(* ---- C06 (store level): context isolation of reads and head ---- *)
Theorem read_sync_ctx now ops l lim b f :
  admissible now (ops ++ [OReadSync l lim (Some b)]) ->
  In f (fst (read_sync (c_after now ops) l lim (Some b))) -> f_ctx f = b.
Proof. intros H. rewrite (read_sync_exact now ops _ _ _ H). apply SpecP.spec_read_ctx. Qed.

Theorem read_hist_ctx now ops l lim b f :
  admissible now (ops ++ [ORead l lim (Some b)]) ->
  In f (fst (read_hist (c_after now ops) l lim (Some b))) -> f_ctx f = b.
Proof. intros H. rewrite (read_hist_exact now ops _ _ _ H). apply SpecP.spec_read_ctx. Qed.

Theorem head_ctx now ops t b f :
  admissible now (ops ++ [OHead t b]) -> head (c_after now ops) t b = Some f -> f_ctx f = b.
Proof. intros H E. apply (head_is_newest now ops t b f H E). Qed.

(* ---- C09: a time-expired frame is never returned by a stream read ---- *)
Theorem read_sync_not_expired now ops l lim c f :
  admissible now (ops ++ [OReadSync l lim c]) ->
  In f (fst (read_sync (c_after now ops) l lim c)) -> expired (a_now (a_after now ops)) f = false.
Proof. intros H. rewrite (read_sync_exact now ops _ _ _ H). apply SpecP.spec_read_not_expired. Qed.

Theorem read_hist_not_expired now ops l lim c f :
  admissible now (ops ++ [ORead l lim c]) ->
  In f (fst (read_hist (c_after now ops) l lim c)) -> expired (a_now (a_after now ops)) f = false.
Proof. intros H. rewrite (read_hist_exact now ops _ _ _ H). apply SpecP.spec_read_not_expired. Qed.

Lemma after_now_eq now ops : admissible now ops -> s_now (c_after now ops) = a_now (a_after now ops).
Proof. intros H. destruct (after_inv now ops H) as [HI _]. apply (inv_now _ _ HI). Qed.

Print Assumptions obs_after.
Print Assumptions read_sync_exact.
Print Assumptions registry_reopen.
