(* Proofs about the handler dispatch model (Model/Handler.v).  Every theorem holds for every
   closure, every configuration, every environment and every delivered stream. *)
From XS Require Import Model.Handler Proofs.BytesP.
From Coq Require Import Lia Sorting.Sorted.

(* ------------------------------------------------------------------------------------ *)
(* subsequences                                                                          *)
(* ------------------------------------------------------------------------------------ *)
Inductive sublist {A : Type} : list A -> list A -> Prop :=
| sl_nil : sublist [] []
| sl_skip : forall x l1 l2, sublist l1 l2 -> sublist l1 (x :: l2)
| sl_keep : forall x l1 l2, sublist l1 l2 -> sublist (x :: l1) (x :: l2).

Lemma sublist_nil_l : forall {A : Type} (l : list A), sublist [] l.
Proof. intros A l. induction l as [|x l IH]; constructor; exact IH. Qed.

Lemma sublist_refl : forall {A : Type} (l : list A), sublist l l.
Proof. intros A l. induction l as [|x l IH]; constructor; exact IH. Qed.

Lemma sublist_In : forall {A : Type} (l1 l2 : list A) x, sublist l1 l2 -> In x l1 -> In x l2.
Proof.
  intros A l1 l2 x S. induction S as [|y l1 l2 S IH|y l1 l2 S IH]; intros HI.
  - exact HI.
  - right. apply IH. exact HI.
  - destruct HI as [HI|HI]; [left; exact HI|right; apply IH; exact HI].
Qed.

Lemma sublist_Forall : forall {A : Type} (P : A -> Prop) (l1 l2 : list A),
  sublist l1 l2 -> Forall P l2 -> Forall P l1.
Proof.
  intros A P l1 l2 S. induction S as [|y l1 l2 S IH|y l1 l2 S IH]; intros F.
  - constructor.
  - inversion F as [|y' l' Py Fl]; subst. apply IH. exact Fl.
  - inversion F as [|y' l' Py Fl]; subst. constructor; [exact Py|apply IH; exact Fl].
Qed.

Lemma sublist_map : forall {A B : Type} (g : A -> B) (l1 l2 : list A),
  sublist l1 l2 -> sublist (map g l1) (map g l2).
Proof.
  intros A B g l1 l2 S. induction S as [|y l1 l2 S IH|y l1 l2 S IH]; cbn [map].
  - constructor.
  - apply sl_skip. exact IH.
  - apply sl_keep. exact IH.
Qed.

Lemma sublist_length : forall {A : Type} (l1 l2 : list A),
  sublist l1 l2 -> (length l1 <= length l2)%nat.
Proof.
  intros A l1 l2 S. induction S as [|y l1 l2 S IH|y l1 l2 S IH]; cbn [length]; lia.
Qed.

Lemma sublist_NoDup : forall {A : Type} (l1 l2 : list A),
  sublist l1 l2 -> NoDup l2 -> NoDup l1.
Proof.
  intros A l1 l2 S. induction S as [|y l1 l2 S IH|y l1 l2 S IH]; intros ND.
  - constructor.
  - inversion ND as [|y' l' Hn Hd]; subst. apply IH. exact Hd.
  - inversion ND as [|y' l' Hn Hd]; subst. constructor.
    + intros HI. apply Hn. eapply sublist_In; [exact S|exact HI].
    + apply IH. exact Hd.
Qed.

Lemma sublist_StronglySorted : forall {A : Type} (R : A -> A -> Prop) (l1 l2 : list A),
  sublist l1 l2 -> StronglySorted R l2 -> StronglySorted R l1.
Proof.
  intros A R l1 l2 S. induction S as [|y l1 l2 S IH|y l1 l2 S IH]; intros SS.
  - constructor.
  - inversion SS as [|y' l' Hs Hf]; subst. apply IH. exact Hs.
  - inversion SS as [|y' l' Hs Hf]; subst. constructor.
    + apply IH. exact Hs.
    + eapply sublist_Forall; [exact S|exact Hf].
Qed.

(* ------------------------------------------------------------------------------------ *)
(* auxiliary definitions                                                                 *)
(* ------------------------------------------------------------------------------------ *)

(* what a successful closure call makes the dispatcher append *)
Definition ok_outs (c : hconf) (f : sframe) (bufs : list oappend) (ret : option bytes)
  : list eframe :=
  map (stamp c f) bufs
  ++ match ret with
     | Some v => [mkE (h_name c ++ h_suffix c) (h_ctx c) (h_id c) (sf_id f)
                      (h_ttl c) (Some v) None false]
     | None => []
     end.

(* an emitted frame as it comes back on the stream, with whatever id the store gave it *)
Definition redeliver (i : N) (e : eframe) : sframe :=
  mkSF i (e_ctx e) (e_topic e) (Some (e_hid e)).

(* the environment a closure call hands back *)
Definition cres_env {E : Type} (r : cres E) : E :=
  match r with CErr e => e | COk _ _ e => e end.

(* frames written by the dispatcher itself (never by the script): they carry no content *)
Definition disp_unreg (e : eframe) : bool :=
  match e_content e with None => true | Some _ => false end.

Section HandlerP.
  Context {E : Type}.
  Variable closure : E -> sframe -> cres E.
  Variable c : hconf.

  (* true iff every dispatch along fs keeps the handler running *)
  Fixpoint running_through (env : E) (fs : list sframe) : bool :=
    match fs with
    | [] => true
    | f :: r =>
        let '(_, _, env', running) := dispatch closure c env f in
        if running then running_through env' r else false
    end.

  (* the environment reached after the dispatches along fs *)
  Fixpoint env_after (env : E) (fs : list sframe) : E :=
    match fs with
    | [] => env
    | f :: r => let '(_, _, env', _) := dispatch closure c env f in env_after env' r
    end.

  (* the environment given to the closure at each invocation *)
  Fixpoint envs (env : E) (fs : list sframe) : list E :=
    match fs with
    | [] => []
    | f :: r =>
        let '(_, invoked, env', running) := dispatch closure c env f in
        let rest := if running then envs env' r else [] in
        if invoked then env :: rest else rest
    end.

  (* es/seen is a run of the closure started in e: each call gets the env of the previous *)
  Fixpoint threaded (e : E) (es : list E) (seen : list sframe) : Prop :=
    match es, seen with
    | [], [] => True
    | e0 :: es', f :: seen' => e0 = e /\ threaded (cres_env (closure e0 f)) es' seen'
    | _, _ => False
    end.

  (* ---------------------------------------------------------------------------------- *)
  (* one dispatch                                                                        *)
  (* ---------------------------------------------------------------------------------- *)

  (* B2 *)
  Theorem dispatch_outputs_ok : forall env f bufs ret env',
    closure env f = COk bufs ret env' ->
    is_reg_traffic c f = false -> own_output c f = false ->
    dispatch closure c env f =
      (map (stamp c f) bufs
       ++ match ret with
          | Some v => [mkE (h_name c ++ h_suffix c) (h_ctx c) (h_id c) (sf_id f)
                           (h_ttl c) (Some v) None false]
          | None => []
          end, true, env', true).
  Proof.
    intros env f bufs ret env' C R O. unfold dispatch. rewrite R, O, C. reflexivity.
  Qed.

  (* B3 *)
  Theorem dispatch_error : forall env f env',
    closure env f = CErr env' ->
    is_reg_traffic c f = false -> own_output c f = false ->
    dispatch closure c env f = ([unregistered c f true], true, env', false).
  Proof.
    intros env f env' C R O. unfold dispatch. rewrite R, O, C. reflexivity.
  Qed.

  (* D3 *)
  Theorem replaced_by_register : forall env f,
    is_reg_traffic c f = true -> h_id c < sf_id f ->
    dispatch closure c env f = ([unregistered c f false], false, env, false).
  Proof.
    intros env f R L. apply N.leb_gt in L. unfold dispatch. rewrite R, L. reflexivity.
  Qed.

  Theorem early_reg_skipped : forall env f,
    is_reg_traffic c f = true -> sf_id f <= h_id c ->
    dispatch closure c env f = ([], false, env, true).
  Proof.
    intros env f R L. apply N.leb_le in L. unfold dispatch. rewrite R, L. reflexivity.
  Qed.

  Lemma own_output_skipped : forall env f,
    is_reg_traffic c f = false -> own_output c f = true ->
    dispatch closure c env f = ([], false, env, true).
  Proof.
    intros env f R O. unfold dispatch. rewrite R, O. reflexivity.
  Qed.

  (* the five mutually exclusive cases of one dispatch *)
  Inductive dcase (env : E) (f : sframe) (d : list eframe * bool * E * bool) : Prop :=
  | DC_early : is_reg_traffic c f = true -> sf_id f <= h_id c ->
               d = ([], false, env, true) -> dcase env f d
  | DC_replaced : is_reg_traffic c f = true -> h_id c < sf_id f ->
               d = ([unregistered c f false], false, env, false) -> dcase env f d
  | DC_own : is_reg_traffic c f = false -> own_output c f = true ->
               d = ([], false, env, true) -> dcase env f d
  | DC_err : forall env', is_reg_traffic c f = false -> own_output c f = false ->
               closure env f = CErr env' ->
               d = ([unregistered c f true], true, env', false) -> dcase env f d
  | DC_ok : forall bufs ret env', is_reg_traffic c f = false -> own_output c f = false ->
               closure env f = COk bufs ret env' ->
               d = (ok_outs c f bufs ret, true, env', true) -> dcase env f d.

  Lemma dispatch_cases : forall env f, dcase env f (dispatch closure c env f).
  Proof.
    intros env f.
    destruct (is_reg_traffic c f) eqn:R.
    - destruct (sf_id f <=? h_id c) eqn:L.
      + apply N.leb_le in L.
        apply DC_early; [exact R|exact L|apply early_reg_skipped; assumption].
      + apply N.leb_gt in L.
        apply DC_replaced; [exact R|exact L|apply replaced_by_register; assumption].
    - destruct (own_output c f) eqn:O.
      + apply DC_own; [exact R|exact O|apply own_output_skipped; assumption].
      + destruct (closure env f) as [e'|bufs ret e'] eqn:C.
        * apply DC_err with e'; [exact R|exact O|exact C|apply dispatch_error; assumption].
        * apply DC_ok with bufs ret e'; [exact R|exact O|exact C|].
          unfold ok_outs. apply dispatch_outputs_ok; assumption.
  Qed.

  (* A4 (one step): the env after a dispatch is the closure's, or unchanged if not invoked *)
  Theorem dispatch_env : forall env f outs inv env' run,
    dispatch closure c env f = (outs, inv, env', run) ->
    (inv = true -> env' = cres_env (closure env f)) /\ (inv = false -> env' = env).
  Proof.
    intros env f outs inv env' run H.
    destruct (dispatch_cases env f) as [R L D|R L D|R O D|e' R O C D|bufs ret e' R O C D];
      rewrite D in H; injection H as Ho Hi He Hr; subst; split; intros Hinv;
      try discriminate Hinv; try reflexivity; rewrite C; reflexivity.
  Qed.

  (* invoked exactly on frames that are neither registration traffic nor own output *)
  Lemma dispatch_invoked_iff : forall env f outs inv env' run,
    dispatch closure c env f = (outs, inv, env', run) ->
    inv = negb (is_reg_traffic c f) && negb (own_output c f).
  Proof.
    intros env f outs inv env' run H.
    destruct (dispatch_cases env f) as [R L D|R L D|R O D|e' R O C D|bufs ret e' R O C D];
      rewrite D in H; injection H as Ho Hi He Hr; subst; rewrite R; try rewrite O; reflexivity.
  Qed.

  (* everything one dispatch emits carries the handler id, the handler context and the
     triggering frame's id *)
  Lemma dispatch_outs_stamped : forall env f outs inv env' run,
    dispatch closure c env f = (outs, inv, env', run) ->
    Forall (fun e => e_hid e = h_id c /\ e_ctx e = h_ctx c /\ e_fid e = sf_id f) outs.
  Proof.
    intros env f outs inv env' run H.
    destruct (dispatch_cases env f) as [R L D|R L D|R O D|e' R O C D|bufs ret e' R O C D];
      rewrite D in H; injection H as Ho Hi He Hr; subst.
    - constructor.
    - constructor; [repeat split; reflexivity|constructor].
    - constructor.
    - constructor; [repeat split; reflexivity|constructor].
    - unfold ok_outs. apply Forall_app. split.
      + apply Forall_forall. intros e He. apply in_map_iff in He.
        destruct He as [a [Ha _]]. subst e. repeat split; reflexivity.
      + destruct ret as [v|]; [constructor; [repeat split; reflexivity|constructor]|constructor].
  Qed.

  (* B2, second half *)
  Theorem dispatch_outputs_fid : forall env f outs inv env' run,
    dispatch closure c env f = (outs, inv, env', run) ->
    Forall (fun e => e_fid e = sf_id f) outs.
  Proof.
    intros env f outs inv env' run H.
    eapply Forall_impl; [|eapply dispatch_outs_stamped; exact H].
    intros e [_ [_ Hf]]. exact Hf.
  Qed.

  (* a dispatch that keeps the handler running emits only frames with content *)
  Lemma dispatch_running_content : forall env f outs inv env',
    dispatch closure c env f = (outs, inv, env', true) ->
    Forall (fun e => e_content e <> None) outs.
  Proof.
    intros env f outs inv env' H.
    destruct (dispatch_cases env f) as [R L D|R L D|R O D|e' R O C D|bufs ret e' R O C D];
      rewrite D in H; injection H as Ho Hi He; subst; try discriminate.
    - constructor.
    - constructor.
    - unfold ok_outs. apply Forall_app. split.
      + apply Forall_forall. intros e He. apply in_map_iff in He.
        destruct He as [a [Ha _]]. subst e. cbn [e_content stamp]. discriminate.
      + destruct ret as [v|]; [constructor; [cbn [e_content]; discriminate|constructor]|constructor].
  Qed.

  (* a dispatch that stops emits exactly one `.unregistered`; its error flag says why *)
  Lemma dispatch_stop_shape : forall env f outs inv env',
    dispatch closure c env f = (outs, inv, env', false) ->
    outs = [unregistered c f inv] /\
    (inv = true -> is_reg_traffic c f = false /\ own_output c f = false
                   /\ closure env f = CErr env') /\
    (inv = false -> is_reg_traffic c f = true /\ h_id c < sf_id f /\ env' = env).
  Proof.
    intros env f outs inv env' H.
    destruct (dispatch_cases env f) as [R L D|R L D|R O D|e' R O C D|bufs ret e' R O C D];
      rewrite D in H; injection H as Ho Hi He; subst; try discriminate.
    - split; [reflexivity|]. split; intros Hb; [discriminate Hb|auto].
    - split; [reflexivity|]. split; intros Hb; [auto|discriminate Hb].
  Qed.

  (* ---------------------------------------------------------------------------------- *)
  (* unfolding the loop                                                                  *)
  (* ---------------------------------------------------------------------------------- *)

  (* A4: the loop, exactly as defined *)
  Theorem serve_cons : forall env f r,
    serve closure c env (f :: r) =
      let '(outs, invoked, env', running) := dispatch closure c env f in
      let '(outs', seen') := if running then serve closure c env' r else ([], []) in
      (outs ++ outs', if invoked then f :: seen' else seen').
  Proof. reflexivity. Qed.

  Lemma serve_run : forall env f r outs inv env',
    dispatch closure c env f = (outs, inv, env', true) ->
    serve closure c env (f :: r) =
      (outs ++ fst (serve closure c env' r),
       if inv then f :: snd (serve closure c env' r) else snd (serve closure c env' r)).
  Proof.
    intros env f r outs inv env' D. rewrite serve_cons, D.
    destruct (serve closure c env' r) as [o s]. reflexivity.
  Qed.

  (* D1 *)
  Theorem stop_is_final : forall env f r outs inv env',
    dispatch closure c env f = (outs, inv, env', false) ->
    serve closure c env (f :: r) = (outs, if inv then [f] else []).
  Proof.
    intros env f r outs inv env' D. rewrite serve_cons, D.
    cbv beta iota. rewrite app_nil_r. reflexivity.
  Qed.

  Lemma rt_cons : forall env f r outs inv env' run,
    dispatch closure c env f = (outs, inv, env', run) ->
    running_through env (f :: r) = if run then running_through env' r else false.
  Proof. intros env f r outs inv env' run D. cbn [running_through]. rewrite D. reflexivity. Qed.

  Lemma env_after_cons : forall env f r outs inv env' run,
    dispatch closure c env f = (outs, inv, env', run) ->
    env_after env (f :: r) = env_after env' r.
  Proof. intros env f r outs inv env' run D. cbn [env_after]. rewrite D. reflexivity. Qed.

  Lemma envs_cons : forall env f r outs inv env' run,
    dispatch closure c env f = (outs, inv, env', run) ->
    envs env (f :: r) =
      let rest := if run then envs env' r else [] in if inv then env :: rest else rest.
  Proof. intros env f r outs inv env' run D. cbn [envs]. rewrite D. reflexivity. Qed.

  (* ---------------------------------------------------------------------------------- *)
  (* A. what the closure sees                                                            *)
  (* ---------------------------------------------------------------------------------- *)

  (* A1 *)
  Theorem seen_sublist : forall env fs, sublist (snd (serve closure c env fs)) fs.
  Proof.
    intros env fs. revert env. induction fs as [|f r IH]; intros env.
    - cbn [serve snd]. constructor.
    - destruct (dispatch closure c env f) as [[[outs inv] env'] run] eqn:D.
      destruct run.
      + rewrite (serve_run _ _ r _ _ _ D). cbn [snd].
        destruct inv; [apply sl_keep|apply sl_skip]; apply IH.
      + rewrite (stop_is_final _ _ r _ _ _ D). cbn [snd].
        destruct inv; [apply sl_keep|apply sl_skip]; apply sublist_nil_l.
  Qed.

  (* A1, consequences: each delivered frame at most once; ids stay strictly increasing *)
  Corollary seen_NoDup : forall env fs, NoDup fs -> NoDup (snd (serve closure c env fs)).
  Proof. intros env fs ND. eapply sublist_NoDup; [apply seen_sublist|exact ND]. Qed.

  Corollary seen_ids_increasing : forall env fs,
    StronglySorted N.lt (map sf_id fs) ->
    StronglySorted N.lt (map sf_id (snd (serve closure c env fs))).
  Proof.
    intros env fs SS. eapply sublist_StronglySorted; [|exact SS].
    apply sublist_map. apply seen_sublist.
  Qed.

  (* A2 *)
  Theorem seen_never_own : forall env fs,
    Forall (fun f => own_output c f = false /\ is_reg_traffic c f = false)
           (snd (serve closure c env fs)).
  Proof.
    intros env fs. revert env. induction fs as [|f r IH]; intros env.
    - cbn [serve snd]. constructor.
    - destruct (dispatch_cases env f) as [R L D|R L D|R O D|e' R O C D|bufs ret e' R O C D].
      + rewrite (serve_run _ _ r _ _ _ D). cbn [snd]. apply IH.
      + rewrite (stop_is_final _ _ r _ _ _ D). cbn [snd]. constructor.
      + rewrite (serve_run _ _ r _ _ _ D). cbn [snd]. apply IH.
      + rewrite (stop_is_final _ _ r _ _ _ D). cbn [snd].
        constructor; [split; assumption|constructor].
      + rewrite (serve_run _ _ r _ _ _ D). cbn [snd].
        constructor; [split; assumption|apply IH].
  Qed.

  (* A3 *)
  Theorem seen_all_until_stop : forall env fs,
    running_through env fs = true ->
    snd (serve closure c env fs) =
      filter (fun f => negb (is_reg_traffic c f) && negb (own_output c f)) fs.
  Proof.
    intros env fs. revert env. induction fs as [|f r IH]; intros env RT.
    - reflexivity.
    - destruct (dispatch closure c env f) as [[[outs inv] env'] run] eqn:D.
      rewrite (rt_cons _ _ r _ _ _ _ D) in RT.
      destruct run; [|discriminate RT].
      rewrite (serve_run _ _ r _ _ _ D). cbn [snd filter].
      rewrite <- (dispatch_invoked_iff _ _ _ _ _ _ D).
      rewrite (IH env' RT). reflexivity.
  Qed.

  (* A3, the remark about registration traffic: while running, any registration traffic
     delivered is old (id <= handler id) *)
  Lemma running_reg_traffic_is_early : forall env fs,
    running_through env fs = true ->
    Forall (fun f => is_reg_traffic c f = true -> sf_id f <= h_id c) fs.
  Proof.
    intros env fs. revert env. induction fs as [|f r IH]; intros env RT.
    - constructor.
    - destruct (dispatch_cases env f) as [R L D|R L D|R O D|e' R O C D|bufs ret e' R O C D];
        rewrite (rt_cons _ _ r _ _ _ _ D) in RT; try discriminate RT;
        (constructor; [|eapply IH; exact RT]); intros R'; try exact L;
        rewrite R in R'; discriminate R'.
  Qed.

  (* A4 *)
  Theorem serve_env_threading : forall env fs,
    threaded env (envs env fs) (snd (serve closure c env fs)).
  Proof.
    intros env fs. revert env. induction fs as [|f r IH]; intros env.
    - cbn [envs serve snd threaded]. exact I.
    - destruct (dispatch_cases env f) as [R L D|R L D|R O D|e' R O C D|bufs ret e' R O C D];
        rewrite (envs_cons _ _ r _ _ _ _ D).
      + rewrite (serve_run _ _ r _ _ _ D). cbn [snd]. apply IH.
      + rewrite (stop_is_final _ _ r _ _ _ D). cbn [snd threaded]. exact I.
      + rewrite (serve_run _ _ r _ _ _ D). cbn [snd]. apply IH.
      + rewrite (stop_is_final _ _ r _ _ _ D). cbn [snd threaded]. split; [reflexivity|exact I].
      + rewrite (serve_run _ _ r _ _ _ D). cbn [snd threaded]. split; [reflexivity|].
        rewrite C. cbn [cres_env]. apply IH.
  Qed.

  Lemma envs_length : forall env fs,
    length (envs env fs) = length (snd (serve closure c env fs)).
  Proof.
    intros env fs. revert env. induction fs as [|f r IH]; intros env.
    - reflexivity.
    - destruct (dispatch closure c env f) as [[[outs inv] env'] run] eqn:D.
      rewrite (envs_cons _ _ r _ _ _ _ D). destruct run.
      + rewrite (serve_run _ _ r _ _ _ D). cbn [snd].
        destruct inv; cbn [length]; rewrite IH; reflexivity.
      + rewrite (stop_is_final _ _ r _ _ _ D). destruct inv; reflexivity.
  Qed.

  (* ---------------------------------------------------------------------------------- *)
  (* B. what it emits                                                                    *)
  (* ---------------------------------------------------------------------------------- *)

  Lemma emitted_stamped_fids : forall env fs,
    Forall (fun e => e_hid e = h_id c /\ e_ctx e = h_ctx c /\ In (e_fid e) (map sf_id fs))
           (fst (serve closure c env fs)).
  Proof.
    intros env fs. revert env. induction fs as [|f r IH]; intros env.
    - cbn [serve fst]. constructor.
    - destruct (dispatch closure c env f) as [[[outs inv] env'] run] eqn:D.
      pose proof (dispatch_outs_stamped _ _ _ _ _ _ D) as S.
      assert (S' : Forall (fun e => e_hid e = h_id c /\ e_ctx e = h_ctx c
                                    /\ In (e_fid e) (map sf_id (f :: r))) outs).
      { eapply Forall_impl; [|exact S]. intros e [Hh [Hc Hf]].
        repeat split; try assumption. cbn [map]. left. symmetry. exact Hf. }
      destruct run.
      + rewrite (serve_run _ _ r _ _ _ D). cbn [fst]. apply Forall_app. split; [exact S'|].
        eapply Forall_impl; [|apply (IH env')]. intros e [Hh [Hc Hf]].
        repeat split; try assumption. cbn [map]. right. exact Hf.
      + rewrite (stop_is_final _ _ r _ _ _ D). cbn [fst]. exact S'.
  Qed.

  (* B1 *)
  Theorem emitted_stamped : forall env fs,
    Forall (fun e => e_hid e = h_id c /\ e_ctx e = h_ctx c) (fst (serve closure c env fs)).
  Proof.
    intros env fs. eapply Forall_impl; [|apply emitted_stamped_fids].
    intros e [Hh [Hc _]]. split; assumption.
  Qed.

  (* B4 *)
  Theorem emitted_fids : forall env fs,
    Forall (fun e => In (e_fid e) (map sf_id fs)) (fst (serve closure c env fs)).
  Proof.
    intros env fs. eapply Forall_impl; [|apply emitted_stamped_fids].
    intros e [_ [_ Hf]]. exact Hf.
  Qed.

  (* ---------------------------------------------------------------------------------- *)
  (* D. lifecycle                                                                        *)
  (* ---------------------------------------------------------------------------------- *)

  Lemma serve_app_running : forall fs1 env r,
    running_through env fs1 = true ->
    serve closure c env (fs1 ++ r) =
      (fst (serve closure c env fs1) ++ fst (serve closure c (env_after env fs1) r),
       snd (serve closure c env fs1) ++ snd (serve closure c (env_after env fs1) r)).
  Proof.
    induction fs1 as [|a t IH]; intros env r RT.
    - cbn [app serve env_after fst snd]. destruct (serve closure c env r); reflexivity.
    - destruct (dispatch closure c env a) as [[[outs inv] env'] run] eqn:D.
      rewrite (rt_cons _ _ t _ _ _ _ D) in RT.
      destruct run; [|discriminate RT].
      rewrite <- app_comm_cons.
      rewrite (serve_run _ _ (t ++ r) _ _ _ D), (serve_run _ _ t _ _ _ D).
      rewrite (env_after_cons _ _ t _ _ _ _ D).
      rewrite (IH env' r RT). cbn [fst snd]. rewrite app_assoc.
      destruct inv; reflexivity.
  Qed.

  Lemma stop_exists : forall fs env,
    running_through env fs = false ->
    exists fs1 f fs2,
      fs = fs1 ++ f :: fs2 /\ running_through env fs1 = true /\
      snd (dispatch closure c (env_after env fs1) f) = false.
  Proof.
    induction fs as [|a t IH]; intros env RT.
    - discriminate RT.
    - destruct (dispatch closure c env a) as [[[outs inv] env'] run] eqn:D.
      rewrite (rt_cons _ _ t _ _ _ _ D) in RT. destruct run.
      + destruct (IH env' RT) as [fs1 [f [fs2 [Hs [Hr Hd]]]]].
        exists (a :: fs1), f, fs2. split; [rewrite Hs; reflexivity|]. split.
        * rewrite (rt_cons _ _ fs1 _ _ _ _ D). exact Hr.
        * rewrite (env_after_cons _ _ fs1 _ _ _ _ D). exact Hd.
      + exists [], a, t. split; [reflexivity|]. split; [reflexivity|].
        cbn [env_after]. rewrite D. reflexivity.
  Qed.

  Lemma stop_split_unique : forall fs1 fs1' env f f' r r',
    fs1 ++ f :: r = fs1' ++ f' :: r' ->
    running_through env fs1 = true -> running_through env fs1' = true ->
    snd (dispatch closure c (env_after env fs1) f) = false ->
    snd (dispatch closure c (env_after env fs1') f') = false ->
    fs1 = fs1' /\ f = f' /\ r = r'.
  Proof.
    induction fs1 as [|a t IH]; intros fs1' env f f' r r' Heq R1 R2 S1 S2.
    - destruct fs1' as [|a' t'].
      + cbn [app] in Heq. injection Heq as Hf Hr. auto.
      + exfalso. cbn [app] in Heq. injection Heq as Hf Hr. subst a'.
        cbn [env_after] in S1.
        destruct (dispatch closure c env f) as [[[outs inv] env'] run] eqn:D.
        rewrite (rt_cons _ _ t' _ _ _ _ D) in R2. cbn [snd] in S1. subst run. discriminate R2.
    - destruct fs1' as [|a' t'].
      + exfalso. cbn [app] in Heq. injection Heq as Hf Hr. subst f'.
        cbn [env_after] in S2.
        destruct (dispatch closure c env a) as [[[outs inv] env'] run] eqn:D.
        rewrite (rt_cons _ _ t _ _ _ _ D) in R1. cbn [snd] in S2. subst run. discriminate R1.
      + cbn [app] in Heq. injection Heq as Ha Ht. subst a'.
        destruct (dispatch closure c env a) as [[[outs inv] env'] run] eqn:D.
        rewrite (rt_cons _ _ t _ _ _ _ D) in R1. rewrite (rt_cons _ _ t' _ _ _ _ D) in R2.
        destruct run; [|discriminate R1].
        rewrite (env_after_cons _ _ t _ _ _ _ D) in S1.
        rewrite (env_after_cons _ _ t' _ _ _ _ D) in S2.
        destruct (IH t' env' f f' r r' Ht R1 R2 S1 S2) as [H1 [H2 H3]].
        subst. auto.
  Qed.

  (* while running, the dispatcher writes no `.unregistered`: every frame has content *)
  Lemma running_outs_content : forall env fs,
    running_through env fs = true ->
    Forall (fun e => e_content e <> None) (fst (serve closure c env fs)).
  Proof.
    intros env fs. revert env. induction fs as [|f r IH]; intros env RT.
    - cbn [serve fst]. constructor.
    - destruct (dispatch closure c env f) as [[[outs inv] env'] run] eqn:D.
      rewrite (rt_cons _ _ r _ _ _ _ D) in RT. destruct run; [|discriminate RT].
      rewrite (serve_run _ _ r _ _ _ D). cbn [fst]. apply Forall_app. split.
      + eapply dispatch_running_content. exact D.
      + apply IH. exact RT.
  Qed.

  Lemma running_no_unregistered : forall env fs,
    running_through env fs = true ->
    forall g b, ~ In (unregistered c g b) (fst (serve closure c env fs)).
  Proof.
    intros env fs RT g b HI.
    pose proof (running_outs_content env fs RT) as F. rewrite Forall_forall in F.
    apply (F _ HI). reflexivity.
  Qed.

  (* D2 *)
  Theorem serve_shape : forall env fs,
    (running_through env fs = true /\
     forall g b, ~ In (unregistered c g b) (fst (serve closure c env fs)))
    \/
    (exists fs1 f fs2 b env2,
       fs = fs1 ++ f :: fs2 /\
       running_through env fs1 = true /\
       dispatch closure c (env_after env fs1) f = ([unregistered c f b], b, env2, false) /\
       (b = true -> is_reg_traffic c f = false /\ own_output c f = false
                    /\ closure (env_after env fs1) f = CErr env2) /\
       (b = false -> is_reg_traffic c f = true /\ h_id c < sf_id f
                     /\ env2 = env_after env fs1) /\
       fst (serve closure c env fs) = fst (serve closure c env fs1) ++ [unregistered c f b] /\
       snd (serve closure c env fs) = snd (serve closure c env fs1) ++ (if b then [f] else []) /\
       (forall g b', ~ In (unregistered c g b') (fst (serve closure c env fs1))) /\
       (forall fs1' f' fs2',
          fs = fs1' ++ f' :: fs2' -> running_through env fs1' = true ->
          snd (dispatch closure c (env_after env fs1') f') = false ->
          fs1' = fs1 /\ f' = f /\ fs2' = fs2)).
  Proof.
    intros env fs. destruct (running_through env fs) eqn:RT.
    - left. split; [reflexivity|]. apply running_no_unregistered. exact RT.
    - right. destruct (stop_exists fs env RT) as [fs1 [f [fs2 [Hs [Hr Hd]]]]].
      destruct (dispatch closure c (env_after env fs1) f) as [[[outs inv] env2] run] eqn:D.
      cbn [snd] in Hd. subst run.
      destruct (dispatch_stop_shape _ _ _ _ _ D) as [Ho [Ht Hf]]. subst outs.
      exists fs1, f, fs2, inv, env2.
      split; [exact Hs|]. split; [exact Hr|]. split; [exact D|].
      split; [exact Ht|]. split; [exact Hf|].
      rewrite Hs at 1 2. rewrite (serve_app_running fs1 env (f :: fs2) Hr).
      rewrite (stop_is_final _ _ fs2 _ _ _ D). cbn [fst snd].
      split; [reflexivity|]. split; [reflexivity|].
      split; [apply running_no_unregistered; exact Hr|].
      intros fs1' f' fs2' Hs' Hr' Hd'. rewrite Hs in Hs'.
      assert (Hd0 : snd (dispatch closure c (env_after env fs1) f) = false)
        by (rewrite D; reflexivity).
      destruct (stop_split_unique fs1 fs1' env f f' fs2 fs2' Hs' Hr Hr' Hd0 Hd')
        as [H1 [H2 H3]].
      subst. auto.
  Qed.

  Lemma filter_disp_unreg_nil : forall l,
    Forall (fun e => e_content e <> None) l -> filter disp_unreg l = [].
  Proof.
    induction l as [|e l IH]; intros F.
    - reflexivity.
    - inversion F as [|e' l' He Hl]; subst. cbn [filter]. unfold disp_unreg at 1.
      destruct (e_content e) as [v|]; [apply IH; exact Hl|exfalso; apply He; reflexivity].
  Qed.

  (* D2: the dispatcher's own stop announcement occurs at most once, and it is the last
     frame the handler ever emits *)
  Theorem unregistered_at_most_once : forall env fs,
    filter disp_unreg (fst (serve closure c env fs)) = []
    \/ exists pre f b,
         In f fs /\
         fst (serve closure c env fs) = pre ++ [unregistered c f b] /\
         filter disp_unreg pre = [].
  Proof.
    intros env fs. destruct (running_through env fs) eqn:RT.
    - left. apply filter_disp_unreg_nil. apply running_outs_content. exact RT.
    - right. destruct (stop_exists fs env RT) as [fs1 [f [fs2 [Hs [Hr Hd]]]]].
      destruct (dispatch closure c (env_after env fs1) f) as [[[outs inv] env2] run] eqn:D.
      cbn [snd] in Hd. subst run.
      destruct (dispatch_stop_shape _ _ _ _ _ D) as [Ho _]. subst outs.
      exists (fst (serve closure c env fs1)), f, inv.
      split; [rewrite Hs; apply in_or_app; right; left; reflexivity|].
      split.
      + rewrite Hs. rewrite (serve_app_running fs1 env (f :: fs2) Hr).
        rewrite (stop_is_final _ _ fs2 _ _ _ D). reflexivity.
      + apply filter_disp_unreg_nil. apply running_outs_content. exact Hr.
  Qed.

  Corollary unregistered_count_le_1 : forall env fs,
    (length (filter disp_unreg (fst (serve closure c env fs))) <= 1)%nat.
  Proof.
    intros env fs. destruct (unregistered_at_most_once env fs) as [H|[pre [f [b [_ [H1 H2]]]]]].
    - rewrite H. cbn [length]. lia.
    - rewrite H1, filter_app, H2. cbn. lia.
  Qed.

  (* every content-less frame is one of the dispatcher's stop announcements *)
  Lemma disp_unreg_is_unregistered : forall env fs e,
    In e (fst (serve closure c env fs)) -> disp_unreg e = true ->
    exists f b, In f fs /\ e = unregistered c f b.
  Proof.
    intros env fs e HI HD.
    destruct (unregistered_at_most_once env fs) as [H|[pre [f [b [Hf [H1 H2]]]]]].
    - exfalso. assert (HI' : In e (filter disp_unreg (fst (serve closure c env fs))))
        by (apply filter_In; split; assumption).
      rewrite H in HI'. exact HI'.
    - rewrite H1 in HI. apply in_app_or in HI. destruct HI as [HI|[HI|[]]].
      + exfalso. assert (HI' : In e (filter disp_unreg pre))
          by (apply filter_In; split; assumption).
        rewrite H2 in HI'. exact HI'.
      + exists f, b. split; [exact Hf|symmetry; exact HI].
  Qed.

End HandlerP.

(* ------------------------------------------------------------------------------------ *)
(* C. closed loop: no self feeding                                                       *)
(* ------------------------------------------------------------------------------------ *)

Theorem own_output_of_emitted :
  forall {E : Type} (closure : E -> sframe -> cres E) (c : hconf) env fs e i,
    In e (fst (serve closure c env fs)) -> own_output c (redeliver i e) = true.
Proof.
  intros E closure c env fs e i HI.
  pose proof (emitted_stamped closure c env fs) as F. rewrite Forall_forall in F.
  destruct (F e HI) as [Hh _].
  unfold own_output, redeliver. cbn [sf_hid]. rewrite Hh. apply N.eqb_refl.
Qed.

(* whatever the handler emitted (under any closure, env, stream) is never handed to its
   closure when it comes back (under any closure, env, stream) *)
Corollary no_self_feeding :
  forall {E E' : Type} (closure : E -> sframe -> cres E) (closure' : E' -> sframe -> cres E')
         (c : hconf) env env' fs fs' e i,
    In e (fst (serve closure c env fs)) ->
    ~ In (redeliver i e) (snd (serve closure' c env' fs')).
Proof.
  intros E E' closure closure' c env env' fs fs' e i HI HS.
  pose proof (seen_never_own closure' c env' fs') as F. rewrite Forall_forall in F.
  destruct (F _ HS) as [Ho _].
  rewrite (own_output_of_emitted closure c env fs e i HI) in Ho. discriminate Ho.
Qed.

(* ------------------------------------------------------------------------------------ *)
(* E. non-vacuity                                                                        *)
(* ------------------------------------------------------------------------------------ *)

(* handler "h", id 5, context 7, suffix ".out", return TTL head:1 *)
Definition ex_c : hconf := mkHC 5 7 [104] suffix_out (Some (Head 1)).
(* react to topic "t": append "x" on topic "t" asking for context 9, return the counter *)
Definition ex_app : oappend := mkOA [116] None None (Some 9) [120].
Definition ex_p : prog := mkProg (Some [116]) [ex_app] RCount FNone.
Definition ex_f1 : sframe := mkSF 10 7 [116] None.
Definition ex_f2 : sframe := mkSF 11 7 [116] None.
(* the handler's own append for f1 coming back on the stream as frame 12, topic "t" *)
Definition ex_own : sframe := redeliver 12 (stamp ex_c ex_f1 ex_app).
Definition ex_f3 : sframe := mkSF 13 7 [116] None.
Definition ex_h_out : bytes := [104;46;111;117;116].

Example ex_own_is_own : ex_own = mkSF 12 7 [116] (Some 5).
Proof. reflexivity. Qed.

(* the closure saw f1, f2, f3 and not the handler's own output *)
Example ex_seen :
  snd (serve (dsl_closure ex_p) ex_c 0 [ex_f1; ex_f2; ex_own; ex_f3]) = [ex_f1; ex_f2; ex_f3].
Proof. vm_compute. reflexivity. Qed.

(* the return values are the counts 1, 2, 3: the env is threaded, the own frame not counted *)
Example ex_counts :
  map e_content
      (filter (fun e => bytes_eqb (e_topic e) ex_h_out)
              (fst (serve (dsl_closure ex_p) ex_c 0 [ex_f1; ex_f2; ex_own; ex_f3])))
  = [Some (dec 1); Some (dec 2); Some (dec 3)].
Proof. vm_compute. reflexivity. Qed.

Example ex_envs :
  envs (dsl_closure ex_p) ex_c 0 [ex_f1; ex_f2; ex_own; ex_f3] = [0; 1; 2].
Proof. vm_compute. reflexivity. Qed.

(* everything emitted, in full: append then return value per call, context forced to 7 *)
Example ex_emitted :
  fst (serve (dsl_closure ex_p) ex_c 0 [ex_f1; ex_f2; ex_own; ex_f3]) =
  [ mkE [116] 7 5 10 None (Some [120]) None false;
    mkE ex_h_out 7 5 10 (Some (Head 1)) (Some [49]) None false;
    mkE [116] 7 5 11 None (Some [120]) None false;
    mkE ex_h_out 7 5 11 (Some (Head 1)) (Some [50]) None false;
    mkE [116] 7 5 13 None (Some [120]) None false;
    mkE ex_h_out 7 5 13 (Some (Head 1)) (Some [51]) None false ].
Proof. vm_compute. reflexivity. Qed.

Example ex_running :
  running_through (dsl_closure ex_p) ex_c 0 [ex_f1; ex_f2; ex_own; ex_f3] = true.
Proof. vm_compute. reflexivity. Qed.

(* all-or-nothing: a failing script leaves no append behind, only `.unregistered` + error *)
Definition ex_p_fail : prog := mkProg (Some [116]) [ex_app] RCount (FBetween 1).
Example ex_error :
  serve (dsl_closure ex_p_fail) ex_c 0 [ex_f1; ex_f2] = ([unregistered ex_c ex_f1 true], [ex_f1]).
Proof. vm_compute. reflexivity. Qed.

(* a newer h.register stops it; an older one (id 3 <= 5) is skipped *)
Definition ex_reg_old : sframe := mkSF 3 7 ([104] ++ suffix_register) None.
Definition ex_reg_new : sframe := mkSF 12 7 ([104] ++ suffix_register) None.
Example ex_replaced :
  serve (dsl_closure ex_p) ex_c 0 [ex_reg_old; ex_f1; ex_reg_new; ex_f3] =
  ([ mkE [116] 7 5 10 None (Some [120]) None false;
     mkE ex_h_out 7 5 10 (Some (Head 1)) (Some [49]) None false;
     unregistered ex_c ex_reg_new false ],
   [ex_f1]).
Proof. vm_compute. reflexivity. Qed.

(* why D2 is about content-less frames and not about the topic alone: a script may itself
   append to `<name>.unregistered`, so the topic can occur more than once *)
Definition ex_p_fake : prog :=
  mkProg (Some [116]) [mkOA ([104] ++ suffix_unregistered) None None None [120]] RNothing FNone.
Example ex_topic_twice :
  length (filter (fun e => bytes_eqb (e_topic e) (h_name ex_c ++ suffix_unregistered))
                 (fst (serve (dsl_closure ex_p_fake) ex_c 0 [ex_f1; ex_reg_new]))) = 2%nat
  /\ length (filter disp_unreg
                    (fst (serve (dsl_closure ex_p_fake) ex_c 0 [ex_f1; ex_reg_new]))) = 1%nat.
Proof. vm_compute. split; reflexivity. Qed.

Print Assumptions seen_sublist.
Print Assumptions seen_never_own.
Print Assumptions seen_all_until_stop.
Print Assumptions serve_env_threading.
Print Assumptions emitted_stamped.
Print Assumptions dispatch_outputs_ok.
Print Assumptions dispatch_error.
Print Assumptions emitted_fids.
Print Assumptions own_output_of_emitted.
Print Assumptions no_self_feeding.
Print Assumptions stop_is_final.
Print Assumptions serve_shape.
Print Assumptions unregistered_at_most_once.
Print Assumptions replaced_by_register.
