(* Per-operation refinement, part A: append, import, remove, set_now, gc_step,
   drain, head.  Axiom-free; stdlib only. *)
From XS Require Import Proofs.Inv.
From Coq Require Import Lia ZifyN ZifyBool Sorting.Sorted Permutation.
Import ListNotations.
Open Scope N_scope.

(* ------------------------------------------------------------------------ *)
(* 0. generic list facts *)

Section Gen.
  Context {A : Type}.

  Lemma SS_filter (R : A -> A -> Prop) p l :
    StronglySorted R l -> StronglySorted R (filter p l).
  Proof.
    induction 1 as [|x l Hs IH Hf]; cbn [filter]; [constructor|].
    destruct (p x); [|exact IH]. constructor; [exact IH|].
    apply Forall_forall. intros y Hy. apply filter_In in Hy. destruct Hy as [Hy _].
    rewrite Forall_forall in Hf. auto.
  Qed.

  Lemma Forall_filter (P : A -> Prop) p l : Forall P l -> Forall P (filter p l).
  Proof.
    intros H. apply Forall_forall. intros y Hy. apply filter_In in Hy.
    rewrite Forall_forall in H. apply H. tauto.
  Qed.

  Lemma SS_map {B} (R : A -> A -> Prop) (R' : B -> B -> Prop) (g : A -> B) l :
    StronglySorted R l ->
    (forall x y, In x l -> In y l -> R x y -> R' (g x) (g y)) ->
    StronglySorted R' (map g l).
  Proof.
    induction 1 as [|x l Hs IH Hf]; intros HR; cbn [map]; [constructor|].
    constructor.
    - apply IH. intros a b Ha Hb. apply HR; right; assumption.
    - apply Forall_forall. intros z Hz. apply in_map_iff in Hz.
      destruct Hz as (y & <- & Hy). rewrite Forall_forall in Hf.
      apply HR; [left; reflexivity|right; exact Hy|auto].
  Qed.

  Lemma filter_filter (p q : A -> bool) l :
    filter p (filter q l) = filter (fun x => q x && p x) l.
  Proof.
    induction l as [|x l IH]; cbn [filter]; [reflexivity|].
    destruct (q x); cbn [andb filter]; [|exact IH].
    destruct (p x); rewrite IH; reflexivity.
  Qed.

  Lemma filter_all (p : A -> bool) l : (forall x, In x l -> p x = true) -> filter p l = l.
  Proof.
    induction l as [|x l IH]; intros H; cbn [filter]; [reflexivity|].
    rewrite (H x (or_introl eq_refl)). f_equal. apply IH. intros y Hy. apply H. right; exact Hy.
  Qed.

  Lemma map_skipn {B} (g : A -> B) n l : map g (skipn n l) = skipn n (map g l).
  Proof.
    revert l; induction n as [|n IH]; intros [|x l]; cbn [skipn map]; auto.
  Qed.

  Lemma find_map_map {B C} (g : A -> B) (h : B -> option C) l :
    find_map (fun e => h (g e)) l = find_map h (map g l).
  Proof.
    induction l as [|x l IH]; cbn [find_map map]; [reflexivity|].
    destruct (h (g x)); [reflexivity|exact IH].
  Qed.
End Gen.

Lemma SS_lt_unique : forall l1 l2 : list N,
  StronglySorted N.lt l1 -> StronglySorted N.lt l2 ->
  (forall x, In x l1 <-> In x l2) -> l1 = l2.
Proof.
  induction l1 as [|x l1 IH]; intros [|y l2] H1 H2 HM.
  - reflexivity.
  - exfalso. apply (HM y). left; reflexivity.
  - exfalso. apply (HM x). left; reflexivity.
  - apply StronglySorted_inv in H1, H2. destruct H1 as [S1 F1], H2 as [S2 F2].
    rewrite Forall_forall in F1, F2.
    assert (E : x = y).
    { destruct (proj1 (HM x) (or_introl eq_refl)) as [E|I]; [auto|].
      destruct (proj2 (HM y) (or_introl eq_refl)) as [E|I']; [auto|].
      apply F2 in I. apply F1 in I'. lia. }
    subst y. f_equal. apply IH; auto. intros z. split; intros Hz.
    + destruct (proj1 (HM z) (or_intror Hz)) as [E|I]; [|exact I].
      subst z. apply F1 in Hz. lia.
    + destruct (proj2 (HM z) (or_intror Hz)) as [E|I]; [|exact I].
      subst z. apply F2 in Hz. lia.
Qed.

(* ------------------------------------------------------------------------ *)
(* 1. key-sorted association lists *)

Section KVL.
  Context {V : Type}.

  Lemma kv_put_keys k0 (v : V) l k :
    In k (map fst (kv_put k0 v l)) <-> k = k0 \/ In k (map fst l).
  Proof.
    induction l as [|[k' v'] r IH]; cbn [kv_put map fst In].
    - intuition congruence.
    - destruct (lex_ltb k0 k'); cbn [map fst In]; [intuition congruence|].
      destruct (bytes_eqb k0 k') eqn:E; cbn [map fst In].
      + apply bytes_eqb_eq in E. subst k'. intuition congruence.
      + rewrite IH. intuition congruence.
  Qed.

  Lemma kv_put_Forall (P : bytes * V -> Prop) k v l :
    P (k, v) -> Forall P l -> Forall P (kv_put k v l).
  Proof.
    intros Hk Hl. induction Hl as [|[k' v'] r Hx Hr IH]; cbn [kv_put].
    - constructor; [exact Hk|constructor].
    - destruct (lex_ltb k k'); [constructor; [exact Hk|constructor; assumption]|].
      destruct (bytes_eqb k k'); constructor; assumption.
  Qed.

  Lemma kv_put_sorted k (v : V) l :
    StronglySorted key_lt l -> StronglySorted key_lt (kv_put k v l).
  Proof.
    intros Hs. induction Hs as [|[k' v'] r Hs IH Hf]; cbn [kv_put].
    - constructor; constructor.
    - destruct (lex_ltb k k') eqn:Hlt.
      + constructor; [constructor; assumption|].
        constructor; [exact Hlt|].
        eapply Forall_impl; [|exact Hf]. intros e He. unfold key_lt in *. cbn [fst] in *.
        eapply lex_ltb_trans; eassumption.
      + destruct (bytes_eqb k k') eqn:He.
        * apply bytes_eqb_eq in He. subst k'. constructor; [assumption|].
          eapply Forall_impl; [|exact Hf]. intros e H. exact H.
        * constructor; [exact IH|]. apply kv_put_Forall; [|exact Hf].
          unfold key_lt; cbn [fst]. destruct (lex_ltb k' k) eqn:Hgt; [reflexivity|].
          exfalso. apply bytes_eqb_neq in He. apply He. apply lex_ltb_total; assumption.
  Qed.

  Lemma kv_del_keys k0 (l : kv V) k :
    In k (map fst (kv_del k0 l)) <-> k <> k0 /\ In k (map fst l).
  Proof.
    unfold kv_del. induction l as [|[k' v'] r IH]; cbn [filter map fst In negb].
    - intuition.
    - destruct (bytes_eqb k0 k') eqn:E; cbn [negb map fst In].
      + apply bytes_eqb_eq in E. subst k'. rewrite IH. intuition congruence.
      + apply bytes_eqb_neq in E. rewrite IH. intuition congruence.
  Qed.

  Lemma kv_del_sorted k (l : kv V) :
    StronglySorted key_lt l -> StronglySorted key_lt (kv_del k l).
  Proof. apply SS_filter. Qed.
End KVL.

(* ------------------------------------------------------------------------ *)
(* 2. id-sorted frame lists; the stream partition *)

Lemma max128_pos : 0 < max128.
Proof. vm_compute. reflexivity. Qed.

Lemma frame_ok_idok f : frame_ok f -> idok f.
Proof. intros (H1 & H2 & _). pose proof max128_lt. split; lia. Qed.

Lemma sorted_id_unique l f g :
  StronglySorted id_lt l -> In f l -> In g l -> f_id f = f_id g -> f = g.
Proof.
  induction 1 as [|x l Hs IH Hf]; intros Hf' Hg E; [destruct Hf'|].
  rewrite Forall_forall in Hf. unfold id_lt in Hf.
  destruct Hf' as [->|Hf'], Hg as [->|Hg]; auto.
  - apply Hf in Hg. lia.
  - apply Hf in Hf'. lia.
Qed.

Lemma a_insert_Forall (P : frame -> Prop) f l :
  P f -> Forall P l -> Forall P (a_insert f l).
Proof.
  intros Hf Hl. induction Hl as [|g r Hg Hr IH]; cbn [a_insert].
  - constructor; [exact Hf|constructor].
  - destruct (f_id f <? f_id g); [constructor; [exact Hf|constructor; assumption]|].
    destruct (f_id f =? f_id g); constructor; assumption.
Qed.

Lemma a_insert_In f l g :
  StronglySorted id_lt l ->
  (In g (a_insert f l) <-> g = f \/ (In g l /\ f_id g <> f_id f)).
Proof.
  induction 1 as [|x l Hs IH Hf]; cbn [a_insert In].
  - intuition congruence.
  - rewrite Forall_forall in Hf. unfold id_lt in Hf.
    destruct (f_id f <? f_id x) eqn:E1.
    + apply N.ltb_lt in E1. cbn [In]. split.
      * intros [<-|[<-|H]]; [left; reflexivity|right; split; [left; reflexivity|lia]|].
        right. split; [right; exact H|]. apply Hf in H. lia.
      * intros [->|[[<-|H] _]]; auto.
    + apply N.ltb_ge in E1. destruct (f_id f =? f_id x) eqn:E2.
      * apply N.eqb_eq in E2. cbn [In]. split.
        -- intros [<-|H]; [left; reflexivity|]. right. split; [right; exact H|].
           apply Hf in H. lia.
        -- intros [->|[[<-|H] Hn]]; auto. congruence.
      * apply N.eqb_neq in E2. cbn [In]. rewrite IH. split.
        -- intros [<-|[->|[H Hn]]]; auto.
        -- intros [->|[[<-|H] Hn]]; auto.
Qed.

Lemma a_insert_sorted f l :
  StronglySorted id_lt l -> StronglySorted id_lt (a_insert f l).
Proof.
  induction 1 as [|x l Hs IH Hf]; cbn [a_insert].
  - constructor; constructor.
  - destruct (f_id f <? f_id x) eqn:E1.
    + apply N.ltb_lt in E1. constructor; [constructor; assumption|].
      constructor; [exact E1|]. eapply Forall_impl; [|exact Hf].
      unfold id_lt. intros; lia.
    + apply N.ltb_ge in E1. destruct (f_id f =? f_id x) eqn:E2.
      * apply N.eqb_eq in E2. constructor; [assumption|].
        eapply Forall_impl; [|exact Hf]. unfold id_lt. intros; lia.
      * apply N.eqb_neq in E2. constructor; [exact IH|].
        apply a_insert_Forall; [unfold id_lt; lia|exact Hf].
Qed.

Lemma a_delete_In i l g : In g (a_delete i l) <-> In g l /\ f_id g <> i.
Proof.
  unfold a_delete. rewrite filter_In, negb_true_iff, N.eqb_neq. reflexivity.
Qed.

Lemma a_delete_absent i l : (forall g, In g l -> f_id g <> i) -> a_delete i l = l.
Proof.
  intros H. apply filter_all. intros g Hg. apply negb_true_iff, N.eqb_neq. auto.
Qed.

Lemma skey_eqb i j : i < two128 -> j < two128 -> bytes_eqb (skey i) (skey j) = (i =? j).
Proof. intros Hi Hj. unfold skey. apply be16_eqb; assumption. Qed.

Lemma stream_put f l :
  f_id f < two128 -> Forall (fun g => f_id g < two128) l ->
  kv_put (skey (f_id f)) f (map enc l) = map enc (a_insert f l).
Proof.
  intros Hf Hl. induction Hl as [|g r Hg Hr IH]; [reflexivity|].
  change (map enc (g :: r)) with ((skey (f_id g), g) :: map enc r).
  cbn [kv_put a_insert]. rewrite (skey_ltb _ _ Hf Hg).
  rewrite (skey_eqb _ _ Hf Hg).
  destruct (f_id f <? f_id g); [reflexivity|].
  destruct (f_id f =? f_id g); [reflexivity|].
  rewrite IH. reflexivity.
Qed.

Lemma stream_del i l :
  i < two128 -> Forall (fun g => f_id g < two128) l ->
  kv_del (skey i) (map enc l) = map enc (a_delete i l).
Proof.
  intros Hi Hl. unfold kv_del, a_delete. induction Hl as [|g r Hg Hr IH]; [reflexivity|].
  change (map enc (g :: r)) with ((skey (f_id g), g) :: map enc r).
  cbn [filter fst]. rewrite (skey_eqb _ _ Hi Hg), (N.eqb_sym (f_id g) i).
  destruct (i =? f_id g); cbn [negb]; rewrite IH; reflexivity.
Qed.

Lemma stream_get i l :
  i < two128 -> Forall (fun g => f_id g < two128) l ->
  kv_get (skey i) (map enc l) = find (fun g => f_id g =? i) l.
Proof.
  intros Hi Hl. unfold kv_get. induction Hl as [|g r Hg Hr IH]; [reflexivity|].
  change (map enc (g :: r)) with ((skey (f_id g), g) :: map enc r).
  cbn [find fst]. rewrite (skey_eqb _ _ Hi Hg), (N.eqb_sym (f_id g) i).
  destruct (i =? f_id g); [reflexivity|exact IH].
Qed.

Lemma find_id_In i l g : find (fun g => f_id g =? i) l = Some g -> In g l /\ f_id g = i.
Proof.
  intros H. apply find_some in H. destruct H as [H1 H2]. apply N.eqb_eq in H2. auto.
Qed.

Lemma find_id_sorted l g :
  StronglySorted id_lt l -> In g l -> find (fun h => f_id h =? f_id g) l = Some g.
Proof.
  intros Hs Hg. destruct (find (fun h => f_id h =? f_id g) l) as [h|] eqn:E.
  - apply find_id_In in E. destruct E as [Hh E]. f_equal.
    eapply sorted_id_unique; eassumption.
  - exfalso. apply (find_none _ _ E) in Hg. rewrite N.eqb_refl in Hg. discriminate.
Qed.

Lemma find_id_none i l : find (fun g => f_id g =? i) l = None -> forall g, In g l -> f_id g <> i.
Proof.
  intros H g Hg. apply (find_none _ _ H) in Hg. apply N.eqb_neq in Hg. exact Hg.
Qed.

(* ------------------------------------------------------------------------ *)
(* 3. the registry *)

Lemma mem_In x l : mem x l = true <-> In x l.
Proof.
  unfold mem. rewrite existsb_exists. split.
  - intros (y & Hy & E). apply N.eqb_eq in E. subst; exact Hy.
  - intros H. exists x. split; [exact H|apply N.eqb_refl].
Qed.

Lemma mem_set_add c x l : mem c (set_add x l) = (c =? x) || mem c l.
Proof.
  unfold set_add. destruct (mem x l) eqn:E.
  - destruct (N.eqb_spec c x) as [->|Hn]; [rewrite E; reflexivity|reflexivity].
  - unfold mem. cbn [existsb]. reflexivity.
Qed.

Lemma mem_set_del c x l : mem c (set_del x l) = negb (x =? c) && mem c l.
Proof.
  unfold set_del, mem. induction l as [|y l IH]; cbn [filter existsb].
  - rewrite andb_false_r. reflexivity.
  - destruct (x =? y) eqn:E; cbn [negb existsb]; rewrite IH;
      destruct (x =? c) eqn:E2, (c =? y) eqn:E3; cbn [negb andb orb]; try reflexivity; lia.
Qed.

Lemma a_ctxs_mem c l :
  mem c (a_ctxs l) = true <->
  c = 0 \/ exists g, In g l /\ registers g = true /\ f_id g = c.
Proof.
  rewrite mem_In. unfold a_ctxs. cbn [In]. rewrite in_map_iff. split.
  - intros [H|(g & E & Hg)]; [left; auto|]. apply filter_In in Hg. right. exists g. tauto.
  - intros [H|(g & Hg & Hr & E)]; [left; auto|]. right. exists g. split; [exact E|].
    apply filter_In. tauto.
Qed.

Lemma a_ctxs_delete_mem c i l :
  mem c (a_ctxs (a_delete i l)) = true <->
  c = 0 \/ exists g, In g l /\ f_id g <> i /\ registers g = true /\ f_id g = c.
Proof.
  rewrite a_ctxs_mem. split.
  - intros [H|(g & Hg & Hr & E)]; [left; exact H|]. apply a_delete_In in Hg.
    right. exists g. tauto.
  - intros [H|(g & Hg & Hn & Hr & E)]; [left; exact H|]. right. exists g.
    split; [apply a_delete_In; tauto|tauto].
Qed.

(* replacing (or adding) the frame with id [f_id f]: the other registrations stay, the one of
   that id is [f]'s *)
Lemma a_ctxs_insert c f l :
  StronglySorted id_lt l ->
  mem c (a_ctxs (a_insert f l))
  = (registers f && (c =? f_id f)) || mem c (a_ctxs (a_delete (f_id f) l)).
Proof.
  intros Hs. apply eq_iff_eq_true.
  rewrite orb_true_iff, andb_true_iff, N.eqb_eq, a_ctxs_delete_mem, a_ctxs_mem. split.
  - intros [H0|(g & Hg & Hr & E)]; [right; left; exact H0|].
    apply a_insert_In in Hg; [|exact Hs]. destruct Hg as [->|[Hg Hn]].
    + left. auto.
    + right. right. exists g. auto.
  - intros [[Hr E]|[H0|(g & Hg & Hn & Hr & E)]].
    + right. exists f. split; [apply a_insert_In; auto|auto].
    + left. exact H0.
    + right. exists g. split; [apply a_insert_In; auto|auto].
Qed.

(* ------------------------------------------------------------------------ *)
(* 4. insert_frame / import *)

Lemma tkey_same f g :
  f_id g = f_id f -> f_ctx g = f_ctx f -> f_topic g = f_topic f -> tkey g = tkey f.
Proof. intros E1 E2 E3. unfold tkey. rewrite E1, E2, E3. reflexivity. Qed.

Lemma ckey_same f g : f_id g = f_id f -> f_ctx g = f_ctx f -> ckey g = ckey f.
Proof. intros E1 E2. unfold ckey. rewrite E1, E2. reflexivity. Qed.

Lemma Inv_bounded s a : Inv s a -> Forall (fun g => f_id g < two128) (a_live a).
Proof.
  intros HI. eapply Forall_impl; [|exact (inv_ok _ _ HI)]. intros g Hg. exact (proj1 Hg).
Qed.

Lemma get_spec s a i : Inv s a -> i < two128 -> get s i = a_get a i.
Proof.
  intros HI Hi. unfold get, a_get. rewrite (inv_stream _ _ HI).
  apply stream_get; [exact Hi|apply (Inv_bounded _ _ HI)].
Qed.

Lemma fresh_find i l : fresh i l = true -> find (fun g => f_id g =? i) l = None.
Proof.
  unfold fresh. rewrite forallb_forall. intros H.
  destruct (find (fun g => f_id g =? i) l) as [g|] eqn:E; [|reflexivity].
  apply find_some in E. destruct E as [Hg E]. apply H in Hg. rewrite E in Hg. discriminate.
Qed.

(* [drop_old]: what an overwriting import deletes first *)

Lemma same_keys_true old f :
  same_keys old f = true <-> f_ctx old = f_ctx f /\ f_topic old = f_topic f.
Proof. unfold same_keys. rewrite andb_true_iff, N.eqb_eq, bytes_eqb_eq. reflexivity. Qed.

Lemma drop_old_same s f :
  s_stream (drop_old s f) = s_stream s /\ s_gcq (drop_old s f) = s_gcq s /\
  s_now (drop_old s f) = s_now s /\ s_bcast (drop_old s f) = s_bcast s.
Proof.
  unfold drop_old. destruct (get s (f_id f)) as [old|]; [|auto].
  destruct (same_keys old f); cbn [s_stream s_gcq s_now s_bcast]; auto.
Qed.

Lemma drop_old_fresh s f : get s (f_id f) = None -> drop_old s f = s.
Proof. unfold drop_old. intros ->. reflexivity. Qed.

(* the two index partitions after [drop_old]: still sorted; every key left is the key of a live
   frame and, when that frame has [f]'s id, it is the very key [f] is about to (re)write; the
   keys of all frames with another id are still there *)
Lemma drop_old_index s a f :
  Inv s a -> f_id f < two128 ->
  StronglySorted key_lt (s_itopic (drop_old s f)) /\
  StronglySorted key_lt (s_ictx (drop_old s f)) /\
  (forall k, In k (map fst (s_itopic (drop_old s f))) ->
     exists g, In g (a_live a) /\ k = tkey g /\ (f_id g = f_id f -> tkey g = tkey f)) /\
  (forall g, In g (a_live a) -> f_id g <> f_id f ->
     In (tkey g) (map fst (s_itopic (drop_old s f)))) /\
  (forall k, In k (map fst (s_ictx (drop_old s f))) ->
     exists g, In g (a_live a) /\ k = ckey g /\ (f_id g = f_id f -> ckey g = ckey f)) /\
  (forall g, In g (a_live a) -> f_id g <> f_id f ->
     In (ckey g) (map fst (s_ictx (drop_old s f)))).
Proof.
  intros HI Hi.
  pose proof (inv_sorted _ _ HI) as Hs.
  pose proof (inv_ok _ _ HI) as Hok. rewrite Forall_forall in Hok.
  pose proof (inv_itopic _ _ HI) as Ht. pose proof (inv_ictx _ _ HI) as Hc.
  pose proof (inv_itopic_sorted _ _ HI) as Hts. pose proof (inv_ictx_sorted _ _ HI) as Hcs.
  unfold drop_old. rewrite (get_spec _ _ _ HI Hi). unfold a_get.
  destruct (find (fun g => f_id g =? f_id f) (a_live a)) as [old|] eqn:Hfind.
  - apply find_id_In in Hfind. destruct Hfind as [Ho Eo].
    destruct (same_keys old f) eqn:Hsk.
    + apply same_keys_true in Hsk. destruct Hsk as [Ec Et].
      split; [exact Hts|]. split; [exact Hcs|]. split; [|split; [|split]].
      * intros k Hk. apply Ht in Hk. destruct Hk as (g & Hg & ->).
        exists g. split; [exact Hg|]. split; [reflexivity|]. intros Eg.
        assert (g = old) by (eapply sorted_id_unique; eauto; congruence). subst g.
        apply tkey_same; assumption.
      * intros g Hg _. apply Ht. exists g. auto.
      * intros k Hk. apply Hc in Hk. destruct Hk as (g & Hg & ->).
        exists g. split; [exact Hg|]. split; [reflexivity|]. intros Eg.
        assert (g = old) by (eapply sorted_id_unique; eauto; congruence). subst g.
        apply ckey_same; assumption.
      * intros g Hg _. apply Hc. exists g. auto.
    + cbn [s_itopic s_ictx].
      split; [apply kv_del_sorted; exact Hts|]. split; [apply kv_del_sorted; exact Hcs|].
      split; [|split; [|split]].
      * intros k Hk. apply kv_del_keys in Hk. destruct Hk as [Hne Hk].
        apply Ht in Hk. destruct Hk as (g & Hg & ->).
        exists g. split; [exact Hg|]. split; [reflexivity|]. intros Eg. exfalso. apply Hne.
        assert (g = old) by (eapply sorted_id_unique; eauto; congruence). subst g. reflexivity.
      * intros g Hg Hne. apply kv_del_keys. split; [|apply Ht; exists g; auto]. intros E.
        destruct (Hok g Hg) as (_ & _ & Hgn). destruct (Hok old Ho) as (_ & _ & Hon).
        apply tkey_inj in E; try assumption; try (apply frame_ok_idok; auto).
        destruct E as [E _]. congruence.
      * intros k Hk. apply kv_del_keys in Hk. destruct Hk as [Hne Hk].
        apply Hc in Hk. destruct Hk as (g & Hg & ->).
        exists g. split; [exact Hg|]. split; [reflexivity|]. intros Eg. exfalso. apply Hne.
        assert (g = old) by (eapply sorted_id_unique; eauto; congruence). subst g. reflexivity.
      * intros g Hg Hne. apply kv_del_keys. split; [|apply Hc; exists g; auto]. intros E.
        apply ckey_inj in E; try (apply frame_ok_idok; auto).
        destruct E as [E _]. congruence.
  - pose proof (find_id_none _ _ Hfind) as Hnone.
    split; [exact Hts|]. split; [exact Hcs|]. split; [|split; [|split]].
    + intros k Hk. apply Ht in Hk. destruct Hk as (g & Hg & ->).
      exists g. split; [exact Hg|]. split; [reflexivity|]. intros Eg.
      exfalso. exact (Hnone g Hg Eg).
    + intros g Hg _. apply Ht. exists g. auto.
    + intros k Hk. apply Hc in Hk. destruct Hk as (g & Hg & ->).
      exists g. split; [exact Hg|]. split; [reflexivity|]. intros Eg.
      exfalso. exact (Hnone g Hg Eg).
    + intros g Hg _. apply Hc. exists g. auto.
Qed.

(* the registry after [drop_old].  [Store.drop_old] deletes the overwritten frame's id from the
   registry when that frame registered a context, even when that id is 0 -- but 0 is always a
   usable context in the spec; hence the premise (cf. [remove_inv] below) *)
Lemma drop_old_ctxs s a f c :
  Inv s a -> f_id f < two128 ->
  (forall old, In old (a_live a) -> f_id old = f_id f -> registers old = true -> f_id f <> 0) ->
  (mem c (s_ctxs (drop_old s f)) = true ->
     mem c (a_ctxs (a_delete (f_id f) (a_live a))) = true \/ (c = f_id f /\ registers f = true)) /\
  (mem c (a_ctxs (a_delete (f_id f) (a_live a))) = true -> mem c (s_ctxs (drop_old s f)) = true).
Proof.
  intros HI Hi Hz.
  pose proof (inv_sorted _ _ HI) as Hs. pose proof (inv_ctxs _ _ HI) as Hx.
  rewrite a_ctxs_delete_mem.
  unfold drop_old. rewrite (get_spec _ _ _ HI Hi). unfold a_get.
  destruct (find (fun g => f_id g =? f_id f) (a_live a)) as [old|] eqn:Hfind.
  - apply find_id_In in Hfind. destruct Hfind as [Ho Eo].
    destruct (same_keys old f) eqn:Hsk.
    + apply same_keys_true in Hsk. destruct Hsk as [Ec Et].
      rewrite Hx, a_ctxs_mem. split.
      * intros [H0|(g & Hg & Hr & E)]; [left; left; exact H0|].
        destruct (N.eq_dec (f_id g) (f_id f)) as [Ei|Ei].
        -- right. split; [congruence|].
           assert (g = old) by (eapply sorted_id_unique; eauto; congruence). subst g.
           unfold registers in *. rewrite <- Ec, <- Et. exact Hr.
        -- left. right. exists g. auto.
      * intros [H0|(g & Hg & Hn & Hr & E)]; [left; exact H0|]. right. exists g. auto.
    + cbn [s_ctxs]. destruct (registers old) eqn:Hro.
      * rewrite mem_set_del, andb_true_iff, negb_true_iff, N.eqb_neq, Hx, a_ctxs_mem. split.
        -- intros [Hne [H0|(g & Hg & Hr & E)]]; [left; left; exact H0|].
           left. right. exists g. split; [exact Hg|]. split; [congruence|auto].
        -- intros [H0|(g & Hg & Hn & Hr & E)].
           ++ split; [|left; exact H0]. subst c. rewrite Eo. apply (Hz old); assumption.
           ++ split; [congruence|]. right. exists g. auto.
      * rewrite Hx, a_ctxs_mem. split.
        -- intros [H0|(g & Hg & Hr & E)]; [left; left; exact H0|].
           left. right. exists g. split; [exact Hg|]. split; [|auto]. intros Ei.
           assert (g = old) by (eapply sorted_id_unique; eauto; congruence). subst g. congruence.
        -- intros [H0|(g & Hg & Hn & Hr & E)]; [left; exact H0|]. right. exists g. auto.
  - pose proof (find_id_none _ _ Hfind) as Hnone.
    rewrite Hx, a_ctxs_mem. split.
    + intros [H0|(g & Hg & Hr & E)]; [left; left; exact H0|].
      left. right. exists g. split; [exact Hg|]. split; [apply Hnone; exact Hg|auto].
    + intros [H0|(g & Hg & Hn & Hr & E)]; [left; exact H0|]. right. exists g. auto.
Qed.

(* registry of the whole insert: [f]'s own registration on top of [drop_old] *)
Lemma insert_ctxs s a f c :
  Inv s a -> f_id f < two128 ->
  (forall old, In old (a_live a) -> f_id old = f_id f -> registers old = true -> f_id f <> 0) ->
  mem c (if registers f then set_add (f_id f) (s_ctxs (drop_old s f)) else s_ctxs (drop_old s f))
  = mem c (a_ctxs (a_insert f (a_live a))).
Proof.
  intros HI Hi Hz. rewrite (a_ctxs_insert c f _ (inv_sorted _ _ HI)).
  destruct (drop_old_ctxs s a f c HI Hi Hz) as [D1 D2].
  apply eq_iff_eq_true. destruct (registers f) eqn:Hr; cbn [andb].
  - rewrite mem_set_add, !orb_true_iff, N.eqb_eq. split.
    + intros [E|H]; [left; exact E|]. destruct (D1 H) as [H'|[E _]]; auto.
    + intros [E|H]; [left; exact E|right; apply D2; exact H].
  - cbn [orb]. split.
    + intros H. destruct (D1 H) as [H'|[_ E]]; [exact H'|discriminate].
    + apply D2.
Qed.

Lemma insert_inv_gen s a f cs q n b :
  Inv s a -> frame_ok f ->
  (registers f = true -> ttl_persistent (f_ttl f) = true) ->
  (forall c, mem c cs = mem c (a_ctxs (a_insert f (a_live a)))) ->
  Forall task_ok q ->
  Inv (mkStore (kv_put (skey (f_id f)) f (s_stream s))
               (kv_put (tkey f) tt (s_itopic (drop_old s f)))
               (kv_put (ckey f) tt (s_ictx (drop_old s f))) cs q n b)
      (mkA (a_insert f (a_live a)) q n b).
Proof.
  intros HI Hf Hper Hcsx Hqok. pose proof (Inv_bounded _ _ HI) as Hbd.
  destruct (drop_old_index s a f HI (proj1 Hf)) as (Hts & Hcs & Kt1 & Kt2 & Kc1 & Kc2).
  destruct HI as [Hs Hok Hst _ _ _ _ Hx Hp Hq Hqo Hn Hb].
  constructor; cbn [a_live a_gcq a_now a_bcast s_stream s_itopic s_ictx s_ctxs s_gcq s_now s_bcast].
  - apply a_insert_sorted; exact Hs.
  - apply a_insert_Forall; assumption.
  - rewrite Hst. apply stream_put; [exact (proj1 Hf)|exact Hbd].
  - apply kv_put_sorted; exact Hts.
  - intros k. rewrite kv_put_keys. split.
    + intros [->|Hk].
      * exists f. split; [apply a_insert_In; auto|reflexivity].
      * destruct (Kt1 k Hk) as (g & Hg & -> & Hsame).
        destruct (N.eq_dec (f_id g) (f_id f)) as [Ei|Ei].
        -- exists f. split; [apply a_insert_In; auto|apply Hsame; exact Ei].
        -- exists g. split; [apply a_insert_In; auto|reflexivity].
    + intros (g & Hg & ->). apply a_insert_In in Hg; [|exact Hs].
      destruct Hg as [->|[Hg Hne]]; [left; reflexivity|right; apply Kt2; assumption].
  - apply kv_put_sorted; exact Hcs.
  - intros k. rewrite kv_put_keys. split.
    + intros [->|Hk].
      * exists f. split; [apply a_insert_In; auto|reflexivity].
      * destruct (Kc1 k Hk) as (g & Hg & -> & Hsame).
        destruct (N.eq_dec (f_id g) (f_id f)) as [Ei|Ei].
        -- exists f. split; [apply a_insert_In; auto|apply Hsame; exact Ei].
        -- exists g. split; [apply a_insert_In; auto|reflexivity].
    + intros (g & Hg & ->). apply a_insert_In in Hg; [|exact Hs].
      destruct Hg as [->|[Hg Hne]]; [left; reflexivity|right; apply Kc2; assumption].
  - exact Hcsx.
  - apply a_insert_Forall; assumption.
  - reflexivity.
  - exact Hqok.
  - reflexivity.
  - reflexivity.
Qed.

Lemma lt_two128_max128 c : c < two128 -> c <> max128 -> c < max128.
Proof. unfold max128. lia. Qed.

(* import, under the premise that the overwritten frame (if any) is not the registration of
   context 0: see [refines_import_zs], [refines_import_nz], [refines_import_false] below *)
Lemma import_refines f s a :
  Inv s a -> hyp_ok a (OImport f) = true ->
  (forall old, In old (a_live a) -> f_id old = f_id f -> registers old = true -> f_id f <> 0) ->
  fst (step s (OImport f)) = fst (a_step a (OImport f)) /\
  Inv (snd (step s (OImport f))) (snd (a_step a (OImport f))).
Proof.
  intros HI Hh Hz. cbn [hyp_ok] in Hh.
  apply andb_true_iff in Hh. destruct Hh as [Hh Hper].
  apply andb_true_iff in Hh. destruct Hh as [Hh Hmax].
  apply andb_true_iff in Hh. destruct Hh as [Hid Hctx].
  unfold id_ok in Hid, Hctx. apply N.ltb_lt in Hid, Hctx.
  apply negb_true_iff, N.eqb_neq in Hmax.
  cbn [step a_step]. unfold insert_frame, insert_frame_gen, a_import.
  destruct (has_nul (f_topic f)) eqn:Hn; cbn [fst snd andb].
  - split; [reflexivity|exact HI].
  - split; [reflexivity|].
    destruct (drop_old_same s f) as (E1 & E2 & E3 & E4). rewrite E1, E2, E3, E4.
    rewrite (inv_gcq _ _ HI), (inv_now _ _ HI), (inv_bcast _ _ HI).
    apply insert_inv_gen; try assumption.
    + split; [exact Hid|split; [apply lt_two128_max128; assumption|exact Hn]].
    + destruct (registers f); cbn [negb orb] in Hper; [auto|discriminate].
    + intros c. apply insert_ctxs; assumption.
    + exact (inv_gcq_ok _ _ HI).
Qed.

(* ------------------------------------------------------------------------ *)
(* 5. append *)

Lemma ctx_topic_nonul t : is_ctx_topic t = true -> has_nul t = false.
Proof.
  unfold is_ctx_topic. intros H. apply bytes_eqb_eq in H. subst t. reflexivity.
Qed.

Lemma Inv_eta s a :
  Inv s a ->
  Inv (mkStore (s_stream s) (s_itopic s) (s_ictx s) (s_ctxs s) (s_gcq s) (s_now s) (s_bcast s)) a.
Proof. destruct s. exact (fun H => H). Qed.

Lemma Inv_bcast s a q b :
  Inv s a -> Forall task_ok q ->
  Inv (mkStore (s_stream s) (s_itopic s) (s_ictx s) (s_ctxs s) q (s_now s) b)
      (mkA (a_live a) q (a_now a) b).
Proof.
  intros [Hs Hok Hst Hts Ht Hcs Hc Hx Hp Hq Hqo Hn Hb] Hqok.
  constructor; cbn [a_live a_gcq a_now a_bcast s_stream s_itopic s_ictx s_ctxs s_gcq s_now s_bcast];
    try assumption; reflexivity.
Qed.

Lemma reg_ctx_bound s a c :
  Inv s a -> mem c (a_ctxs (a_live a)) = true -> c < two128.
Proof.
  intros HI H. apply a_ctxs_mem in H. destruct H as [->|(g & Hg & _ & <-)].
  - pose proof max128_pos. pose proof max128_lt. lia.
  - pose proof (Inv_bounded _ _ HI) as Hb. rewrite Forall_forall in Hb. auto.
Qed.

Lemma append_insert_inv s a f cs q b :
  Inv s a -> frame_ok f -> fresh (f_id f) (a_live a) = true ->
  (registers f = true -> ttl_persistent (f_ttl f) = true) ->
  (forall c, mem c cs = (registers f && (c =? f_id f)) || mem c (s_ctxs s)) ->
  Forall task_ok q ->
  Inv (mkStore (kv_put (skey (f_id f)) f (s_stream s)) (kv_put (tkey f) tt (s_itopic s))
               (kv_put (ckey f) tt (s_ictx s)) cs q (s_now s) b)
      (mkA (a_insert f (a_live a)) q (a_now a) b).
Proof.
  intros HI Hf Hfr Hper Hcs Hq. rewrite (inv_now _ _ HI).
  assert (Hg : get s (f_id f) = None).
  { rewrite (get_spec _ _ _ HI (proj1 Hf)). apply fresh_find; exact Hfr. }
  pose proof (insert_inv_gen s a f cs q (a_now a) b HI Hf Hper) as H.
  rewrite (drop_old_fresh _ _ Hg) in H. apply H; [|exact Hq].
  intros c. rewrite Hcs, (inv_ctxs _ _ HI), (a_ctxs_insert c f _ (inv_sorted _ _ HI)).
  rewrite a_delete_absent; [reflexivity|]. apply find_id_none. apply fresh_find; exact Hfr.
Qed.

Lemma Forall_snoc {A} (P : A -> Prop) l x : Forall P l -> P x -> Forall P (l ++ [x]).
Proof. intros Hl Hx. apply Forall_app. split; [exact Hl|constructor; [exact Hx|constructor]]. Qed.

Lemma append_refines s a i f0 :
  Inv s a -> hyp_ok a (OAppend i f0) = true ->
  fst (append s i f0) = fst (a_append a i f0) /\
  Inv (snd (append s i f0)) (snd (a_append a i f0)).
Proof.
  intros HI Hh. cbn [hyp_ok] in Hh.
  apply andb_true_iff in Hh. destruct Hh as [Hh Hmax].
  apply andb_true_iff in Hh. destruct Hh as [Hid Hfr].
  unfold id_ok in Hid. apply N.ltb_lt in Hid.
  apply negb_true_iff, N.eqb_neq in Hmax.
  assert (Hg0 : get s i = None).
  { rewrite (get_spec _ _ _ HI Hid). apply fresh_find; exact Hfr. }
  unfold append, a_append. cbn [f_id f_ctx f_topic f_hash f_meta f_ttl].
  destruct (is_ctx_topic (f_topic f0)) eqn:Hc; cbn [andb negb].
  - destruct (f_ctx f0 =? 0) eqn:Hz; cbn [negb].
    + cbn [f_topic f_ttl f_ctx f_id]. rewrite (ctx_topic_nonul _ Hc).
      unfold insert_frame, insert_frame_gen. cbn [f_topic f_ttl f_ctx f_id].
      rewrite (ctx_topic_nonul _ Hc).
      rewrite drop_old_fresh by exact Hg0.
      cbn [fst snd s_stream s_itopic s_ictx s_ctxs s_gcq s_now s_bcast andb].
      split; [reflexivity|].
      set (f := mkFrame i (f_ctx f0) (f_topic f0) (f_hash f0) (f_meta f0) (Some Forever)).
      assert (Hr : registers f = true).
      { unfold registers, f. cbn [f_topic f_ctx]. rewrite Hc, Hz. reflexivity. }
      rewrite Hr, (inv_gcq _ _ HI), (inv_bcast _ _ HI).
      apply (append_insert_inv s a f); try assumption.
      * apply N.eqb_eq in Hz. split; [exact Hid|split].
        -- unfold f. cbn [f_ctx]. rewrite Hz. exact max128_pos.
        -- unfold f. cbn [f_topic]. apply ctx_topic_nonul; exact Hc.
      * intros _. reflexivity.
      * intros c. rewrite Hr, !mem_set_add. unfold f. cbn [f_id andb].
        destruct (c =? i); reflexivity.
      * exact (inv_gcq_ok _ _ HI).
    + split; [reflexivity|exact HI].
  - rewrite <- (inv_ctxs _ _ HI). destruct (mem (f_ctx f0) (s_ctxs s)) eqn:Hm; cbn [negb].
    + cbn [f_topic f_ttl f_ctx f_id].
      destruct (has_nul (f_topic f0)) eqn:Hn.
      * split; [reflexivity|apply Inv_eta; exact HI].
      * assert (Hcb : f_ctx f0 < max128).
        { apply lt_two128_max128; [|exact Hmax].
          apply (reg_ctx_bound s a); [exact HI|]. rewrite <- (inv_ctxs _ _ HI). exact Hm. }
        assert (Hr : forall t, registers (mkFrame i (f_ctx f0) (f_topic f0) (f_hash f0) (f_meta f0) t) = false).
        { intros t. unfold registers. cbn [f_topic f_ctx]. rewrite Hc. reflexivity. }
        assert (Hfok : forall t, frame_ok (mkFrame i (f_ctx f0) (f_topic f0) (f_hash f0) (f_meta f0) t)).
        { intros t. split; [exact Hid|split; [exact Hcb|exact Hn]]. }
        destruct (f_ttl f0) as [[| |ms|n]|] eqn:Ht;
          unfold insert_frame, insert_frame_gen; cbn [f_topic f_ttl f_ctx f_id];
          try rewrite Hn;
          try (rewrite drop_old_fresh by exact Hg0);
          cbn [fst snd s_stream s_itopic s_ictx s_ctxs s_gcq s_now s_bcast andb];
          (split; [reflexivity|]);
          try rewrite Hr; rewrite (inv_gcq _ _ HI), (inv_bcast _ _ HI).
        2: { apply Inv_bcast; [exact HI|exact (inv_gcq_ok _ _ HI)]. }
        all: match goal with
             | |- Inv (mkStore (kv_put _ ?f _) _ _ _ _ _ _) _ =>
                 apply (append_insert_inv s a f);
                 [exact HI | apply Hfok | exact Hfr | rewrite Hr; discriminate
                 | intros c; rewrite Hr; reflexivity | ]
             end.
        all: try exact (inv_gcq_ok _ _ HI).
        apply Forall_snoc; [exact (inv_gcq_ok _ _ HI)|].
        cbn [task_ok f_ctx f_topic]. split; assumption.
    + split; [reflexivity|exact HI].
Qed.

Theorem refines_append : forall i f, refines_op (OAppend i f).
Proof.
  intros i f s a HI Hh. destruct (append_refines s a i f HI Hh) as [H1 H2].
  cbn [step a_step]. destruct (append s i f) as [r s'], (a_append a i f) as [r' a'].
  cbn [fst snd] in *. split; [congruence|exact H2].
Qed.

(* ------------------------------------------------------------------------ *)
(* 6. remove *)

(* [Store.remove] drops the removed id from the registry whenever the topic is
   xs.context, even when that id is 0 -- but 0 is always a usable context in the
   spec.  The refinement of remove (and of the GC) therefore needs: no live
   xs.context frame has id 0.  See [refines_remove_false] below. *)
Definition zero_safe (l : list frame) : Prop :=
  Forall (fun f => is_ctx_topic (f_topic f) = true -> f_id f <> 0) l.

Lemma zero_safe_incl l l' : zero_safe l -> (forall g, In g l' -> In g l) -> zero_safe l'.
Proof.
  unfold zero_safe. rewrite !Forall_forall. intros H Hi g Hg. apply H. apply Hi. exact Hg.
Qed.

Lemma ids_nonzero_zero_safe l : Forall (fun f => f_id f <> 0) l -> zero_safe l.
Proof. apply Forall_impl. intros f H _. exact H. Qed.

Lemma a_ctxs_delete l f c :
  StronglySorted id_lt l -> In f l ->
  (is_ctx_topic (f_topic f) = true -> f_id f <> 0) ->
  mem c (a_ctxs (a_delete (f_id f) l)) =
  if is_ctx_topic (f_topic f) then negb (f_id f =? c) && mem c (a_ctxs l)
  else mem c (a_ctxs l).
Proof.
  intros Hs Hf Hz. apply eq_iff_eq_true. destruct (is_ctx_topic (f_topic f)) eqn:Hc.
  - rewrite andb_true_iff, negb_true_iff, N.eqb_neq, !a_ctxs_mem. split.
    + intros [H0|(g & Hg & Hr & E)].
      * split; [subst c; auto|left; exact H0].
      * apply a_delete_In in Hg. destruct Hg as [Hg Hn].
        split; [congruence|right; exists g; auto].
    + intros [Hne [H0|(g & Hg & Hr & E)]]; [left; exact H0|].
      right. exists g. split; [apply a_delete_In; split; [exact Hg|congruence]|auto].
  - rewrite !a_ctxs_mem. split.
    + intros [H0|(g & Hg & Hr & E)]; [left; exact H0|].
      apply a_delete_In in Hg. right. exists g. tauto.
    + intros [H0|(g & Hg & Hr & E)]; [left; exact H0|].
      right. exists g. split; [|auto]. apply a_delete_In. split; [exact Hg|].
      intros Ei. assert (g = f) by (eapply sorted_id_unique; eauto). subst g.
      unfold registers in Hr. rewrite Hc in Hr. discriminate.
Qed.

Lemma remove_inv s a i :
  Inv s a -> i < two128 ->
  (forall f, In f (a_live a) -> f_id f = i -> is_ctx_topic (f_topic f) = true -> i <> 0) ->
  fst (remove s i) = Ok tt /\ Inv (snd (remove s i)) (a_remove_live i a).
Proof.
  intros HI Hi Hz. unfold remove. rewrite (get_spec _ _ _ HI Hi). unfold a_get.
  destruct (find (fun g => f_id g =? i) (a_live a)) as [f|] eqn:Hfind.
  - apply find_id_In in Hfind. destruct Hfind as [Hf Ei]. subst i.
    pose proof (inv_ok _ _ HI) as Hok. rewrite Forall_forall in Hok.
    destruct (Hok f Hf) as (Hfi & Hfc & Hfn).
    rewrite Hfn. cbn [fst snd]. split; [reflexivity|].
    unfold a_remove_live. pose proof (Inv_bounded _ _ HI) as Hbd.
    pose proof HI as [Hs _ Hst Hts Ht Hcs Hc Hx Hp Hq Hqo Hn Hb].
    constructor; cbn [a_live a_gcq a_now a_bcast s_stream s_itopic s_ictx s_ctxs s_gcq s_now s_bcast].
    + apply SS_filter; exact Hs.
    + apply Forall_filter. exact (inv_ok _ _ HI).
    + rewrite Hst. apply stream_del; assumption.
    + apply kv_del_sorted; exact Hts.
    + intros k. rewrite kv_del_keys, Ht. split.
      * intros [Hne (g & Hg & ->)]. exists g. split; [|reflexivity].
        apply a_delete_In. split; [exact Hg|]. intros Eg. apply Hne.
        assert (g = f) by (eapply sorted_id_unique; eauto). subst g. reflexivity.
      * intros (g & Hg & ->). apply a_delete_In in Hg. destruct Hg as [Hg Hne].
        split; [|exists g; auto]. intros E.
        destruct (Hok g Hg) as (_ & _ & Hgn).
        apply tkey_inj in E; try assumption; try (apply frame_ok_idok; auto).
        destruct E as [E _]. congruence.
    + apply kv_del_sorted; exact Hcs.
    + intros k. rewrite kv_del_keys, Hc. split.
      * intros [Hne (g & Hg & ->)]. exists g. split; [|reflexivity].
        apply a_delete_In. split; [exact Hg|]. intros Eg. apply Hne.
        assert (g = f) by (eapply sorted_id_unique; eauto). subst g. reflexivity.
      * intros (g & Hg & ->). apply a_delete_In in Hg. destruct Hg as [Hg Hne].
        split; [|exists g; auto]. intros E.
        apply ckey_inj in E; try (apply frame_ok_idok; auto).
        destruct E as [E _]. congruence.
    + intros c. rewrite (a_ctxs_delete _ _ c Hs Hf) by (intros Hct; apply (Hz f Hf eq_refl Hct)).
      destruct (is_ctx_topic (f_topic f)); [|apply Hx].
      rewrite mem_set_del, Hx. reflexivity.
    + apply Forall_filter. exact Hp.
    + exact Hq.
    + exact Hqo.
    + exact Hn.
    + exact Hb.
  - cbn [fst snd]. split; [reflexivity|]. unfold a_remove_live.
    rewrite a_delete_absent by (apply find_id_none; exact Hfind). destruct a; exact HI.
Qed.

Lemma zero_safe_hyp l i :
  zero_safe l ->
  forall f, In f l -> f_id f = i -> is_ctx_topic (f_topic f) = true -> i <> 0.
Proof.
  unfold zero_safe. rewrite Forall_forall. intros H f Hf <- Hc. auto.
Qed.

(* the statement that holds: *)
Theorem refines_remove_z : forall i s a,
  Inv s a -> zero_safe (a_live a) -> hyp_ok a (ORemove i) = true ->
  fst (step s (ORemove i)) = fst (a_step a (ORemove i)) /\
  Inv (snd (step s (ORemove i))) (snd (a_step a (ORemove i))).
Proof.
  intros i s a HI Hz Hh. cbn [hyp_ok] in Hh. unfold id_ok in Hh. apply N.ltb_lt in Hh.
  destruct (remove_inv s a i HI Hh (zero_safe_hyp _ i Hz)) as [H1 H2].
  cbn [step a_step]. destruct (remove s i) as [r s']. cbn [fst snd] in *.
  split; [congruence|exact H2].
Qed.

Theorem refines_remove_nz : forall i, i <> 0 -> refines_op (ORemove i).
Proof.
  intros i Hnz s a HI Hh. cbn [hyp_ok] in Hh. unfold id_ok in Hh. apply N.ltb_lt in Hh.
  destruct (remove_inv s a i HI Hh (fun _ _ _ _ => Hnz)) as [H1 H2].
  cbn [step a_step]. destruct (remove s i) as [r s']. cbn [fst snd] in *.
  split; [congruence|exact H2].
Qed.

(* machine-checked counterexample to the statement as given *)
Theorem refines_remove_false : ~ refines_op (ORemove 0).
Proof.
  intros H.
  pose (f0 := mkFrame 0 0 xs_context None None None).
  destruct (refines_append 0 f0 _ _ (inv_init 0) eq_refl) as [_ HI1].
  destruct (H _ _ HI1 eq_refl) as [_ HI2].
  pose proof (inv_ctxs _ _ HI2 0) as E. vm_compute in E. discriminate.
Qed.

(* import: the same three shapes as remove.  [Store.drop_old] deletes the id of an overwritten
   zero-context xs.context frame from the registry even when that id is 0. *)
Theorem refines_import_zs : forall f s a,
  Inv s a -> zero_safe (a_live a) -> hyp_ok a (OImport f) = true ->
  fst (step s (OImport f)) = fst (a_step a (OImport f)) /\
  Inv (snd (step s (OImport f))) (snd (a_step a (OImport f))).
Proof.
  intros f s a HI Hz Hh. apply import_refines; [exact HI|exact Hh|].
  intros old Ho Eo Hr. apply (zero_safe_hyp _ _ Hz old Ho Eo).
  unfold registers in Hr. apply andb_true_iff in Hr. exact (proj1 Hr).
Qed.

Theorem refines_import_nz : forall f, f_id f <> 0 -> refines_op (OImport f).
Proof. intros f Hnz s a HI Hh. apply import_refines; [exact HI|exact Hh|]. intros _ _ _ _. exact Hnz. Qed.

(* machine-checked counterexample to [forall f, refines_op (OImport f)]: an xs.context frame
   with id 0 is live in context 0; importing id 0 again under another topic unregisters 0 *)
Theorem refines_import_false :
  ~ refines_op (OImport (mkFrame 0 0 [97] None None None)).
Proof.
  intros H.
  pose (f0 := mkFrame 0 0 xs_context None None None).
  destruct (refines_append 0 f0 _ _ (inv_init 0) eq_refl) as [_ HI1].
  destruct (H _ _ HI1 eq_refl) as [_ HI2].
  pose proof (inv_ctxs _ _ HI2 0) as E. vm_compute in E. discriminate.
Qed.

(* ------------------------------------------------------------------------ *)
(* 7. set_now *)

Theorem refines_setnow : forall n, refines_op (OSetNow n).
Proof.
  intros n s a [Hs Hok Hst Hts Ht Hcs Hc Hx Hp Hq Hqo Hn Hb] _.
  cbn [step a_step fst snd]. split; [reflexivity|]. unfold set_now.
  constructor; cbn [a_live a_gcq a_now a_bcast s_stream s_itopic s_ictx s_ctxs s_gcq s_now s_bcast];
    try assumption; reflexivity.
Qed.

(* ------------------------------------------------------------------------ *)
(* 8. the topic index: ids under one prefix = ids of the live frames of (c, t) *)

Lemma same_topic_true c t g : same_topic c t g = true <-> f_ctx g = c /\ f_topic g = t.
Proof. unfold same_topic. rewrite andb_true_iff, N.eqb_eq, bytes_eqb_eq. reflexivity. Qed.

Lemma topic_ids s a c t :
  Inv s a -> c < two128 -> has_nul t = false ->
  map (fun e => of_be (last16 (fst e))) (kv_prefix (tprefix c t) (s_itopic s))
  = map f_id (filter (same_topic c t) (a_live a)).
Proof.
  intros HI Hc Ht.
  pose proof (inv_ok _ _ HI) as Hok. rewrite Forall_forall in Hok.
  apply SS_lt_unique.
  - apply SS_map with (R := key_lt).
    + apply SS_filter. exact (inv_itopic_sorted _ _ HI).
    + intros x y Hx Hy Hxy. unfold kv_prefix in Hx, Hy. apply filter_In in Hx, Hy.
      destruct Hx as [Hx Px], Hy as [Hy Py].
      apply (in_map fst) in Hx, Hy. apply (inv_itopic _ _ HI) in Hx, Hy.
      destruct Hx as (f & Hf & Ex), Hy as (g & Hg & Ey).
      unfold key_lt in Hxy. rewrite Ex in *. rewrite Ey in *.
      pose proof (Hok f Hf) as Hfo. pose proof (Hok g Hg) as Hgo.
      pose proof (frame_ok_idok _ Hfo) as If. pose proof (frame_ok_idok _ Hgo) as Ig.
      destruct Hfo as (Hfi & _ & Hfn), Hgo as (Hgi & _ & Hgn).
      apply (tprefix_exact c t f Hc (proj2 If) Ht Hfn) in Px.
      apply (tprefix_exact c t g Hc (proj2 Ig) Ht Hgn) in Py.
      destruct Px as [Pc Pt], Py as [Qc Qt].
      rewrite (id_of_tkey f Hfi), (id_of_tkey g Hgi).
      rewrite (tkey_ltb_same f g If Ig) in Hxy by congruence.
      apply N.ltb_lt. exact Hxy.
  - apply SS_map with (R := id_lt).
    + apply SS_filter. exact (inv_sorted _ _ HI).
    + intros x y _ _ H. exact H.
  - intros n. rewrite !in_map_iff. split.
    + intros (e & <- & He). unfold kv_prefix in He. apply filter_In in He.
      destruct He as [He Pe]. apply (in_map fst) in He. apply (inv_itopic _ _ HI) in He.
      destruct He as (f & Hf & Ee). rewrite Ee in *.
      pose proof (Hok f Hf) as Hfo. pose proof (frame_ok_idok _ Hfo) as If.
      destruct Hfo as (Hfi & _ & Hfn).
      apply (tprefix_exact c t f Hc (proj2 If) Ht Hfn) in Pe.
      exists f. split; [symmetry; apply id_of_tkey; exact Hfi|].
      apply filter_In. split; [exact Hf|apply same_topic_true; exact Pe].
    + intros (f & <- & Hf). apply filter_In in Hf. destruct Hf as [Hf Pf].
      apply same_topic_true in Pf.
      pose proof (Hok f Hf) as Hfo. pose proof (frame_ok_idok _ Hfo) as If.
      destruct Hfo as (Hfi & _ & Hfn).
      assert (Hk : In (tkey f) (map fst (s_itopic s))).
      { apply (inv_itopic _ _ HI). exists f. auto. }
      apply in_map_iff in Hk. destruct Hk as (e & Ee & He).
      exists e. split; [rewrite Ee; apply id_of_tkey; exact Hfi|].
      unfold kv_prefix. apply filter_In. split; [exact He|]. rewrite Ee.
      apply (tprefix_exact c t f Hc (proj2 If) Ht Hfn). exact Pf.
Qed.

(* ------------------------------------------------------------------------ *)
(* 9. head *)

Lemma head_unguarded_spec s a t c :
  Inv s a -> c < two128 -> has_nul t = false -> head_unguarded s t c = a_head a t c.
Proof.
  intros HI Hc Ht. unfold head_unguarded, a_head.
  transitivity (find_map (get s)
                  (map (fun e : bytes * unit => of_be (last16 (fst e)))
                       (rev (kv_prefix (tprefix c t) (s_itopic s))))).
  { apply (find_map_map (fun e : bytes * unit => of_be (last16 (fst e))) (get s)). }
  rewrite map_rev, (topic_ids s a c t HI Hc Ht).
  assert (HF : forall g, In g (filter (same_topic c t) (a_live a)) -> get s (f_id g) = Some g).
  { intros g Hg. apply filter_In in Hg. destruct Hg as [Hg _].
    pose proof (Inv_bounded _ _ HI) as Hb. rewrite Forall_forall in Hb.
    rewrite (get_spec s a _ HI (Hb g Hg)). unfold a_get.
    apply find_id_sorted; [exact (inv_sorted _ _ HI)|exact Hg]. }
  revert HF. generalize (filter (same_topic c t) (a_live a)). intros F.
  induction F as [|x F IH] using rev_ind; intros HF.
  - reflexivity.
  - rewrite !map_app, rev_app_distr. cbn [map rev app find_map].
    rewrite HF by (apply in_or_app; right; left; reflexivity).
    rewrite last_last. reflexivity.
Qed.

(* no live frame has a NUL in its topic: the spec answers None for such a query *)
Lemma a_head_nul a t c : Forall frame_ok (a_live a) -> has_nul t = true -> a_head a t c = None.
Proof.
  intros Hok Ht. unfold a_head.
  assert (E : filter (same_topic c t) (a_live a) = []).
  { induction (a_live a) as [|g l IH]; [reflexivity|].
    inversion Hok as [|? ? Hg Hl]; subst. cbn [filter].
    destruct (same_topic c t g) eqn:Es.
    - apply same_topic_true in Es. destruct Es as [_ Et].
      destruct Hg as (_ & _ & Hn). rewrite Et in Hn. congruence.
    - apply IH; exact Hl. }
  rewrite E. reflexivity.
Qed.

Lemma head_spec s a t c :
  Inv s a -> c < two128 -> head s t c = a_head a t c.
Proof.
  intros HI Hc. unfold head. destruct (has_nul t) eqn:Ht.
  - symmetry. apply a_head_nul; [exact (inv_ok _ _ HI)|exact Ht].
  - apply head_unguarded_spec; assumption.
Qed.

Theorem refines_head : forall t c, refines_op (OHead t c).
Proof.
  intros t c s a HI Hh. cbn [hyp_ok] in Hh.
  unfold id_ok in Hh. apply N.ltb_lt in Hh.
  cbn [step a_step fst snd]. split; [|exact HI].
  f_equal. apply head_spec; assumption.
Qed.

(* ------------------------------------------------------------------------ *)
(* 10. the GC worker *)

Lemma In_skipn {A} (x : A) n l : In x (skipn n l) -> In x l.
Proof.
  intros H. rewrite <- (firstn_skipn n l). apply in_or_app. right. exact H.
Qed.

Lemma Inv_set_gcq s a q :
  Inv s a -> Forall task_ok q ->
  Inv (mkStore (s_stream s) (s_itopic s) (s_ictx s) (s_ctxs s) q (s_now s) (s_bcast s))
      (mkA (a_live a) q (a_now a) (a_bcast a)).
Proof.
  intros HI Hq. rewrite <- (inv_bcast _ _ HI). apply Inv_bcast; assumption.
Qed.

Lemma fold_remove_inv ids : forall s a,
  Inv s a -> zero_safe (a_live a) -> Forall (fun i => i < two128) ids ->
  Inv (fold_left (fun s i => snd (remove s i)) ids s)
      (mkA (filter (fun g => negb (mem (f_id g) ids)) (a_live a))
           (a_gcq a) (a_now a) (a_bcast a)).
Proof.
  induction ids as [|i r IH]; intros s a HI Hz Hb; cbn [fold_left].
  - rewrite filter_all by (intros; reflexivity). destruct a; exact HI.
  - apply Forall_cons_iff in Hb. destruct Hb as [Hi Hr].
    destruct (remove_inv s a i HI Hi (zero_safe_hyp _ i Hz)) as [_ HI'].
    assert (Hz' : zero_safe (a_live (a_remove_live i a))).
    { eapply zero_safe_incl; [exact Hz|]. intros g Hg. unfold a_remove_live in Hg.
      cbn [a_live] in Hg. apply a_delete_In in Hg. tauto. }
    specialize (IH _ _ HI' Hz' Hr).
    unfold a_remove_live, a_delete in IH. cbn [a_live a_gcq a_now a_bcast] in IH.
    rewrite filter_filter in IH.
    erewrite filter_ext; [exact IH|]. intros g. cbv beta.
    unfold mem. cbn [existsb]. rewrite negb_orb. reflexivity.
Qed.

Lemma run_task_inv s a t :
  Inv s a -> zero_safe (a_live a) -> task_ok t -> Inv (run_task s t) (a_run_task a t).
Proof.
  intros HI Hz Ht. destruct t as [i|c t k]; cbn [run_task a_run_task task_ok] in *.
  - apply remove_inv; [exact HI|exact Ht|apply zero_safe_hyp; exact Hz].
  - destruct Ht as [Hc Hn]. pose proof max128_lt as HM.
    assert (Hc' : c < two128) by lia.
    rewrite map_skipn, map_rev, (topic_ids s a c t HI Hc' Hn), <- map_rev, <- map_skipn.
    unfold a_check_head. apply fold_remove_inv; [exact HI|exact Hz|].
    apply Forall_forall. intros n Hin. apply in_map_iff in Hin.
    destruct Hin as (g & <- & Hg). apply In_skipn, in_rev, filter_In in Hg.
    pose proof (Inv_bounded _ _ HI) as Hb. rewrite Forall_forall in Hb. apply Hb. tauto.
Qed.

Lemma a_run_task_live a t g : In g (a_live (a_run_task a t)) -> In g (a_live a).
Proof.
  destruct t as [i|c t k]; cbn [a_run_task a_remove_live a_live]; intros H.
  - apply a_delete_In in H. tauto.
  - unfold a_check_head in H. apply filter_In in H. tauto.
Qed.

Lemma a_run_task_gcq a t : a_gcq (a_run_task a t) = a_gcq a.
Proof. destruct t; reflexivity. Qed.

Lemma zero_safe_run_task a t :
  zero_safe (a_live a) -> zero_safe (a_live (a_run_task a t)).
Proof. intros H. eapply zero_safe_incl; [exact H|]. apply a_run_task_live. Qed.

Theorem refines_gcstep_z : forall s a,
  Inv s a -> zero_safe (a_live a) -> hyp_ok a OGcStep = true ->
  fst (step s OGcStep) = fst (a_step a OGcStep) /\
  Inv (snd (step s OGcStep)) (snd (a_step a OGcStep)).
Proof.
  intros s a HI Hz _. cbn [step a_step fst snd]. split; [reflexivity|].
  unfold gc_step, a_gc_step. rewrite (inv_gcq _ _ HI).
  pose proof (inv_gcq_ok _ _ HI) as Hq.
  destruct (a_gcq a) as [|t q]; [exact HI|].
  apply Forall_cons_iff in Hq. destruct Hq as [Ht Hq].
  apply run_task_inv; [apply Inv_set_gcq; assumption|exact Hz|exact Ht].
Qed.

Lemma fold_run_inv q : forall s a,
  Inv s a -> zero_safe (a_live a) -> Forall task_ok q ->
  Inv (fold_left run_task q s) (fold_left a_run_task q a).
Proof.
  induction q as [|t q IH]; intros s a HI Hz Hq; cbn [fold_left]; [exact HI|].
  apply Forall_cons_iff in Hq. destruct Hq as [Ht Hq].
  apply IH; [apply run_task_inv; assumption|apply zero_safe_run_task; exact Hz|exact Hq].
Qed.

Theorem refines_drain_z : forall s a,
  Inv s a -> zero_safe (a_live a) -> hyp_ok a ODrain = true ->
  fst (step s ODrain) = fst (a_step a ODrain) /\
  Inv (snd (step s ODrain)) (snd (a_step a ODrain)).
Proof.
  intros s a HI Hz _. cbn [step a_step fst snd]. split; [reflexivity|].
  unfold drain, a_drain. rewrite (inv_gcq _ _ HI).
  apply fold_run_inv; [apply Inv_set_gcq; [exact HI|constructor]|exact Hz|].
  exact (inv_gcq_ok _ _ HI).
Qed.

(* machine-checked counterexamples to OGcStep / ODrain as given: import a frame
   with id 0, topic xs.context, a non-zero context and ttl time:0 (all allowed
   by [hyp_ok]); a read enqueues [GcRemove 0] for it; running that task drops
   context 0 from the registry. *)
Lemma gc_cex_state :
  exists s a, Inv s a /\ s_ctxs s = [0] /\ s_gcq s = [GcRemove 0] /\
              a_live a = [mkFrame 0 5 xs_context None None (Some (Time 0))].
Proof.
  pose (f1 := mkFrame 0 5 xs_context None None (Some (Time 0))).
  destruct (refines_import_zs f1 _ _ (inv_init 0) (Forall_nil _) eq_refl) as [_ HI1].
  assert (Hq : Forall task_ok [GcRemove 0]).
  { constructor; [|constructor]. cbn [task_ok]. pose proof max128_pos. pose proof max128_lt. lia. }
  pose proof (Inv_set_gcq _ _ _ HI1 Hq) as HI2.
  eexists. eexists. split; [exact HI2|]. vm_compute. auto.
Qed.

Theorem refines_gcstep_false : ~ refines_op OGcStep.
Proof.
  intros H. destruct gc_cex_state as (s & a & HI & Hc & Hq & Hl).
  destruct (H s a HI eq_refl) as [_ HI'].
  pose proof (inv_ctxs _ _ HI' 0) as E. cbn [step a_step snd] in E.
  unfold gc_step, a_gc_step in E. rewrite <- (inv_gcq _ _ HI), Hq in E.
  cbn [run_task a_run_task a_remove_live a_live] in E. rewrite Hl in E.
  unfold remove, get in E. cbn [s_stream] in E. rewrite (inv_stream _ _ HI), Hl in E.
  cbn [s_ctxs] in E. rewrite Hc in E. vm_compute in E. discriminate.
Qed.

Theorem refines_drain_false : ~ refines_op ODrain.
Proof.
  intros H. destruct gc_cex_state as (s & a & HI & Hc & Hq & Hl).
  destruct (H s a HI eq_refl) as [_ HI'].
  pose proof (inv_ctxs _ _ HI' 0) as E. cbn [step a_step snd] in E.
  unfold drain, a_drain in E. rewrite <- (inv_gcq _ _ HI), Hq in E.
  cbn [fold_left run_task a_run_task a_remove_live a_live] in E. rewrite Hl in E.
  unfold remove, get in E. cbn [s_stream] in E. rewrite (inv_stream _ _ HI), Hl in E.
  cbn [s_ctxs] in E. rewrite Hc in E. vm_compute in E. discriminate.
Qed.

(* ------------------------------------------------------------------------ *)
(* 11. [zero_safe] is preserved by every operation, provided new ids are not 0
   (only needed when the topic is xs.context); so it can be conjoined to [Inv] *)

Definition hyp_nz (o : op) : Prop :=
  match o with
  | OAppend i f => is_ctx_topic (f_topic f) = true -> i <> 0
  | OImport f => is_ctx_topic (f_topic f) = true -> f_id f <> 0
  | _ => True
  end.

Lemma a_read_sync_live a l lim c : a_live (snd (a_read_sync a l lim c)) = a_live a.
Proof. unfold a_read_sync. destruct (rs_loop _ _ _). reflexivity. Qed.

Lemma a_read_hist_live a l lim c : a_live (snd (a_read_hist a l lim c)) = a_live a.
Proof. unfold a_read_hist. destruct (rh_loop _ _ _). reflexivity. Qed.

Lemma zero_safe_fold_run q : forall a,
  zero_safe (a_live a) -> zero_safe (a_live (fold_left a_run_task q a)).
Proof.
  induction q as [|t q IH]; intros a H; cbn [fold_left]; [exact H|].
  apply IH. apply zero_safe_run_task. exact H.
Qed.

Theorem zero_safe_step o a :
  zero_safe (a_live a) -> hyp_nz o -> zero_safe (a_live (snd (a_step a o))).
Proof.
  intros Hz Hn. destruct o as [i f|f|i|n| | | |l lim c|l lim c|i|t c]; cbn [a_step hyp_nz] in *.
  - unfold a_append.
    destruct (is_ctx_topic (f_topic f)) eqn:Hc; cbn [andb negb].
    + destruct (f_ctx f =? 0); cbn [negb snd]; [|exact Hz].
      rewrite (ctx_topic_nonul _ Hc). cbn [f_ttl snd a_live].
      apply a_insert_Forall; [|exact Hz]. cbn [f_id]. intros _. auto.
    + destruct (mem (f_ctx f) (a_ctxs (a_live a))); cbn [negb snd]; [|exact Hz].
      destruct (has_nul (f_topic f)); cbn [snd]; [exact Hz|].
      cbn [f_ttl]. destruct (f_ttl f) as [[| |ms|n]|]; cbn [snd a_live]; try exact Hz;
        (apply a_insert_Forall; [|exact Hz]); cbn [f_topic]; rewrite Hc; discriminate.
  - unfold a_import. destruct (has_nul (f_topic f)); cbn [snd a_live]; [exact Hz|].
    apply a_insert_Forall; assumption.
  - cbn [snd a_remove_live a_live]. eapply zero_safe_incl; [exact Hz|].
    intros g Hg. apply a_delete_In in Hg. tauto.
  - exact Hz.
  - cbn [snd]. unfold a_gc_step. destruct (a_gcq a) as [|t q]; [exact Hz|].
    apply zero_safe_run_task. exact Hz.
  - cbn [snd]. unfold a_drain. apply zero_safe_fold_run. exact Hz.
  - cbn [snd]. unfold a_reopen. rewrite a_read_sync_live. exact Hz.
  - pose proof (a_read_sync_live a l lim c) as E.
    destruct (a_read_sync a l lim c) as [fs a']. cbn [snd] in *. rewrite E. exact Hz.
  - pose proof (a_read_hist_live a l lim c) as E.
    destruct (a_read_hist a l lim c) as [fs a']. cbn [snd] in *. rewrite E. exact Hz.
  - exact Hz.
  - exact Hz.
Qed.

(* all seven operations of this file in one statement, over the strengthened
   invariant [Inv s a /\ zero_safe (a_live a)] *)
Definition InvZ (s : store) (a : astore) : Prop := Inv s a /\ zero_safe (a_live a).

Definition refines_op_z (o : op) : Prop :=
  forall s a, InvZ s a -> hyp_ok a o = true -> hyp_nz o ->
    fst (step s o) = fst (a_step a o) /\ InvZ (snd (step s o)) (snd (a_step a o)).

Lemma refines_op_lift o : refines_op o -> refines_op_z o.
Proof.
  intros H s a [HI Hz] Hh Hn. destruct (H s a HI Hh) as [H1 H2].
  split; [exact H1|split; [exact H2|apply zero_safe_step; assumption]].
Qed.

Theorem refines_append_z : forall i f, refines_op_z (OAppend i f).
Proof. intros. apply refines_op_lift, refines_append. Qed.
Theorem refines_import_z : forall f, refines_op_z (OImport f).
Proof.
  intros f s a [HI Hz] Hh Hn. destruct (refines_import_zs f s a HI Hz Hh) as [H1 H2].
  split; [exact H1|split; [exact H2|apply zero_safe_step; assumption]].
Qed.
Theorem refines_setnow_z : forall n, refines_op_z (OSetNow n).
Proof. intros. apply refines_op_lift, refines_setnow. Qed.
Theorem refines_head_z : forall t c, refines_op_z (OHead t c).
Proof. intros. apply refines_op_lift, refines_head. Qed.
Theorem refines_remove_zz : forall i, refines_op_z (ORemove i).
Proof.
  intros i s a [HI Hz] Hh Hn. destruct (refines_remove_z i s a HI Hz Hh) as [H1 H2].
  split; [exact H1|split; [exact H2|apply zero_safe_step; assumption]].
Qed.
Theorem refines_gcstep_zz : refines_op_z OGcStep.
Proof.
  intros s a [HI Hz] Hh Hn. destruct (refines_gcstep_z s a HI Hz Hh) as [H1 H2].
  split; [exact H1|split; [exact H2|apply zero_safe_step; assumption]].
Qed.
Theorem refines_drain_zz : refines_op_z ODrain.
Proof.
  intros s a [HI Hz] Hh Hn. destruct (refines_drain_z s a HI Hz Hh) as [H1 H2].
  split; [exact H1|split; [exact H2|apply zero_safe_step; assumption]].
Qed.

Lemma invz_init now : InvZ (empty_store now) (a_empty now).
Proof. split; [apply inv_init|constructor]. Qed.

(* ------------------------------------------------------------------------ *)
(* 12. overwriting import = remove the old frame, then insert as a fresh id (at the level of the
   sorted lists); the pinned code, which left the old index entries behind, is refuted *)

Lemma kv_del_above {V} k (l : kv V) :
  Forall (fun e => lex_ltb k (fst e) = true) l -> kv_del k l = l.
Proof.
  intros H. unfold kv_del. apply filter_all. intros e He.
  rewrite Forall_forall in H. apply H in He. apply negb_true_iff, bytes_eqb_neq.
  apply lex_ltb_neq. exact He.
Qed.

Lemma kv_put_del {V} k (v : V) l :
  StronglySorted key_lt l -> kv_put k v (kv_del k l) = kv_put k v l.
Proof.
  induction 1 as [|[k' v'] r Hs IH Hf]; [reflexivity|].
  unfold key_lt in Hf. cbn [fst] in Hf.
  change (kv_del k ((k', v') :: r))
    with (if negb (bytes_eqb k k') then (k', v') :: kv_del k r else kv_del k r).
  cbn [kv_put]. destruct (bytes_eqb k k') eqn:He; cbn [negb].
  - apply bytes_eqb_eq in He. subst k'. rewrite lex_ltb_irrefl.
    rewrite (kv_del_above k r Hf).
    destruct r as [|[k2 v2] r2]; [reflexivity|]. cbn [kv_put].
    apply Forall_inv in Hf. cbn [fst] in Hf. rewrite Hf. reflexivity.
  - cbn [kv_put]. rewrite He. destruct (lex_ltb k k') eqn:Hlt.
    + rewrite kv_del_above; [reflexivity|].
      eapply Forall_impl; [|exact Hf]. intros e H. eapply lex_ltb_trans; eassumption.
    + rewrite IH. reflexivity.
Qed.

Lemma a_insert_delete f l :
  StronglySorted id_lt l -> a_insert f (a_delete (f_id f) l) = a_insert f l.
Proof.
  induction 1 as [|x l Hs IH Hf]; [reflexivity|].
  unfold id_lt in Hf.
  change (a_delete (f_id f) (x :: l))
    with (if negb (f_id x =? f_id f) then x :: a_delete (f_id f) l else a_delete (f_id f) l).
  assert (Habove : f_id f <= f_id x -> a_delete (f_id f) l = l).
  { intros Hle. apply a_delete_absent. intros g Hg. rewrite Forall_forall in Hf.
    apply Hf in Hg. lia. }
  cbn [a_insert]. destruct (f_id x =? f_id f) eqn:He; cbn [negb].
  - apply N.eqb_eq in He. rewrite <- He, N.ltb_irrefl, N.eqb_refl.
    rewrite He, Habove by lia.
    destruct l as [|y r]; [reflexivity|]. cbn [a_insert].
    apply Forall_inv in Hf. rewrite <- He.
    destruct (f_id x <? f_id y) eqn:E; [reflexivity|lia].
  - apply N.eqb_neq in He. cbn [a_insert].
    destruct (f_id f <? f_id x) eqn:Hlt.
    + rewrite Habove by lia. reflexivity.
    + destruct (f_id f =? f_id x) eqn:He2; [lia|]. rewrite IH. reflexivity.
Qed.

(* F7 on the pinned code: import id 5 under topic "a", then id 5 again under topic "b".  The
   index entry of the first frame survives, so head of topic "a" answers with a frame of topic
   "b"; the fixed [insert_frame] answers None, as the spec does. *)
Lemma overwrite_leaves_index_refuted :
  exists s f old f',
    get s (f_id f) = Some old /\ f_ctx old = f_ctx f /\ f_topic old <> f_topic f /\
    In (tkey old) (map fst (s_itopic (snd (insert_frame_leaves_index s f)))) /\
    head_unguarded (snd (insert_frame_leaves_index s f)) (f_topic old) (f_ctx old) = Some f' /\
    f_topic f' <> f_topic old /\
    head_unguarded (snd (insert_frame s f)) (f_topic old) (f_ctx old) = None.
Proof.
  pose (f1 := mkFrame 5 0 [97] None None None).
  pose (f2 := mkFrame 5 0 [98] None None None).
  exists (snd (insert_frame_leaves_index (empty_store 0) f1)), f2, f1, f2.
  split; [vm_compute; reflexivity|]. split; [reflexivity|].
  split; [vm_compute; discriminate|].
  split; [vm_compute; left; reflexivity|].
  split; [vm_compute; reflexivity|].
  split; [vm_compute; discriminate|].
  vm_compute; reflexivity.
Qed.

(* ------------------------------------------------------------------------ *)

Print Assumptions refines_append.
Print Assumptions refines_import_zs.
Print Assumptions refines_import_nz.
Print Assumptions refines_import_false.
Print Assumptions refines_import_z.
Print Assumptions refines_setnow.
Print Assumptions refines_head.
Print Assumptions refines_remove_z.
Print Assumptions refines_remove_nz.
Print Assumptions refines_gcstep_z.
Print Assumptions refines_drain_z.
Print Assumptions refines_remove_false.
Print Assumptions refines_gcstep_false.
Print Assumptions refines_drain_false.
Print Assumptions zero_safe_step.
Print Assumptions refines_remove_zz.
Print Assumptions refines_gcstep_zz.
Print Assumptions refines_drain_zz.
Print Assumptions overwrite_leaves_index_refuted.
Print Assumptions kv_put_del.
Print Assumptions a_insert_delete.
