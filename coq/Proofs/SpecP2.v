From XS Require Import Model.Spec Proofs.BytesP Proofs.SpecP.
From Coq Require Import Lia Sorting.Sorted.
From Coq Require Import ZifyN ZifyBool.

(* History-level properties of the ABSTRACT specification machine (Model/Spec.v):
   provenance of live frames (C01), retention / GC-queue provenance (C08),
   collection of expired frames and the head:N bound after a drain (C09). *)

Fixpoint arun (ops : list op) (a : astore) : astore :=
  match ops with [] => a | o :: r => arun r (snd (a_step a o)) end.

Definition after0 (now : N) (ops : list op) : astore := arun ops (a_empty now).

Lemma arun_app ops1 ops2 a : arun (ops1 ++ ops2) a = arun ops2 (arun ops1 a).
Proof.
  revert a. induction ops1 as [|o r IH]; intros a; cbn [app arun]; [reflexivity|apply IH].
Qed.

Lemma arun_snoc ops o a : arun (ops ++ [o]) a = snd (a_step (arun ops a) o).
Proof. rewrite arun_app. reflexivity. Qed.

Lemma arun_sorted ops a : sorted (a_live a) -> sorted (a_live (arun ops a)).
Proof.
  revert a. induction ops as [|o r IH]; intros a S; cbn [arun]; [exact S|].
  apply IH. now apply a_step_sorted.
Qed.

Lemma after0_sorted now ops : sorted (a_live (after0 now ops)).
Proof. apply arun_sorted. constructor. Qed.

(* ---------------------------------------------------------------------------- *)
(* generic facts on the collector *)

Lemma fold_run_task_in q : forall a f,
  In f (a_live (fold_left a_run_task q a)) -> In f (a_live a).
Proof.
  induction q as [|t q IH]; intros a f H; cbn [fold_left] in H; [exact H|].
  apply (a_run_task_in a t). now apply IH.
Qed.

Lemma a_run_task_gcq a t : a_gcq (a_run_task a t) = a_gcq a.
Proof. now destruct t. Qed.

Lemma a_run_task_now a t : a_now (a_run_task a t) = a_now a.
Proof. now destruct t. Qed.

Lemma fold_run_task_gcq q : forall a, a_gcq (fold_left a_run_task q a) = a_gcq a.
Proof.
  induction q as [|t q IH]; intros a; cbn [fold_left]; [reflexivity|].
  now rewrite IH, a_run_task_gcq.
Qed.

Lemma fold_run_task_now q : forall a, a_now (fold_left a_run_task q a) = a_now a.
Proof.
  induction q as [|t q IH]; intros a; cbn [fold_left]; [reflexivity|].
  now rewrite IH, a_run_task_now.
Qed.

Lemma a_drain_gcq a : a_gcq (a_drain a) = [].
Proof. unfold a_drain. now rewrite fold_run_task_gcq. Qed.

Lemma a_drain_now a : a_now (a_drain a) = a_now a.
Proof. unfold a_drain. now rewrite fold_run_task_now. Qed.

Lemma a_drain_in a f : In f (a_live (a_drain a)) -> In f (a_live a).
Proof. unfold a_drain. intros H. now apply fold_run_task_in in H. Qed.

Lemma a_gc_step_in a f : In f (a_live (a_gc_step a)) -> In f (a_live a).
Proof.
  unfold a_gc_step. destruct (a_gcq a) as [|t q]; [auto|].
  intros H. now apply a_run_task_in in H.
Qed.

(* ---------------------------------------------------------------------------- *)
(* G1. provenance of live frames (C01) *)

Lemma step_live_provenance a o f :
  In f (a_live (snd (a_step a o))) ->
  In f (a_live a) \/ o = OImport f \/
  exists i f0 a', o = OAppend i f0 /\ a_append a i f0 = (Ok f, a').
Proof.
  intros H.
  destruct o as [i g|g|i|n| | | |l lim c|l lim c|i|t c];
    try (rewrite a_step_reads_keep_live in H by exact I; now left); cbn [a_step] in H.
  - destruct (a_append a i g) as [r a'] eqn:E. cbn [snd] in H. destruct r as [f'|e].
    + assert (D : f_ttl f' = Some Ephemeral \/ f_ttl f' <> Some Ephemeral).
      { destruct (f_ttl f') as [[]|]; (now left) || (right; congruence). }
      destruct D as [D|D].
      * destruct (a_append_ephemeral _ _ _ _ _ E D) as (L & _). rewrite L in H. now left.
      * destruct (a_append_persistent _ _ _ _ _ E D) as (L & _). rewrite L in H.
        apply a_insert_in_weak in H. destruct H as [H|H]; [|now left].
        subst f'. right. right. now exists i, g, a'.
    + apply a_append_err in E. subst a'. now left.
  - unfold a_import in H. destruct (has_nul (f_topic g)); cbn [snd a_live] in H; [now left|].
    apply a_insert_in_weak in H. destruct H as [H|H]; [|now left].
    subst g. right. now left.
  - cbn [snd a_remove_live a_live] in H. apply a_delete_in in H. left. tauto.
  - cbn [snd] in H. left. now apply a_gc_step_in.
  - cbn [snd] in H. left. now apply a_drain_in.
Qed.

Definition accepted_at (a : astore) (o : op) (f : frame) : Prop :=
  o = OImport f \/ exists i f0 a', o = OAppend i f0 /\ a_append a i f0 = (Ok f, a').

Lemma arun_live_provenance ops : forall a0 f,
  In f (a_live (arun ops a0)) ->
  In f (a_live a0) \/
  exists pre o post, ops = pre ++ o :: post /\
    (o = OImport f \/
     exists i f0 a', o = OAppend i f0 /\ a_append (arun pre a0) i f0 = (Ok f, a')).
Proof.
  induction ops as [|o r IH]; intros a0 f H; cbn [arun] in H; [now left|].
  destruct (IH _ _ H) as [H1|(pre & o' & post & E & H1)].
  - destruct (step_live_provenance _ _ _ H1) as [H2|H2]; [now left|].
    right. exists [], o, r. split; [reflexivity|exact H2].
  - right. exists (o :: pre), o', post. split; [now rewrite E|exact H1].
Qed.

Theorem live_provenance : forall ops now f,
  In f (a_live (after0 now ops)) ->
  exists pre o post, ops = pre ++ o :: post /\
    (o = OImport f \/
     exists i f0 a', o = OAppend i f0 /\ a_append (after0 now pre) i f0 = (Ok f, a')).
Proof.
  intros ops now f H. destruct (arun_live_provenance _ _ _ H) as [[]|H1]. exact H1.
Qed.

(* ---------------------------------------------------------------------------- *)
(* G3. an expired frame met by an unlimited read is physically gone after a drain (C09) *)

Lemma fold_remove_gone q : forall a i,
  In (GcRemove i) q ->
  forall f, In f (a_live (fold_left a_run_task q a)) -> f_id f <> i.
Proof.
  induction q as [|t q IH]; intros a i Hq f Hf; [destruct Hq|].
  cbn [fold_left] in Hf. destruct Hq as [Hq|Hq].
  - subst t. apply fold_run_task_in in Hf.
    cbn [a_run_task a_remove_live a_live] in Hf. apply a_delete_in in Hf. tauto.
  - exact (IH _ i Hq f Hf).
Qed.

Lemma drain_remove_gone a i f :
  In (GcRemove i) (a_gcq a) -> In f (a_live (a_drain a)) -> f_id f <> i.
Proof. unfold a_drain. intros Hq Hf. exact (fold_remove_gone _ _ i Hq f Hf). Qed.

Lemma a_iter_unbounded_in a c f :
  In f (a_live a) -> in_scope c f = true -> In f (a_iter a c None).
Proof.
  intros Hf Sc. unfold a_iter. apply filter_In. split; [exact Hf|].
  rewrite Sc. reflexivity.
Qed.

Theorem expired_collected : forall a c f,
  In f (a_live a) -> in_scope c f = true -> expired (a_now a) f = true ->
  ~ In f (a_live (a_drain (snd (a_read_sync a None None c)))).
Proof.
  intros a c f Hf Sc Ex H.
  refine (drain_remove_gone _ (f_id f) f _ H eq_refl).
  rewrite a_read_sync_snd. cbn [a_enqueue a_gcq]. apply in_or_app. right.
  apply rs_loop_tasks_all; [|exact Ex]. now apply a_iter_unbounded_in.
Qed.

Theorem expired_collected_hist : forall a c f,
  In f (a_live a) -> in_scope c f = true -> expired (a_now a) f = true ->
  ~ In f (a_live (a_drain (snd (a_read_hist a None None c)))).
Proof.
  intros a c f Hf Sc Ex H.
  refine (drain_remove_gone _ (f_id f) f _ H eq_refl).
  rewrite a_read_hist_snd. cbn [a_enqueue a_gcq]. apply in_or_app. right.
  apply rh_loop_tasks_all; [|exact Ex]. now apply a_iter_unbounded_in.
Qed.

(* stronger: no frame with that id is live (not only f itself) *)
Lemma expired_collected_id a c f g :
  In f (a_live a) -> in_scope c f = true -> expired (a_now a) f = true ->
  In g (a_live (a_drain (snd (a_read_sync a None None c)))) -> f_id g <> f_id f.
Proof.
  intros Hf Sc Ex H.
  refine (drain_remove_gone _ (f_id f) g _ H).
  rewrite a_read_sync_snd. cbn [a_enqueue a_gcq]. apply in_or_app. right.
  apply rs_loop_tasks_all; [|exact Ex]. now apply a_iter_unbounded_in.
Qed.

(* ---------------------------------------------------------------------------- *)
(* G2. GC-queue provenance and retention (C08) *)

Lemma step_append_snd a i g : snd (a_step a (OAppend i g)) = snd (a_append a i g).
Proof. cbn [a_step]. now destruct (a_append a i g). Qed.
Lemma step_import_snd a g : snd (a_step a (OImport g)) = snd (a_import a g).
Proof. cbn [a_step]. now destruct (a_import a g). Qed.
Lemma step_readsync_snd a l lim c :
  snd (a_step a (OReadSync l lim c)) = snd (a_read_sync a l lim c).
Proof. cbn [a_step]. now destruct (a_read_sync a l lim c). Qed.
Lemma step_read_snd a l lim c :
  snd (a_step a (ORead l lim c)) = snd (a_read_hist a l lim c).
Proof. cbn [a_step]. now destruct (a_read_hist a l lim c). Qed.

Lemma expired_mono now now' f :
  now <= now' -> expired now f = true -> expired now' f = true.
Proof.
  unfold expired. intros L. destruct (f_ttl f) as [[| |ms|n]|]; try discriminate.
  intros H. apply N.leb_le in H. apply N.leb_le. lia.
Qed.

Lemma expired_time now f : expired now f = true -> exists ms, f_ttl f = Some (Time ms).
Proof.
  unfold expired. destruct (f_ttl f) as [[| |ms|n]|]; try discriminate. now exists ms.
Qed.

Lemma fresh_in i l f : fresh i l = true -> In f l -> f_id f <> i.
Proof.
  unfold fresh. rewrite forallb_forall. intros H Hf. specialize (H f Hf).
  apply negb_true_iff in H. now apply N.eqb_neq.
Qed.

(* Well-formed histories.  DIFFERENCE with the first draft of this hypothesis: an
   appended / imported id must not only be absent from the live list, it must also not
   be named by a queued GcRemove.  Without it retention is false: append id 5 with
   time:1, advance the clock, read (queues GcRemove 5), ORemove 5, append id 5 again
   (fresh w.r.t. the live list) with ttl forever, drain: the new frame is collected
   although it is neither removed, expired nor beyond a head bound.  scru128 ids never
   repeat, so the hypothesis holds of every real history (see [wfh_run_wf] below). *)
Definition wf_op (a : astore) (o : op) : Prop :=
  match o with
  | OSetNow n => a_now a <= n
  | OImport f => fresh (f_id f) (a_live a) = true /\ ~ In (GcRemove (f_id f)) (a_gcq a)
  | OAppend i _ => fresh i (a_live a) = true /\ ~ In (GcRemove i) (a_gcq a)
  | _ => True
  end.

Fixpoint wf_run (ops : list op) (a : astore) : Prop :=
  match ops with
  | [] => True
  | o :: r => wf_op a o /\ wf_run r (snd (a_step a o))
  end.

Lemma wf_run_app ops1 ops2 a :
  wf_run (ops1 ++ ops2) a <-> wf_run ops1 a /\ wf_run ops2 (arun ops1 a).
Proof.
  revert a. induction ops1 as [|o r IH]; intros a; cbn [app wf_run arun]; [tauto|].
  rewrite IH. tauto.
Qed.

Definition q1 (a : astore) : Prop :=
  forall i, In (GcRemove i) (a_gcq a) ->
  forall f, In f (a_live a) -> f_id f = i -> expired (a_now a) f = true.

Lemma q1_shrink a a' :
  q1 a -> (forall f, In f (a_live a') -> In f (a_live a)) ->
  (forall t, In t (a_gcq a') -> In t (a_gcq a)) -> a_now a' = a_now a -> q1 a'.
Proof.
  intros Q HL HQ HN i Hi f Hf E. rewrite HN. apply (Q i); auto.
Qed.

Lemma q1_enqueue a g :
  sorted (a_live a) -> q1 a ->
  (forall t, In t g ->
     exists f, In f (a_live a) /\ expired (a_now a) f = true /\ t = GcRemove (f_id f)) ->
  q1 (a_enqueue a g).
Proof.
  intros S Q G i Hi f Hf E. cbn [a_enqueue a_gcq a_live a_now] in *.
  apply in_app_or in Hi. destruct Hi as [Hi|Hi]; [now apply (Q i)|].
  destruct (G _ Hi) as (f' & Hf' & Ex & Et). inversion Et; subst i.
  assert (f = f') by (apply (sorted_unique (a_live a)); auto). now subst f'.
Qed.

Lemma rs_tasks_live a c l lim t :
  In t (snd (rs_loop (a_now a) (a_iter a c l) lim)) ->
  exists f, In f (a_live a) /\ expired (a_now a) f = true /\ t = GcRemove (f_id f).
Proof.
  intros H. apply rs_loop_tasks in H. destruct H as (f & Hf & H).
  exists f. split; [|exact H]. unfold a_iter in Hf. now apply filter_In in Hf.
Qed.

Lemma rh_tasks_live a c l lim t :
  In t (snd (rh_loop (a_now a) (a_iter a c l) lim)) ->
  exists f, In f (a_live a) /\ expired (a_now a) f = true /\ t = GcRemove (f_id f).
Proof.
  intros H. apply rh_loop_tasks in H. destruct H as (f & Hf & H).
  exists f. split; [|exact H]. unfold a_iter in Hf. now apply filter_In in Hf.
Qed.

Lemma app_state_gcq a f t :
  In t (a_gcq (app_state a f)) ->
  In t (a_gcq a) \/ exists n, f_ttl f = Some (Head n) /\ t = GcCheckHead (f_ctx f) (f_topic f) n.
Proof.
  unfold app_state. destruct (f_ttl f) as [[| |ms|n]|]; cbn [a_gcq]; auto.
  intros H. apply in_app_or in H. destruct H as [H|[H|[]]]; [now left|].
  right. now exists n.
Qed.

Lemma app_state_live a f g :
  In g (a_live (app_state a f)) -> g = f \/ In g (a_live a).
Proof.
  unfold app_state. destruct (f_ttl f) as [[| |ms|n]|]; cbn [a_live];
    auto using a_insert_in_weak.
Qed.

Lemma app_state_now a f : a_now (app_state a f) = a_now a.
Proof. unfold app_state. now destruct (f_ttl f) as [[| |ms|n]|]. Qed.

Lemma q1_step a o : sorted (a_live a) -> q1 a -> wf_op a o -> q1 (snd (a_step a o)).
Proof.
  intros S Q W.
  destruct o as [i g|g|i|n| | | |l lim c|l lim c|i|t c].
  - rewrite step_append_snd, a_append_eq. destruct W as [_ Wq].
    destruct (app_err a g); cbn [snd]; [exact Q|].
    intros j Hj f' Hf' E. rewrite app_state_now.
    apply app_state_gcq in Hj. destruct Hj as [Hj|(n & _ & Hj)]; [|discriminate].
    apply app_state_live in Hf'. destruct Hf' as [->|Hf']; [|now apply (Q j)].
    exfalso. apply Wq. unfold app_frame in E. cbn [f_id] in E. now subst j.
  - rewrite step_import_snd. unfold a_import. destruct W as [_ Wq].
    destruct (has_nul (f_topic g)); cbn [snd]; [exact Q|].
    intros j Hj f' Hf' E. cbn [a_gcq a_live a_now] in *.
    apply a_insert_in_weak in Hf'. destruct Hf' as [->|Hf']; [|now apply (Q j)].
    exfalso. apply Wq. now subst j.
  - cbn [a_step snd]. apply (q1_shrink a); auto.
    intros f Hf. cbn [a_remove_live a_live] in Hf. apply a_delete_in in Hf. tauto.
  - cbn [a_step snd]. intros j Hj f Hf E. cbn [a_gcq a_live a_now] in *.
    apply (expired_mono (a_now a)); [exact W|]. now apply (Q j).
  - cbn [a_step snd]. unfold a_gc_step. destruct (a_gcq a) as [|t q] eqn:Eq; [exact Q|].
    apply (q1_shrink a); auto.
    + intros f Hf. now apply a_run_task_in in Hf.
    + intros t' Ht. rewrite a_run_task_gcq in Ht. cbn [a_gcq] in Ht. rewrite Eq. now right.
    + now rewrite a_run_task_now.
  - cbn [a_step snd]. apply (q1_shrink a); auto.
    + apply a_drain_in.
    + rewrite a_drain_gcq. intros t' [].
    + apply a_drain_now.
  - cbn [a_step snd]. unfold a_reopen. rewrite a_read_sync_snd.
    apply q1_enqueue; [exact S|intros j []|].
    intros t Ht. apply (rs_tasks_live (mkA (a_live a) [] (a_now a) [])) in Ht. exact Ht.
  - rewrite step_readsync_snd, a_read_sync_snd. apply q1_enqueue; auto.
    intros t Ht. now apply rs_tasks_live in Ht.
  - rewrite step_read_snd, a_read_hist_snd. apply q1_enqueue; auto.
    intros t Ht. now apply rh_tasks_live in Ht.
  - exact Q.
  - exact Q.
Qed.

Lemma q1_run ops : forall a,
  sorted (a_live a) -> q1 a -> wf_run ops a -> q1 (arun ops a).
Proof.
  induction ops as [|o r IH]; intros a S Q W; cbn [arun]; [exact Q|].
  destruct W as [W1 W2]. apply IH; [now apply a_step_sorted|now apply q1_step|exact W2].
Qed.

Lemma q1_empty now : q1 (a_empty now).
Proof. intros i []. Qed.

(* (Q1) a queued Remove only names a frame whose own time TTL has elapsed *)
Theorem gcq_remove_expired : forall now ops i f,
  wf_run ops (a_empty now) ->
  In (GcRemove i) (a_gcq (after0 now ops)) -> In f (a_live (after0 now ops)) -> f_id f = i ->
  expired (a_now (after0 now ops)) f = true.
Proof.
  intros now ops i f W Hi Hf E.
  refine (q1_run ops (a_empty now) _ (q1_empty now) W i Hi f Hf E). constructor.
Qed.

(* (Q2) a queued head collection comes from an accepted append of a head:k frame to
   exactly that context and topic.  No hypothesis on the history is needed. *)
Lemma step_gcq_provenance a o c t k :
  In (GcCheckHead c t k) (a_gcq (snd (a_step a o))) ->
  In (GcCheckHead c t k) (a_gcq a) \/
  exists i f0 f a', o = OAppend i f0 /\ a_append a i f0 = (Ok f, a') /\
                    f_ctx f = c /\ f_topic f = t /\ f_ttl f = Some (Head k).
Proof.
  intros H.
  destruct o as [i g|g|i|n| | | |l lim c'|l lim c'|i|t' c'].
  - rewrite step_append_snd in H. destruct (a_append a i g) as [r a'] eqn:E.
    cbn [snd] in H. destruct r as [f|e].
    + destruct (a_append_ok_inv _ _ _ _ _ E) as (_ & _ & Ea). rewrite Ea in H.
      apply app_state_gcq in H. destruct H as [H|(n & Hn & H)]; [now left|].
      inversion H; subst. right. now exists i, g, f, (app_state a f).
    + apply a_append_err in E. subst a'. now left.
  - rewrite step_import_snd in H. unfold a_import in H.
    destruct (has_nul (f_topic g)); cbn [snd a_gcq] in H; now left.
  - now left.
  - now left.
  - cbn [a_step snd] in H. revert H. unfold a_gc_step.
    destruct (a_gcq a) as [|t0 q] eqn:Eq; intros H.
    + cbv iota in H. rewrite Eq in H. destruct H.
    + rewrite a_run_task_gcq in H. cbn [a_gcq] in H. left. now right.
  - cbn [a_step snd] in H. rewrite a_drain_gcq in H. destruct H.
  - cbn [a_step snd] in H. unfold a_reopen in H. rewrite a_read_sync_snd in H.
    cbn [a_enqueue a_gcq app] in H. apply rs_loop_tasks in H.
    destruct H as (f & _ & _ & H). discriminate.
  - rewrite step_readsync_snd, a_read_sync_snd in H. cbn [a_enqueue a_gcq] in H.
    apply in_app_or in H. destruct H as [H|H]; [now left|].
    apply rs_loop_tasks in H. destruct H as (f & _ & _ & H). discriminate.
  - rewrite step_read_snd, a_read_hist_snd in H. cbn [a_enqueue a_gcq] in H.
    apply in_app_or in H. destruct H as [H|H]; [now left|].
    apply rh_loop_tasks in H. destruct H as (f & _ & _ & H). discriminate.
  - now left.
  - now left.
Qed.

Lemma arun_gcq_provenance ops : forall a0 c t k,
  In (GcCheckHead c t k) (a_gcq (arun ops a0)) ->
  In (GcCheckHead c t k) (a_gcq a0) \/
  exists pre i f0 post f a',
    ops = pre ++ OAppend i f0 :: post /\ a_append (arun pre a0) i f0 = (Ok f, a') /\
    f_ctx f = c /\ f_topic f = t /\ f_ttl f = Some (Head k).
Proof.
  induction ops as [|o r IH]; intros a0 c t k H; cbn [arun] in H; [now left|].
  destruct (IH _ _ _ _ H) as [H1|(pre & i & f0 & post & f & a' & E & H1)].
  - destruct (step_gcq_provenance _ _ _ _ _ H1) as [H2|(i & f0 & f & a' & Eo & H2)];
      [now left|].
    right. exists [], i, f0, r, f, a'. split; [now rewrite Eo|exact H2].
  - right. exists (o :: pre), i, f0, post, f, a'. split; [now rewrite E|exact H1].
Qed.

Theorem gcq_head_provenance : forall now ops c t k,
  In (GcCheckHead c t k) (a_gcq (after0 now ops)) ->
  exists pre i f0 post f a',
    ops = pre ++ OAppend i f0 :: post /\ a_append (after0 now pre) i f0 = (Ok f, a') /\
    f_ctx f = c /\ f_topic f = t /\ f_ttl f = Some (Head k).
Proof.
  intros now ops c t k H. destruct (arun_gcq_provenance _ _ _ _ _ H) as [[]|H1]. exact H1.
Qed.

(* why a frame disappears while tasks run: the exact task and, for a head collection,
   the live list at the moment it ran *)
Lemma a_run_task_lost_strong a t f :
  sorted (a_live a) -> In f (a_live a) -> ~ In f (a_live (a_run_task a t)) ->
  t = GcRemove (f_id f) \/
  exists k, t = GcCheckHead (f_ctx f) (f_topic f) k /\
            ~ In f (firstn (N.to_nat k)
                      (rev (filter (same_topic (f_ctx f) (f_topic f)) (a_live a)))).
Proof.
  intros S Hf Nf. destruct t as [i|c t k]; cbn [a_run_task a_remove_live a_live] in Nf.
  - left. rewrite a_delete_in in Nf. destruct (N.eq_dec (f_id f) i) as [E|E]; [now subst|].
    exfalso. apply Nf. now split.
  - right. destruct (check_head_lost _ _ _ _ _ S Hf Nf) as [T Nk].
    apply same_topic_true in T. destruct T as [<- <-]. now exists k.
Qed.

Lemma fold_run_task_lost_strong q : forall a f,
  sorted (a_live a) -> In f (a_live a) -> ~ In f (a_live (fold_left a_run_task q a)) ->
  In (GcRemove (f_id f)) q \/
  exists k l', In (GcCheckHead (f_ctx f) (f_topic f) k) q /\ sorted l' /\ In f l' /\
               ~ In f (firstn (N.to_nat k)
                         (rev (filter (same_topic (f_ctx f) (f_topic f)) l'))).
Proof.
  induction q as [|t q IH]; intros a f S Hf Nf; cbn [fold_left] in Nf; [contradiction|].
  assert (D : In f (a_live (a_run_task a t)) \/ ~ In f (a_live (a_run_task a t))).
  { destruct (a_run_task_filter a t) as [p ->]. destruct (p f) eqn:E.
    - left. apply filter_In. now split.
    - right. intros H. apply filter_In in H. destruct H; congruence. }
  destruct D as [D|D].
  - destruct (IH _ f (a_run_task_sorted a t S) D Nf) as [H|(k & l' & H & H')].
    + left. now right.
    + right. exists k, l'. split; [now right|exact H'].
  - destruct (a_run_task_lost_strong _ _ _ S Hf D) as [H|(k & H & H')].
    + left. now left.
    + right. exists k, (a_live a). split; [now left|]. now repeat split.
Qed.

(* one step, from any state satisfying the invariants *)
Lemma step_retention a o f :
  sorted (a_live a) -> q1 a -> wf_op a o -> lost a (snd (a_step a o)) f ->
  o = ORemove (f_id f) \/
  (expired (a_now a) f = true /\ (o = OGcStep \/ o = ODrain)) \/
  ((o = OGcStep \/ o = ODrain) /\
   exists k, In (GcCheckHead (f_ctx f) (f_topic f) k) (a_gcq a) /\
     exists l', sorted l' /\ In f l' /\
       ~ In f (firstn (N.to_nat k) (rev (filter (same_topic (f_ctx f) (f_topic f)) l')))).
Proof.
  intros S Q W L. pose proof L as [Hf Nf].
  destruct (step_lost_reason _ _ _ S L)
    as [H|[(g & -> & E)|[(i & g & -> & E)|[Ho _]]]].
  - now left.
  - exfalso. destruct W as [W _]. exact (fresh_in _ _ _ W Hf (eq_sym E)).
  - exfalso. destruct W as [W _]. exact (fresh_in _ _ _ W Hf (eq_sym E)).
  - destruct Ho as [-> | ->]; cbn [a_step snd] in Nf.
    + unfold a_gc_step in Nf. destruct (a_gcq a) as [|t q] eqn:Eq; [contradiction|].
      destruct (a_run_task_lost_strong (mkA (a_live a) q (a_now a) (a_bcast a)) t f S Hf Nf)
        as [H|(k & H & H')].
      * right. left. split; [|now left]. apply (Q (f_id f)); auto. rewrite Eq. now left.
      * right. right. split; [now left|]. exists k. split; [rewrite Eq; now left|].
        exists (a_live a). cbn [a_live] in H'. now repeat split.
    + unfold a_drain in Nf.
      destruct (fold_run_task_lost_strong _ (mkA (a_live a) [] (a_now a) (a_bcast a)) f S Hf Nf)
        as [H|(k & l' & H & H')].
      * right. left. split; [|now right]. now apply (Q (f_id f)).
      * right. right. split; [now right|]. exists k. split; [exact H|]. now exists l'.
Qed.

Theorem retention : forall now ops o f,
  wf_run (ops ++ [o]) (a_empty now) ->
  lost (after0 now ops) (after0 now (ops ++ [o])) f ->
  (o = ORemove (f_id f)) \/
  (expired (a_now (after0 now ops)) f = true /\ (o = OGcStep \/ o = ODrain)) \/
  ((o = OGcStep \/ o = ODrain) /\
   exists k,
     (exists pre i f0 post g a',
        ops = pre ++ OAppend i f0 :: post /\
        a_append (after0 now pre) i f0 = (Ok g, a') /\
        f_ctx g = f_ctx f /\ f_topic g = f_topic f /\ f_ttl g = Some (Head k)) /\
     exists l', sorted l' /\ In f l' /\
       ~ In f (firstn (N.to_nat k) (rev (filter (same_topic (f_ctx f) (f_topic f)) l')))).
Proof.
  intros now ops o f W L. unfold after0 in *. rewrite arun_snoc in L.
  apply wf_run_app in W. destruct W as [W1 [W2 _]].
  assert (S : sorted (a_live (arun ops (a_empty now)))) by apply after0_sorted.
  assert (Q : q1 (arun ops (a_empty now))).
  { apply q1_run; [constructor|apply q1_empty|exact W1]. }
  destruct (step_retention _ _ _ S Q W2 L) as [H|[H|(Ho & k & Hk & Hl)]].
  - now left.
  - right. now left.
  - right. right. split; [exact Ho|]. exists k. split; [|exact Hl].
    now apply gcq_head_provenance.
Qed.
