From XS Require Import Model.Spec Proofs.BytesP Proofs.SpecP.
From Coq Require Import Lia Sorting.Sorted.
From Coq Require Import ZifyN ZifyBool.

(* History-level properties of the ABSTRACT specification machine (Model/Spec.v):
   provenance of live frames (C01), retention / GC-queue provenance (C08),
   collection of expired frames and the head:N bound after a drain (C09). *)

Fixpoint arun (ops : list op) (a : astore) : astore :=
  match ops with [] => a | o :: r => arun r (snd (a_step a o)) end.

Definition after0 (now : N) (ops : list op) : astore := arun ops (a_empty now).

Lemma arun_app ops1 ops2 a : arun (ops1 ++ ops2) a = arun ops2 (arun ops1 a).
Proof.
  revert a. induction ops1 as [|o r IH]; intros a; cbn [app arun]; [reflexivity|apply IH].
Qed.

Lemma arun_snoc ops o a : arun (ops ++ [o]) a = snd (a_step (arun ops a) o).
Proof. rewrite arun_app. reflexivity. Qed.

Lemma arun_sorted ops a : sorted (a_live a) -> sorted (a_live (arun ops a)).
Proof.
  revert a. induction ops as [|o r IH]; intros a S; cbn [arun]; [exact S|].
  apply IH. now apply a_step_sorted.
Qed.

Lemma after0_sorted now ops : sorted (a_live (after0 now ops)).
Proof. apply arun_sorted. constructor. Qed.

(* ---------------------------------------------------------------------------- *)
(* generic facts on the collector *)

Lemma fold_run_task_in q : forall a f,
  In f (a_live (fold_left a_run_task q a)) -> In f (a_live a).
Proof.
  induction q as [|t q IH]; intros a f H; cbn [fold_left] in H; [exact H|].
  apply (a_run_task_in a t). now apply IH.
Qed.

Lemma a_run_task_gcq a t : a_gcq (a_run_task a t) = a_gcq a.
Proof. now destruct t. Qed.

Lemma a_run_task_now a t : a_now (a_run_task a t) = a_now a.
Proof. now destruct t. Qed.

Lemma fold_run_task_gcq q : forall a, a_gcq (fold_left a_run_task q a) = a_gcq a.
Proof.
  induction q as [|t q IH]; intros a; cbn [fold_left]; [reflexivity|].
  now rewrite IH, a_run_task_gcq.
Qed.

Lemma fold_run_task_now q : forall a, a_now (fold_left a_run_task q a) = a_now a.
Proof.
  induction q as [|t q IH]; intros a; cbn [fold_left]; [reflexivity|].
  now rewrite IH, a_run_task_now.
Qed.

Lemma a_drain_gcq a : a_gcq (a_drain a) = [].
Proof. unfold a_drain. now rewrite fold_run_task_gcq. Qed.

Lemma a_drain_now a : a_now (a_drain a) = a_now a.
Proof. unfold a_drain. now rewrite fold_run_task_now. Qed.

Lemma a_drain_in a f : In f (a_live (a_drain a)) -> In f (a_live a).
Proof. unfold a_drain. intros H. now apply fold_run_task_in in H. Qed.

Lemma a_gc_step_in a f : In f (a_live (a_gc_step a)) -> In f (a_live a).
Proof.
  unfold a_gc_step. destruct (a_gcq a) as [|t q]; [auto|].
  intros H. now apply a_run_task_in in H.
Qed.

(* ---------------------------------------------------------------------------- *)
(* G1. provenance of live frames (C01) *)

Lemma step_live_provenance a o f :
  In f (a_live (snd (a_step a o))) ->
  In f (a_live a) \/ o = OImport f \/
  exists i f0 a', o = OAppend i f0 /\ a_append a i f0 = (Ok f, a').
Proof.
  intros H.
  destruct o as [i g|g|i|n| | | |l lim c|l lim c|i|t c];
    try (rewrite a_step_reads_keep_live in H by exact I; now left); cbn [a_step] in H.
  - destruct (a_append a i g) as [r a'] eqn:E. cbn [snd] in H. destruct r as [f'|e].
    + assert (D : f_ttl f' = Some Ephemeral \/ f_ttl f' <> Some Ephemeral).
      { destruct (f_ttl f') as [[]|]; (now left) || (right; congruence). }
      destruct D as [D|D].
      * destruct (a_append_ephemeral _ _ _ _ _ E D) as (L & _). rewrite L in H. now left.
      * destruct (a_append_persistent _ _ _ _ _ E D) as (L & _). rewrite L in H.
        apply a_insert_in_weak in H. destruct H as [H|H]; [|now left].
        subst f'. right. right. now exists i, g, a'.
    + apply a_append_err in E. subst a'. now left.
  - unfold a_import in H. destruct (has_nul (f_topic g)); cbn [snd a_live] in H; [now left|].
    apply a_insert_in_weak in H. destruct H as [H|H]; [|now left].
    subst g. right. now left.
  - cbn [snd a_remove_live a_live] in H. apply a_delete_in in H. left. tauto.
  - cbn [snd] in H. left. now apply a_gc_step_in.
  - cbn [snd] in H. left. now apply a_drain_in.
Qed.

Definition accepted_at (a : astore) (o : op) (f : frame) : Prop :=
  o = OImport f \/ exists i f0 a', o = OAppend i f0 /\ a_append a i f0 = (Ok f, a').

Lemma arun_live_provenance ops : forall a0 f,
  In f (a_live (arun ops a0)) ->
  In f (a_live a0) \/
  exists pre o post, ops = pre ++ o :: post /\
    (o = OImport f \/
     exists i f0 a', o = OAppend i f0 /\ a_append (arun pre a0) i f0 = (Ok f, a')).
Proof.
  induction ops as [|o r IH]; intros a0 f H; cbn [arun] in H; [now left|].
  destruct (IH _ _ H) as [H1|(pre & o' & post & E & H1)].
  - destruct (step_live_provenance _ _ _ H1) as [H2|H2]; [now left|].
    right. exists [], o, r. split; [reflexivity|exact H2].
  - right. exists (o :: pre), o', post. split; [now rewrite E|exact H1].
Qed.

Theorem live_provenance : forall ops now f,
  In f (a_live (after0 now ops)) ->
  exists pre o post, ops = pre ++ o :: post /\
    (o = OImport f \/
     exists i f0 a', o = OAppend i f0 /\ a_append (after0 now pre) i f0 = (Ok f, a')).
Proof.
  intros ops now f H. destruct (arun_live_provenance _ _ _ H) as [[]|H1]. exact H1.
Qed.

(* ---------------------------------------------------------------------------- *)
(* G3. an expired frame met by an unlimited read is physically gone after a drain (C09) *)

Lemma fold_remove_gone q : forall a i,
  In (GcRemove i) q ->
  forall f, In f (a_live (fold_left a_run_task q a)) -> f_id f <> i.
Proof.
  induction q as [|t q IH]; intros a i Hq f Hf; [destruct Hq|].
  cbn [fold_left] in Hf. destruct Hq as [Hq|Hq].
  - subst t. apply fold_run_task_in in Hf.
    cbn [a_run_task a_remove_live a_live] in Hf. apply a_delete_in in Hf. tauto.
  - exact (IH _ i Hq f Hf).
Qed.

Lemma drain_remove_gone a i f :
  In (GcRemove i) (a_gcq a) -> In f (a_live (a_drain a)) -> f_id f <> i.
Proof. unfold a_drain. intros Hq Hf. exact (fold_remove_gone _ _ i Hq f Hf). Qed.

Lemma a_iter_unbounded_in a c f :
  In f (a_live a) -> in_scope c f = true -> In f (a_iter a c None).
Proof.
  intros Hf Sc. unfold a_iter. apply filter_In. split; [exact Hf|].
  rewrite Sc. reflexivity.
Qed.

Theorem expired_collected : forall a c f,
  In f (a_live a) -> in_scope c f = true -> expired (a_now a) f = true ->
  ~ In f (a_live (a_drain (snd (a_read_sync a None None c)))).
Proof.
  intros a c f Hf Sc Ex H.
  refine (drain_remove_gone _ (f_id f) f _ H eq_refl).
  rewrite a_read_sync_snd. cbn [a_enqueue a_gcq]. apply in_or_app. right.
  apply rs_loop_tasks_all; [|exact Ex]. now apply a_iter_unbounded_in.
Qed.

Theorem expired_collected_hist : forall a c f,
  In f (a_live a) -> in_scope c f = true -> expired (a_now a) f = true ->
  ~ In f (a_live (a_drain (snd (a_read_hist a None None c)))).
Proof.
  intros a c f Hf Sc Ex H.
  refine (drain_remove_gone _ (f_id f) f _ H eq_refl).
  rewrite a_read_hist_snd. cbn [a_enqueue a_gcq]. apply in_or_app. right.
  apply rh_loop_tasks_all; [|exact Ex]. now apply a_iter_unbounded_in.
Qed.

(* stronger: no frame with that id is live (not only f itself) *)
Lemma expired_collected_id a c f g :
  In f (a_live a) -> in_scope c f = true -> expired (a_now a) f = true ->
  In g (a_live (a_drain (snd (a_read_sync a None None c)))) -> f_id g <> f_id f.
Proof.
  intros Hf Sc Ex H.
  refine (drain_remove_gone _ (f_id f) g _ H).
  rewrite a_read_sync_snd. cbn [a_enqueue a_gcq]. apply in_or_app. right.
  apply rs_loop_tasks_all; [|exact Ex]. now apply a_iter_unbounded_in.
Qed.

(* ---------------------------------------------------------------------------- *)
(* G2. GC-queue provenance and retention (C08) *)

Lemma step_append_snd a i g : snd (a_step a (OAppend i g)) = snd (a_append a i g).
Proof. cbn [a_step]. now destruct (a_append a i g). Qed.
Lemma step_import_snd a g : snd (a_step a (OImport g)) = snd (a_import a g).
Proof. cbn [a_step]. now destruct (a_import a g). Qed.
Lemma step_readsync_snd a l lim c :
  snd (a_step a (OReadSync l lim c)) = snd (a_read_sync a l lim c).
Proof. cbn [a_step]. now destruct (a_read_sync a l lim c). Qed.
Lemma step_read_snd a l lim c :
  snd (a_step a (ORead l lim c)) = snd (a_read_hist a l lim c).
Proof. cbn [a_step]. now destruct (a_read_hist a l lim c). Qed.

Lemma expired_mono now now' f :
  now <= now' -> expired now f = true -> expired now' f = true.
Proof.
  unfold expired. intros L. destruct (f_ttl f) as [[| |ms|n]|]; try discriminate.
  intros H. apply N.leb_le in H. apply N.leb_le. lia.
Qed.

Lemma expired_time now f : expired now f = true -> exists ms, f_ttl f = Some (Time ms).
Proof.
  unfold expired. destruct (f_ttl f) as [[| |ms|n]|]; try discriminate. now exists ms.
Qed.

Lemma fresh_in i l f : fresh i l = true -> In f l -> f_id f <> i.
Proof.
  unfold fresh. rewrite forallb_forall. intros H Hf. specialize (H f Hf).
  apply negb_true_iff in H. now apply N.eqb_neq.
Qed.

(* Well-formed histories.  DIFFERENCE with the first draft of this hypothesis: an
   appended / imported id must not only be absent from the live list, it must also not
   be named by a queued GcRemove.  Without it retention is false: append id 5 with
   time:1, advance the clock, read (queues GcRemove 5), ORemove 5, append id 5 again
   (fresh w.r.t. the live list) with ttl forever, drain: the new frame is collected
   although it is neither removed, expired nor beyond a head bound.  scru128 ids never
   repeat, so the hypothesis holds of every real history (see [wfh_run_wf] below). *)
Definition wf_op (a : astore) (o : op) : Prop :=
  match o with
  | OSetNow n => a_now a <= n
  | OImport f => fresh (f_id f) (a_live a) = true /\ ~ In (GcRemove (f_id f)) (a_gcq a)
  | OAppend i _ => fresh i (a_live a) = true /\ ~ In (GcRemove i) (a_gcq a)
  | _ => True
  end.

Fixpoint wf_run (ops : list op) (a : astore) : Prop :=
  match ops with
  | [] => True
  | o :: r => wf_op a o /\ wf_run r (snd (a_step a o))
  end.

Lemma wf_run_app ops1 ops2 a :
  wf_run (ops1 ++ ops2) a <-> wf_run ops1 a /\ wf_run ops2 (arun ops1 a).
Proof.
  revert a. induction ops1 as [|o r IH]; intros a; cbn [app wf_run arun]; [tauto|].
  rewrite IH. tauto.
Qed.

Definition q1 (a : astore) : Prop :=
  forall i, In (GcRemove i) (a_gcq a) ->
  forall f, In f (a_live a) -> f_id f = i -> expired (a_now a) f = true.

Lemma q1_shrink a a' :
  q1 a -> (forall f, In f (a_live a') -> In f (a_live a)) ->
  (forall t, In t (a_gcq a') -> In t (a_gcq a)) -> a_now a' = a_now a -> q1 a'.
Proof.
  intros Q HL HQ HN i Hi f Hf E. rewrite HN. apply (Q i); auto.
Qed.

Lemma q1_enqueue a g :
  sorted (a_live a) -> q1 a ->
  (forall t, In t g ->
     exists f, In f (a_live a) /\ expired (a_now a) f = true /\ t = GcRemove (f_id f)) ->
  q1 (a_enqueue a g).
Proof.
  intros S Q G i Hi f Hf E. cbn [a_enqueue a_gcq a_live a_now] in *.
  apply in_app_or in Hi. destruct Hi as [Hi|Hi]; [now apply (Q i)|].
  destruct (G _ Hi) as (f' & Hf' & Ex & Et). inversion Et; subst i.
  assert (f = f') by (apply (sorted_unique (a_live a)); auto). now subst f'.
Qed.

Lemma rs_tasks_live a c l lim t :
  In t (snd (rs_loop (a_now a) (a_iter a c l) lim)) ->
  exists f, In f (a_live a) /\ expired (a_now a) f = true /\ t = GcRemove (f_id f).
Proof.
  intros H. apply rs_loop_tasks in H. destruct H as (f & Hf & H).
  exists f. split; [|exact H]. unfold a_iter in Hf. now apply filter_In in Hf.
Qed.

Lemma rh_tasks_live a c l lim t :
  In t (snd (rh_loop (a_now a) (a_iter a c l) lim)) ->
  exists f, In f (a_live a) /\ expired (a_now a) f = true /\ t = GcRemove (f_id f).
Proof.
  intros H. apply rh_loop_tasks in H. destruct H as (f & Hf & H).
  exists f. split; [|exact H]. unfold a_iter in Hf. now apply filter_In in Hf.
Qed.

Lemma app_state_gcq a f t :
  In t (a_gcq (app_state a f)) ->
  In t (a_gcq a) \/ exists n, f_ttl f = Some (Head n) /\ t = GcCheckHead (f_ctx f) (f_topic f) n.
Proof.
  unfold app_state. destruct (f_ttl f) as [[| |ms|n]|]; cbn [a_gcq]; auto.
  intros H. apply in_app_or in H. destruct H as [H|[H|[]]]; [now left|].
  right. now exists n.
Qed.

Lemma app_state_live a f g :
  In g (a_live (app_state a f)) -> g = f \/ In g (a_live a).
Proof.
  unfold app_state. destruct (f_ttl f) as [[| |ms|n]|]; cbn [a_live];
    auto using a_insert_in_weak.
Qed.

Lemma app_state_now a f : a_now (app_state a f) = a_now a.
Proof. unfold app_state. now destruct (f_ttl f) as [[| |ms|n]|]. Qed.

Lemma q1_step a o : sorted (a_live a) -> q1 a -> wf_op a o -> q1 (snd (a_step a o)).
Proof.
  intros S Q W.
  destruct o as [i g|g|i|n| | | |l lim c|l lim c|i|t c].
  - rewrite step_append_snd, a_append_eq. destruct W as [_ Wq].
    destruct (app_err a g); cbn [snd]; [exact Q|].
    intros j Hj f' Hf' E. rewrite app_state_now.
    apply app_state_gcq in Hj. destruct Hj as [Hj|(n & _ & Hj)]; [|discriminate].
    apply app_state_live in Hf'. destruct Hf' as [->|Hf']; [|now apply (Q j)].
    exfalso. apply Wq. unfold app_frame in E. cbn [f_id] in E. now subst j.
  - rewrite step_import_snd. unfold a_import. destruct W as [_ Wq].
    destruct (has_nul (f_topic g)); cbn [snd]; [exact Q|].
    intros j Hj f' Hf' E. cbn [a_gcq a_live a_now] in *.
    apply a_insert_in_weak in Hf'. destruct Hf' as [->|Hf']; [|now apply (Q j)].
    exfalso. apply Wq. now subst j.
  - cbn [a_step snd]. apply (q1_shrink a); auto.
    intros f Hf. cbn [a_remove_live a_live] in Hf. apply a_delete_in in Hf. tauto.
  - cbn [a_step snd]. intros j Hj f Hf E. cbn [a_gcq a_live a_now] in *.
    apply (expired_mono (a_now a)); [exact W|]. now apply (Q j).
  - cbn [a_step snd]. unfold a_gc_step. destruct (a_gcq a) as [|t q] eqn:Eq; [exact Q|].
    apply (q1_shrink a); auto.
    + intros f Hf. now apply a_run_task_in in Hf.
    + intros t' Ht. rewrite a_run_task_gcq in Ht. cbn [a_gcq] in Ht. rewrite Eq. now right.
    + now rewrite a_run_task_now.
  - cbn [a_step snd]. apply (q1_shrink a); auto.
    + apply a_drain_in.
    + rewrite a_drain_gcq. intros t' [].
    + apply a_drain_now.
  - cbn [a_step snd]. unfold a_reopen. rewrite a_read_sync_snd.
    apply q1_enqueue; [exact S|intros j []|].
    intros t Ht. apply (rs_tasks_live (mkA (a_live a) [] (a_now a) [])) in Ht. exact Ht.
  - rewrite step_readsync_snd, a_read_sync_snd. apply q1_enqueue; auto.
    intros t Ht. now apply rs_tasks_live in Ht.
  - rewrite step_read_snd, a_read_hist_snd. apply q1_enqueue; auto.
    intros t Ht. now apply rh_tasks_live in Ht.
  - exact Q.
  - exact Q.
Qed.

Lemma q1_run ops : forall a,
  sorted (a_live a) -> q1 a -> wf_run ops a -> q1 (arun ops a).
Proof.
  induction ops as [|o r IH]; intros a S Q W; cbn [arun]; [exact Q|].
  destruct W as [W1 W2]. apply IH; [now apply a_step_sorted|now apply q1_step|exact W2].
Qed.

Lemma q1_empty now : q1 (a_empty now).
Proof. intros i []. Qed.

(* (Q1) a queued Remove only names a frame whose own time TTL has elapsed *)
Theorem gcq_remove_expired : forall now ops i f,
  wf_run ops (a_empty now) ->
  In (GcRemove i) (a_gcq (after0 now ops)) -> In f (a_live (after0 now ops)) -> f_id f = i ->
  expired (a_now (after0 now ops)) f = true.
Proof.
  intros now ops i f W Hi Hf E.
  refine (q1_run ops (a_empty now) _ (q1_empty now) W i Hi f Hf E). constructor.
Qed.

(* (Q2) a queued head collection comes from an accepted append of a head:k frame to
   exactly that context and topic.  No hypothesis on the history is needed. *)
Lemma step_gcq_provenance a o c t k :
  In (GcCheckHead c t k) (a_gcq (snd (a_step a o))) ->
  In (GcCheckHead c t k) (a_gcq a) \/
  exists i f0 f a', o = OAppend i f0 /\ a_append a i f0 = (Ok f, a') /\
                    f_ctx f = c /\ f_topic f = t /\ f_ttl f = Some (Head k).
Proof.
  intros H.
  destruct o as [i g|g|i|n| | | |l lim c'|l lim c'|i|t' c'].
  - rewrite step_append_snd in H. destruct (a_append a i g) as [r a'] eqn:E.
    cbn [snd] in H. destruct r as [f|e].
    + destruct (a_append_ok_inv _ _ _ _ _ E) as (_ & _ & Ea). rewrite Ea in H.
      apply app_state_gcq in H. destruct H as [H|(n & Hn & H)]; [now left|].
      inversion H; subst. right. now exists i, g, f, (app_state a f).
    + apply a_append_err in E. subst a'. now left.
  - rewrite step_import_snd in H. unfold a_import in H.
    destruct (has_nul (f_topic g)); cbn [snd a_gcq] in H; now left.
  - now left.
  - now left.
  - cbn [a_step snd] in H. revert H. unfold a_gc_step.
    destruct (a_gcq a) as [|t0 q] eqn:Eq; intros H.
    + cbv iota in H. rewrite Eq in H. destruct H.
    + rewrite a_run_task_gcq in H. cbn [a_gcq] in H. left. now right.
  - cbn [a_step snd] in H. rewrite a_drain_gcq in H. destruct H.
  - cbn [a_step snd] in H. unfold a_reopen in H. rewrite a_read_sync_snd in H.
    cbn [a_enqueue a_gcq app] in H. apply rs_loop_tasks in H.
    destruct H as (f & _ & _ & H). discriminate.
  - rewrite step_readsync_snd, a_read_sync_snd in H. cbn [a_enqueue a_gcq] in H.
    apply in_app_or in H. destruct H as [H|H]; [now left|].
    apply rs_loop_tasks in H. destruct H as (f & _ & _ & H). discriminate.
  - rewrite step_read_snd, a_read_hist_snd in H. cbn [a_enqueue a_gcq] in H.
    apply in_app_or in H. destruct H as [H|H]; [now left|].
    apply rh_loop_tasks in H. destruct H as (f & _ & _ & H). discriminate.
  - now left.
  - now left.
Qed.

Lemma arun_gcq_provenance ops : forall a0 c t k,
  In (GcCheckHead c t k) (a_gcq (arun ops a0)) ->
  In (GcCheckHead c t k) (a_gcq a0) \/
  exists pre i f0 post f a',
    ops = pre ++ OAppend i f0 :: post /\ a_append (arun pre a0) i f0 = (Ok f, a') /\
    f_ctx f = c /\ f_topic f = t /\ f_ttl f = Some (Head k).
Proof.
  induction ops as [|o r IH]; intros a0 c t k H; cbn [arun] in H; [now left|].
  destruct (IH _ _ _ _ H) as [H1|(pre & i & f0 & post & f & a' & E & H1)].
  - destruct (step_gcq_provenance _ _ _ _ _ H1) as [H2|(i & f0 & f & a' & Eo & H2)];
      [now left|].
    right. exists [], i, f0, r, f, a'. split; [now rewrite Eo|exact H2].
  - right. exists (o :: pre), i, f0, post, f, a'. split; [now rewrite E|exact H1].
Qed.

Theorem gcq_head_provenance : forall now ops c t k,
  In (GcCheckHead c t k) (a_gcq (after0 now ops)) ->
  exists pre i f0 post f a',
    ops = pre ++ OAppend i f0 :: post /\ a_append (after0 now pre) i f0 = (Ok f, a') /\
    f_ctx f = c /\ f_topic f = t /\ f_ttl f = Some (Head k).
Proof.
  intros now ops c t k H. destruct (arun_gcq_provenance _ _ _ _ _ H) as [[]|H1]. exact H1.
Qed.

(* why a frame disappears while tasks run: the exact task and, for a head collection,
   the live list at the moment it ran *)
Lemma a_run_task_lost_strong a t f :
  sorted (a_live a) -> In f (a_live a) -> ~ In f (a_live (a_run_task a t)) ->
  t = GcRemove (f_id f) \/
  exists k, t = GcCheckHead (f_ctx f) (f_topic f) k /\
            ~ In f (firstn (N.to_nat k)
                      (rev (filter (same_topic (f_ctx f) (f_topic f)) (a_live a)))).
Proof.
  intros S Hf Nf. destruct t as [i|c t k]; cbn [a_run_task a_remove_live a_live] in Nf.
  - left. rewrite a_delete_in in Nf. destruct (N.eq_dec (f_id f) i) as [E|E]; [now subst|].
    exfalso. apply Nf. now split.
  - right. destruct (check_head_lost _ _ _ _ _ S Hf Nf) as [T Nk].
    apply same_topic_true in T. destruct T as [<- <-]. now exists k.
Qed.

Lemma fold_run_task_lost_strong q : forall a f,
  sorted (a_live a) -> In f (a_live a) -> ~ In f (a_live (fold_left a_run_task q a)) ->
  In (GcRemove (f_id f)) q \/
  exists k l', In (GcCheckHead (f_ctx f) (f_topic f) k) q /\ sorted l' /\ In f l' /\
               ~ In f (firstn (N.to_nat k)
                         (rev (filter (same_topic (f_ctx f) (f_topic f)) l'))).
Proof.
  induction q as [|t q IH]; intros a f S Hf Nf; cbn [fold_left] in Nf; [contradiction|].
  assert (D : In f (a_live (a_run_task a t)) \/ ~ In f (a_live (a_run_task a t))).
  { destruct (a_run_task_filter a t) as [p ->]. destruct (p f) eqn:E.
    - left. apply filter_In. now split.
    - right. intros H. apply filter_In in H. destruct H; congruence. }
  destruct D as [D|D].
  - destruct (IH _ f (a_run_task_sorted a t S) D Nf) as [H|(k & l' & H & H')].
    + left. now right.
    + right. exists k, l'. split; [now right|exact H'].
  - destruct (a_run_task_lost_strong _ _ _ S Hf D) as [H|(k & H & H')].
    + left. now left.
    + right. exists k, (a_live a). split; [now left|]. now repeat split.
Qed.

(* one step, from any state satisfying the invariants *)
Lemma step_retention a o f :
  sorted (a_live a) -> q1 a -> wf_op a o -> lost a (snd (a_step a o)) f ->
  o = ORemove (f_id f) \/
  (expired (a_now a) f = true /\ (o = OGcStep \/ o = ODrain)) \/
  ((o = OGcStep \/ o = ODrain) /\
   exists k, In (GcCheckHead (f_ctx f) (f_topic f) k) (a_gcq a) /\
     exists l', sorted l' /\ In f l' /\
       ~ In f (firstn (N.to_nat k) (rev (filter (same_topic (f_ctx f) (f_topic f)) l')))).
Proof.
  intros S Q W L. pose proof L as [Hf Nf].
  destruct (step_lost_reason _ _ _ S L)
    as [H|[(g & -> & E)|[(i & g & -> & E)|[Ho _]]]].
  - now left.
  - exfalso. destruct W as [W _]. exact (fresh_in _ _ _ W Hf (eq_sym E)).
  - exfalso. destruct W as [W _]. exact (fresh_in _ _ _ W Hf (eq_sym E)).
  - destruct Ho as [-> | ->]; cbn [a_step snd] in Nf.
    + unfold a_gc_step in Nf. destruct (a_gcq a) as [|t q] eqn:Eq; [contradiction|].
      destruct (a_run_task_lost_strong (mkA (a_live a) q (a_now a) (a_bcast a)) t f S Hf Nf)
        as [H|(k & H & H')].
      * right. left. split; [|now left]. apply (Q (f_id f)); auto. rewrite Eq. now left.
      * right. right. split; [now left|]. exists k. split; [now left|].
        exists (a_live a). cbn [a_live] in H'. now repeat split.
    + unfold a_drain in Nf.
      destruct (fold_run_task_lost_strong _ (mkA (a_live a) [] (a_now a) (a_bcast a)) f S Hf Nf)
        as [H|(k & l' & H & H')].
      * right. left. split; [|now right]. now apply (Q (f_id f)).
      * right. right. split; [now right|]. exists k. split; [exact H|]. now exists l'.
Qed.

Theorem retention : forall now ops o f,
  wf_run (ops ++ [o]) (a_empty now) ->
  lost (after0 now ops) (after0 now (ops ++ [o])) f ->
  (o = ORemove (f_id f)) \/
  (expired (a_now (after0 now ops)) f = true /\ (o = OGcStep \/ o = ODrain)) \/
  ((o = OGcStep \/ o = ODrain) /\
   exists k,
     (exists pre i f0 post g a',
        ops = pre ++ OAppend i f0 :: post /\
        a_append (after0 now pre) i f0 = (Ok g, a') /\
        f_ctx g = f_ctx f /\ f_topic g = f_topic f /\ f_ttl g = Some (Head k)) /\
     exists l', sorted l' /\ In f l' /\
       ~ In f (firstn (N.to_nat k) (rev (filter (same_topic (f_ctx f) (f_topic f)) l')))).
Proof.
  intros now ops o f W L. unfold after0 in *. rewrite arun_snoc in L.
  apply wf_run_app in W. destruct W as [W1 [W2 _]].
  assert (S : sorted (a_live (arun ops (a_empty now)))) by apply after0_sorted.
  assert (Q : q1 (arun ops (a_empty now))).
  { apply q1_run; [constructor|apply q1_empty|exact W1]. }
  destruct (step_retention _ _ _ S Q W2 L) as [H|[H|(Ho & k & Hk & Hl)]].
  - now left.
  - right. now left.
  - right. right. split; [exact Ho|]. exists k. split; [|exact Hl].
    now apply gcq_head_provenance.
Qed.

(* frames have decidable equality, hence "is live" is decidable *)
Lemma bytes_eq_dec (x y : bytes) : {x = y} + {x <> y}.
Proof. apply list_eq_dec, N.eq_dec. Qed.

Lemma ttl_eq_dec (x y : ttl) : {x = y} + {x <> y}.
Proof. decide equality; apply N.eq_dec. Qed.

Lemma frame_eq_dec (x y : frame) : {x = y} + {x <> y}.
Proof.
  pose proof N.eq_dec. pose proof bytes_eq_dec. pose proof ttl_eq_dec.
  repeat decide equality.
Qed.

(* A frame without a time TTL, in a (context, topic) that never receives a head:K
   frame, and that nobody removes explicitly, stays live for ever. *)
Theorem forever_safe : forall now pre post f,
  wf_run (pre ++ post) (a_empty now) ->
  In f (a_live (after0 now pre)) ->
  (forall ms, f_ttl f <> Some (Time ms)) ->
  ~ In (ORemove (f_id f)) post ->
  (forall p i f0 q g a' k,
     pre ++ post = p ++ OAppend i f0 :: q ->
     a_append (after0 now p) i f0 = (Ok g, a') ->
     f_ctx g = f_ctx f -> f_topic g = f_topic f -> f_ttl g <> Some (Head k)) ->
  In f (a_live (after0 now (pre ++ post))).
Proof.
  intros now pre post f. induction post as [|o post IH] using rev_ind;
    intros W Hf Tf NR NH.
  - now rewrite app_nil_r.
  - rewrite app_assoc in *.
    assert (IHf : In f (a_live (after0 now (pre ++ post)))).
    { apply IH; auto.
      - apply wf_run_app in W. tauto.
      - intros H. apply NR. apply in_or_app. now left.
      - intros p i f0 q g a' k E. apply (NH p i f0 (q ++ [o]) g a' k).
        rewrite E, <- app_assoc. reflexivity. }
    destruct (In_dec frame_eq_dec f (a_live (after0 now ((pre ++ post) ++ [o])))) as [Y|Nn];
      [exact Y|exfalso].
    destruct (retention now (pre ++ post) o f W (conj IHf Nn))
      as [H|[[H _]|(_ & k & (p & i & f0 & q & g & a' & E & Ea & Cg & Tg & Tk) & _)]].
    + apply NR. apply in_or_app. right. left. now symmetry.
    + apply expired_time in H. destruct H as (ms & H). exact (Tf ms H).
    + apply (NH p i f0 (q ++ [o]) g a' k); auto.
      rewrite E, <- app_assoc. reflexivity.
Qed.

(* ---------------------------------------------------------------------------- *)
(* G4. head:N bound once the collector has drained (C09) *)

(* DIFFERENCE with the first draft: OReopen is excluded as well.  A restart empties
   the queue (a_reopen starts from gcq = []), so pending head collections are
   forgotten: append three head:1 frames to one topic, reopen: the queue is empty,
   the newest frame carries head:1 and three frames are live. *)
Definition wf4_op (a : astore) (o : op) : Prop :=
  match o with
  | OImport _ => False
  | OReopen => False
  | OAppend i _ => forallb (fun g => f_id g <? i) (a_live a) = true
  | _ => True
  end.

Fixpoint wf4_run (ops : list op) (a : astore) : Prop :=
  match ops with
  | [] => True
  | o :: r => wf4_op a o /\ wf4_run r (snd (a_step a o))
  end.

Definition pend (l : list frame) (q : list gctask) : Prop :=
  forall g n, In g l -> f_ttl g = Some (Head n) ->
    (length (filter (fun h => same_topic (f_ctx g) (f_topic g) h && (f_id h <=? f_id g)) l)
     <= N.to_nat n)%nat
    \/ In (GcCheckHead (f_ctx g) (f_topic g) n) q.

Definition pending (a : astore) : Prop := pend (a_live a) (a_gcq a).

Lemma filter_len_incl (p : frame -> bool) l l' :
  sorted l' -> (forall h, In h l' -> p h = true -> In h l) ->
  (length (filter p l') <= length (filter p l))%nat.
Proof.
  intros S H. apply NoDup_incl_length.
  - apply NoDup_filter, sorted_NoDup, S.
  - intros h Hh. apply filter_In in Hh. destruct Hh as [Hh Ph]. apply filter_In. auto.
Qed.

Lemma filter_len_andb {A} (p q : A -> bool) l :
  (length (filter (fun h => p h && q h) l) <= length (filter p l))%nat.
Proof.
  induction l as [|x l IH]; cbn [filter]; [apply le_n|].
  destruct (p x); cbn [andb]; [destruct (q x)|]; cbn [length]; lia.
Qed.

Lemma pend_shrink l q l' q' :
  sorted l' -> (forall h, In h l' -> In h l) -> (forall t, In t q -> In t q') ->
  pend l q -> pend l' q'.
Proof.
  intros S HL HQ P g n Hg Tg. destruct (P g n (HL _ Hg) Tg) as [L|R]; [left|right; auto].
  eapply PeanoNat.Nat.le_trans; [apply (filter_len_incl _ l)|exact L]; auto.
Qed.

Lemma pend_task a t q :
  sorted (a_live a) -> pend (a_live a) (t :: q) -> pend (a_live (a_run_task a t)) q.
Proof.
  intros S P g n Hg Tg. pose proof (a_run_task_sorted a t S) as S'.
  destruct (P g n (a_run_task_in _ _ _ Hg) Tg) as [L|[E|R]].
  - left. eapply PeanoNat.Nat.le_trans; [apply (filter_len_incl _ (a_live a))|exact L]; auto.
    intros h Hh _. now apply a_run_task_in in Hh.
  - left. subst t. cbn [a_run_task a_live].
    eapply PeanoNat.Nat.le_trans; [apply filter_len_andb|]. now apply a_check_head_bound.
  - now right.
Qed.

Lemma pend_fold q : forall a,
  sorted (a_live a) -> pend (a_live a) q -> pend (a_live (fold_left a_run_task q a)) [].
Proof.
  induction q as [|t q IH]; intros a S P; cbn [fold_left]; [exact P|].
  apply IH; [now apply a_run_task_sorted|now apply pend_task].
Qed.

Lemma app_state_gcq_mono a f t : In t (a_gcq a) -> In t (a_gcq (app_state a f)).
Proof.
  unfold app_state. destruct (f_ttl f) as [[| |ms|n]|]; cbn [a_gcq]; auto.
  intros H. apply in_or_app. now left.
Qed.

Lemma pending_step a o :
  sorted (a_live a) -> pending a -> wf4_op a o -> pending (snd (a_step a o)).
Proof.
  intros S P W. pose proof (a_step_sorted a o S) as S'. unfold pending in *.
  destruct o as [i g|g|i|n| | | |l lim c|l lim c|i|t c].
  - rewrite step_append_snd, a_append_eq in *. destruct (app_err a g); cbn [snd] in *;
      [exact P|].
    set (f := app_frame i g) in *. intros h n Hh Th.
    apply app_state_live in Hh. destruct Hh as [->|Hh].
    + right. unfold app_state. rewrite Th. cbn [a_gcq]. apply in_or_app. right. now left.
    + destruct (P h n Hh Th) as [L|R]; [left|right; now apply app_state_gcq_mono].
      eapply PeanoNat.Nat.le_trans; [apply (filter_len_incl _ (a_live a))|exact L]; auto.
      intros x Hx Px. apply app_state_live in Hx. destruct Hx as [->|Hx]; [exfalso|exact Hx].
      apply andb_true_iff in Px. destruct Px as [_ Px]. apply N.leb_le in Px.
      cbn [wf4_op] in W. rewrite forallb_forall in W. specialize (W h Hh).
      apply N.ltb_lt in W. unfold f, app_frame in Px. cbn [f_id] in Px. lia.
  - destruct W.
  - cbn [a_step snd a_remove_live a_live a_gcq] in *. apply (pend_shrink (a_live a) (a_gcq a)); auto.
    intros h Hh. apply a_delete_in in Hh. tauto.
  - exact P.
  - cbn [a_step snd] in *. revert S'. unfold a_gc_step.
    destruct (a_gcq a) as [|t q] eqn:Eq; intros S'; [now rewrite Eq|].
    rewrite a_run_task_gcq. cbn [a_gcq].
    apply (pend_task (mkA (a_live a) q (a_now a) (a_bcast a))); assumption.
  - cbn [a_step snd] in *. rewrite a_drain_gcq. unfold a_drain.
    apply (pend_fold (a_gcq a) (mkA (a_live a) [] (a_now a) (a_bcast a))); assumption.
  - destruct W.
  - rewrite step_readsync_snd, a_read_sync_snd in *. cbn [a_enqueue a_live a_gcq] in *.
    apply (pend_shrink (a_live a) (a_gcq a)); auto. intros t Ht. apply in_or_app. now left.
  - rewrite step_read_snd, a_read_hist_snd in *. cbn [a_enqueue a_live a_gcq] in *.
    apply (pend_shrink (a_live a) (a_gcq a)); auto. intros t Ht. apply in_or_app. now left.
  - exact P.
  - exact P.
Qed.

Lemma pending_empty now : pending (a_empty now).
Proof. intros g n []. Qed.

Lemma pending_run ops : forall a,
  sorted (a_live a) -> pending a -> wf4_run ops a -> pending (arun ops a).
Proof.
  induction ops as [|o r IH]; intros a S P W; cbn [arun]; [exact P|].
  destruct W as [W1 W2]. apply IH; [now apply a_step_sorted|now apply pending_step|exact W2].
Qed.

Theorem pending_after0 : forall now ops,
  wf4_run ops (a_empty now) -> pending (after0 now ops).
Proof.
  intros now ops W. apply pending_run; [constructor|apply pending_empty|exact W].
Qed.

Theorem head_bound_after_drain : forall now ops c t g n,
  wf4_run ops (a_empty now) ->
  let a := after0 now ops in
  a_gcq a = [] -> a_head a t c = Some g -> f_ttl g = Some (Head n) ->
  (length (filter (same_topic c t) (a_live a)) <= N.to_nat n)%nat.
Proof.
  intros now ops c t g n W a Eq Hh Tg.
  assert (S : sorted (a_live a)) by apply after0_sorted.
  pose proof (pending_after0 now ops W) as P. fold a in P.
  destruct (a_head_some _ _ _ _ S Hh) as (Hg & Cg & Ttg & M).
  destruct (P g n Hg Tg) as [L|R]; [|rewrite Eq in R; destruct R].
  assert (E : filter (same_topic c t) (a_live a) =
              filter (fun h => same_topic (f_ctx g) (f_topic g) h && (f_id h <=? f_id g))
                     (a_live a)).
  { apply filter_ext_in. intros h Hh'. rewrite Cg, Ttg.
    destruct (same_topic c t h) eqn:T; cbn [andb]; [|reflexivity].
    symmetry. apply N.leb_le. apply same_topic_true in T. destruct T. now apply M. }
  rewrite E. exact L.
Qed.

(* ---------------------------------------------------------------------------- *)
(* A history-level sufficient condition for [wf_run]: the clock never goes back and
   no id is ever handed out twice (what scru128 guarantees). *)

Definition op_id (o : op) : option N :=
  match o with OAppend i _ => Some i | OImport f => Some (f_id f) | _ => None end.

Definition see (seen : list N) (o : op) : list N :=
  match op_id o with Some i => i :: seen | None => seen end.

Definition wfh_op (seen : list N) (a : astore) (o : op) : Prop :=
  match o with
  | OSetNow n => a_now a <= n
  | _ => match op_id o with Some i => ~ In i seen | None => True end
  end.

Fixpoint wfh_run (seen : list N) (ops : list op) (a : astore) : Prop :=
  match ops with
  | [] => True
  | o :: r => wfh_op seen a o /\ wfh_run (see seen o) r (snd (a_step a o))
  end.

Definition ids_seen (seen : list N) (a : astore) : Prop :=
  (forall f, In f (a_live a) -> In (f_id f) seen) /\
  (forall i, In (GcRemove i) (a_gcq a) -> In i seen).

Lemma step_gcq_remove a o i :
  In (GcRemove i) (a_gcq (snd (a_step a o))) ->
  In (GcRemove i) (a_gcq a) \/ exists f, In f (a_live a) /\ f_id f = i.
Proof.
  intros H.
  destruct o as [j g|g|j|n| | | |l lim c|l lim c|j|t c].
  - rewrite step_append_snd, a_append_eq in H. destruct (app_err a g); cbn [snd] in H;
      [now left|].
    apply app_state_gcq in H. destruct H as [H|(n & _ & H)]; [now left|discriminate].
  - rewrite step_import_snd in H. unfold a_import in H.
    destruct (has_nul (f_topic g)); cbn [snd a_gcq] in H; now left.
  - now left.
  - now left.
  - cbn [a_step snd] in H. revert H. unfold a_gc_step.
    destruct (a_gcq a) as [|t0 q] eqn:Eq; intros H.
    + cbv iota in H. rewrite Eq in H. destruct H.
    + rewrite a_run_task_gcq in H. cbn [a_gcq] in H. left. now right.
  - cbn [a_step snd] in H. rewrite a_drain_gcq in H. destruct H.
  - cbn [a_step snd] in H. unfold a_reopen in H. rewrite a_read_sync_snd in H.
    cbn [a_enqueue a_gcq app] in H.
    apply (rs_tasks_live (mkA (a_live a) [] (a_now a) [])) in H.
    destruct H as (f & Hf & _ & E). inversion E. right. now exists f.
  - rewrite step_readsync_snd, a_read_sync_snd in H. cbn [a_enqueue a_gcq] in H.
    apply in_app_or in H. destruct H as [H|H]; [now left|].
    apply rs_tasks_live in H. destruct H as (f & Hf & _ & E). inversion E. right. now exists f.
  - rewrite step_read_snd, a_read_hist_snd in H. cbn [a_enqueue a_gcq] in H.
    apply in_app_or in H. destruct H as [H|H]; [now left|].
    apply rh_tasks_live in H. destruct H as (f & Hf & _ & E). inversion E. right. now exists f.
  - now left.
  - now left.
Qed.

Lemma see_incl seen o i : In i seen -> In i (see seen o).
Proof. unfold see. destruct (op_id o); [now right|auto]. Qed.

Lemma ids_seen_step seen a o : ids_seen seen a -> ids_seen (see seen o) (snd (a_step a o)).
Proof.
  intros [HL HQ]. split.
  - intros f Hf. destruct (step_live_provenance _ _ _ Hf) as [H|[->|(i & f0 & a' & -> & E)]].
    + apply see_incl. now apply HL.
    + now left.
    + destruct (a_append_ok_fields _ _ _ _ _ E) as (Ei & _). left. now symmetry.
  - intros i Hi. apply see_incl.
    destruct (step_gcq_remove _ _ _ Hi) as [H|(f & Hf & <-)]; [now apply HQ|now apply HL].
Qed.

Lemma fresh_intro i l : (forall f, In f l -> f_id f <> i) -> fresh i l = true.
Proof.
  intros H. unfold fresh. apply forallb_forall. intros f Hf.
  apply negb_true_iff, N.eqb_neq. now apply H.
Qed.

Lemma wfh_op_wf seen a o : ids_seen seen a -> wfh_op seen a o -> wf_op a o.
Proof.
  intros [HL HQ] W.
  destruct o as [i g|g|i|n| | | |l lim c|l lim c|i|t c]; cbn [wf_op]; try exact I.
  - cbn [wfh_op op_id] in W. split.
    + apply fresh_intro. intros f Hf E. apply W. rewrite <- E. now apply HL.
    + intros H. apply W. now apply HQ.
  - cbn [wfh_op op_id] in W. split.
    + apply fresh_intro. intros f Hf E. apply W. rewrite <- E. now apply HL.
    + intros H. apply W. now apply HQ.
  - exact W.
Qed.

Lemma wfh_run_wf_gen ops : forall seen a,
  ids_seen seen a -> wfh_run seen ops a -> wf_run ops a.
Proof.
  induction ops as [|o r IH]; intros seen a Hs W; cbn [wf_run]; [exact I|].
  destruct W as [W1 W2]. split; [now apply (wfh_op_wf seen)|].
  apply (IH (see seen o)); [now apply ids_seen_step|exact W2].
Qed.

Theorem wfh_run_wf : forall now ops, wfh_run [] ops (a_empty now) -> wf_run ops (a_empty now).
Proof.
  intros now ops. apply wfh_run_wf_gen. split; [intros f []|intros i []].
Qed.

(* ---------------------------------------------------------------------------- *)
(* Refutation witnesses for the two hypotheses that had to be strengthened. *)

(* (a) freshness w.r.t. the live list alone does not give retention *)
Definition wf_op_weak (a : astore) (o : op) : Prop :=
  match o with
  | OSetNow n => a_now a <= n
  | OImport f => fresh (f_id f) (a_live a) = true
  | OAppend i _ => fresh i (a_live a) = true
  | _ => True
  end.

Fixpoint wf_run_weak (ops : list op) (a : astore) : Prop :=
  match ops with
  | [] => True
  | o :: r => wf_op_weak a o /\ wf_run_weak r (snd (a_step a o))
  end.

Definition cx_frame (t : option ttl) : frame := mkFrame 0 0 [97] None None t.

Definition cx_ops1 : list op :=
  [OAppend 5 (cx_frame (Some (Time 1))); OSetNow 10; OReadSync None None None;
   ORemove 5; OAppend 5 (cx_frame None)].

(* the frame appended last has no TTL, is not removed and no head frame exists at
   all, and yet the drain collects it *)
Example retention_needs_queue_freshness :
  let g := mkFrame 5 0 [97] None None None in
  wf_run_weak (cx_ops1 ++ [ODrain]) (a_empty 0) /\
  lost (after0 0 cx_ops1) (after0 0 (cx_ops1 ++ [ODrain])) g /\
  expired (a_now (after0 0 cx_ops1)) g = false.
Proof.
  vm_compute. repeat split; try reflexivity; try discriminate.
  - now left.
  - intros [].
Qed.

(* (b) a restart forgets queued head collections *)
Definition wf4_op_weak (a : astore) (o : op) : Prop :=
  match o with
  | OImport _ => False
  | OAppend i _ => forallb (fun g => f_id g <? i) (a_live a) = true
  | _ => True
  end.

Fixpoint wf4_run_weak (ops : list op) (a : astore) : Prop :=
  match ops with
  | [] => True
  | o :: r => wf4_op_weak a o /\ wf4_run_weak r (snd (a_step a o))
  end.

Definition cx_ops2 : list op :=
  [OAppend 1 (cx_frame (Some (Head 1))); OAppend 2 (cx_frame (Some (Head 1)));
   OAppend 3 (cx_frame (Some (Head 1))); OReopen].

Example head_bound_needs_no_reopen :
  let a := after0 0 cx_ops2 in
  wf4_run_weak cx_ops2 (a_empty 0) /\ a_gcq a = [] /\
  a_head a [97] 0 = Some (mkFrame 3 0 [97] None None (Some (Head 1))) /\
  length (filter (same_topic 0 [97]) (a_live a)) = 3%nat.
Proof. vm_compute. repeat split; reflexivity. Qed.

Print Assumptions live_provenance.
Print Assumptions gcq_remove_expired.
Print Assumptions gcq_head_provenance.
Print Assumptions retention.
Print Assumptions forever_safe.
Print Assumptions expired_collected.
Print Assumptions expired_collected_hist.
Print Assumptions pending_after0.
Print Assumptions head_bound_after_drain.
Print Assumptions wfh_run_wf.
Print Assumptions retention_needs_queue_freshness.
Print Assumptions head_bound_needs_no_reopen.
