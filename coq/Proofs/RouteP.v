(* Route parsing: the head route carries exactly the topic that follows "/head/" (whatever that
   topic looks like), an append carries the path without its leading slashes, reserved paths. *)
From XS Require Import Model.Route Proofs.BytesP.
From Coq Require Import Lia.

Lemma is_prefix_app : forall p t, is_prefix p (p ++ t) = true.
Proof.
  induction p as [|x p IH]; intros t; cbn [is_prefix app]; [reflexivity|].
  rewrite N.eqb_refl, IH. reflexivity.
Qed.

Lemma skipn_app_exact : forall (p t : bytes), skipn (length p) (p ++ t) = t.
Proof. induction p as [|x p IH]; intros t; cbn [length skipn app]; [reflexivity|apply IH]. Qed.

(* GET /head/<t> asks for topic t - for EVERY byte string t, including ones that begin with
   "/head/" themselves, contain slashes, or are empty *)
Theorem route_head_exact : forall t, route_path MGet (p_head ++ t) = PHead t.
Proof.
  intros t. unfold route_path.
  assert (H1 : bytes_eqb (p_head ++ t) p_version = false).
  { unfold p_head, p_version. cbn [app bytes_eqb]. cbn. reflexivity. }
  assert (H2 : bytes_eqb (p_head ++ t) p_root = false).
  { unfold p_head, p_root. cbn [app bytes_eqb]. cbn. reflexivity. }
  rewrite H1, H2, is_prefix_app.
  change 6%nat with (length p_head). rewrite skipn_app_exact. reflexivity.
Qed.

Theorem route_cas_exact : forall h, route_path MGet (p_cas_ ++ h) = PCasGet h.
Proof.
  intros h. unfold route_path.
  assert (H1 : bytes_eqb (p_cas_ ++ h) p_version = false) by (unfold p_cas_, p_version; cbn; reflexivity).
  assert (H2 : bytes_eqb (p_cas_ ++ h) p_root = false) by (unfold p_cas_, p_root; cbn; reflexivity).
  assert (H3 : is_prefix p_head (p_cas_ ++ h) = false) by (unfold p_cas_, p_head; cbn; reflexivity).
  rewrite H1, H2, H3, is_prefix_app.
  change 5%nat with (length p_cas_). rewrite skipn_app_exact. reflexivity.
Qed.

Lemma trim_slashes_noslash : forall t, starts_slash t = false -> trim_slashes t = t.
Proof. intros [|b r] H; cbn [trim_slashes starts_slash] in *; [reflexivity|rewrite H; reflexivity]. Qed.

(* POST /<t> appends to topic t when t does not itself start with a slash and the path is not one
   of the two reserved ones *)
Theorem route_append_exact : forall t,
  starts_slash t = false -> bytes_eqb (47 :: t) p_cas = false -> bytes_eqb (47 :: t) p_import = false ->
  route_path MPost (47 :: t) = PAppend t.
Proof.
  intros t Hs Hc Hi. unfold route_path. rewrite Hc, Hi.
  cbn [starts_slash]. rewrite N.eqb_refl. cbn [trim_slashes]. rewrite N.eqb_refl.
  rewrite (trim_slashes_noslash t Hs). reflexivity.
Qed.

(* leading slashes never reach a topic or an id text *)
Lemma trim_slashes_head : forall p, starts_slash (trim_slashes p) = false.
Proof.
  induction p as [|b r IH]; cbn [trim_slashes]; [reflexivity|].
  destruct (b =? 47) eqn:E; [exact IH|]. cbn [starts_slash]. exact E.
Qed.

Theorem route_append_topic_noslash : forall p t, route_path MPost p = PAppend t -> starts_slash t = false.
Proof.
  intros p t. unfold route_path.
  destruct (bytes_eqb p p_cas); [discriminate|].
  destruct (bytes_eqb p p_import); [discriminate|].
  destruct (starts_slash p); [|discriminate].
  intros H. inversion H. apply trim_slashes_head.
Qed.

(* only GET / POST / DELETE reach the store *)
Theorem route_other_methods : forall p, route_path MOther p = PNotFound.
Proof. reflexivity. Qed.

(* the non-idempotent variant (str::trim_start_matches instead of strip_prefix) is different: *)
Fixpoint strip_all (fuel : nat) (p : bytes) : bytes :=
  match fuel with
  | O => p
  | S f => if is_prefix p_head p then strip_all f (skipn 6 p) else p
  end.
Example route_head_repeated_strip_refuted :
  exists t, route_path MGet (p_head ++ t) = PHead t /\ strip_all 8 (p_head ++ t) <> t.
Proof.
  exists (p_head ++ [120]). split; [apply route_head_exact|]. vm_compute. discriminate.
Qed.

Theorem param_last_snoc : forall k v ps, param_last k (ps ++ [(k, v)]) = Some v.
Proof.
  intros k v ps. induction ps as [|[k' v'] r IH]; cbn [app param_last].
  - rewrite bytes_eqb_refl. reflexivity.
  - rewrite IH. reflexivity.
Qed.

(* an earlier occurrence never matters once a later one exists *)
Theorem param_last_decoy : forall k v w ps, param_last k ((k, w) :: ps ++ [(k, v)]) = Some v.
Proof. intros k v w ps. cbn [param_last]. rewrite param_last_snoc. reflexivity. Qed.

Print Assumptions param_last_snoc.
Print Assumptions route_head_exact.
Print Assumptions route_cas_exact.
Print Assumptions route_append_exact.
Print Assumptions route_append_topic_noslash.
