(* Properties of the journal / durability model (Model/Crash.v):
   K1 link with Store.insert_frame / Store.remove, K2 quiescence, K3 process kill,
   K4 power loss, K5 refutation of the protocol without persist, K6 non-vacuity. *)
From XS Require Import Model.Crash.
From Coq Require Import Lia.

(* ------------------------------------------------------------------ K1 *)

(* the two index deletions an insert adds to its batch when it overwrites a frame stored under
   other keys (same id, another context or topic) *)
Definition drop_muts (p : parts) (f : frame) : batch :=
  match kv_get (skey (f_id f)) (p_stream p) with
  | Some old => if same_keys old f then [] else [MDelT (tkey old); MDelC (ckey old)]
  | None => []
  end.

Lemma insert_parts : forall s f, has_nul (f_topic f) = false ->
  parts_of (snd (insert_frame s f))
  = apply_batch (parts_of s)
      (drop_muts (parts_of s) f ++ [MPutS (skey (f_id f)) f; MPutT (tkey f); MPutC (ckey f)]).
Proof.
  intros s f Hnul. unfold insert_frame, insert_frame_gen, drop_old, get, drop_muts.
  rewrite Hnul. cbn [parts_of p_stream].
  destruct (kv_get (skey (f_id f)) (s_stream s)) as [old|]; [|reflexivity].
  destruct (same_keys old f); reflexivity.
Qed.

Lemma insert_frame_batch : forall s f,
  parts_of (snd (insert_frame s f))
  = match batch_of (parts_of s) (JInsert f) with
    | Some b => apply_batch (parts_of s) b
    | None => parts_of s
    end.
Proof.
  intros s f. unfold batch_of. destruct (has_nul (f_topic f)) eqn:Hnul.
  - unfold insert_frame, insert_frame_gen. rewrite Hnul. reflexivity.
  - rewrite (insert_parts s f Hnul). reflexivity.
Qed.

Lemma remove_batch : forall s i,
  parts_of (snd (remove s i))
  = match batch_of (parts_of s) (JRemove i) with
    | Some b => apply_batch (parts_of s) b
    | None => parts_of s
    end.
Proof.
  intros s i. unfold remove, get, batch_of. cbn [parts_of p_stream].
  destruct (kv_get (skey i) (s_stream s)) as [f|]; [|reflexivity].
  destruct (has_nul (f_topic f)); reflexivity.
Qed.

(* the store operation a journaled operation stands for *)
Definition store_op (s : store) (o : jop) : store :=
  match o with
  | JInsert f => snd (insert_frame s f)
  | JRemove i => snd (remove s i)
  end.

Lemma exec_op_store : forall s d o,
  fst (exec_op (parts_of s, d) o) = parts_of (store_op s o).
Proof.
  intros s d o. unfold exec_op. cbn [fst]. destruct o as [f|i]; cbn [store_op].
  - symmetry. apply insert_frame_batch.
  - symmetry. apply remove_batch.
Qed.

(* ------------------------------------------------------------------ K2 *)

Definition journal (d : disk) : list batch := d_durable d ++ d_os d ++ d_user d.

Lemma replay_snoc : forall j b, replay (j ++ [b]) = apply_batch (replay j) b.
Proof. intros j b. unfold replay. rewrite fold_left_app. reflexivity. Qed.

Lemma exec_ops_snoc : forall l o, exec_ops (l ++ [o]) = exec_op (exec_ops l) o.
Proof. intros l o. unfold exec_ops. rewrite fold_left_app. reflexivity. Qed.

(* all three steps of a committing operation, from a quiescent disk *)
Lemma run_program_some : forall dur b,
  fold_left do_pstep [PCommit b; PFlush; PFsync] (mkDisk dur [] []) = mkDisk (dur ++ [b]) [] [].
Proof. intros dur b. reflexivity. Qed.

Definition quiescent (st : parts * disk) : Prop :=
  fst st = replay (d_durable (snd st)) /\ d_os (snd st) = [] /\ d_user (snd st) = [].

Lemma exec_op_quiescent : forall st o, quiescent st -> quiescent (exec_op st o).
Proof.
  intros [p d] o [Hp [Hos Hus]]. destruct d as [dur os us]. cbn [fst snd d_durable d_os d_user] in *.
  subst os us. unfold exec_op, program.
  destruct (batch_of p o) as [b|].
  - rewrite run_program_some. unfold quiescent. cbn [fst snd d_durable d_os d_user].
    rewrite replay_snoc, <- Hp. auto.
  - unfold quiescent. cbn [fold_left fst snd d_durable d_os d_user]. auto.
Qed.

Lemma exec_ops_quiescent : forall ops, quiescent (exec_ops ops).
Proof.
  intros ops. induction ops as [|o l IH] using rev_ind.
  - unfold quiescent. cbn. auto.
  - rewrite exec_ops_snoc. apply exec_op_quiescent. exact IH.
Qed.

Lemma exec_ops_journal : forall ops,
  let '(p, d) := exec_ops ops in p = replay (journal d) /\ d_os d = [] /\ d_user d = [].
Proof.
  intros ops. pose proof (exec_ops_quiescent ops) as Hq.
  destruct (exec_ops ops) as [p d]. destruct Hq as [Hp [Hos Hus]].
  cbn [fst snd] in *. unfold journal. rewrite Hos, Hus, !app_nil_r. auto.
Qed.

Lemma exec_ops_durable : forall ops,
  fst (exec_ops ops) = replay (d_durable (snd (exec_ops ops))).
Proof. intros ops. apply (exec_ops_quiescent ops). Qed.

(* ------------------------------------------------------------------ K3 / K4 *)

Lemma firstn_S_nth_error : forall (A : Type) (l : list A) k x,
  nth_error l k = Some x -> firstn (S k) l = firstn k l ++ [x].
Proof.
  intros A l. induction l as [|a l IH]; intros k x Hnth.
  - destruct k; discriminate Hnth.
  - destruct k as [|k].
    + cbn in Hnth. injection Hnth as ->. reflexivity.
    + cbn [nth_error] in Hnth. rewrite firstn_cons, (IH _ _ Hnth). reflexivity.
Qed.

(* the disk at a crash instant inside operation k, after n steps of its program *)
Definition crash_disk (dur : list batch) (b : batch) (n : nat) : disk :=
  match n with
  | 0%nat => mkDisk dur [] []
  | 1%nat => mkDisk dur [] [b]
  | 2%nat => mkDisk dur [b] []
  | _ => mkDisk (dur ++ [b]) [] []
  end.

Lemma crash_state_shape : forall ops k n o, nth_error ops k = Some o ->
  exists dur,
    replay dur = fst (exec_ops (firstn k ops)) /\
    match batch_of (fst (exec_ops (firstn k ops))) o with
    | None => crash_state ops k n = mkDisk dur [] [] /\
              fst (exec_ops (firstn (S k) ops)) = fst (exec_ops (firstn k ops))
    | Some b => crash_state ops k n = crash_disk dur b n /\
                fst (exec_ops (firstn (S k) ops)) = apply_batch (fst (exec_ops (firstn k ops))) b
    end.
Proof.
  intros ops k n o Hnth.
  rewrite (firstn_S_nth_error _ _ _ _ Hnth), exec_ops_snoc.
  unfold crash_state. rewrite Hnth.
  pose proof (exec_ops_quiescent (firstn k ops)) as Hq.
  destruct (exec_ops (firstn k ops)) as [p d]. destruct Hq as [Hp [Hos Hus]].
  destruct d as [dur os us]. cbn [fst snd d_durable d_os d_user] in *. subst os us.
  exists dur. split; [symmetry; exact Hp|].
  unfold exec_op, program. destruct (batch_of p o) as [b|].
  - cbn [fst]. split; [|reflexivity].
    destruct n as [|[|[|n]]]; try reflexivity.
    cbn [firstn]. rewrite firstn_nil. reflexivity.
  - cbn [fst]. split; [|reflexivity]. rewrite firstn_nil. reflexivity.
Qed.

Section Crash.
  Variable ops : list jop.
  Variable k : nat.
  Hypothesis Hk : (k < length ops)%nat.

  Let before := fst (exec_ops (firstn k ops)).
  Let after := fst (exec_ops (firstn (S k) ops)).

  Lemma nth_error_some : exists o, nth_error ops k = Some o.
  Proof.
    destruct (nth_error ops k) as [o|] eqn:Hnth; [eauto|].
    apply nth_error_None in Hnth. lia.
  Qed.

  Theorem kill_all_or_nothing : forall n,
    replay (kill_image (crash_state ops k n)) = fst (exec_ops (firstn k ops)) \/
    replay (kill_image (crash_state ops k n)) = fst (exec_ops (firstn (S k) ops)).
  Proof.
    intros n. destruct nth_error_some as [o Hnth].
    destruct (crash_state_shape ops k n o Hnth) as [dur [Hdur Hshape]].
    destruct (batch_of (fst (exec_ops (firstn k ops))) o) as [b|].
    - destruct Hshape as [-> ->]. rewrite <- Hdur.
      destruct n as [|[|[|n]]]; unfold crash_disk, kill_image; cbn [d_durable d_os].
      + left. rewrite app_nil_r. reflexivity.
      + left. rewrite app_nil_r. reflexivity.
      + right. apply replay_snoc.
      + right. rewrite app_nil_r. apply replay_snoc.
    - destruct Hshape as [-> _]. left. unfold kill_image. cbn [d_durable d_os].
      rewrite app_nil_r. exact Hdur.
  Qed.

  Theorem kill_acked : forall n o, nth_error ops k = Some o ->
    (length (program (fst (exec_ops (firstn k ops))) o) <= n)%nat ->
    replay (kill_image (crash_state ops k n)) = fst (exec_ops (firstn (S k) ops)).
  Proof.
    intros n o Hnth Hlen.
    destruct (crash_state_shape ops k n o Hnth) as [dur [Hdur Hshape]].
    unfold program in Hlen.
    destruct (batch_of (fst (exec_ops (firstn k ops))) o) as [b|].
    - destruct Hshape as [-> ->]. rewrite <- Hdur. cbn [length] in Hlen.
      destruct n as [|[|[|n]]]; try lia.
      unfold crash_disk, kill_image; cbn [d_durable d_os].
      rewrite app_nil_r. apply replay_snoc.
    - destruct Hshape as [-> ->]. unfold kill_image. cbn [d_durable d_os].
      rewrite app_nil_r. exact Hdur.
  Qed.

  Lemma power_images_quiet : forall dur us, power_images (mkDisk dur [] us) = [dur ++ []].
  Proof. intros dur us. reflexivity. Qed.

  Lemma power_images_one : forall dur b us,
    power_images (mkDisk dur [b] us) = [dur ++ []; dur ++ [b]].
  Proof. intros dur b us. reflexivity. Qed.

  Theorem power_all_or_nothing : forall n img,
    In img (power_images (crash_state ops k n)) ->
    replay img = fst (exec_ops (firstn k ops)) \/
    replay img = fst (exec_ops (firstn (S k) ops)).
  Proof.
    intros n img Himg. destruct nth_error_some as [o Hnth].
    destruct (crash_state_shape ops k n o Hnth) as [dur [Hdur Hshape]].
    destruct (batch_of (fst (exec_ops (firstn k ops))) o) as [b|].
    - destruct Hshape as [Hcs ->]. rewrite Hcs in Himg. rewrite <- Hdur.
      destruct n as [|[|[|n]]]; unfold crash_disk in Himg.
      + rewrite power_images_quiet in Himg. destruct Himg as [<-|[]].
        left. rewrite app_nil_r. reflexivity.
      + rewrite power_images_quiet in Himg. destruct Himg as [<-|[]].
        left. rewrite app_nil_r. reflexivity.
      + rewrite power_images_one in Himg. destruct Himg as [<-|[<-|[]]].
        * left. rewrite app_nil_r. reflexivity.
        * right. apply replay_snoc.
      + rewrite power_images_quiet in Himg. destruct Himg as [<-|[]].
        right. rewrite app_nil_r. apply replay_snoc.
    - destruct Hshape as [Hcs _]. rewrite Hcs, power_images_quiet in Himg.
      destruct Himg as [<-|[]]. left. rewrite app_nil_r. exact Hdur.
  Qed.

  Theorem power_acked : forall n o img, nth_error ops k = Some o ->
    (length (program (fst (exec_ops (firstn k ops))) o) <= n)%nat ->
    In img (power_images (crash_state ops k n)) ->
    replay img = fst (exec_ops (firstn (S k) ops)).
  Proof.
    intros n o img Hnth Hlen Himg.
    destruct (crash_state_shape ops k n o Hnth) as [dur [Hdur Hshape]].
    unfold program in Hlen.
    destruct (batch_of (fst (exec_ops (firstn k ops))) o) as [b|].
    - destruct Hshape as [Hcs ->]. rewrite Hcs in Himg. rewrite <- Hdur. cbn [length] in Hlen.
      destruct n as [|[|[|n]]]; try lia. unfold crash_disk in Himg.
      rewrite power_images_quiet in Himg. destruct Himg as [<-|[]].
      rewrite app_nil_r. apply replay_snoc.
    - destruct Hshape as [Hcs ->]. rewrite Hcs, power_images_quiet in Himg.
      destruct Himg as [<-|[]]. rewrite app_nil_r. exact Hdur.
  Qed.

  (* there is always at least one power image, so K4 is not vacuous *)
  Lemma power_images_nonempty : forall d, power_images d <> [].
  Proof. intros d. unfold power_images. cbn [seq map]. discriminate. Qed.
End Crash.

(* ------------------------------------------------------------------ K5 *)

Definition exec_op_gen (persist : bool) (st : parts * disk) (o : jop) : parts * disk :=
  let '(p, d) := st in
  (match batch_of p o with Some b => apply_batch p b | None => p end,
   fold_left do_pstep (program_gen persist p o) d).
Definition exec_ops_gen (persist : bool) (ops : list jop) : parts * disk :=
  fold_left (exec_op_gen persist) ops (parts_empty, disk_empty).

Lemma exec_ops_gen_true : forall ops, exec_ops_gen true ops = exec_ops ops.
Proof.
  intros ops. unfold exec_ops_gen, exec_ops. generalize (parts_empty, disk_empty).
  induction ops as [|o l IH]; intros st; [reflexivity|].
  cbn [fold_left]. rewrite IH. f_equal.
Qed.

Definition fA : frame := mkFrame 5 0 [97] None None None.

(* acknowledge after commit only: the whole program of the (acknowledged) insert ran, the
   in-memory state contains the frame, and a process kill loses it *)
Theorem weak_persist_refuted :
  let result := exec_ops_gen false [JInsert fA] in
  kill_image (snd result) = [] /\
  replay (kill_image (snd result)) = parts_empty /\
  fst result <> parts_empty /\
  kv_get (skey 5) (p_stream (fst result)) = Some fA /\
  kv_get (skey 5) (p_stream (replay (kill_image (snd result)))) = None.
Proof.
  vm_compute. repeat split; try reflexivity. discriminate.
Qed.

(* with persist the same history survives the kill *)
Theorem persist_survives :
  let result := exec_ops_gen true [JInsert fA] in
  replay (kill_image (snd result)) = fst result /\
  kv_get (skey 5) (p_stream (replay (kill_image (snd result)))) = Some fA.
Proof. vm_compute. split; reflexivity. Qed.

(* ------------------------------------------------------------------ K6 *)

Definition f1 : frame := mkFrame 5 0 [97] None None None.
Definition f2 : frame := mkFrame 6 0 [98] None None None.
Definition ops6 : list jop := [JInsert f1; JInsert f2; JRemove 5].

Example crash_mid_op1 :
  (* kill after the commit of op 1, before flush: only op 0 *)
  replay (kill_image (crash_state ops6 1 1)) = fst (exec_ops [JInsert f1]) /\
  (* kill after the flush of op 1: op 0 and op 1 *)
  replay (kill_image (crash_state ops6 1 2)) = fst (exec_ops [JInsert f1; JInsert f2]) /\
  (* the two outcomes differ, and the remove (op 2) really writes a batch *)
  fst (exec_ops [JInsert f1]) <> fst (exec_ops [JInsert f1; JInsert f2]) /\
  length (program (fst (exec_ops (firstn 2 ops6))) (JRemove 5)) = 3%nat /\
  kv_get (skey 5) (p_stream (fst (exec_ops ops6))) = None /\
  kv_get (skey 6) (p_stream (fst (exec_ops ops6))) = Some f2 /\
  (* power loss after the flush of op 1: both outcomes are possible *)
  map replay (power_images (crash_state ops6 1 2))
  = [fst (exec_ops [JInsert f1]); fst (exec_ops [JInsert f1; JInsert f2])].
Proof.
  vm_compute. repeat split; try reflexivity. discriminate.
Qed.

Print Assumptions insert_parts.
Print Assumptions insert_frame_batch.
Print Assumptions remove_batch.
Print Assumptions exec_op_store.
Print Assumptions exec_ops_journal.
Print Assumptions exec_ops_durable.
Print Assumptions kill_all_or_nothing.
Print Assumptions kill_acked.
Print Assumptions power_all_or_nothing.
Print Assumptions power_acked.
Print Assumptions weak_persist_refuted.
Print Assumptions crash_mid_op1.
