(* Direct facts about Store.append (no invariant needed). *)
From XS Require Import Model.Store Proofs.BytesP.
From Coq Require Import Lia.

Lemma xs_context_nonul : has_nul xs_context = false.
Proof. reflexivity. Qed.

Lemma is_ctx_topic_nonul t : is_ctx_topic t = true -> has_nul t = false.
Proof.
  unfold is_ctx_topic. intros H. apply bytes_eqb_eq in H. subst t. reflexivity.
Qed.

Lemma mem_set_add_same i l : mem i (set_add i l) = true.
Proof.
  unfold set_add. destruct (mem i l) eqn:Hm; [exact Hm|].
  unfold mem. cbn [existsb]. rewrite N.eqb_refl. reflexivity.
Qed.

Lemma mem_set_add_mono x y l : mem x l = true -> mem x (set_add y l) = true.
Proof.
  intros H. unfold set_add. destruct (mem y l); [exact H|].
  unfold mem in *. cbn [existsb]. rewrite H. apply orb_true_r.
Qed.

(* dropping the index entries of an overwritten frame does not touch the stream partition *)
Lemma drop_old_stream s f : s_stream (drop_old s f) = s_stream s.
Proof.
  unfold drop_old. destruct (get s (f_id f)) as [old|]; [|reflexivity].
  destruct (same_keys old f); reflexivity.
Qed.

(* a rejected append leaves no trace at all: no frame, no index entry, no registry
   change, no GC task, no broadcast *)
Lemma append_err_unchanged s i f e s' :
  append s i f = (Err e, s') -> s' = s.
Proof.
  unfold append. cbn [f_topic f_ctx f_ttl f_hash f_meta f_id].
  destruct (is_ctx_topic (f_topic f)) eqn:Hc.
  - destruct (f_ctx f =? 0) eqn:Hz.
    + cbn [f_topic]. rewrite (is_ctx_topic_nonul _ Hc).
      intros H. inversion H.
    + intros H. inversion H. reflexivity.
  - destruct (mem (f_ctx f) (s_ctxs s)) eqn:Hm.
    + cbn [f_topic]. destruct (has_nul (f_topic f)) eqn:Hn.
      * intros H. inversion H. destruct s; reflexivity.
      * intros H. inversion H.
    + intros H. inversion H. reflexivity.
Qed.

(* for an ordinary topic, acceptance is exactly registry membership *)
Lemma append_accept_iff s i f :
  is_ctx_topic (f_topic f) = false -> has_nul (f_topic f) = false ->
  ((exists g s', append s i f = (Ok g, s')) <-> mem (f_ctx f) (s_ctxs s) = true).
Proof.
  intros Hc Hn. unfold append. cbn [f_topic f_ctx f_ttl f_hash f_meta f_id].
  rewrite Hc. destruct (mem (f_ctx f) (s_ctxs s)) eqn:Hm.
  - cbn [f_topic]. rewrite Hn. split; [reflexivity|]. intros _. eauto.
  - split; [|discriminate]. intros (g & s' & H). inversion H.
Qed.

(* xs.context frames: accepted iff in the zero context; kept forever whatever was asked;
   the new id becomes a usable context *)
Lemma append_ctx_frame s i f :
  is_ctx_topic (f_topic f) = true ->
  (f_ctx f <> 0 -> exists s', append s i f = (Err ErrNotZeroCtx, s')) /\
  (f_ctx f = 0 -> exists g s', append s i f = (Ok g, s') /\ f_ttl g = Some Forever /\ f_id g = i
                               /\ mem i (s_ctxs s') = true /\ get s' i = Some g).
Proof.
  intros Hc. unfold append. cbn [f_topic f_ctx f_ttl f_hash f_meta f_id]. rewrite Hc.
  split.
  - intros Hz. apply N.eqb_neq in Hz. rewrite Hz. eauto.
  - intros Hz. rewrite Hz. cbn [N.eqb f_topic f_ttl].
    rewrite (is_ctx_topic_nonul _ Hc).
    eexists. eexists. split; [reflexivity|]. cbn [f_ttl f_id s_ctxs].
    split; [reflexivity|]. split; [reflexivity|].
    unfold insert_frame, insert_frame_gen. cbn [f_topic f_id f_ctx]. rewrite (is_ctx_topic_nonul _ Hc).
    cbn [snd s_ctxs s_stream s_itopic s_ictx s_gcq s_now s_bcast].
    split.
    + unfold registers. cbn [f_topic f_ctx]. rewrite Hc. cbn [N.eqb andb].
      apply mem_set_add_same.
    + unfold get. rewrite drop_old_stream. cbn [s_stream].
      generalize (s_stream s). intros l. unfold kv_get.
      induction l as [|[k v] l IH]; cbn [kv_put find fst].
      * rewrite bytes_eqb_refl. reflexivity.
      * destruct (lex_ltb (skey i) k) eqn:Hlt.
        -- cbn [find fst]. rewrite bytes_eqb_refl. reflexivity.
        -- destruct (bytes_eqb (skey i) k) eqn:He.
           ++ cbn [find fst]. rewrite bytes_eqb_refl. reflexivity.
           ++ cbn [find fst]. rewrite He. exact IH.
Qed.

(* a topic containing NUL is rejected without leaving any trace *)
Lemma append_nul s i f :
  has_nul (f_topic f) = true -> exists e, append s i f = (Err e, s).
Proof.
  intros Hn. unfold append. cbn [f_topic f_ctx f_ttl f_hash f_meta f_id].
  destruct (is_ctx_topic (f_topic f)) eqn:Hc.
  - apply is_ctx_topic_nonul in Hc. rewrite Hc in Hn. discriminate.
  - destruct (mem (f_ctx f) (s_ctxs s)) eqn:Hm.
    + cbn [f_topic]. rewrite Hn. exists ErrNul. destruct s; reflexivity.
    + exists ErrInvalidCtx. reflexivity.
Qed.

Lemma import_nul s f : has_nul (f_topic f) = true -> insert_frame s f = (Err ErrNul, s).
Proof. intros Hn. unfold insert_frame, insert_frame_gen. rewrite Hn. reflexivity. Qed.

(* an ephemeral append stores nothing: the three partitions, the registry and the GC queue are
   untouched; the frame goes to the broadcast channel only *)
Lemma append_ephemeral_not_stored s i f g s' :
  append s i f = (Ok g, s') -> f_ttl g = Some Ephemeral ->
  s_stream s' = s_stream s /\ s_itopic s' = s_itopic s /\ s_ictx s' = s_ictx s /\
  s_gcq s' = s_gcq s /\ s_bcast s' = s_bcast s ++ [g] /\ s_ctxs s' = s_ctxs s.
Proof.
  unfold append. cbn [f_topic f_ctx f_ttl f_hash f_meta f_id].
  destruct (is_ctx_topic (f_topic f)) eqn:Hc.
  - destruct (f_ctx f =? 0); [|discriminate].
    cbn [f_topic f_ttl]. rewrite (is_ctx_topic_nonul _ Hc).
    intros H. inversion H. subst g. cbn [f_ttl]. discriminate.
  - destruct (mem (f_ctx f) (s_ctxs s)); [|discriminate].
    cbn [f_topic f_ttl]. destruct (has_nul (f_topic f)); [discriminate|].
    intros H Ht. inversion H. subst g. cbn [f_ttl] in Ht. rewrite Ht in *.
    cbn [s_stream s_itopic s_ictx s_gcq s_bcast s_ctxs]. repeat split; reflexivity.
Qed.
