From XS Require Import Model.Spec Proofs.BytesP.
From Coq Require Import Lia Sorting.Sorted Permutation.
From Coq Require Import ZifyN ZifyBool.

(* Properties of the ABSTRACT specification machine (Model/Spec.v) alone. *)

Definition sid_lt (f g : frame) : Prop := f_id f < f_id g.
Notation sorted l := (StronglySorted sid_lt l).

(* ---------------------------------------------------------------------------- *)
(* generic list helpers *)

Lemma firstn_in {A} (n : nat) (l : list A) x : In x (firstn n l) -> In x l.
Proof.
  intros H. rewrite <- (firstn_skipn n l). apply in_or_app. now left.
Qed.

Lemma skipn_in {A} (n : nat) (l : list A) x : In x (skipn n l) -> In x l.
Proof.
  intros H. rewrite <- (firstn_skipn n l). apply in_or_app. now right.
Qed.

Lemma ss_app {A} (R : A -> A -> Prop) l1 l2 :
  StronglySorted R l1 -> StronglySorted R l2 ->
  (forall a b, In a l1 -> In b l2 -> R a b) -> StronglySorted R (l1 ++ l2).
Proof.
  induction l1 as [|x l1 IH]; intros S1 S2 H; cbn [app]; [exact S2|].
  inversion S1 as [|? ? S1' F1]; subst. constructor.
  - apply IH; auto. intros a b Ha Hb. apply H; [now right|exact Hb].
  - apply Forall_forall. intros y Hy. apply in_app_or in Hy. destruct Hy as [Hy|Hy].
    + rewrite Forall_forall in F1. now apply F1.
    + apply H; [now left|exact Hy].
Qed.

Lemma ss_app_inv {A} (R : A -> A -> Prop) l1 l2 :
  StronglySorted R (l1 ++ l2) ->
  StronglySorted R l1 /\ StronglySorted R l2 /\ (forall a b, In a l1 -> In b l2 -> R a b).
Proof.
  induction l1 as [|x l1 IH]; cbn [app]; intros S.
  - split; [constructor|]. split; [exact S|]. intros a b [].
  - inversion S as [|? ? S' F]; subst. destruct (IH S') as (S1 & S2 & H).
    rewrite Forall_forall in F. split; [|split].
    + constructor; [exact S1|]. apply Forall_forall. intros y Hy. apply F.
      apply in_or_app. now left.
    + exact S2.
    + intros a b [Ha|Ha] Hb.
      * subst a. apply F. apply in_or_app. now right.
      * now apply H.
Qed.

Lemma ss_rev {A} (R : A -> A -> Prop) l :
  StronglySorted R l -> StronglySorted (fun a b => R b a) (rev l).
Proof.
  induction 1 as [|x l S IH F]; cbn [rev]; [constructor|].
  apply ss_app; [exact IH|repeat constructor|].
  intros a b Ha [Hb|[]]. subst b. rewrite Forall_forall in F. apply F.
  now apply in_rev.
Qed.

Lemma ss_filter {A} (R : A -> A -> Prop) p l :
  StronglySorted R l -> StronglySorted R (filter p l).
Proof.
  induction 1 as [|x l S IH F]; cbn [filter]; [constructor|].
  destruct (p x); [|exact IH]. constructor; [exact IH|].
  rewrite Forall_forall in *. intros y Hy. apply filter_In in Hy. now apply F.
Qed.

Lemma ss_firstn {A} (R : A -> A -> Prop) n l :
  StronglySorted R l -> StronglySorted R (firstn n l).
Proof.
  intros S. rewrite <- (firstn_skipn n l) in S. now apply ss_app_inv in S.
Qed.

Lemma mem_in x l : mem x l = true <-> In x l.
Proof.
  unfold mem. rewrite existsb_exists. split.
  - intros (y & Hy & E). apply N.eqb_eq in E. now subst.
  - intros H. exists x. split; [exact H|apply N.eqb_refl].
Qed.

Lemma mem_not_in x l : mem x l = false <-> ~ In x l.
Proof.
  rewrite <- mem_in. destruct (mem x l); split; congruence.
Qed.

(* ---------------------------------------------------------------------------- *)
(* A. live-list algebra *)

Lemma sorted_cons_inv x l :
  sorted (x :: l) -> sorted l /\ (forall y, In y l -> f_id x < f_id y).
Proof.
  intros S. inversion S as [|? ? S' F]; subst. split; [exact S'|].
  rewrite Forall_forall in F. exact F.
Qed.

Lemma sorted_cons x l :
  sorted l -> (forall y, In y l -> f_id x < f_id y) -> sorted (x :: l).
Proof.
  intros S H. constructor; [exact S|]. apply Forall_forall. exact H.
Qed.

Lemma a_insert_in_weak f l g : In g (a_insert f l) -> g = f \/ In g l.
Proof.
  induction l as [|x r IH]; cbn [a_insert].
  - intros [H|[]]. now left.
  - destruct (f_id f <? f_id x).
    + intros [H|H]; [now left|now right].
    + destruct (f_id f =? f_id x).
      * intros [H|H]; [now left|right; now right].
      * intros [H|H]; [right; now left|]. destruct (IH H); [now left|right; now right].
Qed.

Lemma a_insert_sorted f l : sorted l -> sorted (a_insert f l).
Proof.
  induction l as [|x r IH]; cbn [a_insert]; intros S.
  - repeat constructor.
  - destruct (sorted_cons_inv _ _ S) as [Sr Hx].
    destruct (f_id f <? f_id x) eqn:E1.
    + apply N.ltb_lt in E1. apply sorted_cons; [exact S|].
      intros y [Hy|Hy]; [now subst|]. specialize (Hx y Hy). lia.
    + apply N.ltb_ge in E1. destruct (f_id f =? f_id x) eqn:E2.
      * apply N.eqb_eq in E2. apply sorted_cons; [exact Sr|].
        intros y Hy. specialize (Hx y Hy). lia.
      * apply N.eqb_neq in E2. apply sorted_cons; [now apply IH|].
        intros y Hy. apply a_insert_in_weak in Hy. destruct Hy as [Hy|Hy].
        -- subst y. lia.
        -- now apply Hx.
Qed.

Lemma a_insert_in f l g :
  sorted l -> (In g (a_insert f l) <-> g = f \/ (In g l /\ f_id g <> f_id f)).
Proof.
  induction l as [|x r IH]; cbn [a_insert]; intros S.
  - cbn [In]. split; [intros [H|[]]; now left|intros [H|[[] _]]; now left].
  - destruct (sorted_cons_inv _ _ S) as [Sr Hx]. specialize (IH Sr).
    destruct (f_id f <? f_id x) eqn:E1.
    + apply N.ltb_lt in E1. cbn [In]. split.
      * intros [H|[H|H]]; [now left| |].
        -- subst g. right. split; [now left|lia].
        -- right. split; [now right|]. specialize (Hx g H). lia.
      * intros [H|[[H|H] _]]; [now left|right; now left|right; now right].
    + apply N.ltb_ge in E1. destruct (f_id f =? f_id x) eqn:E2.
      * apply N.eqb_eq in E2. cbn [In]. split.
        -- intros [H|H]; [now left|]. right. split; [now right|].
           specialize (Hx g H). lia.
        -- intros [H|[[H|H] N]]; [now left| |now right].
           subst g. congruence.
      * apply N.eqb_neq in E2. cbn [In]. rewrite IH. split.
        -- intros [H|[H|[H N]]].
           ++ subst g. right. split; [now left|congruence].
           ++ now left.
           ++ right. split; [now right|exact N].
        -- intros [H|[[H|H] N]]; [right; now left|now left|].
           right. right. now split.
Qed.

Lemma filter_sorted p l : sorted l -> sorted (filter p l).
Proof. apply ss_filter. Qed.

Lemma firstn_sorted n l : sorted l -> sorted (firstn n l).
Proof. apply ss_firstn. Qed.

Lemma a_delete_sorted i l : sorted l -> sorted (a_delete i l).
Proof. apply filter_sorted. Qed.

Lemma a_delete_in i l g : In g (a_delete i l) <-> In g l /\ f_id g <> i.
Proof.
  unfold a_delete. rewrite filter_In.
  destruct (f_id g =? i) eqn:E; cbn [negb].
  - apply N.eqb_eq in E. split; [intros [_ H]; discriminate|intros [_ H]; congruence].
  - apply N.eqb_neq in E. split; intros [H _]; now split.
Qed.

Lemma sorted_unique l f g :
  sorted l -> In f l -> In g l -> f_id f = f_id g -> f = g.
Proof.
  induction l as [|x r IH]; intros S Hf Hg E; [destruct Hf|].
  destruct (sorted_cons_inv _ _ S) as [Sr Hx].
  destruct Hf as [Hf|Hf], Hg as [Hg|Hg].
  - congruence.
  - subst x. specialize (Hx g Hg). lia.
  - subst x. specialize (Hx f Hf). lia.
  - now apply IH.
Qed.

Lemma sorted_NoDup_ids l : sorted l -> NoDup (map f_id l).
Proof.
  induction l as [|x r IH]; intros S; cbn [map]; [constructor|].
  destruct (sorted_cons_inv _ _ S) as [Sr Hx]. constructor; [|now apply IH].
  intros H. apply in_map_iff in H. destruct H as (y & E & Hy).
  specialize (Hx y Hy). lia.
Qed.

Lemma sorted_NoDup l : sorted l -> NoDup l.
Proof. intros S. apply (NoDup_map_inv f_id). now apply sorted_NoDup_ids. Qed.

Lemma sorted_ext l1 l2 :
  sorted l1 -> sorted l2 -> (forall f, In f l1 <-> In f l2) -> l1 = l2.
Proof.
  revert l2. induction l1 as [|x r1 IH]; intros [|y r2] S1 S2 H.
  - reflexivity.
  - exfalso. apply (proj2 (H y)). now left.
  - exfalso. apply (proj1 (H x)). now left.
  - destruct (sorted_cons_inv _ _ S1) as [Sr1 H1].
    destruct (sorted_cons_inv _ _ S2) as [Sr2 H2].
    assert (E : x = y).
    { destruct (proj1 (H x) (or_introl eq_refl)) as [Hx|Hx]; [now symmetry|].
      destruct (proj2 (H y) (or_introl eq_refl)) as [Hy|Hy]; [exact Hy|].
      specialize (H1 y Hy). specialize (H2 x Hx). lia. }
    subst y. f_equal. apply IH; auto. intros f. split; intros Hf.
    + destruct (proj1 (H f) (or_intror Hf)) as [E|E]; [|exact E].
      subst f. specialize (H1 x Hf). lia.
    + destruct (proj2 (H f) (or_intror Hf)) as [E|E]; [|exact E].
      subst f. specialize (H2 x Hf). lia.
Qed.

Lemma same_topic_true c t g :
  same_topic c t g = true <-> f_ctx g = c /\ f_topic g = t.
Proof.
  unfold same_topic. rewrite andb_true_iff, N.eqb_eq, bytes_eqb_eq. tauto.
Qed.

Lemma a_check_head_sorted c t k l : sorted l -> sorted (a_check_head c t k l).
Proof. apply filter_sorted. Qed.

Lemma a_check_head_in c t k l g :
  sorted l ->
  (In g (a_check_head c t k l) <->
   In g l /\ (same_topic c t g = false \/
              In g (firstn (N.to_nat k) (rev (filter (same_topic c t) l))))).
Proof.
  intros S. unfold a_check_head. rewrite filter_In.
  set (R := rev (filter (same_topic c t) l)).
  assert (HR : forall h, In h R <-> In h l /\ same_topic c t h = true).
  { intros h. unfold R. rewrite <- in_rev. apply filter_In. }
  assert (ND : NoDup R).
  { unfold R. apply NoDup_rev, NoDup_filter, sorted_NoDup, S. }
  rewrite <- (firstn_skipn (N.to_nat k) R) in ND.
  split; intros [Hg H]; (split; [exact Hg|]).
  - destruct (same_topic c t g) eqn:E; [right|now left].
    apply negb_true_iff, mem_not_in in H.
    assert (Hin : In g R) by (apply HR; now split).
    rewrite <- (firstn_skipn (N.to_nat k) R) in Hin. apply in_app_or in Hin.
    destruct Hin as [Hin|Hin]; [exact Hin|]. exfalso. apply H.
    apply in_map_iff. now exists g.
  - apply negb_true_iff, mem_not_in. intros Hv. apply in_map_iff in Hv.
    destruct Hv as (h & E & Hh).
    assert (h = g).
    { apply (sorted_unique l); auto. apply skipn_in in Hh. now apply HR in Hh. }
    subst h. destruct H as [H|H].
    + apply skipn_in, HR in Hh. destruct Hh as [_ Hh]. congruence.
    + revert H Hh. generalize (firstn (N.to_nat k) R) (skipn (N.to_nat k) R) ND.
      intros l1 l2 ND' H1 H2. apply in_split in H2. destruct H2 as (l3 & l4 & ->).
      rewrite app_assoc in ND'. apply NoDup_remove_2 in ND'. apply ND'.
      apply in_or_app. left. apply in_or_app. now left.
Qed.

Lemma a_check_head_other c t k l g :
  sorted l -> same_topic c t g = false -> (In g (a_check_head c t k l) <-> In g l).
Proof.
  intros S E. rewrite a_check_head_in by exact S. split; [now intros [H _]|].
  intros H. split; [exact H|now left].
Qed.

Lemma check_head_lost c t k l g :
  sorted l -> In g l -> ~ In g (a_check_head c t k l) ->
  same_topic c t g = true /\
  ~ In g (firstn (N.to_nat k) (rev (filter (same_topic c t) l))).
Proof.
  intros S Hg H. rewrite a_check_head_in in H by exact S.
  destruct (same_topic c t g) eqn:E.
  - split; [reflexivity|]. intros Hf. apply H. split; [exact Hg|now right].
  - exfalso. apply H. split; [exact Hg|now left].
Qed.

Lemma a_check_head_suffix c t k l g :
  sorted l -> In g l -> same_topic c t g = true -> ~ In g (a_check_head c t k l) ->
  forall h, In h (a_check_head c t k l) -> same_topic c t h = true -> f_id g < f_id h.
Proof.
  intros S Hg Tg Ng h Hh Th.
  destruct (check_head_lost _ _ _ _ _ S Hg Ng) as [_ Nf].
  apply a_check_head_in in Hh; [|exact S]. destruct Hh as [Hh [F|Hf]]; [congruence|].
  set (R := rev (filter (same_topic c t) l)) in *.
  assert (Hin : In g R).
  { unfold R. rewrite <- in_rev. apply filter_In. now split. }
  assert (SR : StronglySorted (fun a b => sid_lt b a) R).
  { unfold R. apply ss_rev, ss_filter, S. }
  rewrite <- (firstn_skipn (N.to_nat k) R) in Hin, SR.
  apply in_app_or in Hin. destruct Hin as [Hin|Hin]; [contradiction|].
  apply ss_app_inv in SR. destruct SR as (_ & _ & SR). exact (SR h g Hf Hin).
Qed.

Lemma a_check_head_bound c t k l :
  sorted l ->
  (length (filter (same_topic c t) (a_check_head c t k l)) <= N.to_nat k)%nat.
Proof.
  intros S.
  apply PeanoNat.Nat.le_trans
    with (length (firstn (N.to_nat k) (rev (filter (same_topic c t) l)))).
  - apply NoDup_incl_length.
    + apply NoDup_filter, sorted_NoDup, a_check_head_sorted, S.
    + intros g Hg. apply filter_In in Hg. destruct Hg as [Hg Tg].
      apply a_check_head_in in Hg; [|exact S]. destruct Hg as [_ [F|Hf]]; [congruence|exact Hf].
  - apply firstn_le_length.
Qed.

(* ---------------------------------------------------------------------------- *)
(* B. reads *)

Definition nexp (now : N) (g : frame) : bool := negb (expired now g).

Lemma rs_loop_eq now fs rem :
  rs_loop now fs rem =
  if limit_hit rem then ([], [])
  else match fs with
       | [] => ([], [])
       | f :: r =>
           if expired now f then
             let '(o, g) := rs_loop now r rem in (o, GcRemove (f_id f) :: g)
           else
             let '(o, g) := rs_loop now r (dec_limit rem) in (f :: o, g)
       end.
Proof. destruct fs; reflexivity. Qed.

Lemma limit_hit_some n : limit_hit (Some n) = (n =? 0).
Proof. destruct n; reflexivity. Qed.

Lemma to_nat_pred n : n <> 0 -> N.to_nat n = S (N.to_nat (N.pred n)).
Proof. intros H. rewrite N2Nat.inj_pred. lia. Qed.

Lemma rs_loop_fst now fs lim :
  fst (rs_loop now fs lim) =
  match lim with
  | Some n => firstn (N.to_nat n) (filter (fun g => negb (expired now g)) fs)
  | None => filter (fun g => negb (expired now g)) fs
  end.
Proof.
  revert lim. induction fs as [|f r IH]; intros lim; rewrite rs_loop_eq.
  - destruct lim as [n|]; [|reflexivity]. rewrite limit_hit_some.
    cbn [filter]. rewrite firstn_nil. now destruct (n =? 0).
  - destruct lim as [n|].
    + rewrite limit_hit_some. destruct (n =? 0) eqn:E.
      * apply N.eqb_eq in E. subst n. reflexivity.
      * apply N.eqb_neq in E. cbn [filter]. destruct (expired now f); cbn [negb].
        -- specialize (IH (Some n)). destruct (rs_loop now r (Some n)) as [o g].
           exact IH.
        -- specialize (IH (dec_limit (Some n))).
           destruct (rs_loop now r (dec_limit (Some n))) as [o g].
           cbn [fst] in *. rewrite IH. cbn [dec_limit option_map].
           rewrite (to_nat_pred n E). reflexivity.
    + cbn [limit_hit filter]. destruct (expired now f); cbn [negb].
      * specialize (IH None). destruct (rs_loop now r None) as [o g]. exact IH.
      * specialize (IH None). cbn [dec_limit option_map].
        destruct (rs_loop now r None) as [o g]. cbn [fst] in *. now rewrite IH.
Qed.

Lemma rh_loop_fst now fs lim :
  fst (rh_loop now fs lim) =
  match lim with
  | Some n => firstn (N.to_nat n) (filter (fun g => negb (expired now g)) fs)
  | None => filter (fun g => negb (expired now g)) fs
  end.
Proof.
  revert lim. induction fs as [|f r IH]; intros lim; cbn [rh_loop filter].
  - destruct lim as [n|]; [|reflexivity]. now rewrite firstn_nil.
  - destruct (expired now f); cbn [negb].
    + specialize (IH lim). destruct (rh_loop now r lim) as [o g]. exact IH.
    + destruct lim as [n|].
      * rewrite limit_hit_some. destruct (n =? 0) eqn:E.
        -- apply N.eqb_eq in E. subst n. reflexivity.
        -- apply N.eqb_neq in E. specialize (IH (dec_limit (Some n))).
           destruct (rh_loop now r (dec_limit (Some n))) as [o g].
           cbn [fst] in *. rewrite IH. cbn [dec_limit option_map].
           rewrite (to_nat_pred n E). reflexivity.
      * cbn [limit_hit]. specialize (IH None). cbn [dec_limit option_map].
        destruct (rh_loop now r None) as [o g]. cbn [fst] in *. now rewrite IH.
Qed.

Lemma a_read_sync_spec a l lim c :
  fst (a_read_sync a l lim c) = spec_read (a_live a) (a_now a) c l lim.
Proof.
  unfold a_read_sync. pose proof (rs_loop_fst (a_now a) (a_iter a c l) lim) as H.
  destruct (rs_loop (a_now a) (a_iter a c l) lim) as [o g]. exact H.
Qed.

Lemma a_read_hist_spec a l lim c :
  fst (a_read_hist a l lim c) = spec_read (a_live a) (a_now a) c l lim.
Proof.
  unfold a_read_hist. pose proof (rh_loop_fst (a_now a) (a_iter a c l) lim) as H.
  destruct (rh_loop (a_now a) (a_iter a c l) lim) as [o g]. exact H.
Qed.

Lemma a_read_sync_snd a l lim c :
  snd (a_read_sync a l lim c) =
  a_enqueue a (snd (rs_loop (a_now a) (a_iter a c l) lim)).
Proof.
  unfold a_read_sync. now destruct (rs_loop (a_now a) (a_iter a c l) lim).
Qed.

Lemma a_read_hist_snd a l lim c :
  snd (a_read_hist a l lim c) =
  a_enqueue a (snd (rh_loop (a_now a) (a_iter a c l) lim)).
Proof.
  unfold a_read_hist. now destruct (rh_loop (a_now a) (a_iter a c l) lim).
Qed.

Lemma a_read_sync_live a l lim c : a_live (snd (a_read_sync a l lim c)) = a_live a.
Proof. now rewrite a_read_sync_snd. Qed.
Lemma a_read_sync_now a l lim c : a_now (snd (a_read_sync a l lim c)) = a_now a.
Proof. now rewrite a_read_sync_snd. Qed.
Lemma a_read_sync_bcast a l lim c : a_bcast (snd (a_read_sync a l lim c)) = a_bcast a.
Proof. now rewrite a_read_sync_snd. Qed.
Lemma a_read_hist_live a l lim c : a_live (snd (a_read_hist a l lim c)) = a_live a.
Proof. now rewrite a_read_hist_snd. Qed.
Lemma a_read_hist_now a l lim c : a_now (snd (a_read_hist a l lim c)) = a_now a.
Proof. now rewrite a_read_hist_snd. Qed.
Lemma a_read_hist_bcast a l lim c : a_bcast (snd (a_read_hist a l lim c)) = a_bcast a.
Proof. now rewrite a_read_hist_snd. Qed.

Lemma spec_read_in live now c l f :
  In f (spec_read live now c l None) <->
  In f live /\ in_scope c f = true /\ after l f = true /\ expired now f = false.
Proof.
  unfold spec_read. rewrite !filter_In, andb_true_iff, negb_true_iff. tauto.
Qed.

Lemma spec_read_limit live now c l n :
  spec_read live now c l (Some n) = firstn (N.to_nat n) (spec_read live now c l None).
Proof. reflexivity. Qed.

Lemma spec_read_limit_length live now c l n :
  (length (spec_read live now c l (Some n)) <= N.to_nat n)%nat.
Proof. rewrite spec_read_limit. apply firstn_le_length. Qed.

Lemma spec_read_in_lim live now c l lim f :
  In f (spec_read live now c l lim) -> In f (spec_read live now c l None).
Proof.
  destruct lim as [n|]; [|auto]. rewrite spec_read_limit. apply firstn_in.
Qed.

Lemma spec_read_sorted live now c l lim :
  sorted live -> sorted (spec_read live now c l lim).
Proof.
  intros S. unfold spec_read. destruct lim; [apply firstn_sorted|];
    apply filter_sorted, filter_sorted, S.
Qed.

Lemma spec_read_NoDup live now c l lim :
  sorted live -> NoDup (spec_read live now c l lim).
Proof. intros S. now apply sorted_NoDup, spec_read_sorted. Qed.

Lemma spec_read_ctx live now b l lim f :
  In f (spec_read live now (Some b) l lim) -> f_ctx f = b.
Proof.
  intros H. apply spec_read_in_lim, spec_read_in in H.
  destruct H as (_ & H & _). cbn [in_scope] in H. now apply N.eqb_eq in H.
Qed.

Lemma spec_read_not_expired live now c l lim f :
  In f (spec_read live now c l lim) -> expired now f = false.
Proof. intros H. apply spec_read_in_lim, spec_read_in in H. tauto. Qed.

Lemma spec_read_live live now c l lim f :
  In f (spec_read live now c l lim) -> In f live.
Proof. intros H. apply spec_read_in_lim, spec_read_in in H. tauto. Qed.

Lemma rs_loop_tasks now fs lim t :
  In t (snd (rs_loop now fs lim)) ->
  exists f, In f fs /\ expired now f = true /\ t = GcRemove (f_id f).
Proof.
  revert lim. induction fs as [|f r IH]; intros lim; rewrite rs_loop_eq;
    destruct (limit_hit lim); try (intros []).
  destruct (expired now f) eqn:E.
  - specialize (IH lim). destruct (rs_loop now r lim) as [o g]. cbn [snd] in *.
    intros [H|H].
    + exists f. split; [now left|]. now split.
    + destruct (IH H) as (f' & H1 & H2). exists f'. split; [now right|exact H2].
  - specialize (IH (dec_limit lim)). destruct (rs_loop now r (dec_limit lim)) as [o g].
    cbn [snd] in *. intros H. destruct (IH H) as (f' & H1 & H2).
    exists f'. split; [now right|exact H2].
Qed.

Lemma rh_loop_tasks now fs lim t :
  In t (snd (rh_loop now fs lim)) ->
  exists f, In f fs /\ expired now f = true /\ t = GcRemove (f_id f).
Proof.
  revert lim. induction fs as [|f r IH]; intros lim; cbn [rh_loop]; [intros []|].
  destruct (expired now f) eqn:E.
  - specialize (IH lim). destruct (rh_loop now r lim) as [o g]. cbn [snd] in *.
    intros [H|H].
    + exists f. split; [now left|]. now split.
    + destruct (IH H) as (f' & H1 & H2). exists f'. split; [now right|exact H2].
  - destruct (limit_hit lim); [intros []|].
    specialize (IH (dec_limit lim)). destruct (rh_loop now r (dec_limit lim)) as [o g].
    cbn [snd] in *. intros H. destruct (IH H) as (f' & H1 & H2).
    exists f'. split; [now right|exact H2].
Qed.

Lemma rs_loop_tasks_all now fs f :
  In f fs -> expired now f = true -> In (GcRemove (f_id f)) (snd (rs_loop now fs None)).
Proof.
  induction fs as [|x r IH]; intros Hf E; [destruct Hf|].
  rewrite rs_loop_eq. cbn [limit_hit dec_limit option_map].
  destruct (expired now x) eqn:Ex.
  - destruct (rs_loop now r None) as [o g]. cbn [snd] in *.
    destruct Hf as [Hf|Hf]; [subst x; now left|right; now apply IH].
  - destruct (rs_loop now r None) as [o g]. cbn [snd] in *.
    destruct Hf as [Hf|Hf]; [subst x; congruence|now apply IH].
Qed.

Lemma rh_loop_tasks_all now fs f :
  In f fs -> expired now f = true -> In (GcRemove (f_id f)) (snd (rh_loop now fs None)).
Proof.
  induction fs as [|x r IH]; intros Hf E; [destruct Hf|].
  cbn [rh_loop limit_hit dec_limit option_map].
  destruct (expired now x) eqn:Ex.
  - destruct (rh_loop now r None) as [o g]. cbn [snd] in *.
    destruct Hf as [Hf|Hf]; [subst x; now left|right; now apply IH].
  - destruct (rh_loop now r None) as [o g]. cbn [snd] in *.
    destruct Hf as [Hf|Hf]; [subst x; congruence|now apply IH].
Qed.

(* ---------------------------------------------------------------------------- *)
(* C. lookups *)

Lemma find_id_sorted l f :
  sorted l -> In f l -> find (fun g => f_id g =? f_id f) l = Some f.
Proof.
  induction l as [|x r IH]; intros S Hf; [destruct Hf|].
  destruct (sorted_cons_inv _ _ S) as [Sr Hx]. cbn [find].
  destruct (f_id x =? f_id f) eqn:E.
  - apply N.eqb_eq in E. f_equal. apply (sorted_unique (x :: r)); auto. now left.
  - apply N.eqb_neq in E. destruct Hf as [Hf|Hf]; [congruence|now apply IH].
Qed.

Lemma a_get_in a i f :
  sorted (a_live a) -> (a_get a i = Some f <-> In f (a_live a) /\ f_id f = i).
Proof.
  intros S. unfold a_get. split.
  - intros H. apply find_some in H. destruct H as [H E]. now apply N.eqb_eq in E.
  - intros [H E]. subst i. now apply find_id_sorted.
Qed.

Lemma last_map_some {A} (l : list A) :
  match last (map Some l) None with
  | None => l = []
  | Some x => exists l', l = l' ++ [x]
  end.
Proof.
  destruct l as [|y r] using rev_ind; [reflexivity|].
  rewrite map_app. cbn [map]. rewrite last_last. now exists r.
Qed.

Lemma a_head_some a t c f :
  sorted (a_live a) -> a_head a t c = Some f ->
  In f (a_live a) /\ f_ctx f = c /\ f_topic f = t /\
  (forall g, In g (a_live a) -> f_ctx g = c -> f_topic g = t -> f_id g <= f_id f).
Proof.
  intros S H. unfold a_head in H.
  pose proof (last_map_some (filter (same_topic c t) (a_live a))) as L.
  rewrite H in L. destruct L as (l' & L).
  assert (Hf : In f (filter (same_topic c t) (a_live a))).
  { rewrite L. apply in_or_app. right. now left. }
  apply filter_In in Hf. destruct Hf as [Hf Tf]. apply same_topic_true in Tf.
  destruct Tf as [Cf Tf]. repeat (split; [assumption|]).
  intros g Hg Cg Tg.
  assert (Hg' : In g (filter (same_topic c t) (a_live a))).
  { apply filter_In. split; [exact Hg|]. now apply same_topic_true. }
  pose proof (filter_sorted (same_topic c t) _ S) as SF. rewrite L in Hg', SF.
  apply in_app_or in Hg'. destruct Hg' as [Hg'|[Hg'|[]]].
  - apply ss_app_inv in SF. destruct SF as (_ & _ & SF).
    specialize (SF g f Hg' (or_introl eq_refl)). unfold sid_lt in SF. lia.
  - subst g. lia.
Qed.

Lemma a_head_none a t c :
  a_head a t c = None <->
  (forall g, In g (a_live a) -> ~ (f_ctx g = c /\ f_topic g = t)).
Proof.
  unfold a_head.
  pose proof (last_map_some (filter (same_topic c t) (a_live a))) as L.
  split.
  - intros H. rewrite H in L. intros g Hg Tg. apply same_topic_true in Tg.
    assert (Hg' : In g (filter (same_topic c t) (a_live a))) by (apply filter_In; now split).
    rewrite L in Hg'. destruct Hg'.
  - intros H. destruct (last (map Some (filter (same_topic c t) (a_live a))) None) as [x|];
      [|reflexivity].
    exfalso. destruct L as (l' & L).
    assert (Hx : In x (filter (same_topic c t) (a_live a))).
    { rewrite L. apply in_or_app. right. now left. }
    apply filter_In in Hx. destruct Hx as [Hx Tx]. apply same_topic_true in Tx.
    exact (H x Hx Tx).
Qed.

Lemma a_head_max a t c f :
  sorted (a_live a) -> In f (a_live a) -> f_ctx f = c -> f_topic f = t ->
  (forall g, In g (a_live a) -> f_ctx g = c -> f_topic g = t -> f_id g <= f_id f) ->
  a_head a t c = Some f.
Proof.
  intros S Hf Cf Tf M. destruct (a_head a t c) as [x|] eqn:E.
  - destruct (a_head_some _ _ _ _ S E) as (Hx & Cx & Tx & Mx).
    f_equal. apply (sorted_unique (a_live a)); auto.
    specialize (M x Hx Cx Tx). specialize (Mx f Hf Cf Tf). lia.
  - exfalso. rewrite a_head_none in E. exact (E f Hf (conj Cf Tf)).
Qed.

Lemma lookups_agree a f :
  sorted (a_live a) -> expired (a_now a) f = false ->
  ((a_get a (f_id f) = Some f) <-> In f (spec_read (a_live a) (a_now a) None None None)) /\
  (In f (spec_read (a_live a) (a_now a) None None None) <->
   In f (spec_read (a_live a) (a_now a) (Some (f_ctx f)) None None)).
Proof.
  intros S E. rewrite (a_get_in _ _ _ S), !spec_read_in. cbn [in_scope after].
  rewrite N.eqb_refl. tauto.
Qed.

(* ---------------------------------------------------------------------------- *)
(* D. appends / imports *)

Definition app_frame (i : N) (f0 : frame) : frame :=
  mkFrame i (f_ctx f0) (f_topic f0) (f_hash f0) (f_meta f0)
          (if is_ctx_topic (f_topic f0) then Some Forever else f_ttl f0).

Definition app_state (a : astore) (f : frame) : astore :=
  match f_ttl f with
  | Some Ephemeral => mkA (a_live a) (a_gcq a) (a_now a) (a_bcast a ++ [f])
  | Some (Head n) =>
      mkA (a_insert f (a_live a)) (a_gcq a ++ [GcCheckHead (f_ctx f) (f_topic f) n])
          (a_now a) (a_bcast a ++ [f])
  | _ => mkA (a_insert f (a_live a)) (a_gcq a) (a_now a) (a_bcast a ++ [f])
  end.

Definition app_err (a : astore) (f0 : frame) : option err :=
  if is_ctx_topic (f_topic f0) && negb (f_ctx f0 =? 0) then Some ErrNotZeroCtx
  else if negb (is_ctx_topic (f_topic f0)) && negb (mem (f_ctx f0) (a_ctxs (a_live a)))
       then Some ErrInvalidCtx
  else if has_nul (f_topic f0) then Some ErrNul
  else None.

Lemma a_append_eq a i f0 :
  a_append a i f0 =
  match app_err a f0 with
  | Some e => (Err e, a)
  | None => (Ok (app_frame i f0), app_state a (app_frame i f0))
  end.
Proof.
  unfold a_append, app_err, app_state.
  destruct (is_ctx_topic (f_topic f0) && negb (f_ctx f0 =? 0)); [reflexivity|].
  destruct (negb (is_ctx_topic (f_topic f0)) && negb (mem (f_ctx f0) (a_ctxs (a_live a))));
    [reflexivity|].
  destruct (has_nul (f_topic f0)); [reflexivity|].
  fold (app_frame i f0). destruct (f_ttl (app_frame i f0)) as [[]|]; reflexivity.
Qed.

Lemma a_append_err a i f0 e a' : a_append a i f0 = (Err e, a') -> a' = a.
Proof.
  rewrite a_append_eq. destruct (app_err a f0); intros H; now inversion H.
Qed.

Lemma a_import_err a f e a' : a_import a f = (Err e, a') -> a' = a.
Proof.
  unfold a_import. destruct (has_nul (f_topic f)); intros H; now inversion H.
Qed.

Lemma a_append_nul a i f0 :
  has_nul (f_topic f0) = true -> exists e, a_append a i f0 = (Err e, a).
Proof.
  intros H. rewrite a_append_eq. unfold app_err. rewrite H.
  destruct (is_ctx_topic (f_topic f0) && negb (f_ctx f0 =? 0)); [now eexists|].
  destruct (negb (is_ctx_topic (f_topic f0)) && negb (mem (f_ctx f0) (a_ctxs (a_live a))));
    now eexists.
Qed.

Lemma a_import_nul a f :
  has_nul (f_topic f) = true -> a_import a f = (Err ErrNul, a).
Proof. intros H. unfold a_import. now rewrite H. Qed.

Lemma a_append_ok_inv a i f0 f a' :
  a_append a i f0 = (Ok f, a') ->
  app_err a f0 = None /\ f = app_frame i f0 /\ a' = app_state a f.
Proof.
  rewrite a_append_eq. destruct (app_err a f0); intros H; inversion H. auto.
Qed.

Lemma a_append_ok_fields a i f0 f a' :
  a_append a i f0 = (Ok f, a') ->
  f_id f = i /\ f_ctx f = f_ctx f0 /\ f_topic f = f_topic f0 /\ f_hash f = f_hash f0 /\
  f_meta f = f_meta f0 /\
  f_ttl f = (if is_ctx_topic (f_topic f0) then Some Forever else f_ttl f0).
Proof.
  intros H. apply a_append_ok_inv in H. destruct H as (_ & -> & _).
  unfold app_frame. cbn [f_id f_ctx f_topic f_hash f_meta f_ttl]. tauto.
Qed.

Lemma a_append_ephemeral a i f0 f a' :
  a_append a i f0 = (Ok f, a') -> f_ttl f = Some Ephemeral ->
  a_live a' = a_live a /\ a_gcq a' = a_gcq a /\ a_bcast a' = a_bcast a ++ [f].
Proof.
  intros H E. apply a_append_ok_inv in H. destruct H as (_ & _ & ->).
  unfold app_state. rewrite E. cbn [a_live a_gcq a_bcast]. tauto.
Qed.

Lemma a_append_persistent a i f0 f a' :
  a_append a i f0 = (Ok f, a') -> f_ttl f <> Some Ephemeral ->
  a_live a' = a_insert f (a_live a) /\ a_bcast a' = a_bcast a ++ [f].
Proof.
  intros H E. apply a_append_ok_inv in H. destruct H as (_ & _ & ->).
  unfold app_state. destruct (f_ttl f) as [[]|]; cbn [a_live a_bcast]; tauto.
Qed.

Lemma a_append_now a i f0 r a' : a_append a i f0 = (r, a') -> a_now a' = a_now a.
Proof.
  rewrite a_append_eq. destruct (app_err a f0); intros H; inversion H; [reflexivity|].
  unfold app_state. now destruct (f_ttl (app_frame i f0)) as [[]|].
Qed.

Lemma a_append_get a i f0 f a' :
  sorted (a_live a) -> a_append a i f0 = (Ok f, a') -> f_ttl f <> Some Ephemeral ->
  a_get a' i = Some f.
Proof.
  intros S H E. destruct (a_append_ok_fields _ _ _ _ _ H) as (Ei & _).
  destruct (a_append_persistent _ _ _ _ _ H E) as (L & _).
  apply a_get_in.
  - rewrite L. now apply a_insert_sorted.
  - split; [|exact Ei]. rewrite L. apply a_insert_in; [exact S|now left].
Qed.

Lemma has_nul_xs_context : has_nul xs_context = false.
Proof. reflexivity. Qed.

Lemma a_append_accept_iff a i f0 :
  is_ctx_topic (f_topic f0) = false -> has_nul (f_topic f0) = false ->
  ((exists f a', a_append a i f0 = (Ok f, a')) <->
   mem (f_ctx f0) (a_ctxs (a_live a)) = true).
Proof.
  intros C Z. rewrite a_append_eq. unfold app_err. rewrite C, Z. cbn [andb negb].
  destruct (mem (f_ctx f0) (a_ctxs (a_live a))); cbn [negb]; split.
  - reflexivity.
  - intros _. now do 2 eexists.
  - intros (f & a' & H). discriminate.
  - discriminate.
Qed.

Lemma a_append_accept_ctx_iff a i f0 :
  is_ctx_topic (f_topic f0) = true ->
  ((exists f a', a_append a i f0 = (Ok f, a')) <-> f_ctx f0 = 0).
Proof.
  intros C. rewrite a_append_eq. unfold app_err. rewrite C.
  assert (Z : has_nul (f_topic f0) = false).
  { unfold is_ctx_topic in C. apply bytes_eqb_eq in C. rewrite C. apply has_nul_xs_context. }
  rewrite Z. cbn [andb negb]. destruct (f_ctx f0 =? 0) eqn:E; cbn [negb]; split.
  - intros _. now apply N.eqb_eq.
  - intros _. now do 2 eexists.
  - intros (f & a' & H). discriminate.
  - intros H. apply N.eqb_neq in E. contradiction.
Qed.

Lemma a_reopen_live a : a_live (a_reopen a) = a_live a.
Proof. unfold a_reopen. now rewrite a_read_sync_live. Qed.

Lemma a_reopen_ctxs a : a_ctxs (a_live (a_reopen a)) = a_ctxs (a_live a).
Proof. now rewrite a_reopen_live. Qed.

Lemma a_reopen_now a : a_now (a_reopen a) = a_now a.
Proof. unfold a_reopen. now rewrite a_read_sync_now. Qed.

Lemma a_reopen_bcast a : a_bcast (a_reopen a) = [].
Proof. unfold a_reopen. now rewrite a_read_sync_bcast. Qed.

(* ---------------------------------------------------------------------------- *)
(* E. retention: why a frame can leave the live list in one abstract step *)

Definition lost (a a' : astore) (f : frame) := In f (a_live a) /\ ~ In f (a_live a').

Definition task_reason (f : frame) (t : gctask) : Prop :=
  t = GcRemove (f_id f) \/ exists k, t = GcCheckHead (f_ctx f) (f_topic f) k.

Lemma a_run_task_sorted a t : sorted (a_live a) -> sorted (a_live (a_run_task a t)).
Proof.
  intros S. destruct t as [i|c t k]; cbn [a_run_task a_remove_live a_live].
  - now apply a_delete_sorted.
  - now apply a_check_head_sorted.
Qed.

Lemma a_run_task_filter a t : exists p, a_live (a_run_task a t) = filter p (a_live a).
Proof.
  destruct t as [i|c t k]; cbn [a_run_task a_remove_live a_live]; eexists; reflexivity.
Qed.

Lemma a_run_task_in a t f : In f (a_live (a_run_task a t)) -> In f (a_live a).
Proof.
  destruct (a_run_task_filter a t) as [p ->]. intros H. now apply filter_In in H.
Qed.

Lemma a_run_task_lost a t f :
  sorted (a_live a) -> In f (a_live a) -> ~ In f (a_live (a_run_task a t)) ->
  task_reason f t.
Proof.
  intros S Hf N. destruct t as [i|c t k]; cbn [a_run_task a_remove_live a_live] in N.
  - left. rewrite a_delete_in in N. destruct (N.eq_dec (f_id f) i) as [E|E]; [now subst|].
    exfalso. apply N. now split.
  - right. destruct (check_head_lost _ _ _ _ _ S Hf N) as [T _].
    apply same_topic_true in T. destruct T as [<- <-]. now exists k.
Qed.

Lemma fold_run_task_lost q : forall a f,
  sorted (a_live a) -> In f (a_live a) -> ~ In f (a_live (fold_left a_run_task q a)) ->
  exists t, In t q /\ task_reason f t.
Proof.
  induction q as [|t q IH]; intros a f S Hf N; cbn [fold_left] in N; [contradiction|].
  assert (D : In f (a_live (a_run_task a t)) \/ ~ In f (a_live (a_run_task a t))).
  { destruct (a_run_task_filter a t) as [p ->]. destruct (p f) eqn:E.
    - left. apply filter_In. now split.
    - right. intros H. apply filter_In in H. destruct H; congruence. }
  destruct D as [D|D].
  - destruct (IH _ f (a_run_task_sorted a t S) D N) as (t' & Ht & R).
    exists t'. split; [now right|exact R].
  - exists t. split; [now left|]. now apply (a_run_task_lost a).
Qed.

Lemma fold_run_task_sorted q : forall a,
  sorted (a_live a) -> sorted (a_live (fold_left a_run_task q a)).
Proof.
  induction q as [|t q IH]; intros a S; cbn [fold_left]; [exact S|].
  apply IH. now apply a_run_task_sorted.
Qed.

Lemma step_lost_reason a o f :
  sorted (a_live a) -> lost a (snd (a_step a o)) f ->
  (o = ORemove (f_id f))
  \/ (exists g, o = OImport g /\ f_id g = f_id f)
  \/ (exists i g, o = OAppend i g /\ i = f_id f)
  \/ ((o = OGcStep \/ o = ODrain) /\
      exists t, In t (a_gcq a) /\
                (t = GcRemove (f_id f) \/ exists k, t = GcCheckHead (f_ctx f) (f_topic f) k)).
Proof.
  intros S [Hf Nf].
  destruct o as [i g|g|i|n| | | |l lim c|l lim c|i|t c]; cbn [a_step] in Nf.
  - (* append *)
    destruct (a_append a i g) as [r a'] eqn:E. cbn [snd] in Nf.
    destruct r as [f'|e].
    + assert (D : f_ttl f' = Some Ephemeral \/ f_ttl f' <> Some Ephemeral).
      { destruct (f_ttl f') as [[]|]; (now left) || (right; congruence). }
      destruct D as [D|D].
      * destruct (a_append_ephemeral _ _ _ _ _ E D) as (L & _). rewrite L in Nf.
        contradiction.
      * destruct (a_append_persistent _ _ _ _ _ E D) as (L & _). rewrite L in Nf.
        rewrite a_insert_in in Nf by exact S.
        destruct (a_append_ok_fields _ _ _ _ _ E) as (Ei & _).
        right. right. left. exists i, g. split; [reflexivity|].
        destruct (N.eq_dec (f_id f) (f_id f')) as [Q|Q]; [congruence|].
        exfalso. apply Nf. right. now split.
    + apply a_append_err in E. subst a'. contradiction.
  - (* import *)
    destruct (a_import a g) as [r a'] eqn:E. cbn [snd] in Nf. unfold a_import in E.
    destruct (has_nul (f_topic g)); inversion E; subst; [contradiction|].
    cbn [a_live] in Nf. rewrite a_insert_in in Nf by exact S.
    right. left. exists g. split; [reflexivity|].
    destruct (N.eq_dec (f_id g) (f_id f)) as [Q|Q]; [exact Q|].
    exfalso. apply Nf. right. split; [exact Hf|congruence].
  - (* remove *)
    cbn [snd a_remove_live a_live] in Nf. rewrite a_delete_in in Nf.
    left. destruct (N.eq_dec (f_id f) i) as [Q|Q]; [now subst|].
    exfalso. apply Nf. now split.
  - cbn [snd a_live] in Nf. contradiction.
  - (* gc step *)
    cbn [snd] in Nf. unfold a_gc_step in Nf. destruct (a_gcq a) as [|t q] eqn:Q;
      [contradiction|].
    right. right. right. split; [now left|]. exists t. split; [now left|].
    apply (a_run_task_lost (mkA (a_live a) q (a_now a) (a_bcast a))); assumption.
  - (* drain *)
    cbn [snd] in Nf. unfold a_drain in Nf.
    right. right. right. split; [now right|].
    apply (fold_run_task_lost _ (mkA (a_live a) [] (a_now a) (a_bcast a))); assumption.
  - cbn [snd] in Nf. rewrite a_reopen_live in Nf. contradiction.
  - pose proof (a_read_sync_live a l lim c) as L.
    destruct (a_read_sync a l lim c) as [fs a']. cbn [snd] in *. rewrite L in Nf.
    contradiction.
  - pose proof (a_read_hist_live a l lim c) as L.
    destruct (a_read_hist a l lim c) as [fs a']. cbn [snd] in *. rewrite L in Nf.
    contradiction.
  - cbn [snd] in Nf. contradiction.
  - cbn [snd] in Nf. contradiction.
Qed.

Lemma a_step_reads_keep_live a o :
  match o with
  | OReadSync _ _ _ | ORead _ _ _ | OGet _ | OHead _ _ | OSetNow _ | OReopen => True
  | _ => False
  end -> a_live (snd (a_step a o)) = a_live a.
Proof.
  destruct o as [i g|g|i|n| | | |l lim c|l lim c|i|t c]; intros H; try destruct H;
    cbn [a_step].
  - reflexivity.
  - cbn [snd]. apply a_reopen_live.
  - pose proof (a_read_sync_live a l lim c) as L.
    now destruct (a_read_sync a l lim c) as [fs a'].
  - pose proof (a_read_hist_live a l lim c) as L.
    now destruct (a_read_hist a l lim c) as [fs a'].
  - reflexivity.
  - reflexivity.
Qed.

(* the live list stays sorted along every abstract step *)
Lemma a_step_sorted a o : sorted (a_live a) -> sorted (a_live (snd (a_step a o))).
Proof.
  intros S.
  destruct o as [i g|g|i|n| | | |l lim c|l lim c|i|t c];
    try (rewrite a_step_reads_keep_live by exact I; exact S); cbn [a_step].
  - rewrite a_append_eq. destruct (app_err a g); cbn [snd]; [exact S|].
    unfold app_state. destruct (f_ttl (app_frame i g)) as [[]|]; cbn [a_live];
      try exact S; now apply a_insert_sorted.
  - unfold a_import. destruct (has_nul (f_topic g)); cbn [snd a_live]; [exact S|].
    now apply a_insert_sorted.
  - cbn [snd a_remove_live a_live]. now apply a_delete_sorted.
  - cbn [snd]. unfold a_gc_step. destruct (a_gcq a) as [|t q]; [exact S|].
    now apply a_run_task_sorted.
  - cbn [snd]. unfold a_drain. now apply fold_run_task_sorted.
Qed.

(* ---------------------------------------------------------------------------- *)
(* F. export / import *)

Lemma a_insert_idem f l : sorted l -> a_insert f (a_insert f l) = a_insert f l.
Proof.
  intros S. pose proof (a_insert_sorted f l S) as S1.
  apply sorted_ext; [now apply a_insert_sorted|exact S1|].
  intros g. rewrite (a_insert_in f (a_insert f l) g S1), (a_insert_in f l g S). tauto.
Qed.

Lemma a_insert_comm f g l :
  sorted l -> f_id f <> f_id g -> a_insert f (a_insert g l) = a_insert g (a_insert f l).
Proof.
  intros S N. pose proof (a_insert_sorted f l S) as Sf.
  pose proof (a_insert_sorted g l S) as Sg.
  apply sorted_ext; [now apply a_insert_sorted|now apply a_insert_sorted|].
  intros h. rewrite (a_insert_in f _ h Sg), (a_insert_in g _ h Sf),
    (a_insert_in g l h S), (a_insert_in f l h S).
  split.
  - intros [H|[[H|[H1 H2]] H3]].
    + subst h. right. split; [now left|exact N].
    + now left.
    + right. split; [right; now split|exact H2].
  - intros [H|[[H|[H1 H2]] H3]].
    + subst h. right. split; [now left|congruence].
    + now left.
    + right. split; [right; now split|exact H2].
Qed.

Definition import_all (fs : list frame) : list frame :=
  fold_left (fun l f => a_insert f l) fs [].

Lemma import_all_snoc fs f : import_all (fs ++ [f]) = a_insert f (import_all fs).
Proof. unfold import_all. now rewrite fold_left_app. Qed.

Lemma import_all_sorted fs : sorted (import_all fs).
Proof.
  induction fs as [|f fs IH] using rev_ind; [constructor|].
  rewrite import_all_snoc. now apply a_insert_sorted.
Qed.

Lemma import_all_in fs :
  (forall f g, In f fs -> In g fs -> f_id f = f_id g -> f = g) ->
  forall g, In g (import_all fs) <-> In g fs.
Proof.
  induction fs as [|f fs IH] using rev_ind; intros U g; [reflexivity|].
  rewrite import_all_snoc, (a_insert_in f _ g (import_all_sorted fs)), IH.
  - rewrite in_app_iff. cbn [In]. split.
    + intros [H|[H _]]; [right; now left|now left].
    + intros [H|[H|[]]]; [|now left].
      destruct (N.eq_dec (f_id g) (f_id f)) as [E|E]; [left|right; now split].
      apply U; [apply in_or_app; now left|apply in_or_app; right; now left|exact E].
  - intros x y Hx Hy. apply U; apply in_or_app; now left.
Qed.

Lemma import_all_perm fs fs' :
  (forall f g, In f fs -> In g fs -> f_id f = f_id g -> f = g) ->
  (forall f, In f fs <-> In f fs') ->
  fold_left (fun l f => a_insert f l) fs [] = fold_left (fun l f => a_insert f l) fs' [].
Proof.
  intros U H. fold (import_all fs) (import_all fs').
  apply sorted_ext; try apply import_all_sorted.
  intros g. rewrite (import_all_in fs U), (import_all_in fs'); [apply H|].
  intros x y Hx Hy. apply U; now apply H.
Qed.

Lemma import_all_roundtrip_gen l fs' :
  sorted l -> (forall f, In f l <-> In f fs') ->
  fold_left (fun acc f => a_insert f acc) fs' [] = l.
Proof.
  intros S H. fold (import_all fs').
  apply sorted_ext; [apply import_all_sorted|exact S|].
  intros g. rewrite import_all_in; [symmetry; apply H|].
  intros x y Hx Hy. apply (sorted_unique l); [exact S|now apply H|now apply H].
Qed.

Lemma import_all_roundtrip l :
  sorted l -> fold_left (fun acc f => a_insert f acc) l [] = l.
Proof. intros S. apply import_all_roundtrip_gen; [exact S|reflexivity]. Qed.

Lemma a_insert_position f l :
  sorted l ->
  exists l1 l2, a_insert f l = l1 ++ f :: l2 /\
                (forall g, In g l1 -> f_id g < f_id f) /\
                (forall g, In g l2 -> f_id f < f_id g).
Proof.
  induction l as [|x r IH]; intros S; cbn [a_insert].
  - exists [], []. split; [reflexivity|]. split; intros g [].
  - destruct (sorted_cons_inv _ _ S) as [Sr Hx].
    destruct (f_id f <? f_id x) eqn:E1.
    + apply N.ltb_lt in E1. exists [], (x :: r). split; [reflexivity|].
      split; [intros g []|]. intros g [Hg|Hg]; [now subst|]. specialize (Hx g Hg). lia.
    + apply N.ltb_ge in E1. destruct (f_id f =? f_id x) eqn:E2.
      * apply N.eqb_eq in E2. exists [], r. split; [reflexivity|].
        split; [intros g []|]. intros g Hg. specialize (Hx g Hg). lia.
      * apply N.eqb_neq in E2. destruct (IH Sr) as (l1 & l2 & E & H1 & H2).
        exists (x :: l1), l2. split; [now rewrite E|]. split; [|exact H2].
        intros g [Hg|Hg]; [subst g; lia|now apply H1].
Qed.

(* the frames below the inserted id keep their position (same prefix) *)
Lemma a_insert_prefix f l :
  sorted l ->
  exists l2, a_insert f l = filter (fun g => f_id g <? f_id f) l ++ f :: l2 /\
             (forall g, In g l2 -> f_id f < f_id g).
Proof.
  induction l as [|x r IH]; intros S; cbn [a_insert filter].
  - exists []. split; [reflexivity|intros g []].
  - destruct (sorted_cons_inv _ _ S) as [Sr Hx].
    assert (F : forall r', (forall y, In y r' -> f_id f < f_id y) ->
                           filter (fun g => f_id g <? f_id f) r' = []).
    { induction r' as [|y r' IHr]; intros Hy; [reflexivity|]. cbn [filter].
      pose proof (Hy y (or_introl eq_refl)) as Hlt.
      destruct (f_id y <? f_id f) eqn:E; [apply N.ltb_lt in E; lia|].
      apply IHr. intros z Hz. apply Hy. now right. }
    destruct (f_id f <? f_id x) eqn:E1.
    + apply N.ltb_lt in E1.
      destruct (f_id x <? f_id f) eqn:E3; [apply N.ltb_lt in E3; lia|].
      rewrite F; [|intros y Hy; specialize (Hx y Hy); lia].
      exists (x :: r). split; [reflexivity|].
      intros g [Hg|Hg]; [now subst|]. specialize (Hx g Hg). lia.
    + apply N.ltb_ge in E1. destruct (f_id f =? f_id x) eqn:E2.
      * apply N.eqb_eq in E2.
        destruct (f_id x <? f_id f) eqn:E3; [apply N.ltb_lt in E3; lia|].
        rewrite F; [|intros y Hy; specialize (Hx y Hy); lia].
        exists r. split; [reflexivity|]. intros g Hg. specialize (Hx g Hg). lia.
      * apply N.eqb_neq in E2.
        destruct (f_id x <? f_id f) eqn:E3; [|apply N.ltb_ge in E3; lia].
        destruct (IH Sr) as (l2 & E & H2). exists l2. split; [now rewrite E|exact H2].
Qed.

Print Assumptions a_insert_in.
Print Assumptions sorted_ext.
Print Assumptions a_check_head_in.
Print Assumptions a_check_head_suffix.
Print Assumptions a_check_head_bound.
Print Assumptions a_read_sync_spec.
Print Assumptions a_read_hist_spec.
Print Assumptions spec_read_in.
Print Assumptions rs_loop_tasks_all.
Print Assumptions a_get_in.
Print Assumptions a_head_some.
Print Assumptions a_head_max.
Print Assumptions lookups_agree.
Print Assumptions a_append_ok_fields.
Print Assumptions a_append_accept_iff.
Print Assumptions a_append_accept_ctx_iff.
Print Assumptions a_append_get.
Print Assumptions step_lost_reason.
Print Assumptions check_head_lost.
Print Assumptions a_step_sorted.
Print Assumptions a_insert_comm.
Print Assumptions import_all_perm.
Print Assumptions import_all_roundtrip_gen.
Print Assumptions a_insert_position.
Print Assumptions a_insert_prefix.
