(* Followers of the event store (Model/Conc.v) in reachable states of the LOCKED append
   protocol: ordering, scope, visibility, gap-freedom for stored frames, tail, threshold,
   limit, end of stream, synthetic frames; the known gap for ephemeral frames (by
   computation).  Stdlib only, no axioms. *)
From XS Require Import Model.Conc Proofs.ConcP.
From Coq Require Import Lia Sorting.Sorted.
From Coq Require Import ZifyN ZifyBool.

Definition scope_ok (o : fopts) (f : cfr) : bool := in_scope_c (o_ctx o) f && after_c (o_last o) f.

Definition items (fl : follower) : list item := f_got fl ++ f_out fl.

Lemma seen_items : forall fl, seen fl = reals (items fl).
Proof. reflexivity. Qed.

(* ------------------------------------------------------------------ *)
(* one follower's own steps, as a relation                            *)
(* ------------------------------------------------------------------ *)

Definition leL (L : option N) (f : cfr) : bool :=
  match L with Some l => c_id f <=? l | None => false end.

Definition start_fl (s : cstate) (fl : follower) : follower :=
  mkF (fo fl) true (f_pos fl) HNone (f_cursor fl)
      (scan_next (g_stream s) (o_ctx (fo fl)) (f_cursor fl)) None 0
      (if o_follow (fo fl) then LWaiting else LNone) 0 (o_follow (fo fl) && o_pulse (fo fl)) [] [].

Definition start_tail_fl (fl : follower) : follower :=
  mkF (fo fl) true (f_pos fl) HNone (f_cursor fl) None None 0
      (if o_follow (fo fl) then LRecvWait else LNone) 0 (o_follow (fo fl) && o_pulse (fo fl)) [] [].

Definition bump (fl : follower) : follower :=
  mkF (fo fl) (f_subscribed fl) (f_pos fl) (f_h fl) (f_cursor fl) (f_peek fl) (f_last fl)
      (f_count fl + 1) (f_l fl) (f_lcount fl) (f_hb fl) (f_out fl) (f_got fl).

Definition handoff (fl : follower) : follower :=
  mkF (fo fl) (f_subscribed fl) (f_pos fl) (HFinished true) (f_cursor fl) (f_peek fl) (f_last fl)
      (f_count fl) (f_l fl) (f_count fl) (f_hb fl) (f_out fl) (f_got fl).

Definition recv_fl (fl : follower) (f : cfr) : follower :=
  mkF (fo fl) (f_subscribed fl) (S (f_pos fl)) (f_h fl) (f_cursor fl) (f_peek fl)
      (f_last fl) (f_count fl) (LAtRecv f) (f_lcount fl) (f_hb fl) (f_out fl) (f_got fl).

Definition sent_fl (fl : follower) (n : N) : follower :=
  mkF (fo fl) (f_subscribed fl) (f_pos fl) (f_h fl) (f_cursor fl) (f_peek fl) (f_last fl)
      (f_count fl) (if n <=? f_lcount fl + 1 then LExited else LRecvWait) (f_lcount fl + 1)
      (if n <=? f_lcount fl + 1 then false else f_hb fl) (f_out fl) (f_got fl).

Definition consume_fl (fl : follower) (i : item) (r : list item) : follower :=
  mkF (fo fl) (f_subscribed fl) (f_pos fl) (f_h fl) (f_cursor fl) (f_peek fl) (f_last fl)
      (f_count fl) (f_l fl) (f_lcount fl) (f_hb fl) r (f_got fl ++ [i]).

Definition sub_fl (s : cstate) (fl : follower) : follower :=
  mkF (fo fl) true (length (g_chan s)) (f_h fl) (o_last (fo fl)) None None 0 (f_l fl) 0 false [] [].

Definition can_recv (fl : follower) : Prop :=
  (f_l fl = LWaiting /\ f_h fl = HFinished true) \/ f_l fl = LRecvWait.

Definition wants_threshold (o : fopts) : bool :=
  o_follow o && match o_limit o with None => true | Some _ => false end.

Inductive fstep (s : cstate) (fl : follower) : follower -> Prop :=
| FS_sub : f_subscribed fl = false -> fstep s fl (sub_fl s fl)
| FS_start_tail : f_subscribed fl = true -> f_h fl = HNotStarted -> o_tail (fo fl) = true ->
    fstep s fl (start_tail_fl fl)
| FS_start : f_subscribed fl = true -> f_h fl = HNotStarted -> o_tail (fo fl) = false ->
    fstep s fl (hist_advance s (start_fl s fl))
| FS_send : forall f, f_h fl = HAtSend f -> out_full fl = false ->
    fstep s fl (hist_advance s (bump (push fl (IReal f))))
| FS_thr_push : f_h fl = HAtThreshold -> wants_threshold (fo fl) = true -> out_full fl = false ->
    fstep s fl (set_h (push fl IThreshold) HAtDone)
| FS_thr_skip : f_h fl = HAtThreshold -> wants_threshold (fo fl) = false ->
    fstep s fl (set_h fl HAtDone)
| FS_done_exit : f_h fl = HAtDone -> f_l fl = LWaiting ->
    limit_reached (o_limit (fo fl)) (f_count fl) = true ->
    fstep s fl (exit_live (handoff fl))
| FS_done : f_h fl = HAtDone ->
    (f_l fl = LWaiting -> limit_reached (o_limit (fo fl)) (f_count fl) = false) ->
    fstep s fl (handoff fl)
| FS_lag : can_recv fl -> lagged s fl = true -> fstep s fl (exit_live fl)
| FS_recv : forall f, can_recv fl -> lagged s fl = false ->
    nth_error (g_chan s) (f_pos fl) = Some f -> fstep s fl (recv_fl fl f)
| FS_skip : forall f, f_l fl = LAtRecv f ->
    negb (in_scope_c (o_ctx (fo fl)) f) || leL (f_last fl) f = true ->
    fstep s fl (set_l fl LRecvWait)
| FS_deliver : forall f, f_l fl = LAtRecv f ->
    in_scope_c (o_ctx (fo fl)) f = true -> leL (f_last fl) f = false -> out_full fl = false ->
    fstep s fl (set_l (push fl (IReal f)) LAtSent)
| FS_sent_lim : forall n, f_l fl = LAtSent -> o_limit (fo fl) = Some n -> fstep s fl (sent_fl fl n)
| FS_sent : f_l fl = LAtSent -> o_limit (fo fl) = None -> fstep s fl (set_l fl LRecvWait)
| FS_pulse : f_hb fl = true -> out_full fl = false -> fstep s fl (push fl IPulse)
| FS_consume : forall i r, f_out fl = i :: r -> fstep s fl (consume_fl fl i r).

Lemma follower_fstep : forall s l s', follower_step s l = Some s' ->
  exists k fl fl', nth_error (g_fs s) k = Some fl /\ fstep s fl fl' /\ s' = set_f s k fl'.
Proof.
  intros s l s' H.
  destruct l as [w|w|w|w|p|k|k|k|k|k|k]; cbn [follower_step] in H; try discriminate H;
    (destruct (nth_error (g_fs s) k) as [fl|] eqn:Ek; [|discriminate H]);
    exists k, fl.
  - (* subscribe *)
    destruct (f_subscribed fl) eqn:Es; [discriminate H|]. inversion H; subst s'.
    eexists. split; [exact Ek|]. split; [|reflexivity]. apply FS_sub. exact Es.
  - (* start *)
    destruct (f_subscribed fl) eqn:Es; [|discriminate H].
    destruct (f_h fl) eqn:Eh; try discriminate H.
    destruct (o_tail (fo fl)) eqn:Et; inversion H; subst s'.
    + exists (start_tail_fl fl). split; [exact Ek|]. split; [|reflexivity].
      apply FS_start_tail; assumption.
    + exists (hist_advance s (start_fl s fl)). split; [exact Ek|]. split; [|reflexivity].
      apply FS_start; assumption.
  - (* hist *)
    destruct (f_h fl) eqn:Eh; try discriminate H.
    + destruct (out_full fl) eqn:Ef; [discriminate H|]. inversion H; subst s'.
      eexists. split; [exact Ek|]. split; [|reflexivity]. apply (FS_send s fl f Eh Ef).
    + fold (wants_threshold (fo fl)) in H.
      destruct (wants_threshold (fo fl)) eqn:Ew.
      * destruct (out_full fl) eqn:Ef; [discriminate H|]. inversion H; subst s'.
        eexists. split; [exact Ek|]. split; [|reflexivity]. apply FS_thr_push; assumption.
      * inversion H; subst s'.
        eexists. split; [exact Ek|]. split; [|reflexivity]. apply FS_thr_skip; assumption.
    + fold (handoff fl) in H. inversion H; subst s'; clear H.
      destruct (f_l fl) eqn:El;
        try (eexists; split; [exact Ek|]; split; [|reflexivity]; apply FS_done;
             [exact Eh|intros X; rewrite El in X; discriminate X]).
      destruct (limit_reached (o_limit (fo fl)) (f_count fl)) eqn:Elim.
      * eexists. split; [exact Ek|]. split; [|reflexivity]. apply FS_done_exit; assumption.
      * eexists. split; [exact Ek|]. split; [|reflexivity]. apply FS_done; [exact Eh|].
        intros _. exact Elim.
  - (* live *)
    fold (recv_fl fl) in H.
    assert (R : can_recv fl ->
                (if lagged s fl then Some (set_f s k (exit_live fl))
                 else match nth_error (g_chan s) (f_pos fl) with
                      | Some f => Some (set_f s k (recv_fl fl f))
                      | None => None
                      end) = Some s' ->
                exists fl', nth_error (g_fs s) k = Some fl /\ fstep s fl fl' /\ s' = set_f s k fl').
    { intros C H0. destruct (lagged s fl) eqn:Elag.
      - inversion H0; subst s'. eexists. split; [exact Ek|]. split; [|reflexivity].
        apply FS_lag; assumption.
      - destruct (nth_error (g_chan s) (f_pos fl)) as [f|] eqn:En; [|discriminate H0].
        inversion H0; subst s'. eexists. split; [exact Ek|]. split; [|reflexivity].
        apply (FS_recv s fl f); assumption. }
    destruct (f_l fl) eqn:El; try discriminate H.
    + destruct (f_h fl) as [| | | |b|] eqn:Eh; try discriminate H.
      destruct b; [|discriminate H]. rewrite <- Eh in H. apply R; [left; split; assumption|exact H].
    + apply R; [right; assumption|exact H].
    + destruct (negb (in_scope_c (o_ctx (fo fl)) f)) eqn:Ec.
      * inversion H; subst s'. eexists. split; [exact Ek|]. split; [|reflexivity].
        apply (FS_skip s fl f El). rewrite Ec. reflexivity.
      * fold (leL (f_last fl) f) in H. destruct (leL (f_last fl) f) eqn:Ele.
        -- inversion H; subst s'. eexists. split; [exact Ek|]. split; [|reflexivity].
           apply (FS_skip s fl f El). rewrite Ec, Ele. reflexivity.
        -- destruct (out_full fl) eqn:Ef; [discriminate H|]. inversion H; subst s'.
           eexists. split; [exact Ek|]. split; [|reflexivity].
           apply (FS_deliver s fl f El); try assumption.
           destruct (in_scope_c (o_ctx (fo fl)) f); [reflexivity|discriminate Ec].
    + destruct (o_limit (fo fl)) as [n|] eqn:Elim.
      * fold (sent_fl fl n) in H. inversion H; subst s'.
        eexists. split; [exact Ek|]. split; [|reflexivity]. apply FS_sent_lim; assumption.
      * inversion H; subst s'.
        eexists. split; [exact Ek|]. split; [|reflexivity]. apply FS_sent; assumption.
  - (* pulse *)
    destruct (f_hb fl) eqn:Eb; [|discriminate H].
    destruct (out_full fl) eqn:Ef; [discriminate H|]. inversion H; subst s'.
    eexists. split; [exact Ek|]. split; [|reflexivity]. apply FS_pulse; assumption.
  - (* consume *)
    destruct (f_out fl) as [|i r] eqn:Eo; [discriminate H|]. inversion H; subst s'.
    eexists. split; [exact Ek|]. split; [|reflexivity]. apply (FS_consume s fl i r Eo).
Qed.

(* ------------------------------------------------------------------ *)
(* what one step of the system does to the stream, the channel and    *)
(* one follower                                                       *)
(* ------------------------------------------------------------------ *)

Lemma nth_upd_other : forall A (l : list A) n m x,
  n <> m -> nth_error (upd n x l) m = nth_error l m.
Proof.
  induction l as [|a l IH]; intros n m x H.
  - destruct n; reflexivity.
  - destruct n as [|n]; destruct m as [|m]; cbn [upd nth_error]; try reflexivity.
    + contradiction H; reflexivity.
    + apply IH. intros X; apply H; rewrite X; reflexivity.
Qed.

Lemma assign_fs : forall s w wr s', assign s w wr = Some s' -> g_fs s' = g_fs s.
Proof.
  intros s w wr s' H. unfold assign in H. destruct (w_todo wr); [discriminate H|].
  cbv zeta in H. inversion H; subst s'. reflexivity.
Qed.

Lemma unlock_fs : forall s s', unlock s = Some s' -> g_fs s' = g_fs s.
Proof.
  intros s s' H. rewrite unlock_eq in H.
  destruct (g_locked s); [destruct (find_blocked (g_ws s)) as [b|];
                          [destruct (nth_error (g_ws s) b) as [wr|]|]|];
    try (inversion H; subst s'; reflexivity).
  apply assign_fs in H. exact H.
Qed.

Inductive grow (s s' : cstate) : Prop :=
| G_same : g_stream s' = g_stream s -> g_chan s' = g_chan s -> grow s s'
| G_commit : forall f, g_stream s' = g_stream s ++ [f] -> g_chan s' = g_chan s ->
    below (c_id f) (g_stream s) -> below (c_id f) (g_chan s) -> grow s s'
| G_bcast : forall f, g_stream s' = g_stream s -> g_chan s' = g_chan s ++ [f] ->
    below (c_id f) (g_chan s) -> grow s s'.

Lemma writer_grow : forall s l s', Inv s -> writer_step s l = Some s' ->
  g_fs s' = g_fs s /\ grow s s'.
Proof.
  intros s l s' HI H.
  destruct l as [w|w|w|w|p|k|k|k|k|k|k]; cbn [writer_step] in H; try discriminate H;
    (destruct (nth_error (g_ws s) w) as [wr|] eqn:Ew; [|discriminate H]);
    pose proof (i_ws s HI w wr Ew) as Hw; unfold wok in Hw.
  - destruct (w_st wr); try discriminate H. destruct (w_todo wr); [discriminate H|].
    destruct (lock_free s).
    + split; [exact (assign_fs _ _ _ _ H)|]. apply assign_proj in H. apply G_same; tauto.
    + destruct (find_blocked (g_ws s)); [discriminate H|]. inversion H; subst s'.
      split; [reflexivity|]. apply G_same; reflexivity.
  - destruct (w_st wr) as [| |f ok| |]; try discriminate H. destruct Hw as (L & Hn & Hs & Hc).
    destruct ok.
    + inversion H; subst s'. split; [reflexivity|]. destruct (c_eph f).
      * apply G_same; reflexivity.
      * apply (G_commit _ _ f); prj; try reflexivity; assumption.
    + split; [exact (unlock_fs _ _ H)|]. apply unlock_proj in H. apply G_same; tauto.
  - destruct (w_st wr) as [| | |f|]; try discriminate H. destruct Hw as (L & Hn & Hc).
    inversion H; subst s'. split; [reflexivity|].
    apply (G_bcast _ _ f); prj; try reflexivity; assumption.
  - destruct (w_st wr); try discriminate H.
    split; [exact (unlock_fs _ _ H)|]. apply unlock_proj in H. apply G_same; tauto.
Qed.

(* a step of the system, seen from follower k *)
Lemma cstep_follower : forall s l s' k fl, Inv s -> cstep s l = Some s' ->
  nth_error (g_fs s) k = Some fl ->
  (nth_error (g_fs s') k = Some fl /\ grow s s') \/
  (exists fl', nth_error (g_fs s') k = Some fl' /\ fstep s fl fl' /\
               g_stream s' = g_stream s /\ g_chan s' = g_chan s).
Proof.
  intros s l s' k fl HI H E.
  assert (W : writer_step s l = Some s' ->
              (nth_error (g_fs s') k = Some fl /\ grow s s') \/
              (exists fl', nth_error (g_fs s') k = Some fl' /\ fstep s fl fl' /\
                           g_stream s' = g_stream s /\ g_chan s' = g_chan s)).
  { intros X. destruct (writer_grow s l s' HI X) as [F G]. left. rewrite F. split; assumption. }
  assert (Fo : follower_step s l = Some s' ->
              (nth_error (g_fs s') k = Some fl /\ grow s s') \/
              (exists fl', nth_error (g_fs s') k = Some fl' /\ fstep s fl fl' /\
                           g_stream s' = g_stream s /\ g_chan s' = g_chan s)).
  { intros X. destruct (follower_fstep s l s' X) as (k0 & fl0 & fl' & E0 & St & Es). subst s'.
    unfold set_f; prj. destruct (PeanoNat.Nat.eq_dec k0 k) as [->|N].
    - right. exists fl'. rewrite E in E0. inversion E0; subst fl0.
      split; [exact (nth_upd_same _ _ _ _ _ E)|]. split; [exact St|]. split; reflexivity.
    - left. rewrite (nth_upd_other _ _ _ _ _ N). split; [exact E|]. apply G_same; reflexivity. }
  destruct l; cbn [cstep] in H; try exact (W H); try exact (Fo H).
  unfold poll_step in H. destruct (nth_error (g_ps s) p); [|discriminate H].
  cbv zeta in H. inversion H; subst s'. prj. left. split; [exact E|]. apply G_same; reflexivity.
Qed.

Lemma init_followers : forall s k fl, init_ok s -> nth_error (g_fs s) k = Some fl ->
  exists o, fl = init_follower o.
Proof.
  intros s k fl (next & stream & ws & fs & np & E & _) H. subst s. unfold cinit in H. prj.
  apply nth_error_In in H. apply in_map_iff in H. destruct H as (o & H & _). exists o. symmetry. exact H.
Qed.

Lemma init_stream_chan : forall s, init_ok s -> g_chan s = g_stream s.
Proof. intros s (next & stream & ws & fs & np & E & _). subst s. reflexivity. Qed.

Lemma upd_length : forall A (l : list A) n x, length (upd n x l) = length l.
Proof.
  induction l as [|a l IH]; intros n x; destruct n; cbn [upd length]; auto.
Qed.

Lemma cstep_fs_length : forall s l s', Inv s -> cstep s l = Some s' ->
  length (g_fs s') = length (g_fs s).
Proof.
  intros s l s' HI H. destruct l; cbn [cstep] in H;
    try (destruct (writer_grow _ _ _ HI H) as [F _]; rewrite F; reflexivity);
    try (destruct (follower_set _ _ _ H) as (k' & fl' & ->); unfold set_f; prj; apply upd_length).
  unfold poll_step in H. destruct (nth_error (g_ps s) p); [|discriminate H].
  cbv zeta in H. inversion H; subst s'. reflexivity.
Qed.

Lemma cstep_follower_back : forall s l s' k fl', Inv s -> cstep s l = Some s' ->
  nth_error (g_fs s') k = Some fl' -> exists fl, nth_error (g_fs s) k = Some fl.
Proof.
  intros s l s' k fl' HI H E.
  assert (L : (k < length (g_fs s))%nat).
  { rewrite <- (cstep_fs_length s l s' HI H). apply nth_error_Some. rewrite E. discriminate. }
  apply nth_error_Some in L. destruct (nth_error (g_fs s) k) as [fl|]; [exists fl; reflexivity|].
  contradiction L; reflexivity.
Qed.

(* induction principle for per-follower invariants that may mention the state *)
Theorem follower_ind : forall (P : cstate -> follower -> Prop),
  (forall s o, init_ok s -> P s (init_follower o)) ->
  (forall s s' k fl, reach s -> reach s' -> grow s s' -> nth_error (g_fs s) k = Some fl ->
                     P s fl -> P s' fl) ->
  (forall s s' k fl fl', reach s -> reach s' -> g_stream s' = g_stream s -> g_chan s' = g_chan s ->
                         nth_error (g_fs s) k = Some fl -> fstep s fl fl' -> P s fl -> P s' fl') ->
  forall s k fl, reach s -> nth_error (g_fs s) k = Some fl -> P s fl.
Proof.
  intros P H0 Hg Hf.
  assert (A : forall sched s s', reach s ->
                (forall k fl, nth_error (g_fs s) k = Some fl -> P s fl) ->
                crun s sched = Some s' ->
                forall k fl, nth_error (g_fs s') k = Some fl -> P s' fl).
  { induction sched as [|l r IH]; intros s s' R HP H k fl E; cbn [crun] in H.
    - inversion H; subst s'. exact (HP k fl E).
    - destruct (cstep s l) as [s1|] eqn:E1; [|discriminate H].
      pose proof (reach_step s l s1 R E1) as R1. pose proof (reach_inv s R) as HI.
      apply (IH s1 s' R1) with (k := k); [|exact H|exact E]. clear k fl E. intros k fl E.
      destruct (cstep_follower_back s l s1 k fl HI E1 E) as [fl0 E0].
      destruct (cstep_follower s l s1 k fl0 HI E1 E0) as [[E2 G]|(fl' & E2 & St & Es & Ec)].
      + rewrite E in E2. inversion E2; subst fl0.
        exact (Hg s s1 k fl R R1 G E0 (HP k fl E0)).
      + rewrite E in E2. inversion E2; subst fl'.
        exact (Hf s s1 k fl0 fl R R1 Es Ec E0 St (HP k fl0 E0)). }
  intros s k fl R E. pose proof R as R'. destruct R' as (s0 & sched & I0 & H).
  apply (A sched s0 s) with (k := k); [| |exact H|exact E].
  - exists s0, []. split; [exact I0|reflexivity].
  - intros k0 fl0 E0. destruct (init_followers s0 k0 fl0 I0 E0) as [o ->]. apply H0. exact I0.
Qed.

(* the same for invariants that only mention the follower *)
Corollary follower_ind_local : forall (P : follower -> Prop),
  (forall o, P (init_follower o)) ->
  (forall s k fl fl', reach s -> nth_error (g_fs s) k = Some fl -> fstep s fl fl' -> P fl -> P fl') ->
  forall s k fl, reach s -> nth_error (g_fs s) k = Some fl -> P fl.
Proof.
  intros P H0 Hf s k fl R E.
  apply (follower_ind (fun _ fl => P fl)) with (s := s) (k := k); try assumption.
  - intros s0 o _. apply H0.
  - intros; assumption.
  - intros s0 s' k0 fl0 fl' R0 _ _ _ E0 St X. exact (Hf s0 k0 fl0 fl' R0 E0 St X).
Qed.

(* ------------------------------------------------------------------ *)
(* projections                                                        *)
(* ------------------------------------------------------------------ *)

Ltac fprj :=
  cbn [fo f_subscribed f_pos f_h f_cursor f_peek f_last f_count f_l f_lcount f_hb f_out f_got
       push set_h set_l exit_live bump handoff recv_fl sent_fl consume_fl sub_fl start_fl
       start_tail_fl init_follower].
Ltac fprj_in H :=
  cbn [fo f_subscribed f_pos f_h f_cursor f_peek f_last f_count f_l f_lcount f_hb f_out f_got
       push set_h set_l exit_live bump handoff recv_fl sent_fl consume_fl sub_fl start_fl
       start_tail_fl init_follower] in H.

Lemma hadv_cases : forall s fl,
  (exists g, f_peek fl = Some g /\ limit_reached (o_limit (fo fl)) (f_count fl) = true /\
     hist_advance s fl =
     mkF (fo fl) (f_subscribed fl) (f_pos fl) (HFinished false) (Some (c_id g))
         (scan_next (g_stream s) (o_ctx (fo fl)) (Some (c_id g))) (Some (c_id g))
         (f_count fl) (match f_l fl with LNone => LNone | _ => LExited end) (f_lcount fl)
         false (f_out fl) (f_got fl)) \/
  (exists g, f_peek fl = Some g /\ limit_reached (o_limit (fo fl)) (f_count fl) = false /\
     hist_advance s fl =
     mkF (fo fl) (f_subscribed fl) (f_pos fl) (HAtSend g) (Some (c_id g))
         (scan_next (g_stream s) (o_ctx (fo fl)) (Some (c_id g))) (Some (c_id g))
         (f_count fl) (f_l fl) (f_lcount fl) (f_hb fl) (f_out fl) (f_got fl)) \/
  (f_peek fl = None /\
     hist_advance s fl =
     mkF (fo fl) (f_subscribed fl) (f_pos fl) HAtThreshold (f_cursor fl) None (f_last fl)
         (f_count fl) (f_l fl) (f_lcount fl) (f_hb fl) (f_out fl) (f_got fl)).
Proof.
  intros s fl. unfold hist_advance. destruct (f_peek fl) as [g|].
  - destruct (limit_reached (o_limit (fo fl)) (f_count fl)).
    + left. exists g. repeat split.
    + right. left. exists g. repeat split.
  - right. right. split; reflexivity.
Qed.

Lemma items_push : forall fl i, items (push fl i) = items fl ++ [i].
Proof. intros fl i. unfold items. fprj. apply app_assoc. Qed.

Lemma items_consume : forall fl i r, f_out fl = i :: r -> items (consume_fl fl i r) = items fl.
Proof. intros fl i r H. unfold items. fprj. rewrite H, <- app_assoc. reflexivity. Qed.

Lemma reals_app : forall a b, reals (a ++ b) = reals a ++ reals b.
Proof. intros a b. unfold reals. apply flat_map_app. Qed.

(* ------------------------------------------------------------------ *)
(* shape: which combinations of thread states occur                   *)
(* ------------------------------------------------------------------ *)

Definition Shape (fl : follower) : Prop :=
  (f_l fl = LExited -> f_hb fl = false) /\
  (f_hb fl = true -> o_follow (fo fl) = true /\ o_pulse (fo fl) = true /\ f_l fl <> LNone) /\
  (f_l fl <> LNone -> o_follow (fo fl) = true) /\
  match f_h fl with
  | HNotStarted => f_l fl = LNone /\ f_hb fl = false /\ items fl = [] /\ f_count fl = 0 /\ f_last fl = None /\
                   (f_subscribed fl = true -> f_cursor fl = o_last (fo fl))
  | HAtSend _ | HAtThreshold | HAtDone =>
      (f_l fl = LWaiting \/ f_l fl = LNone) /\ o_tail (fo fl) = false /\ f_subscribed fl = true
  | HFinished false =>
      (f_l fl = LExited \/ f_l fl = LNone) /\ f_hb fl = false /\ o_tail (fo fl) = false /\ f_subscribed fl = true
  | HFinished true => o_tail (fo fl) = false /\ f_subscribed fl = true
  | HNone => o_tail (fo fl) = true /\ f_l fl <> LWaiting /\ f_last fl = None /\ f_count fl = 0 /\
             f_subscribed fl = true
  end.

Lemma shape_step : forall s fl fl', fstep s fl fl' -> Shape fl -> Shape fl'.
Proof.
  intros s fl fl' St (Hx & Hb & Hn & Hh).
  inversion St; subst fl'; clear St; unfold Shape.
  all: try match goal with C : can_recv _ |- _ => destruct C as [[El Eh]|El] end.
  all: try match goal with
       | |- context [hist_advance ?s0 ?x] =>
           destruct (hadv_cases s0 x) as [(g & Ep & Elim & ->)|[(g & Ep & Elim & ->)|(Ep & ->)]]
       end; fprj.
  all: repeat match goal with
       | E : f_h _ = _ |- _ => rewrite E in *
       | E : f_l _ = _ |- _ => rewrite E in *
       end; cbv beta iota in Hh.
  all: try match goal with |- context [f_h ?x] => destruct (f_h x) as [| | | |[|]|]; try discriminate end.
  all: try match goal with |- context [if o_follow ?x then _ else _] => destruct (o_follow x) end.
  all: try match goal with |- context [if ?n <=? ?m then _ else _] => destruct (n <=? m) end.
  all: try match goal with |- context [match f_l ?x with _ => _ end] => destruct (f_l x) end.
  all: try rewrite items_push; try (rewrite items_consume by assumption).
  all: try solve [intuition (try discriminate; try congruence)].
Qed.

Theorem shape : forall s k fl, reach s -> nth_error (g_fs s) k = Some fl -> Shape fl.
Proof.
  apply (follower_ind_local Shape).
  - intros o. unfold Shape. fprj. unfold items. fprj. cbn [app].
    intuition (try discriminate; try congruence).
  - intros s k fl fl' _ _ St H. exact (shape_step s fl fl' St H).
Qed.

Lemma fo_hadv : forall s fl, fo (hist_advance s fl) = fo fl.
Proof.
  intros s fl. destruct (hadv_cases s fl) as [(g & _ & _ & ->)|[(g & _ & _ & ->)|(_ & ->)]]; reflexivity.
Qed.

Lemma items_hadv : forall s fl, items (hist_advance s fl) = items fl.
Proof.
  intros s fl. destruct (hadv_cases s fl) as [(g & _ & _ & ->)|[(g & _ & _ & ->)|(_ & ->)]]; reflexivity.
Qed.

Lemma fo_step : forall s fl fl', fstep s fl fl' -> fo fl' = fo fl.
Proof.
  intros s fl fl' St. inversion St; subst fl'; rewrite ?fo_hadv; reflexivity.
Qed.

(* what a step does to the sequence of delivered items *)
Lemma items_step : forall s fl fl', fstep s fl fl' ->
  items fl' = items fl \/
  ((f_subscribed fl = false \/ f_h fl = HNotStarted) /\ items fl' = []) \/
  (exists f, f_h fl = HAtSend f /\ items fl' = items fl ++ [IReal f]) \/
  (exists f, f_l fl = LAtRecv f /\ in_scope_c (o_ctx (fo fl)) f = true /\ leL (f_last fl) f = false /\
             items fl' = items fl ++ [IReal f]) \/
  (f_h fl = HAtThreshold /\ wants_threshold (fo fl) = true /\ items fl' = items fl ++ [IThreshold]) \/
  (f_hb fl = true /\ items fl' = items fl ++ [IPulse]).
Proof.
  intros s fl fl' St. inversion St; subst fl'; rewrite ?items_hadv.
  - right; left; split; [left; assumption|reflexivity].
  - right; left; split; [right; assumption|reflexivity].
  - right; left; split; [right; assumption|reflexivity].
  - right; right; left. exists f. split; [assumption|]. apply (items_push fl (IReal f)).
  - right; right; right; right; left. split; [assumption|]. split; [assumption|].
    apply (items_push fl IThreshold).
  - left; reflexivity.
  - left; reflexivity.
  - left; reflexivity.
  - left; reflexivity.
  - left; reflexivity.
  - left; reflexivity.
  - right; right; right; left. exists f. repeat (split; [assumption|]). apply (items_push fl (IReal f)).
  - left; reflexivity.
  - left; reflexivity.
  - right; right; right; right; right. split; [assumption|]. apply items_push.
  - left. apply items_consume. assumption.
Qed.

(* ------------------------------------------------------------------ *)
(* F9: synthetic items only when asked for                            *)
(* ------------------------------------------------------------------ *)

Definition Synth (fl : follower) : Prop :=
  (In IPulse (items fl) -> o_pulse (fo fl) = true /\ o_follow (fo fl) = true) /\
  (In IThreshold (items fl) ->
   o_follow (fo fl) = true /\ o_tail (fo fl) = false /\ o_limit (fo fl) = None).

Lemma wants_threshold_spec : forall o, wants_threshold o = true ->
  o_follow o = true /\ o_limit o = None.
Proof.
  intros o H. unfold wants_threshold in H. apply andb_true_iff in H. destruct H as [A B].
  split; [exact A|]. destruct (o_limit o); [discriminate B|reflexivity].
Qed.

Lemma synth : forall s k fl, reach s -> nth_error (g_fs s) k = Some fl -> Synth fl.
Proof.
  apply (follower_ind_local Synth).
  - intros o. split; intros H; destruct H.
  - intros s k fl fl' R E St [Hp Ht]. pose proof (shape s k fl R E) as (_ & Hb & _ & Hh).
    unfold Synth. rewrite (fo_step s fl fl' St).
    destruct (items_step s fl fl' St) as [X|[(_ & X)|[(f & _ & X)|[(f & _ & _ & _ & X)|[(Eh & W & X)|(Eb & X)]]]]];
      rewrite X; split; intros H; try (apply in_app_or in H; destruct H as [H|[H|[]]]);
      try discriminate H; try (destruct H; fail); auto.
    + apply wants_threshold_spec in W. rewrite Eh in Hh. destruct Hh as (_ & T & _). tauto.
    + apply Hb in Eb. tauto.
Qed.

Theorem pulse_only_if_asked : forall s k fl, reach s -> nth_error (g_fs s) k = Some fl ->
  In IPulse (f_got fl ++ f_out fl) -> o_pulse (fo fl) = true /\ o_follow (fo fl) = true.
Proof. intros s k fl R E. exact (proj1 (synth s k fl R E)). Qed.

Theorem threshold_only_if_following : forall s k fl, reach s -> nth_error (g_fs s) k = Some fl ->
  In IThreshold (f_got fl ++ f_out fl) ->
  o_follow (fo fl) = true /\ o_tail (fo fl) = false /\ o_limit (fo fl) = None.
Proof. intros s k fl R E. exact (proj2 (synth s k fl R E)). Qed.

(* ------------------------------------------------------------------ *)
(* F8 (first part): the heartbeat ends with the live task             *)
(* ------------------------------------------------------------------ *)

Theorem exited_is_final : forall s k fl, reach s -> nth_error (g_fs s) k = Some fl ->
  f_l fl = LExited -> f_hb fl = false.
Proof. intros s k fl R E. exact (proj1 (shape s k fl R E)). Qed.

(* ------------------------------------------------------------------ *)
(* seen under the step constructors                                   *)
(* ------------------------------------------------------------------ *)

Lemma seen_hadv : forall s fl, seen (hist_advance s fl) = seen fl.
Proof. intros s fl. rewrite !seen_items, items_hadv. reflexivity. Qed.
Lemma seen_push_real : forall fl f, seen (push fl (IReal f)) = seen fl ++ [f].
Proof. intros fl f. rewrite !seen_items, items_push, reals_app. reflexivity. Qed.
Lemma seen_push_thr : forall fl, seen (push fl IThreshold) = seen fl.
Proof. intros fl. rewrite !seen_items, items_push, reals_app. apply app_nil_r. Qed.
Lemma seen_push_pulse : forall fl, seen (push fl IPulse) = seen fl.
Proof. intros fl. rewrite !seen_items, items_push, reals_app. apply app_nil_r. Qed.
Lemma seen_consume : forall fl i r, f_out fl = i :: r -> seen (consume_fl fl i r) = seen fl.
Proof. intros fl i r H. rewrite !seen_items, items_consume by exact H. reflexivity. Qed.
Lemma seen_set_l : forall fl x, seen (set_l fl x) = seen fl.  Proof. reflexivity. Qed.
Lemma seen_set_h : forall fl x, seen (set_h fl x) = seen fl.  Proof. reflexivity. Qed.
Lemma seen_exit : forall fl, seen (exit_live fl) = seen fl.  Proof. reflexivity. Qed.
Lemma seen_handoff : forall fl, seen (handoff fl) = seen fl.  Proof. reflexivity. Qed.
Lemma seen_recv : forall fl f, seen (recv_fl fl f) = seen fl.  Proof. reflexivity. Qed.
Lemma seen_sent : forall fl n, seen (sent_fl fl n) = seen fl.  Proof. reflexivity. Qed.
Lemma seen_bump : forall fl, seen (bump fl) = seen fl.  Proof. reflexivity. Qed.
Lemma seen_sub : forall s fl, seen (sub_fl s fl) = [].  Proof. reflexivity. Qed.
Lemma seen_start : forall s fl, seen (start_fl s fl) = [].  Proof. reflexivity. Qed.
Lemma seen_start_tail : forall fl, seen (start_tail_fl fl) = [].  Proof. reflexivity. Qed.

Ltac seen_rw :=
  rewrite ?seen_hadv, ?seen_bump, ?seen_set_l, ?seen_set_h, ?seen_exit, ?seen_handoff, ?seen_recv,
          ?seen_sent, ?seen_sub, ?seen_start, ?seen_start_tail, ?seen_push_real, ?seen_push_thr,
          ?seen_push_pulse.

(* ------------------------------------------------------------------ *)
(* F7: the limit                                                      *)
(* ------------------------------------------------------------------ *)

Definition Cnt (fl : follower) : Prop :=
  forall n, o_limit (fo fl) = Some n -> (o_tail (fo fl) = false \/ n <> 0) ->
  match f_h fl with
  | HNotStarted => N.of_nat (length (seen fl)) = 0
  | HAtSend _ => N.of_nat (length (seen fl)) = f_count fl /\ f_count fl < n
  | HAtThreshold | HAtDone | HFinished false =>
      N.of_nat (length (seen fl)) = f_count fl /\ f_count fl <= n
  | HFinished true | HNone =>
      match f_l fl with
      | LWaiting | LRecvWait | LAtRecv _ => N.of_nat (length (seen fl)) = f_lcount fl /\ f_lcount fl < n
      | LAtSent => N.of_nat (length (seen fl)) = f_lcount fl + 1 /\ f_lcount fl < n
      | LExited | LNone => N.of_nat (length (seen fl)) <= n
      end
  end.

Ltac split_all := repeat match goal with
  | H : _ /\ _ |- _ => destruct H
  | H : _ \/ _ |- _ => destruct H
  end.

Lemma cnt_step : forall s fl fl', fstep s fl fl' -> Shape fl -> Cnt fl -> Cnt fl'.
Proof.
  intros s fl fl' St (Hx & Hb & Hn & Hh) HC n Elim Hnz.
  rewrite (fo_step s fl fl' St) in Elim, Hnz. specialize (HC n Elim Hnz).
  inversion St; subst fl'; clear St.
  all: try (rewrite seen_consume by assumption).
  all: seen_rw.
  all: try match goal with C : can_recv _ |- _ => destruct C as [[El Eh]|El] end.
  all: try match goal with
       | |- context [hist_advance ?s0 ?x] =>
           let Ep := fresh "Ep" in let Elr := fresh "Elr" in
           destruct (hadv_cases s0 x) as [(g & Ep & Elr & ->)|[(g & Ep & Elr & ->)|(Ep & ->)]];
           [fprj_in Elr; rewrite Elim in Elr; unfold limit_reached in Elr
           |fprj_in Elr; rewrite Elim in Elr; unfold limit_reached in Elr|]
       end; fprj.
  all: try match goal with E : limit_reached _ _ = _ |- _ => rewrite Elim in E; unfold limit_reached in E end.
  all: try match goal with E : f_l _ = LWaiting -> limit_reached _ _ = _ |- _ =>
             rewrite Elim in E; unfold limit_reached in E end.
  all: try match goal with E : wants_threshold _ = true |- _ =>
             apply wants_threshold_spec in E; destruct E as [_ E]; rewrite E in Elim; discriminate Elim end.
  all: try match goal with E : o_limit _ = None |- _ => rewrite E in Elim; discriminate Elim end.
  all: repeat match goal with
       | E : f_h _ = _ |- _ => rewrite E in *
       | E : f_l _ = _ |- _ => rewrite E in *
       end; cbv beta iota in Hh; cbv beta iota in HC.
  all: try (rewrite seen_consume by assumption).
  all: repeat match goal with |- context [seen ?x] =>
         progress (change (seen x) with (@nil cfr)) end.
  all: seen_rw.
  all: try match goal with |- context [f_h ?x] => destruct (f_h x) as [| | | |[|]|] eqn:Eh'; try discriminate end.
  all: cbv beta iota in Hh; cbv beta iota in HC.
  all: try match goal with |- context [if o_follow ?x then _ else _] => destruct (o_follow x) end.
  all: try match goal with E : o_limit _ = Some ?m |- context [if ?m <=? ?c then _ else _] =>
             rewrite E in Elim; inversion Elim; subst m; destruct (n <=? c) eqn:Ele end.
  all: try match goal with |- context [match f_l ?x with _ => _ end] => destruct (f_l x) eqn:El' end.
  all: cbv beta iota in HC.
  all: try rewrite app_length; cbn [length].
  all: split_all; try discriminate; try congruence.
  all: try lia.
  all: try (split; lia).
Qed.

Theorem cnt : forall s k fl, reach s -> nth_error (g_fs s) k = Some fl -> Cnt fl.
Proof.
  apply (follower_ind_local Cnt).
  - intros o n _ _. reflexivity.
  - intros s k fl fl' R E St H. exact (cnt_step s fl fl' St (shape s k fl R E) H).
Qed.

Theorem limit_exact : forall s k fl n, reach s -> nth_error (g_fs s) k = Some fl ->
  o_limit (fo fl) = Some n -> (o_tail (fo fl) = false \/ n <> 0) ->
  (length (seen fl) <= N.to_nat n)%nat.
Proof.
  intros s k fl n R E L Hnz. pose proof (cnt s k fl R E n L Hnz) as H.
  destruct (f_h fl) as [| | | |[|]|]; try (destruct (f_l fl)); lia.
Qed.

(* a property of follower k that is preserved by its own steps is preserved by schedules *)
Lemma crun_stable : forall (A : Type) (obs : follower -> A) (Q : follower -> Prop),
  (forall s k fl fl', reach s -> nth_error (g_fs s) k = Some fl -> fstep s fl fl' -> Q fl ->
                      Q fl' /\ obs fl' = obs fl) ->
  forall sched s s' k fl fl', reach s -> crun s sched = Some s' ->
    nth_error (g_fs s) k = Some fl -> nth_error (g_fs s') k = Some fl' -> Q fl ->
    Q fl' /\ obs fl' = obs fl.
Proof.
  intros A obs Q HS. induction sched as [|l r IH]; intros s s' k fl fl' R H E E' HQ; cbn [crun] in H.
  - inversion H; subst s'. rewrite E in E'. inversion E'; subst fl'. split; [exact HQ|reflexivity].
  - destruct (cstep s l) as [s1|] eqn:E1; [|discriminate H].
    pose proof (reach_step s l s1 R E1) as R1.
    destruct (cstep_follower s l s1 k fl (reach_inv s R) E1 E) as [[E2 _]|(fl1 & E2 & St & _)].
    + exact (IH s1 s' k fl fl' R1 H E2 E' HQ).
    + destruct (HS s k fl fl1 R E St HQ) as [Q1 O1].
      destruct (IH s1 s' k fl1 fl' R1 H E2 E' Q1) as [Q2 O2]. split; [exact Q2|]. congruence.
Qed.

Theorem exited_no_more : forall s k fl, reach s -> nth_error (g_fs s) k = Some fl ->
  f_l fl = LExited ->
  (f_h fl = HFinished true \/ f_h fl = HFinished false \/ f_h fl = HNone) ->
  forall sched s' fl', crun s sched = Some s' -> nth_error (g_fs s') k = Some fl' ->
  f_got fl' ++ f_out fl' = f_got fl ++ f_out fl.
Proof.
  intros s k fl R E El Eh sched s' fl' H E'.
  apply (crun_stable _ items
           (fun fl => f_l fl = LExited /\
                      (f_h fl = HFinished true \/ f_h fl = HFinished false \/ f_h fl = HNone)))
    with (sched := sched) (s := s) (s' := s') (k := k); try assumption; [|split; assumption].
  clear. intros s k fl fl' R E St [El Eh]. pose proof (shape s k fl R E) as (Hx & Hb & Hn & Hh).
  specialize (Hx El).
  inversion St; subst fl'; fprj;
    try match goal with C : can_recv _ |- _ => destruct C as [[C _]|C] end;
    try congruence;
    try (exfalso; destruct Eh as [Eh|[Eh|Eh]]; rewrite Eh in Hh; cbv beta iota in Hh; split_all; congruence);
    try (exfalso; destruct Eh as [Eh|[Eh|Eh]]; congruence).
  split; [split; assumption|]. apply items_consume. assumption.
Qed.

(* ------------------------------------------------------------------ *)
(* the scan: least in-scope committed frame above the cursor          *)
(* ------------------------------------------------------------------ *)

Definition sok (c cur : option N) (f : cfr) : bool := in_scope_c c f && after_c cur f.

Definition scanF (c cur : option N) (best : option cfr) (f : cfr) : option cfr :=
  if in_scope_c c f && after_c cur f then
    match best with
    | Some b => if c_id f <? c_id b then Some f else best
    | None => Some f
    end
  else best.

Lemma scan_next_fold : forall st c cur, scan_next st c cur = fold_left (scanF c cur) st None.
Proof. reflexivity. Qed.

Lemma scan_fold : forall c cur st best,
  (forall b, best = Some b -> sok c cur b = true) ->
  match fold_left (scanF c cur) st best with
  | Some r => sok c cur r = true /\ (best = Some r \/ In r st) /\
              (forall b, best = Some b -> c_id r <= c_id b) /\
              (forall x, In x st -> sok c cur x = true -> c_id r <= c_id x)
  | None => best = None /\ forall x, In x st -> sok c cur x = false
  end.
Proof.
  intros c cur. induction st as [|a st IH]; intros best Hb; cbn [fold_left].
  - destruct best as [b|].
    + split; [apply Hb; reflexivity|]. split; [left; reflexivity|]. split.
      * intros b0 E. inversion E; subst. lia.
      * intros x [].
    + split; [reflexivity|]. intros x [].
  - assert (Hb' : forall b, scanF c cur best a = Some b -> sok c cur b = true).
    { intros b E. unfold scanF in E. fold (sok c cur a) in E.
      destruct (sok c cur a) eqn:Ea.
      - destruct best as [b0|].
        + destruct (c_id a <? c_id b0); inversion E; subst; [exact Ea|apply Hb; reflexivity].
        + inversion E; subst. exact Ea.
      - apply Hb. exact E. }
    specialize (IH (scanF c cur best a) Hb').
    destruct (fold_left (scanF c cur) st (scanF c cur best a)) as [r|].
    + destruct IH as (A & B & C & D). split; [exact A|].
      unfold scanF in B, C. fold (sok c cur a) in B, C.
      destruct (sok c cur a) eqn:Ea.
      * destruct best as [b0|].
        -- destruct (c_id a <? c_id b0) eqn:Elt.
           ++ split; [destruct B as [B|B]; [inversion B; subst; right; left; reflexivity|right; right; exact B]|].
              split.
              ** intros b E. inversion E; subst. specialize (C a eq_refl). lia.
              ** intros x [X|X] Sx; [subst; apply C; reflexivity|exact (D x X Sx)].
           ++ split; [destruct B as [B|B]; [left; exact B|right; right; exact B]|].
              split; [exact C|].
              intros x [X|X] Sx; [subst; specialize (C b0 eq_refl); lia|exact (D x X Sx)].
        -- split; [destruct B as [B|B]; [inversion B; subst; right; left; reflexivity|right; right; exact B]|].
           split; [intros b E; discriminate E|].
           intros x [X|X] Sx; [subst; apply C; reflexivity|exact (D x X Sx)].
      * split; [destruct B as [B|B]; [left; exact B|right; right; exact B]|].
        split; [exact C|].
        intros x [X|X] Sx; [subst; rewrite Ea in Sx; discriminate Sx|exact (D x X Sx)].
    + destruct IH as [A B]. unfold scanF in A. fold (sok c cur a) in A.
      destruct (sok c cur a) eqn:Ea.
      * destruct best as [b0|]; [destruct (c_id a <? c_id b0)|]; discriminate A.
      * split; [exact A|]. intros x [X|X]; [subst; exact Ea|exact (B x X)].
Qed.

Lemma scan_next_some : forall st c cur r, scan_next st c cur = Some r ->
  In r st /\ sok c cur r = true /\ forall x, In x st -> sok c cur x = true -> c_id r <= c_id x.
Proof.
  intros st c cur r H. rewrite scan_next_fold in H.
  pose proof (scan_fold c cur st None) as F. rewrite H in F.
  destruct F as (A & B & _ & D); [intros b E; discriminate E|].
  split; [destruct B as [B|B]; [discriminate B|exact B]|]. split; assumption.
Qed.

Lemma scan_next_none : forall st c cur, scan_next st c cur = None ->
  forall x, In x st -> sok c cur x = false.
Proof.
  intros st c cur H. rewrite scan_next_fold in H.
  pose proof (scan_fold c cur st None) as F. rewrite H in F.
  destruct F as [_ B]; [intros b E; discriminate E|]. exact B.
Qed.

(* once the limit is reached a step of the follower delivers no further frame *)
Lemma full_step : forall s k fl fl' n, reach s -> nth_error (g_fs s) k = Some fl ->
  fstep s fl fl' -> o_limit (fo fl) = Some n -> (o_tail (fo fl) = false \/ n <> 0) ->
  length (seen fl) = N.to_nat n -> seen fl' = seen fl.
Proof.
  intros s k fl fl' n R E St L Hnz Hlen.
  pose proof (cnt s k fl R E n L Hnz) as HC.
  pose proof (shape s k fl R E) as (Hx & Hb & Hn & Hh).
  rewrite !seen_items.
  destruct (items_step s fl fl' St) as [X|[(Y & X)|[(f & Eh & X)|[(f & El & _ & _ & X)|[(_ & _ & X)|(_ & X)]]]]];
    rewrite X; try reflexivity.
  - assert (Z : items fl = []).
    { destruct Y as [Y|Y].
      - destruct (f_h fl) as [| | | |[|]|]; split_all; try assumption; try congruence.
      - rewrite Y in Hh. cbv beta iota in Hh. split_all; assumption. }
    rewrite Z. reflexivity.
  - exfalso. rewrite Eh in HC. lia.
  - exfalso. rewrite El in *.
    destruct (f_h fl) as [| | | |[|]|]; split_all; try congruence; try discriminate; lia.
  - rewrite reals_app. apply app_nil_r.
  - rewrite reals_app. apply app_nil_r.
Qed.

Theorem limit_closes : forall s k fl n, reach s -> nth_error (g_fs s) k = Some fl ->
  o_limit (fo fl) = Some n -> (o_tail (fo fl) = false \/ n <> 0) ->
  length (seen fl) = N.to_nat n ->
  forall sched s' fl', crun s sched = Some s' -> nth_error (g_fs s') k = Some fl' ->
  seen fl' = seen fl.
Proof.
  intros s k fl n R E L Hnz Hlen sched s' fl' H E'.
  apply (crun_stable _ seen
           (fun fl => o_limit (fo fl) = Some n /\ (o_tail (fo fl) = false \/ n <> 0) /\
                      length (seen fl) = N.to_nat n))
    with (sched := sched) (s := s) (s' := s') (k := k); try assumption; [|repeat split; assumption].
  clear. intros s k fl fl' R E St (L & Hnz & Hlen).
  pose proof (full_step s k fl fl' n R E St L Hnz Hlen) as X.
  rewrite (fo_step s fl fl' St), X. repeat split; assumption.
Qed.

(* when is the consumer's channel closed *)
Theorem closed_spec : forall s k fl, reach s -> nth_error (g_fs s) k = Some fl ->
  (closed fl = true <->
   (exists b, f_h fl = HFinished b \/ f_h fl = HNone) /\ (f_l fl = LExited \/ f_l fl = LNone) /\
   f_out fl = []).
Proof.
  intros s k fl R E. pose proof (shape s k fl R E) as (Hx & Hb & Hn & Hh). unfold closed. split.
  - intros H. destruct (f_h fl) as [| | | |b|]; try discriminate H;
      destruct (f_l fl); try discriminate H;
      destruct (f_hb fl); try discriminate H; destruct (f_out fl); try discriminate H;
      (split; [first [exists true; right; reflexivity | exists b; left; reflexivity]|]);
      (split; [first [left; reflexivity|right; reflexivity]|reflexivity]).
  - intros ([b Eh] & El & Eo). rewrite Eo.
    assert (B : f_hb fl = false).
    { destruct El as [El|El]; [exact (Hx El)|]. destruct (f_hb fl); [|reflexivity].
      destruct (Hb eq_refl) as (_ & _ & F). contradiction. }
    rewrite B. destruct Eh as [Eh|Eh]; rewrite Eh; destruct El as [El|El]; rewrite El; reflexivity.
Qed.

Theorem limit_ends_stream : forall s k fl n, reach s -> nth_error (g_fs s) k = Some fl ->
  o_limit (fo fl) = Some n -> (o_tail (fo fl) = false \/ n <> 0) ->
  length (seen fl) = N.to_nat n ->
  (exists b, f_h fl = HFinished b \/ f_h fl = HNone) -> f_l fl <> LAtSent ->
  f_hb fl = false /\ (f_l fl = LExited \/ f_l fl = LNone) /\ (f_out fl = [] -> closed fl = true).
Proof.
  intros s k fl n R E L Hnz Hlen Eh Hl.
  pose proof (cnt s k fl R E n L Hnz) as HC.
  pose proof (shape s k fl R E) as (Hx & Hb & Hn & Hh).
  assert (El : f_l fl = LExited \/ f_l fl = LNone).
  { destruct Eh as [b [Eh|Eh]]; rewrite Eh in HC, Hh; [destruct b|];
      cbv beta iota in HC; cbv beta iota in Hh; try tauto;
      destruct (f_l fl); try lia; try tauto; try congruence. }
  split; [|split; [exact El|]].
  - destruct El as [El|El]; [exact (Hx El)|]. destruct (f_hb fl); [|reflexivity].
    destruct (Hb eq_refl) as (_ & _ & F). contradiction.
  - intros Eo. apply (closed_spec s k fl R E). split; [exact Eh|]. split; assumption.
Qed.

(* ------------------------------------------------------------------ *)
(* F10: the known gap for ephemeral frames, by computation            *)
(* ------------------------------------------------------------------ *)

Definition eph_init : cstate :=
  cinit true 2 [mkC 0 0 false; mkC 1 0 false]
        [[mkP 0 true true]; [mkP 0 false true]] [mkO true false None None None false] 0.
Definition eph_sched : list label :=
  [LSubscribe 0; LStart 0;
   LEnter 0; LCommit 0; LBcast 0; LRelease 0;
   LEnter 1; LCommit 1; LBcast 1; LRelease 1;
   LHist 0; LHist 0; LHist 0; LHist 0; LHist 0;
   LLive 0; LLive 0; LLive 0; LLive 0].

Lemma eph_init_ok : init_ok eph_init.
Proof.
  exists 2, [mkC 0 0 false; mkC 1 0 false], [[mkP 0 true true]; [mkP 0 false true]],
         [mkO true false None None None false], 0%nat.
  split; [reflexivity|]. split.
  - repeat constructor.
  - repeat constructor.
Qed.

(* the ephemeral frame #2 is broadcast after the follower subscribed (subscription point 2),
   it is in scope, the follower has consumed the whole channel and its stream is still
   open, yet #2 was not delivered: it fell between the history scan (ephemeral frames are
   not stored) and the live filter (id 2 <= hand-off id 3) *)
Theorem ephemeral_dropped_witness :
  exists s fl,
    reach s /\ crun eph_init eph_sched = Some s /\ nth_error (g_fs s) 0 = Some fl /\
    (exists s1 fl1, crun eph_init [LSubscribe 0] = Some s1 /\ nth_error (g_fs s1) 0 = Some fl1 /\
                    f_pos fl1 = 2%nat) /\
    seen fl = [mkC 0 0 false; mkC 1 0 false; mkC 3 0 false] /\
    nth_error (g_chan s) 2 = Some (mkC 2 0 true) /\
    scope_ok (fo fl) (mkC 2 0 true) = true /\
    ~ In (mkC 2 0 true) (seen fl) /\
    f_pos fl = length (g_chan s) /\ f_l fl = LRecvWait /\ closed fl = false /\
    f_last fl = Some 3.
Proof.
  exists (match crun eph_init eph_sched with Some s => s | None => eph_init end).
  exists (match crun eph_init eph_sched with
          | Some s => match nth_error (g_fs s) 0 with Some fl => fl | None => init_follower (mkO true false None None None false) end
          | None => init_follower (mkO true false None None None false) end).
  split; [exists eph_init, eph_sched; split; [exact eph_init_ok|vm_compute; reflexivity]|].
  split; [vm_compute; reflexivity|]. split; [vm_compute; reflexivity|].
  split.
  { exists (match crun eph_init [LSubscribe 0] with Some s => s | None => eph_init end).
    eexists. split; [vm_compute; reflexivity|]. split; vm_compute; reflexivity. }
  split; [vm_compute; reflexivity|]. split; [vm_compute; reflexivity|].
  split; [vm_compute; reflexivity|]. split.
  { vm_compute. intros [H|[H|[H|[]]]]; discriminate H. }
  vm_compute. repeat split.
Qed.

(* ------------------------------------------------------------------ *)
(* F11: non-vacuity                                                   *)
(* ------------------------------------------------------------------ *)

Definition hl_init : cstate :=
  cinit true 1 [mkC 0 0 false] [[mkP 0 false true]] [mkO true false None None None true] 0.
Definition hl_sched : list label :=
  [LSubscribe 0; LStart 0; LHist 0; LHist 0; LHist 0;
   LEnter 0; LCommit 0; LBcast 0; LRelease 0; LLive 0; LLive 0; LLive 0; LPulse 0; LConsume 0].

Lemma hl_init_ok : init_ok hl_init.
Proof.
  exists 1, [mkC 0 0 false], [[mkP 0 false true]], [mkO true false None None None true], 0%nat.
  split; [reflexivity|]. split; repeat constructor.
Qed.

Example history_then_live_reachable :
  exists s fl, reach s /\ crun hl_init hl_sched = Some s /\ nth_error (g_fs s) 0 = Some fl /\
               seen fl = [mkC 0 0 false; mkC 1 0 false] /\
               f_got fl ++ f_out fl = [IReal (mkC 0 0 false); IThreshold; IReal (mkC 1 0 false); IPulse] /\
               f_last fl = Some 0 /\ f_h fl = HFinished true /\ f_l fl = LRecvWait.
Proof.
  exists (match crun hl_init hl_sched with Some s => s | None => hl_init end).
  exists (match crun hl_init hl_sched with
          | Some s => match nth_error (g_fs s) 0 with Some fl => fl | None => init_follower (mkO true false None None None false) end
          | None => init_follower (mkO true false None None None false) end).
  split; [exists hl_init, hl_sched; split; [exact hl_init_ok|vm_compute; reflexivity]|].
  vm_compute. repeat split.
Qed.

(* a limited follow that ends exactly at the limit, across the hand-off *)
Definition lim_init : cstate :=
  cinit true 1 [mkC 0 0 false] [[mkP 0 false true; mkP 0 false true]]
        [mkO true false None (Some 2) None true] 0.
Definition lim_sched : list label :=
  [LSubscribe 0; LStart 0; LHist 0; LHist 0; LHist 0;
   LEnter 0; LCommit 0; LBcast 0; LRelease 0; LEnter 0; LCommit 0; LBcast 0; LRelease 0;
   LLive 0; LLive 0; LLive 0].

Lemma lim_init_ok : init_ok lim_init.
Proof.
  exists 1, [mkC 0 0 false], [[mkP 0 false true; mkP 0 false true]],
         [mkO true false None (Some 2) None true], 0%nat.
  split; [reflexivity|]. split; repeat constructor.
Qed.

Example limit_reached_reachable :
  exists s fl, reach s /\ crun lim_init lim_sched = Some s /\ nth_error (g_fs s) 0 = Some fl /\
               seen fl = [mkC 0 0 false; mkC 1 0 false] /\ length (g_chan s) = 3%nat /\
               f_l fl = LExited /\ f_hb fl = false.
Proof.
  exists (match crun lim_init lim_sched with Some s => s | None => lim_init end).
  exists (match crun lim_init lim_sched with
          | Some s => match nth_error (g_fs s) 0 with Some fl => fl | None => init_follower (mkO true false None None None false) end
          | None => init_follower (mkO true false None None None false) end).
  split; [exists lim_init, lim_sched; split; [exact lim_init_ok|vm_compute; reflexivity]|].
  vm_compute. repeat split.
Qed.

(* corner cases of the model that make the naive statements false *)

(* tail with limit 0 delivers one frame (count-then-compare in the live task) *)
Definition t0_init : cstate :=
  cinit true 0 [] [[mkP 0 false true]] [mkO true true None (Some 0) None false] 0.
Definition t0_sched : list label :=
  [LSubscribe 0; LStart 0; LEnter 0; LCommit 0; LBcast 0; LRelease 0; LLive 0; LLive 0; LLive 0].

Lemma t0_init_ok : init_ok t0_init.
Proof.
  exists 0, [], [[mkP 0 false true]], [mkO true true None (Some 0) None false], 0%nat.
  split; [reflexivity|]. split; constructor.
Qed.

Example tail_limit_zero_delivers_one :
  exists s fl, reach s /\ crun t0_init t0_sched = Some s /\ nth_error (g_fs s) 0 = Some fl /\
               o_limit (fo fl) = Some 0 /\ o_tail (fo fl) = true /\ seen fl = [mkC 0 0 false] /\
               f_l fl = LExited.
Proof.
  exists (match crun t0_init t0_sched with Some s => s | None => t0_init end).
  exists (match crun t0_init t0_sched with
          | Some s => match nth_error (g_fs s) 0 with Some fl => fl | None => init_follower (mkO true false None None None false) end
          | None => init_follower (mkO true false None None None false) end).
  split; [exists t0_init, t0_sched; split; [exact t0_init_ok|vm_compute; reflexivity]|].
  vm_compute. repeat split.
Qed.

(* last-id beyond every committed id: the history is empty, the hand-off carries no id,
   and the live task delivers a frame that is NOT after last-id *)
Definition fut_init : cstate :=
  cinit true 0 [] [[mkP 0 false true]] [mkO true false (Some 1000) None None false] 0.
Definition fut_sched : list label :=
  [LSubscribe 0; LStart 0; LHist 0; LHist 0; LEnter 0; LCommit 0; LBcast 0; LRelease 0; LLive 0; LLive 0].

Lemma fut_init_ok : init_ok fut_init.
Proof.
  exists 0, [], [[mkP 0 false true]], [mkO true false (Some 1000) None None false], 0%nat.
  split; [reflexivity|]. split; constructor.
Qed.

Example future_last_id_not_filtered_live :
  exists s fl, reach s /\ crun fut_init fut_sched = Some s /\ nth_error (g_fs s) 0 = Some fl /\
               o_tail (fo fl) = false /\ f_last fl = None /\ seen fl = [mkC 0 0 false] /\
               after_c (o_last (fo fl)) (mkC 0 0 false) = false.
Proof.
  exists (match crun fut_init fut_sched with Some s => s | None => fut_init end).
  exists (match crun fut_init fut_sched with
          | Some s => match nth_error (g_fs s) 0 with Some fl => fl | None => init_follower (mkO true false None None None false) end
          | None => init_follower (mkO true false None None None false) end).
  split; [exists fut_init, fut_sched; split; [exact fut_init_ok|vm_compute; reflexivity]|].
  vm_compute. repeat split.
Qed.

(* ------------------------------------------------------------------ *)
(* a committed frame is broadcast, or is the one frame in flight      *)
(* ------------------------------------------------------------------ *)

Definition G1 (s : cstate) : Prop :=
  forall f, In f (g_stream s) ->
            In f (g_chan s) \/ exists w wr, nth_error (g_ws s) w = Some wr /\ w_st wr = WCommitted f.

Lemma g1_all_in_chan : forall s w wr,
  Inv s -> G1 s -> g_lock s = Some w -> nth_error (g_ws s) w = Some wr ->
  (forall f, w_st wr <> WCommitted f) -> forall g, In g (g_stream s) -> In g (g_chan s).
Proof.
  intros s w wr HI HG L E N g Hg. destruct (HG g Hg) as [H|(w' & wr' & E' & S')]; [exact H|].
  exfalso. destruct (PeanoNat.Nat.eq_dec w w') as [->|D].
  - rewrite E in E'. inversion E'; subst wr'. exact (N g S').
  - pose proof (others_quiet s w w' wr' HI L D E') as Q. unfold quiet in Q. rewrite S' in Q. exact Q.
Qed.

Lemma g1_free_all_in_chan : forall s,
  Inv s -> G1 s -> g_lock s = None -> forall g, In g (g_stream s) -> In g (g_chan s).
Proof.
  intros s HI HG L g Hg. destruct (HG g Hg) as [H|(w' & wr' & E' & S')]; [exact H|].
  exfalso. pose proof (free_allquiet s HI L w' wr' E') as Q. unfold quiet in Q. rewrite S' in Q. exact Q.
Qed.

Lemma g1_same : forall s s', g_stream s' = g_stream s -> g_chan s' = g_chan s ->
  (forall g, In g (g_stream s) -> In g (g_chan s)) -> G1 s'.
Proof. intros s s' E1 E2 H f Hf. left. rewrite E2. apply H. rewrite <- E1. exact Hf. Qed.

Lemma writer_g1 : forall s l s', Inv s -> G1 s -> writer_step s l = Some s' -> G1 s'.
Proof.
  intros s l s' HI HG H.
  destruct l as [w|w|w|w|p|k|k|k|k|k|k]; cbn [writer_step] in H; try discriminate H;
    (destruct (nth_error (g_ws s) w) as [wr|] eqn:Ew; [|discriminate H]);
    pose proof (i_ws s HI w wr Ew) as Hw; unfold wok in Hw.
  - destruct (w_st wr) eqn:Est; try discriminate H.
    destruct (w_todo wr) as [|p rest] eqn:Etodo; [discriminate H|].
    destruct (lock_free s) eqn:Elf.
    + pose proof (lock_free_none s (i_locked s HI) Elf) as L.
      destruct (assign_proj _ _ _ _ H) as [E1 E2].
      exact (g1_same s s' E1 E2 (g1_free_all_in_chan s HI HG L)).
    + destruct (find_blocked (g_ws s)); [discriminate H|]. inversion H; subst s'; clear H.
      intros f Hf. unfold set_w in *. prj. cbn [g_stream] in Hf.
      destruct (HG f Hf) as [X|(w' & wr' & E' & S')]; [left; exact X|]. right.
      exists w', wr'. split; [|exact S']. rewrite nth_upd_other; [exact E'|].
      intros ->. rewrite Ew in E'. inversion E'; subst wr'. rewrite Est in S'. discriminate S'.
  - destruct (w_st wr) as [| |f ok| |] eqn:Est; try discriminate H.
    destruct Hw as (L & Hn & Hs & Hc).
    assert (A : forall g, In g (g_stream s) -> In g (g_chan s)).
    { apply (g1_all_in_chan s w wr HI HG L Ew). intros f0 X. rewrite Est in X. discriminate X. }
    destruct ok.
    + inversion H; subst s'; clear H. intros g Hg. prj. cbn [g_stream] in Hg.
      destruct (c_eph f).
      * left. apply A. exact Hg.
      * apply in_app_or in Hg. destruct Hg as [Hg|[Hg|[]]]; [left; apply A; exact Hg|].
        subst g. right. exists w, (mkW (WCommitted f) (w_todo wr)).
        split; [exact (nth_upd_same _ _ _ _ _ Ew)|reflexivity].
    + destruct (unlock_proj _ _ H) as [E1 E2]. unfold set_w in E1, E2. cbn [g_stream g_chan] in E1, E2.
      exact (g1_same s s' E1 E2 A).
  - destruct (w_st wr) as [| | | f |] eqn:Est; try discriminate H.
    destruct Hw as (L & Hn & Hc). inversion H; subst s'; clear H. intros g Hg. prj. cbn [g_stream] in Hg.
    left. apply in_or_app. destruct (HG g Hg) as [X|(w' & wr' & E' & S')]; [left; exact X|].
    destruct (PeanoNat.Nat.eq_dec w w') as [->|D].
    + rewrite Ew in E'. inversion E'; subst wr'. rewrite Est in S'. inversion S'; subst.
      right; left; reflexivity.
    + exfalso. pose proof (others_quiet s w w' wr' HI L D E') as Q. unfold quiet in Q.
      rewrite S' in Q. exact Q.
  - destruct (w_st wr) as [| | | | f] eqn:Est; try discriminate H.
    assert (A : forall g, In g (g_stream s) -> In g (g_chan s)).
    { apply (g1_all_in_chan s w wr HI HG Hw Ew). intros f0 X. rewrite Est in X. discriminate X. }
    destruct (unlock_proj _ _ H) as [E1 E2]. unfold set_w in E1, E2. cbn [g_stream g_chan] in E1, E2.
    exact (g1_same s s' E1 E2 A).
Qed.

Lemma cstep_g1 : forall s l s', Inv s -> G1 s -> cstep s l = Some s' -> G1 s'.
Proof.
  intros s l s' HI HG H. destruct l; cbn [cstep] in H;
    try exact (writer_g1 _ _ _ HI HG H);
    try (destruct (follower_set _ _ _ H) as (k' & fl' & E); subst s'; exact HG).
  unfold poll_step in H. destruct (nth_error (g_ps s) p); [|discriminate H].
  cbv zeta in H. inversion H; subst s'. exact HG.
Qed.

Theorem g1 : forall s, reach s -> G1 s.
Proof.
  intros s (s0 & sched & I0 & H).
  assert (A : forall sched s s', Inv s -> G1 s -> crun s sched = Some s' -> G1 s').
  { clear. induction sched as [|l r IH]; intros s s' HI HG H; cbn [crun] in H.
    - inversion H; subst; exact HG.
    - destruct (cstep s l) as [s1|] eqn:E; [|discriminate H].
      exact (IH s1 s' (cstep_inv s l s1 HI E) (cstep_g1 s l s1 HI HG E) H). }
  apply (A sched s0 s (init_inv s0 I0)); [|exact H].
  intros f Hf. left. rewrite (init_stream_chan s0 I0). exact Hf.
Qed.

(* a committed frame is in the channel or above everything in the channel *)
Corollary stream_in_chan_or_above : forall s f, reach s -> In f (g_stream s) ->
  In f (g_chan s) \/ below (c_id f) (g_chan s).
Proof.
  intros s f R Hf. destruct (g1 s R f Hf) as [X|(w & wr & E & S)]; [left; exact X|right].
  pose proof (i_ws s (reach_inv s R) w wr E) as Hw. unfold wok in Hw. rewrite S in Hw. tauto.
Qed.

(* ------------------------------------------------------------------ *)
(* more on strictly increasing lists                                  *)
(* ------------------------------------------------------------------ *)

Lemma inc_cons_inv : forall a l, inc (a :: l) -> inc l /\ Forall (fun x => c_id a < c_id x) l.
Proof. intros a l H. apply StronglySorted_inv in H. exact H. Qed.

Lemma inc_id_inj : forall l x y, inc l -> In x l -> In y l -> c_id x = c_id y -> x = y.
Proof.
  induction l as [|a l IH]; intros x y Hl Hx Hy E; [destruct Hx|].
  apply inc_cons_inv in Hl. destruct Hl as [Hl Ha]. rewrite Forall_forall in Ha.
  destruct Hx as [Hx|Hx]; destruct Hy as [Hy|Hy].
  - congruence.
  - subst a. specialize (Ha y Hy). lia.
  - subst a. specialize (Ha x Hx). lia.
  - exact (IH x y Hl Hx Hy E).
Qed.

Lemma inc_filter : forall (p : cfr -> bool) l, inc l -> inc (filter p l).
Proof.
  intros p l. induction l as [|a l IH]; intros H; [constructor|].
  apply inc_cons_inv in H. destruct H as [Hl Ha]. cbn [filter]. destruct (p a).
  - constructor; [exact (IH Hl)|]. apply Forall_filter. exact Ha.
  - exact (IH Hl).
Qed.

Lemma inc_ext : forall l1 l2, inc l1 -> inc l2 -> (forall x, In x l1 <-> In x l2) -> l1 = l2.
Proof.
  induction l1 as [|a l1 IH]; intros l2 H1 H2 E.
  - destruct l2 as [|b l2]; [reflexivity|]. exfalso. apply (proj2 (E b)). left; reflexivity.
  - destruct l2 as [|b l2]; [exfalso; apply (proj1 (E a)); left; reflexivity|].
    apply inc_cons_inv in H1. destruct H1 as [H1 Ha]. apply inc_cons_inv in H2. destruct H2 as [H2 Hb].
    rewrite Forall_forall in Ha, Hb.
    assert (a = b).
    { destruct (proj1 (E a) (or_introl eq_refl)) as [X|X]; [symmetry; exact X|].
      destruct (proj2 (E b) (or_introl eq_refl)) as [Y|Y]; [exact Y|].
      specialize (Ha b Y). specialize (Hb a X). unfold cid_lt in *. lia. }
    subst b. f_equal. apply (IH l2 H1 H2). intros x. split; intros Hx.
    + destruct (proj1 (E x) (or_intror Hx)) as [X|X]; [|exact X].
      subst x. specialize (Ha a Hx). unfold cid_lt in Ha. lia.
    + destruct (proj2 (E x) (or_intror Hx)) as [X|X]; [|exact X].
      subst x. specialize (Hb a Hx). unfold cid_lt in Hb. lia.
Qed.

Lemma inc_snoc_lt : forall l x, inc l -> (forall y, In y l -> c_id y < c_id x) -> inc (l ++ [x]).
Proof.
  intros l x Hl H. apply inc_snoc; [exact Hl|]. unfold below. apply Forall_forall. exact H.
Qed.

Lemma filter_nil : forall (p : cfr -> bool) l, (forall x, In x l -> p x = false) -> filter p l = [].
Proof. intros p l H. apply filter_none. apply Forall_forall. exact H. Qed.

Lemma filter_ext_in : forall (p q : cfr -> bool) l,
  (forall x, In x l -> p x = q x) -> filter p l = filter q l.
Proof.
  intros p q l. induction l as [|a l IH]; intros H; [reflexivity|]. cbn [filter].
  rewrite (H a (or_introl eq_refl)), IH; [reflexivity|]. intros x Hx. apply H. right; exact Hx.
Qed.

Lemma below_In : forall n l x, below n l -> In x l -> c_id x < n.
Proof. intros n l x H Hx. unfold below in H. rewrite Forall_forall in H. exact (H x Hx). Qed.

Lemma below_not_In : forall l x, below (c_id x) l -> ~ In x l.
Proof. intros l x H Hx. pose proof (below_In _ _ _ H Hx). lia. Qed.

Lemma inc_nth_inj : forall l i j x, inc l -> nth_error l i = Some x -> nth_error l j = Some x -> i = j.
Proof.
  intros l i j x Hl Hi Hj. destruct (PeanoNat.Nat.lt_trichotomy i j) as [L|[L|L]]; [|exact L|].
  - pose proof (inc_nth_lt l i j x x Hl Hi Hj L). lia.
  - pose proof (inc_nth_lt l j i x x Hl Hj Hi L). lia.
Qed.

Lemma inc_nth_le : forall l i j x y, inc l -> nth_error l i = Some x -> nth_error l j = Some y ->
  c_id x <= c_id y -> (i <= j)%nat.
Proof.
  intros l i j x y Hl Hi Hj Hle. destruct (PeanoNat.Nat.le_gt_cases i j) as [L|L]; [exact L|].
  pose proof (inc_nth_lt l j i y x Hl Hj Hi L). lia.
Qed.

(* ------------------------------------------------------------------ *)
(* the main invariant: what has been delivered, phase by phase        *)
(* ------------------------------------------------------------------ *)

Section MainDef.
Variables (st ch : list cfr) (o : fopts).

Definition ctxo (f : cfr) : bool := in_scope_c (o_ctx o) f.

(* channel elements below this index have been fully processed by the live task *)
Definition qp (l : lst) (pos : nat) : nat := match l with LAtRecv _ => pred pos | _ => pos end.

Definition inhand (l : lst) (pos : nat) : Prop :=
  forall x, l = LAtRecv x -> (0 < pos)%nat /\ nth_error ch (pred pos) = Some x.

Definition peek_ok (pos : nat) (peek : option cfr) (g : cfr) : Prop :=
  match peek with
  | Some p => In p st /\ ctxo p = true /\ c_id g < c_id p /\
              (forall x, In x st -> ctxo x = true -> c_id g < c_id x -> c_id p <= c_id x)
  | None => forall i x, (i < pos)%nat -> nth_error ch i = Some x -> In x st -> ctxo x = true ->
                        c_id g < c_id x -> False
  end.

(* ls = the frames delivered by the live task *)
Definition LP (q : nat) (last : option N) (ls : list cfr) (complete : Prop) : Prop :=
  inc ls /\
  (forall x, In x ls -> exists i, (i < q)%nat /\ nth_error ch i = Some x /\ ctxo x = true /\
                                  leL last x = false) /\
  (complete -> forall i x, (i < q)%nat -> nth_error ch i = Some x -> In x st ->
                           scope_ok o x = true -> leL last x = false -> In x ls).

Definition last_ok (last : option N) : Prop :=
  match last with
  | Some l => exists g, In g st /\ c_id g = l /\ scope_ok o g = true
  | None => True
  end.

Definition MainV (h : hst) (l : lst) (pos : nat) (peek : option cfr) (last : option N)
           (sn : list cfr) : Prop :=
  match h with
  | HNotStarted => True
  | HNone => LP (qp l pos) last sn False /\ inhand l pos
  | HAtSend g =>
      In g st /\ scope_ok o g = true /\ last = Some (c_id g) /\
      sn = filter (fun f => scope_ok o f && (c_id f <? c_id g)) st /\ peek_ok pos peek g
  | HFinished false =>
      exists g, In g st /\ scope_ok o g = true /\ last = Some (c_id g) /\
                sn = filter (fun f => scope_ok o f && (c_id f <? c_id g)) st
  | HAtThreshold | HAtDone | HFinished true =>
      last_ok last /\
      exists ls, sn = filter (fun f => scope_ok o f && leL last f) st ++ ls /\
                 LP (qp l pos) last ls True /\ inhand l pos
  end.
End MainDef.

Definition Main (st ch : list cfr) (fl : follower) : Prop :=
  MainV st ch (fo fl) (f_h fl) (f_l fl) (f_pos fl) (f_peek fl) (f_last fl) (seen fl).

Lemma scope_ok_ctx : forall o f, scope_ok o f = true -> ctxo o f = true.
Proof. intros o f H. unfold scope_ok in H. apply andb_true_iff in H. exact (proj1 H). Qed.

Lemma qp_le : forall l pos, (qp l pos <= pos)%nat.
Proof. intros l pos. unfold qp. destruct l; lia. Qed.

(* the environment commits a frame *)
Lemma main_commit : forall st ch fl f,
  inc (st ++ [f]) -> below (c_id f) ch -> Main st ch fl -> Main (st ++ [f]) ch fl.
Proof.
  intros st ch fl f Hinc Hb H. unfold Main in *.
  assert (Hab : forall g, In g st -> c_id g < c_id f).
  { intros g Hg. apply inc_app_above in Hinc. inversion Hinc as [|a l Ha _]; subst.
    rewrite Forall_forall in Ha. exact (Ha g Hg). }
  assert (Hnc : forall i, nth_error ch i = Some f -> False).
  { intros i Hi. apply nth_error_In in Hi. exact (below_not_In ch f Hb Hi). }
  destruct (f_h fl) as [|g| | |[|]|]; cbn [MainV] in *.
  - exact I.
  - destruct H as (Hg & Hs & Hl & Hsn & Hp). split; [apply in_or_app; left; exact Hg|].
    split; [exact Hs|]. split; [exact Hl|]. split.
    + rewrite filter_app, Hsn. cbn [filter].
      assert (X : (c_id f <? c_id g) = false) by (apply N.ltb_ge; specialize (Hab g Hg); lia).
      rewrite X, andb_false_r, app_nil_r. reflexivity.
    + unfold peek_ok in *. destruct (f_peek fl) as [p|].
      * destruct Hp as (P1 & P2 & P3 & P4). split; [apply in_or_app; left; exact P1|].
        split; [exact P2|]. split; [exact P3|]. intros x Hx Cx Lx.
        apply in_app_or in Hx. destruct Hx as [Hx|[Hx|[]]]; [exact (P4 x Hx Cx Lx)|].
        subst x. specialize (Hab p P1). lia.
      * intros i x Hi Hn Hx Cx Lx. apply in_app_or in Hx. destruct Hx as [Hx|[Hx|[]]].
        -- exact (Hp i x Hi Hn Hx Cx Lx).
        -- subst x. exact (Hnc i Hn).
  - destruct H as (Hlast & ls & Hsn & (L1 & L2 & L3) & Hih).
    assert (X : leL (f_last fl) f = false).
    { unfold last_ok in Hlast. destruct (f_last fl) as [l|]; [|reflexivity].
      destruct Hlast as (g & Hg & El & _). cbn [leL]. apply N.leb_gt. specialize (Hab g Hg). lia. }
    split.
    { unfold last_ok in *. destruct (f_last fl) as [l|]; [|exact I].
      destruct Hlast as (g & Hg & El & Sg). exists g. split; [apply in_or_app; left; exact Hg|]. tauto. }
    exists ls. split; [|split; [split; [exact L1|split; [exact L2|]]|exact Hih]].
    + rewrite filter_app, Hsn. cbn [filter]. rewrite X, andb_false_r, app_nil_r. reflexivity.
    + intros _ i x Hi Hn Hx Sx Lx. apply in_app_or in Hx. destruct Hx as [Hx|[Hx|[]]].
      * exact (L3 I i x Hi Hn Hx Sx Lx).
      * subst x. exfalso. exact (Hnc i Hn).
  - destruct H as (Hlast & ls & Hsn & (L1 & L2 & L3) & Hih).
    assert (X : leL (f_last fl) f = false).
    { unfold last_ok in Hlast. destruct (f_last fl) as [l|]; [|reflexivity].
      destruct Hlast as (g & Hg & El & _). cbn [leL]. apply N.leb_gt. specialize (Hab g Hg). lia. }
    split.
    { unfold last_ok in *. destruct (f_last fl) as [l|]; [|exact I].
      destruct Hlast as (g & Hg & El & Sg). exists g. split; [apply in_or_app; left; exact Hg|]. tauto. }
    exists ls. split; [|split; [split; [exact L1|split; [exact L2|]]|exact Hih]].
    + rewrite filter_app, Hsn. cbn [filter]. rewrite X, andb_false_r, app_nil_r. reflexivity.
    + intros _ i x Hi Hn Hx Sx Lx. apply in_app_or in Hx. destruct Hx as [Hx|[Hx|[]]].
      * exact (L3 I i x Hi Hn Hx Sx Lx).
      * subst x. exfalso. exact (Hnc i Hn).
  - destruct H as (Hlast & ls & Hsn & (L1 & L2 & L3) & Hih).
    assert (X : leL (f_last fl) f = false).
    { unfold last_ok in Hlast. destruct (f_last fl) as [l|]; [|reflexivity].
      destruct Hlast as (g & Hg & El & _). cbn [leL]. apply N.leb_gt. specialize (Hab g Hg). lia. }
    split.
    { unfold last_ok in *. destruct (f_last fl) as [l|]; [|exact I].
      destruct Hlast as (g & Hg & El & Sg). exists g. split; [apply in_or_app; left; exact Hg|]. tauto. }
    exists ls. split; [|split; [split; [exact L1|split; [exact L2|]]|exact Hih]].
    + rewrite filter_app, Hsn. cbn [filter]. rewrite X, andb_false_r, app_nil_r. reflexivity.
    + intros _ i x Hi Hn Hx Sx Lx. apply in_app_or in Hx. destruct Hx as [Hx|[Hx|[]]].
      * exact (L3 I i x Hi Hn Hx Sx Lx).
      * subst x. exfalso. exact (Hnc i Hn).
  - destruct H as (g & Hg & Hs & Hl & Hsn). exists g. split; [apply in_or_app; left; exact Hg|].
    split; [exact Hs|]. split; [exact Hl|].
    rewrite filter_app, Hsn. cbn [filter].
    assert (X : (c_id f <? c_id g) = false) by (apply N.ltb_ge; specialize (Hab g Hg); lia).
    rewrite X, andb_false_r, app_nil_r. reflexivity.
  - destruct H as [(L1 & L2 & L3) Hih]. split; [|exact Hih]. split; [exact L1|]. split; [exact L2|].
    intros [].
Qed.

Lemma nth_app_lt : forall (ch : list cfr) f i, (i < length ch)%nat ->
  nth_error (ch ++ [f]) i = nth_error ch i.
Proof. intros ch f i H. apply nth_error_app1. exact H. Qed.

Lemma LP_bcast : forall st ch o q last ls C f, (q <= length ch)%nat ->
  LP st ch o q last ls C -> LP st (ch ++ [f]) o q last ls C.
Proof.
  intros st ch o q last ls C f Hq (L1 & L2 & L3). split; [exact L1|]. split.
  - intros x Hx. destruct (L2 x Hx) as (i & Hi & Hn & R). exists i. split; [exact Hi|].
    split; [|exact R]. apply nth_error_app_some. exact Hn.
  - intros c i x Hi Hn. rewrite nth_app_lt in Hn by lia. exact (L3 c i x Hi Hn).
Qed.

Lemma inhand_bcast : forall ch l pos f, (pos <= length ch)%nat ->
  inhand ch l pos -> inhand (ch ++ [f]) l pos.
Proof.
  intros ch l pos f Hp H x E. destruct (H x E) as [A B]. split; [exact A|].
  apply nth_error_app_some. exact B.
Qed.

(* the environment broadcasts a frame *)
Lemma main_bcast : forall st ch fl f,
  (f_pos fl <= length ch)%nat -> Main st ch fl -> Main st (ch ++ [f]) fl.
Proof.
  intros st ch fl f Hp H. unfold Main in *.
  pose proof (qp_le (f_l fl) (f_pos fl)) as Hq.
  destruct (f_h fl) as [|g| | |[|]|]; cbn [MainV] in *.
  - exact I.
  - destruct H as (Hg & Hs & Hl & Hsn & Hpk). repeat (split; [assumption|]).
    unfold peek_ok in *. destruct (f_peek fl) as [p|]; [exact Hpk|].
    intros i x Hi Hn. rewrite nth_app_lt in Hn by lia. exact (Hpk i x Hi Hn).
  - destruct H as (Hlast & ls & Hsn & HL & Hih). split; [exact Hlast|]. exists ls.
    split; [exact Hsn|]. split; [apply LP_bcast; [lia|exact HL]|apply inhand_bcast; assumption].
  - destruct H as (Hlast & ls & Hsn & HL & Hih). split; [exact Hlast|]. exists ls.
    split; [exact Hsn|]. split; [apply LP_bcast; [lia|exact HL]|apply inhand_bcast; assumption].
  - destruct H as (Hlast & ls & Hsn & HL & Hih). split; [exact Hlast|]. exists ls.
    split; [exact Hsn|]. split; [apply LP_bcast; [lia|exact HL]|apply inhand_bcast; assumption].
  - exact H.
  - destruct H as [HL Hih]. split; [apply LP_bcast; [lia|exact HL]|apply inhand_bcast; assumption].
Qed.

Lemma main_grow : forall s s' k fl, reach s -> reach s' -> grow s s' ->
  nth_error (g_fs s) k = Some fl -> Main (g_stream s) (g_chan s) fl -> Main (g_stream s') (g_chan s') fl.
Proof.
  intros s s' k fl R R' G E H. destruct G as [E1 E2|f E1 E2 B1 B2|f E1 E2 B].
  - rewrite E1, E2. exact H.
  - rewrite E2. pose proof (i_sinc s' (reach_inv s' R')) as Hi. rewrite E1 in *.
    apply main_commit; assumption.
  - rewrite E1, E2. apply main_bcast; [|exact H]. exact (i_fs s (reach_inv s R) k fl E).
Qed.

(* ---- helper lemmas for the follower's own steps ---- *)

Lemma scope_ok_above : forall o f p, scope_ok o f = true -> ctxo o p = true -> c_id f < c_id p ->
  scope_ok o p = true.
Proof.
  intros o f p Hf Hp Hlt. unfold scope_ok, ctxo in *. apply andb_true_iff in Hf. destruct Hf as [_ Ha].
  rewrite Hp. cbn [andb]. unfold after_c in *. destruct (o_last o) as [l|]; [|reflexivity].
  apply N.ltb_lt. apply N.ltb_lt in Ha. lia.
Qed.

Lemma peek_ok_scan : forall st ch o pos g,
  peek_ok st ch o pos (scan_next st (o_ctx o) (Some (c_id g))) g.
Proof.
  intros st ch o pos g. unfold peek_ok.
  destruct (scan_next st (o_ctx o) (Some (c_id g))) as [p|] eqn:E.
  - destruct (scan_next_some _ _ _ _ E) as (A & B & C). unfold sok in B.
    apply andb_true_iff in B. destruct B as [B1 B2]. cbn [after_c] in B2. apply N.ltb_lt in B2.
    split; [exact A|]. split; [exact B1|]. split; [exact B2|].
    intros x Hx Cx Lx. apply (C x Hx). unfold sok. unfold ctxo in Cx. rewrite Cx. cbn [andb after_c].
    apply N.ltb_lt. exact Lx.
  - intros i x _ _ Hx Cx Lx. pose proof (scan_next_none _ _ _ E x Hx) as F. unfold sok in F.
    unfold ctxo in Cx. rewrite Cx in F. cbn [andb after_c] in F. apply N.ltb_ge in F. lia.
Qed.

Lemma hist_first_filter : forall st o g,
  (forall x, In x st -> scope_ok o x = true -> c_id g <= c_id x) ->
  [] = filter (fun f => scope_ok o f && (c_id f <? c_id g)) st.
Proof.
  intros st o g H. symmetry. apply filter_nil. intros x Hx.
  destruct (scope_ok o x) eqn:Sx; [|reflexivity]. cbn [andb]. apply N.ltb_ge. exact (H x Hx Sx).
Qed.

Lemma hist_next_filter : forall st o f p, inc st -> In f st -> scope_ok o f = true ->
  In p st -> ctxo o p = true -> c_id f < c_id p ->
  (forall x, In x st -> ctxo o x = true -> c_id f < c_id x -> c_id p <= c_id x) ->
  filter (fun x => scope_ok o x && (c_id x <? c_id f)) st ++ [f] =
  filter (fun x => scope_ok o x && (c_id x <? c_id p)) st.
Proof.
  intros st o f p Hi Hf Sf Hp Cp Lfp Hmin. apply inc_ext.
  - apply inc_snoc_lt; [apply inc_filter; exact Hi|]. intros y Hy. apply filter_In in Hy.
    destruct Hy as [_ Hy]. apply andb_true_iff in Hy. destruct Hy as [_ Hy]. apply N.ltb_lt in Hy. exact Hy.
  - apply inc_filter. exact Hi.
  - intros x. split; intros Hx.
    + apply filter_In. apply in_app_or in Hx. destruct Hx as [Hx|[Hx|[]]].
      * apply filter_In in Hx. destruct Hx as [Hx Hy]. split; [exact Hx|].
        apply andb_true_iff in Hy. destruct Hy as [Hy1 Hy2]. rewrite Hy1. cbn [andb].
        apply N.ltb_lt. apply N.ltb_lt in Hy2. lia.
      * subst x. split; [exact Hf|]. rewrite Sf. cbn [andb]. apply N.ltb_lt. exact Lfp.
    + apply filter_In in Hx. destruct Hx as [Hx Hy]. apply andb_true_iff in Hy. destruct Hy as [Hy1 Hy2].
      apply N.ltb_lt in Hy2. apply in_or_app.
      destruct (N.lt_trichotomy (c_id x) (c_id f)) as [L|[L|L]].
      * left. apply filter_In. split; [exact Hx|]. rewrite Hy1. cbn [andb]. apply N.ltb_lt. exact L.
      * right. left. symmetry. exact (inc_id_inj st x f Hi Hx Hf L).
      * exfalso. pose proof (Hmin x Hx (scope_ok_ctx o x Hy1) L). lia.
Qed.

Lemma hist_last_filter : forall st o f, inc st -> In f st -> scope_ok o f = true ->
  filter (fun x => scope_ok o x && (c_id x <? c_id f)) st ++ [f] =
  filter (fun x => scope_ok o x && leL (Some (c_id f)) x) st.
Proof.
  intros st o f Hi Hf Sf. apply inc_ext.
  - apply inc_snoc_lt; [apply inc_filter; exact Hi|]. intros y Hy. apply filter_In in Hy.
    destruct Hy as [_ Hy]. apply andb_true_iff in Hy. destruct Hy as [_ Hy]. apply N.ltb_lt in Hy. exact Hy.
  - apply inc_filter. exact Hi.
  - intros x. cbn [leL]. split; intros Hx.
    + apply filter_In. apply in_app_or in Hx. destruct Hx as [Hx|[Hx|[]]].
      * apply filter_In in Hx. destruct Hx as [Hx Hy]. split; [exact Hx|].
        apply andb_true_iff in Hy. destruct Hy as [Hy1 Hy2]. rewrite Hy1. cbn [andb].
        apply N.leb_le. apply N.ltb_lt in Hy2. lia.
      * subst x. split; [exact Hf|]. rewrite Sf. cbn [andb]. apply N.leb_le. lia.
    + apply filter_In in Hx. destruct Hx as [Hx Hy]. apply andb_true_iff in Hy. destruct Hy as [Hy1 Hy2].
      apply N.leb_le in Hy2. apply in_or_app.
      destruct (N.lt_trichotomy (c_id x) (c_id f)) as [L|[L|L]].
      * left. apply filter_In. split; [exact Hx|]. rewrite Hy1. cbn [andb]. apply N.ltb_lt. exact L.
      * right. left. symmetry. exact (inc_id_inj st x f Hi Hx Hf L).
      * exfalso. lia.
Qed.

Lemma LP_nil : forall st ch o q last (C : Prop),
  (C -> forall i x, (i < q)%nat -> nth_error ch i = Some x -> In x st -> scope_ok o x = true ->
        leL last x = false -> False) ->
  LP st ch o q last [] C.
Proof.
  intros st ch o q last C H. split; [constructor|]. split; [intros x []|].
  intros c i x Hi Hn Hx Sx Lx. exfalso. exact (H c i x Hi Hn Hx Sx Lx).
Qed.

Lemma LP_skip : forall st ch o pos last ls C f, (0 < pos)%nat ->
  nth_error ch (pred pos) = Some f ->
  negb (ctxo o f) || leL last f = true ->
  LP st ch o (pred pos) last ls C -> LP st ch o pos last ls C.
Proof.
  intros st ch o pos last ls C f Hpos Hf Hc (L1 & L2 & L3). split; [exact L1|]. split.
  - intros x Hx. destruct (L2 x Hx) as (i & Hi & R). exists i. split; [lia|exact R].
  - intros c i x Hi Hn Hx Sx Lx.
    destruct (PeanoNat.Nat.eq_dec i (pred pos)) as [->|D].
    + rewrite Hf in Hn. inversion Hn; subst x. rewrite (scope_ok_ctx o f Sx), Lx in Hc. discriminate Hc.
    + apply (L3 c i x); try assumption. lia.
Qed.

Lemma LP_deliver : forall st ch o pos last ls C f, inc ch -> (0 < pos)%nat ->
  nth_error ch (pred pos) = Some f -> ctxo o f = true -> leL last f = false ->
  LP st ch o (pred pos) last ls C -> LP st ch o pos last (ls ++ [f]) C.
Proof.
  intros st ch o pos last ls C f Hch Hpos Hf Cf Lf (L1 & L2 & L3). split; [|split].
  - apply inc_snoc_lt; [exact L1|]. intros y Hy. destruct (L2 y Hy) as (i & Hi & Hn & _).
    apply (inc_nth_lt ch i (pred pos) y f Hch Hn Hf). exact Hi.
  - intros x Hx. apply in_app_or in Hx. destruct Hx as [Hx|[Hx|[]]].
    + destruct (L2 x Hx) as (i & Hi & R). exists i. split; [lia|exact R].
    + subst x. exists (pred pos). split; [lia|]. split; [exact Hf|]. split; assumption.
  - intros c i x Hi Hn Hx Sx Lx. apply in_or_app.
    destruct (PeanoNat.Nat.eq_dec i (pred pos)) as [->|D].
    + rewrite Hf in Hn. inversion Hn; subst x. right; left; reflexivity.
    + left. apply (L3 c i x); try assumption. lia.
Qed.

Lemma mainv_set_l : forall st ch o h l l' pos peek last sn,
  qp l pos = qp l' pos -> (forall x, l' <> LAtRecv x) ->
  MainV st ch o h l pos peek last sn -> MainV st ch o h l' pos peek last sn.
Proof.
  intros st ch o h l l' pos peek last sn Hq Hl H.
  assert (Hih : inhand ch l' pos) by (intros x E; exfalso; exact (Hl x E)).
  destruct h as [|g| | |[|]|]; cbn [MainV] in *; try exact H.
  - destruct H as (A & ls & B & C & _). split; [exact A|]. exists ls. rewrite <- Hq. tauto.
  - destruct H as (A & ls & B & C & _). split; [exact A|]. exists ls. rewrite <- Hq. tauto.
  - destruct H as (A & ls & B & C & _). split; [exact A|]. exists ls. rewrite <- Hq. tauto.
  - destruct H as (A & _). rewrite <- Hq. tauto.
Qed.

Lemma sok_scope : forall o f, sok (o_ctx o) (o_last o) f = scope_ok o f.
Proof. reflexivity. Qed.

Lemma main_step : forall s k fl fl', reach s -> nth_error (g_fs s) k = Some fl ->
  fstep s fl fl' -> Main (g_stream s) (g_chan s) fl -> Main (g_stream s) (g_chan s) fl'.
Proof.
  intros s k fl fl' R E St H.
  pose proof (shape s k fl R E) as (Sex & Shb & Sln & Hh).
  pose proof (i_sinc s (reach_inv s R)) as Hst. pose proof (i_cinc s (reach_inv s R)) as Hch.
  set (st := g_stream s) in *. set (ch := g_chan s) in *.
  inversion St; subst fl'; clear St; unfold Main in *.
  - (* subscribe *)
    fprj. destruct (f_h fl) as [| | | |[|]|]; cbn [MainV]; try exact I; split_all; congruence.
  - (* start, tail *)
    fprj. rewrite seen_start_tail. cbn [MainV]. split.
    + apply LP_nil. intros [].
    + intros x Ex. destruct (o_follow (fo fl)); discriminate Ex.
  - (* start *)
    rewrite H1 in Hh. cbv beta iota in Hh. destruct Hh as (_ & _ & _ & _ & _ & Hcur).
    specialize (Hcur H0).
    destruct (hadv_cases s (start_fl s fl)) as [(g & Ep & _ & ->)|[(g & Ep & _ & ->)|(Ep & ->)]];
      fprj; fprj_in Ep; rewrite Hcur in Ep; fold st in Ep;
      (change (seen _) with (@nil cfr)); cbn [MainV].
    + destruct (scan_next_some _ _ _ _ Ep) as (A & B & C). rewrite sok_scope in B.
      exists g. split; [exact A|]. split; [exact B|]. split; [reflexivity|].
      apply hist_first_filter. intros x Hx Sx. apply (C x Hx). exact Sx.
    + destruct (scan_next_some _ _ _ _ Ep) as (A & B & C). rewrite sok_scope in B.
      split; [exact A|]. split; [exact B|]. split; [reflexivity|]. split.
      * apply hist_first_filter. intros x Hx Sx. apply (C x Hx). exact Sx.
      * apply peek_ok_scan.
    + split; [exact I|]. exists []. split; [|split].
      * rewrite app_nil_r. symmetry. apply filter_nil. intros x _. cbn [leL]. apply andb_false_r.
      * apply LP_nil. intros _ i x _ _ Hx Sx _.
        pose proof (scan_next_none _ _ _ Ep x Hx) as F. rewrite sok_scope in F. congruence.
      * intros x Ex. destruct (o_follow (fo fl)); discriminate Ex.
  - (* history send *)
    rewrite H0 in H, Hh. cbn [MainV] in H. cbv beta iota in Hh.
    destruct H as (Hg & Hs & Hl & Hsn & Hpk). destruct Hh as (Hfl & _ & _).
    destruct (hadv_cases s (bump (push fl (IReal f)))) as [(g & Ep & _ & ->)|[(g & Ep & _ & ->)|(Ep & ->)]];
      fprj; fprj_in Ep; rewrite Ep in Hpk; unfold peek_ok in Hpk;
      match goal with |- context [seen ?x] => change (seen x) with (seen (push fl (IReal f))) end;
      rewrite seen_push_real, Hsn; cbn [MainV].
    + destruct Hpk as (P1 & P2 & P3 & P4). exists g. split; [exact P1|].
      split; [exact (scope_ok_above _ _ _ Hs P2 P3)|]. split; [reflexivity|].
      apply hist_next_filter; assumption.
    + destruct Hpk as (P1 & P2 & P3 & P4). split; [exact P1|].
      split; [exact (scope_ok_above _ _ _ Hs P2 P3)|]. split; [reflexivity|]. split.
      * apply hist_next_filter; assumption.
      * apply peek_ok_scan.
    + rewrite Hl. split; [exists f; tauto|]. exists []. split; [|split].
      * rewrite app_nil_r. apply hist_last_filter; assumption.
      * apply LP_nil. intros _ i x Hi Hn' Hx Sx Lx. cbn [leL] in Lx. apply N.leb_gt in Lx.
        apply (Hpk i x); try assumption.
        -- pose proof (qp_le (f_l fl) (f_pos fl)). lia.
        -- exact (scope_ok_ctx _ _ Sx).
      * intros x Ex. destruct Hfl as [X|X]; rewrite X in Ex; discriminate Ex.
  - (* threshold, pushed *)
    fprj. rewrite seen_set_h, seen_push_thr. rewrite H0 in H. exact H.
  - (* threshold, not pushed *)
    fprj. rewrite seen_set_h. rewrite H0 in H. exact H.
  - (* hand-off, live task exits *)
    fprj. rewrite seen_exit, seen_handoff. rewrite H0, H1 in H.
    apply (mainv_set_l st ch (fo fl) (HFinished true) LWaiting LExited); [reflexivity|discriminate|exact H].
  - (* hand-off *)
    fprj. rewrite seen_handoff. rewrite H0 in H. exact H.
  - (* lagged *)
    fprj. rewrite seen_exit.
    apply (mainv_set_l st ch (fo fl) (f_h fl) (f_l fl) LExited); [|discriminate|exact H].
    destruct H0 as [[El _]|El]; rewrite El; reflexivity.
  - (* receive *)
    fprj. rewrite seen_recv.
    assert (Q : qp (f_l fl) (f_pos fl) = f_pos fl) by (destruct H0 as [[El _]|El]; rewrite El; reflexivity).
    assert (Hih : inhand ch (LAtRecv f) (S (f_pos fl))).
    { intros x Ex. inversion Ex; subst x. split; [lia|exact H2]. }
    destruct (f_h fl) as [|g| | |[|]|] eqn:Eh; cbn [MainV] in *; cbn [qp pred]; try exact I; try exact H.
    + exfalso. destruct H0 as [[El X]|El]; [congruence|]. destruct Hh as ([X|X] & _); congruence.
    + destruct H as (A & ls & B & C & _). split; [exact A|]. exists ls. rewrite Q in C. tauto.
    + destruct H as (A & ls & B & C & _). split; [exact A|]. exists ls. rewrite Q in C. tauto.
    + destruct H as (A & ls & B & C & _). split; [exact A|]. exists ls. rewrite Q in C. tauto.
    + destruct H as (A & _). rewrite Q in A. tauto.
  - (* skip *)
    fprj. rewrite seen_set_l. rewrite H0 in H.
    assert (Hih : inhand ch LRecvWait (f_pos fl)) by (intros x Ex; discriminate Ex).
    destruct (f_h fl) as [|g| | |[|]|] eqn:Eh; cbn [MainV qp] in *; try exact I; try exact H.
    + destruct H as (A & ls & B & C & D). destruct (D f eq_refl) as [D1 D2].
      split; [exact A|]. exists ls. split; [exact B|]. split; [|exact Hih].
      exact (LP_skip _ _ _ _ _ _ _ f D1 D2 H1 C).
    + destruct H as (A & ls & B & C & D). destruct (D f eq_refl) as [D1 D2].
      split; [exact A|]. exists ls. split; [exact B|]. split; [|exact Hih].
      exact (LP_skip _ _ _ _ _ _ _ f D1 D2 H1 C).
    + destruct H as (A & ls & B & C & D). destruct (D f eq_refl) as [D1 D2].
      split; [exact A|]. exists ls. split; [exact B|]. split; [|exact Hih].
      exact (LP_skip _ _ _ _ _ _ _ f D1 D2 H1 C).
    + destruct H as (C & D). destruct (D f eq_refl) as [D1 D2]. split; [|exact Hih].
      exact (LP_skip _ _ _ _ _ _ _ f D1 D2 H1 C).
  - (* deliver *)
    fprj. rewrite seen_set_l, seen_push_real. rewrite H0 in H, Hh.
    assert (Hih : inhand ch LAtSent (f_pos fl)) by (intros x Ex; discriminate Ex).
    destruct (f_h fl) as [|g| | |[|]|] eqn:Eh; cbn [MainV qp] in *; try exact I.
    + exfalso. destruct Hh as ([X|X] & _); discriminate X.
    + exfalso. destruct Hh as ([X|X] & _); discriminate X.
    + exfalso. destruct Hh as ([X|X] & _); discriminate X.
    + destruct H as (A & ls & B & C & D). destruct (D f eq_refl) as [D1 D2].
      split; [exact A|]. exists (ls ++ [f]). split; [rewrite B; apply app_assoc_reverse|]. split; [|exact Hih].
      exact (LP_deliver _ _ _ _ _ _ _ f Hch D1 D2 H1 H2 C).
    + exfalso. destruct Hh as ([X|X] & _); discriminate X.
    + destruct H as (C & D). destruct (D f eq_refl) as [D1 D2]. split; [|exact Hih].
      exact (LP_deliver _ _ _ _ _ _ _ f Hch D1 D2 H1 H2 C).
  - (* sent, limited *)
    fprj. rewrite seen_sent.
    apply (mainv_set_l st ch (fo fl) (f_h fl) (f_l fl)); [| |exact H].
    + rewrite H0. destruct (n <=? f_lcount fl + 1); reflexivity.
    + intros x. destruct (n <=? f_lcount fl + 1); discriminate.
  - (* sent *)
    fprj. rewrite seen_set_l.
    apply (mainv_set_l st ch (fo fl) (f_h fl) (f_l fl)); [|discriminate|exact H].
    rewrite H0. reflexivity.
  - (* pulse *)
    fprj. rewrite seen_push_pulse. exact H.
  - (* consume *)
    fprj. rewrite (seen_consume fl i r H0). exact H.
Qed.

Theorem main_inv : forall s k fl, reach s -> nth_error (g_fs s) k = Some fl ->
  Main (g_stream s) (g_chan s) fl.
Proof.
  apply (follower_ind (fun s fl => Main (g_stream s) (g_chan s) fl)).
  - intros s o _. exact I.
  - exact main_grow.
  - intros s s' k fl fl' R R' E1 E2 E St H. rewrite E1, E2. exact (main_step s k fl fl' R E St H).
Qed.

(* ------------------------------------------------------------------ *)
(* F1: delivered frames are strictly increasing                       *)
(* ------------------------------------------------------------------ *)

Lemma hs_ls_inc : forall st o last ls,
  inc st -> inc ls -> (forall x, In x ls -> leL last x = false) ->
  inc (filter (fun f => scope_ok o f && leL last f) st ++ ls).
Proof.
  intros st o last ls Hst Hls Hle. apply inc_app. split; [apply inc_filter; exact Hst|].
  split; [exact Hls|]. apply Forall_forall. intros a Ha. apply Forall_forall. intros b Hb.
  apply filter_In in Ha. destruct Ha as [_ Ha]. apply andb_true_iff in Ha. destruct Ha as [_ Ha].
  specialize (Hle b Hb). unfold leL in *. destruct last as [l|]; [|discriminate Ha].
  apply N.leb_le in Ha. apply N.leb_gt in Hle. unfold cid_lt. lia.
Qed.

Theorem seen_increasing : forall s k fl, reach s -> nth_error (g_fs s) k = Some fl -> inc (seen fl).
Proof.
  intros s k fl R E. pose proof (main_inv s k fl R E) as H.
  pose proof (shape s k fl R E) as (_ & _ & _ & Hh).
  pose proof (i_sinc s (reach_inv s R)) as Hst. unfold Main in H.
  destruct (f_h fl) as [|g| | |[|]|]; cbn [MainV] in H.
  - destruct Hh as (_ & _ & Hi & _). rewrite seen_items, Hi. constructor.
  - destruct H as (_ & _ & _ & -> & _). apply inc_filter. exact Hst.
  - destruct H as (_ & ls & -> & (L1 & L2 & _) & _). apply hs_ls_inc; try assumption.
    intros x Hx. destruct (L2 x Hx) as (i & _ & _ & _ & X). exact X.
  - destruct H as (_ & ls & -> & (L1 & L2 & _) & _). apply hs_ls_inc; try assumption.
    intros x Hx. destruct (L2 x Hx) as (i & _ & _ & _ & X). exact X.
  - destruct H as (_ & ls & -> & (L1 & L2 & _) & _). apply hs_ls_inc; try assumption.
    intros x Hx. destruct (L2 x Hx) as (i & _ & _ & _ & X). exact X.
  - destruct H as (g & _ & _ & _ & ->). apply inc_filter. exact Hst.
  - destruct H as ((L1 & _) & _). exact L1.
Qed.

(* no duplicate, as a corollary *)
Corollary seen_nodup : forall s k fl, reach s -> nth_error (g_fs s) k = Some fl -> NoDup (seen fl).
Proof.
  intros s k fl R E. pose proof (seen_increasing s k fl R E) as H.
  induction H as [|a l Hl IH Ha]; constructor; [|exact IH].
  intros X. rewrite Forall_forall in Ha. specialize (Ha a X). unfold cid_lt in Ha. lia.
Qed.

(* ------------------------------------------------------------------ *)
(* F2: delivered frames are in scope                                  *)
(* ------------------------------------------------------------------ *)

Lemma Forall_app_intro : forall (P : cfr -> Prop) a b, Forall P a -> Forall P b -> Forall P (a ++ b).
Proof. intros P a b Ha Hb. apply Forall_app. split; assumption. Qed.

Lemma hs_ctx : forall st o (p : cfr -> bool),
  Forall (fun f => in_scope_c (o_ctx o) f = true) (filter (fun f => scope_ok o f && p f) st).
Proof.
  intros st o p. apply Forall_forall. intros x Hx. apply filter_In in Hx. destruct Hx as [_ Hx].
  apply andb_true_iff in Hx. destruct Hx as [Hx _]. exact (scope_ok_ctx o x Hx).
Qed.

Lemma hs_after : forall st o (p : cfr -> bool),
  Forall (fun f => after_c (o_last o) f = true) (filter (fun f => scope_ok o f && p f) st).
Proof.
  intros st o p. apply Forall_forall. intros x Hx. apply filter_In in Hx. destruct Hx as [_ Hx].
  apply andb_true_iff in Hx. destruct Hx as [Hx _]. unfold scope_ok in Hx.
  apply andb_true_iff in Hx. exact (proj2 Hx).
Qed.

Lemma ls_ctx : forall st ch o q last ls C, LP st ch o q last ls C ->
  Forall (fun f => in_scope_c (o_ctx o) f = true) ls.
Proof.
  intros st ch o q last ls C (_ & L2 & _). apply Forall_forall. intros x Hx.
  destruct (L2 x Hx) as (i & _ & _ & X & _). exact X.
Qed.

Theorem seen_in_scope : forall s k fl, reach s -> nth_error (g_fs s) k = Some fl ->
  Forall (fun f => in_scope_c (o_ctx (fo fl)) f = true) (seen fl).
Proof.
  intros s k fl R E. pose proof (main_inv s k fl R E) as H.
  pose proof (shape s k fl R E) as (_ & _ & _ & Hh). unfold Main in H.
  destruct (f_h fl) as [|g| | |[|]|]; cbn [MainV] in H.
  - destruct Hh as (_ & _ & Hi & _). rewrite seen_items, Hi. constructor.
  - destruct H as (_ & _ & _ & -> & _). apply hs_ctx.
  - destruct H as (_ & ls & -> & L & _). apply Forall_app_intro; [apply hs_ctx|exact (ls_ctx _ _ _ _ _ _ _ L)].
  - destruct H as (_ & ls & -> & L & _). apply Forall_app_intro; [apply hs_ctx|exact (ls_ctx _ _ _ _ _ _ _ L)].
  - destruct H as (_ & ls & -> & L & _). apply Forall_app_intro; [apply hs_ctx|exact (ls_ctx _ _ _ _ _ _ _ L)].
  - destruct H as (g & _ & _ & _ & ->). apply hs_ctx.
  - destruct H as (L & _). exact (ls_ctx _ _ _ _ _ _ _ L).
Qed.

Lemma ls_after : forall st ch o q l ls C, LP st ch o q (Some l) ls C -> last_ok st o (Some l) ->
  Forall (fun f => after_c (o_last o) f = true) ls.
Proof.
  intros st ch o q l ls C (_ & L2 & _) (g & _ & El & Sg). apply Forall_forall. intros x Hx.
  destruct (L2 x Hx) as (i & _ & _ & _ & X). cbn [leL] in X. apply N.leb_gt in X.
  unfold scope_ok in Sg. apply andb_true_iff in Sg. destruct Sg as [_ Sg]. unfold after_c in *.
  destruct (o_last o) as [a|]; [|reflexivity]. apply N.ltb_lt. apply N.ltb_lt in Sg. lia.
Qed.

(* for a non-tail follower whose history thread handed over an id; when the history is
   empty the hand-off carries no id and the live task does not compare with last-id:
   see future_last_id_not_filtered_live *)
Theorem seen_after_last : forall s k fl, reach s -> nth_error (g_fs s) k = Some fl ->
  o_tail (fo fl) = false -> f_last fl <> None ->
  Forall (fun f => after_c (o_last (fo fl)) f = true) (seen fl).
Proof.
  intros s k fl R E Ht Hl. pose proof (main_inv s k fl R E) as H.
  pose proof (shape s k fl R E) as (_ & _ & _ & Hh). unfold Main in H.
  destruct (f_last fl) as [l|] eqn:El; [clear Hl|contradiction Hl; reflexivity].
  destruct (f_h fl) as [|g| | |[|]|]; cbn [MainV] in H.
  - destruct Hh as (_ & _ & Hi & _). rewrite seen_items, Hi. constructor.
  - destruct H as (_ & _ & _ & -> & _). apply hs_after.
  - destruct H as (A & ls & -> & L & _). apply Forall_app_intro; [apply hs_after|exact (ls_after _ _ _ _ _ _ _ L A)].
  - destruct H as (A & ls & -> & L & _). apply Forall_app_intro; [apply hs_after|exact (ls_after _ _ _ _ _ _ _ L A)].
  - destruct H as (A & ls & -> & L & _). apply Forall_app_intro; [apply hs_after|exact (ls_after _ _ _ _ _ _ _ L A)].
  - destruct H as (g & _ & _ & _ & ->). apply hs_after.
  - destruct Hh as (X & _). congruence.
Qed.

(* the two together, in the form asked for *)
Corollary seen_scope_ok : forall s k fl, reach s -> nth_error (g_fs s) k = Some fl ->
  o_tail (fo fl) = false -> f_last fl <> None ->
  Forall (fun f => scope_ok (fo fl) f = true) (seen fl).
Proof.
  intros s k fl R E Ht Hl. pose proof (seen_in_scope s k fl R E) as A.
  pose proof (seen_after_last s k fl R E Ht Hl) as B. rewrite Forall_forall in *.
  intros x Hx. unfold scope_ok. rewrite (A x Hx), (B x Hx). reflexivity.
Qed.

(* ------------------------------------------------------------------ *)
(* F3: delivered frames are visible                                   *)
(* ------------------------------------------------------------------ *)

Definition visible (s : cstate) (fl : follower) (f : cfr) : Prop :=
  In f (g_stream s) \/ exists i, (i < f_pos fl)%nat /\ nth_error (g_chan s) i = Some f.

Lemma hs_visible : forall s fl (p : cfr -> bool),
  Forall (visible s fl) (filter p (g_stream s)).
Proof.
  intros s fl p. apply Forall_forall. intros x Hx. apply filter_In in Hx. left. exact (proj1 Hx).
Qed.

Lemma ls_visible : forall s fl ls C,
  LP (g_stream s) (g_chan s) (fo fl) (qp (f_l fl) (f_pos fl)) (f_last fl) ls C ->
  Forall (visible s fl) ls.
Proof.
  intros s fl ls C (_ & L2 & _). apply Forall_forall. intros x Hx.
  destruct (L2 x Hx) as (i & Hi & Hn & _). right. exists i. split; [|exact Hn].
  pose proof (qp_le (f_l fl) (f_pos fl)). lia.
Qed.

Theorem seen_visible_strong : forall s k fl, reach s -> nth_error (g_fs s) k = Some fl ->
  Forall (visible s fl) (seen fl).
Proof.
  intros s k fl R E. pose proof (main_inv s k fl R E) as H.
  pose proof (shape s k fl R E) as (_ & _ & _ & Hh). unfold Main in H.
  destruct (f_h fl) as [|g| | |[|]|]; cbn [MainV] in H.
  - destruct Hh as (_ & _ & Hi & _). rewrite seen_items, Hi. constructor.
  - destruct H as (_ & _ & _ & -> & _). apply hs_visible.
  - destruct H as (A & ls & -> & L & _). apply Forall_app_intro; [apply hs_visible|exact (ls_visible _ _ _ _ L)].
  - destruct H as (A & ls & -> & L & _). apply Forall_app_intro; [apply hs_visible|exact (ls_visible _ _ _ _ L)].
  - destruct H as (A & ls & -> & L & _). apply Forall_app_intro; [apply hs_visible|exact (ls_visible _ _ _ _ L)].
  - destruct H as (g & _ & _ & _ & ->). apply hs_visible.
  - destruct H as (L & _). exact (ls_visible _ _ _ _ L).
Qed.

Theorem seen_visible : forall s k fl, reach s -> nth_error (g_fs s) k = Some fl ->
  Forall (fun f => In f (g_stream s) \/ In f (g_chan s)) (seen fl).
Proof.
  intros s k fl R E. eapply Forall_impl; [|exact (seen_visible_strong s k fl R E)].
  intros f [H|(i & _ & H)]; [left; exact H|right; exact (nth_error_In _ _ H)].
Qed.

(* ------------------------------------------------------------------ *)
(* F4: gap-freedom for stored frames                                  *)
(* ------------------------------------------------------------------ *)

Lemma no_gap_hist : forall st o b g h,
  In g st -> scope_ok o g = true -> c_id g <= c_id h ->
  In h (filter (fun f => scope_ok o f && (c_id f <? b)) st) ->
  In g (filter (fun f => scope_ok o f && (c_id f <? b)) st).
Proof.
  intros st o b g h Hg Sg Hle Hh. apply filter_In in Hh. destruct Hh as [_ Hh].
  apply andb_true_iff in Hh. destruct Hh as [_ Hh]. apply N.ltb_lt in Hh.
  apply filter_In. split; [exact Hg|]. rewrite Sg. cbn [andb]. apply N.ltb_lt. lia.
Qed.

Lemma no_gap_post : forall s fl ls g h, reach s ->
  LP (g_stream s) (g_chan s) (fo fl) (qp (f_l fl) (f_pos fl)) (f_last fl) ls True ->
  In g (g_stream s) -> scope_ok (fo fl) g = true -> c_id g <= c_id h ->
  In h (filter (fun f => scope_ok (fo fl) f && leL (f_last fl) f) (g_stream s) ++ ls) ->
  In g (filter (fun f => scope_ok (fo fl) f && leL (f_last fl) f) (g_stream s) ++ ls).
Proof.
  intros s fl ls g h R (L1 & L2 & L3) Hg Sg Hle Hh. apply in_or_app.
  destruct (leL (f_last fl) g) eqn:Lg.
  - left. apply filter_In. split; [exact Hg|]. rewrite Sg, Lg. reflexivity.
  - right. apply in_app_or in Hh. destruct Hh as [Hh|Hh].
    + exfalso. apply filter_In in Hh. destruct Hh as [_ Hh]. apply andb_true_iff in Hh.
      destruct Hh as [_ Hh]. unfold leL in *. destruct (f_last fl) as [l|]; [|discriminate Hh].
      apply N.leb_le in Hh. apply N.leb_gt in Lg. lia.
    + destruct (L2 h Hh) as (i & Hi & Hn & _).
      pose proof (i_cinc s (reach_inv s R)) as Hch.
      destruct (stream_in_chan_or_above s g R Hg) as [Hc|Hc].
      * apply In_nth_error in Hc. destruct Hc as [j Hj].
        pose proof (inc_nth_le _ j i g h Hch Hj Hn Hle) as Hji.
        apply (L3 I j g); try assumption. lia.
      * exfalso. pose proof (below_In _ _ _ Hc (nth_error_In _ _ Hn)). lia.
Qed.

Theorem no_gap : forall s k fl, reach s -> nth_error (g_fs s) k = Some fl ->
  o_tail (fo fl) = false ->
  forall g h, In g (g_stream s) -> scope_ok (fo fl) g = true -> In h (seen fl) ->
              c_id g <= c_id h -> In g (seen fl).
Proof.
  intros s k fl R E Ht g h Hg Sg Hh Hle. pose proof (main_inv s k fl R E) as H.
  pose proof (shape s k fl R E) as (_ & _ & _ & Hsh). unfold Main in H.
  destruct (f_h fl) as [|g0| | |[|]|]; cbn [MainV] in H.
  - destruct Hsh as (_ & _ & Hi & _). rewrite seen_items, Hi in Hh. destruct Hh.
  - destruct H as (_ & _ & _ & X & _). rewrite X in *. exact (no_gap_hist _ _ _ g h Hg Sg Hle Hh).
  - destruct H as (_ & ls & X & L & _). rewrite X in *. exact (no_gap_post s fl ls g h R L Hg Sg Hle Hh).
  - destruct H as (_ & ls & X & L & _). rewrite X in *. exact (no_gap_post s fl ls g h R L Hg Sg Hle Hh).
  - destruct H as (_ & ls & X & L & _). rewrite X in *. exact (no_gap_post s fl ls g h R L Hg Sg Hle Hh).
  - destruct H as (g0 & _ & _ & _ & X). rewrite X in *. exact (no_gap_hist _ _ _ g h Hg Sg Hle Hh).
  - destruct Hsh as (X & _). congruence.
Qed.

(* ------------------------------------------------------------------ *)
(* F5: tail followers get no history                                  *)
(* ------------------------------------------------------------------ *)

Theorem tail_no_history : forall s k fl, reach s -> nth_error (g_fs s) k = Some fl ->
  o_tail (fo fl) = true ->
  (f_h fl = HNotStarted \/ f_h fl = HNone) /\ f_count fl = 0 /\ f_last fl = None /\
  Forall (fun f => exists i, (i < f_pos fl)%nat /\ nth_error (g_chan s) i = Some f) (seen fl).
Proof.
  intros s k fl R E Ht. pose proof (main_inv s k fl R E) as H.
  pose proof (shape s k fl R E) as (_ & _ & _ & Hsh). unfold Main in H.
  destruct (f_h fl) as [|g0| | |[|]|]; cbn [MainV] in H; cbv beta iota in Hsh;
    try (exfalso; destruct Hsh as (_ & X & _); congruence);
    try (exfalso; destruct Hsh as (X & _); congruence).
  - destruct Hsh as (_ & _ & Hi & Hc & Hl & _).
    split; [left; reflexivity|]. split; [assumption|]. split; [assumption|].
    rewrite seen_items, Hi. constructor.
  - exfalso. destruct Hsh as (_ & _ & X & _). congruence.
  - destruct Hsh as (_ & _ & Hl & Hc & _). destruct H as ((_ & L2 & _) & _).
    split; [right; reflexivity|]. split; [assumption|]. split; [assumption|].
    apply Forall_forall. intros x Hx. destruct (L2 x Hx) as (i & Hi & Hn & _).
    exists i. split; [|exact Hn]. pose proof (qp_le (f_l fl) (f_pos fl)). lia.
Qed.

(* ------------------------------------------------------------------ *)
(* F6: the threshold marker                                           *)
(* ------------------------------------------------------------------ *)

Definition leB (L : option N) (a : cfr) : Prop :=
  match L with Some l => c_id a <= l | None => False end.
Definition gtB (L : option N) (b : cfr) : Prop :=
  match L with Some l => l < c_id b | None => True end.
Definition noT (l : list item) : Prop := ~ In IThreshold l.

Definition split_at_threshold (last : option N) (its : list item) : Prop :=
  exists pre post, its = pre ++ IThreshold :: post /\ noT pre /\ noT post /\
                   (forall a, In a (reals pre) -> leB last a) /\
                   (forall b, In b (reals post) -> gtB last b).

Definition ThrV (o : fopts) (h : hst) (last : option N) (its : list item) : Prop :=
  match h with
  | HNotStarted => its = []
  | HNone | HFinished false => noT its
  | HAtSend g => noT its /\ forall a, In a (reals its) -> c_id a < c_id g
  | HAtThreshold => noT its /\ forall a, In a (reals its) -> leB last a
  | HAtDone | HFinished true =>
      (noT its /\ wants_threshold o = false) \/ split_at_threshold last its
  end.

Definition Thr (fl : follower) : Prop := ThrV (fo fl) (f_h fl) (f_last fl) (items fl).

Definition real_ok (h : hst) (last : option N) (f : cfr) : Prop :=
  match h with
  | HNotStarted => False
  | HAtSend g => c_id f < c_id g
  | HAtThreshold => leB last f
  | HAtDone | HFinished true => gtB last f
  | _ => True
  end.

Lemma noT_app : forall a b, noT a -> noT b -> noT (a ++ b).
Proof. intros a b Ha Hb H. apply in_app_or in H. destruct H; [exact (Ha H)|exact (Hb H)]. Qed.

Lemma noT_single : forall i, i <> IThreshold -> noT [i].
Proof. intros i Hi [H|[]]. exact (Hi H). Qed.

Lemma reals_single_in : forall i f, In f (reals [i]) -> i = IReal f.
Proof.
  intros i f H. destruct i; cbn in H; try (destruct H; fail). destruct H as [H|[]]. subst. reflexivity.
Qed.

Lemma thrv_app : forall o h last its i,
  i <> IThreshold -> h <> HNotStarted -> (forall f, i = IReal f -> real_ok h last f) ->
  ThrV o h last its -> ThrV o h last (its ++ [i]).
Proof.
  intros o h last its i Hi Hh Hr H.
  assert (Hin : forall (P : cfr -> Prop) l, (forall a, In a (reals l) -> P a) ->
                (forall f, i = IReal f -> P f) -> forall a, In a (reals (l ++ [i])) -> P a).
  { intros P l Hl Hf a Ha. rewrite reals_app in Ha. apply in_app_or in Ha.
    destruct Ha as [Ha|Ha]; [exact (Hl a Ha)|]. apply Hf. exact (reals_single_in i a Ha). }
  destruct h as [|g| | |[|]|]; cbn [ThrV real_ok] in *.
  - contradiction Hh; reflexivity.
  - destruct H as [A B]. split; [apply noT_app; [exact A|exact (noT_single i Hi)]|].
    apply Hin; assumption.
  - destruct H as [A B]. split; [apply noT_app; [exact A|exact (noT_single i Hi)]|].
    apply Hin; assumption.
  - destruct H as [[A B]|(pre & post & E & P1 & P2 & P3 & P4)].
    + left. split; [apply noT_app; [exact A|exact (noT_single i Hi)]|exact B].
    + right. exists pre, (post ++ [i]). split; [rewrite E, <- app_assoc; reflexivity|].
      split; [exact P1|]. split; [apply noT_app; [exact P2|exact (noT_single i Hi)]|].
      split; [exact P3|]. apply Hin; assumption.
  - destruct H as [[A B]|(pre & post & E & P1 & P2 & P3 & P4)].
    + left. split; [apply noT_app; [exact A|exact (noT_single i Hi)]|exact B].
    + right. exists pre, (post ++ [i]). split; [rewrite E, <- app_assoc; reflexivity|].
      split; [exact P1|]. split; [apply noT_app; [exact P2|exact (noT_single i Hi)]|].
      split; [exact P3|]. apply Hin; assumption.
  - apply noT_app; [exact H|exact (noT_single i Hi)].
  - apply noT_app; [exact H|exact (noT_single i Hi)].
Qed.

Lemma thr_step : forall s k fl fl', reach s -> nth_error (g_fs s) k = Some fl ->
  fstep s fl fl' -> Thr fl -> Thr fl'.
Proof.
  intros s k fl fl' R E St H.
  pose proof (shape s k fl R E) as (Sex & Shb & Sln & Hh).
  pose proof (main_inv s k fl R E) as HM. unfold Main in HM.
  inversion St; subst fl'; clear St; unfold Thr in *.
  - (* subscribe *)
    fprj. change (items (sub_fl s fl)) with (@nil item).
    destruct (f_h fl) as [| | | |[|]|]; cbn [ThrV]; try reflexivity; exfalso; split_all; congruence.
  - (* start, tail *)
    fprj. change (items (start_tail_fl fl)) with (@nil item). cbn [ThrV]. intros [].
  - (* start *)
    rewrite items_hadv. change (items (start_fl s fl)) with (@nil item).
    destruct (hadv_cases s (start_fl s fl)) as [(g & _ & _ & ->)|[(g & _ & _ & ->)|(_ & ->)]];
      fprj; cbn [ThrV].
    + intros [].
    + split; [intros []|intros a []].
    + split; [intros []|intros a []].
  - (* history send *)
    rewrite items_hadv. change (items (bump (push fl (IReal f)))) with (items (push fl (IReal f))).
    rewrite items_push. rewrite H0 in H, HM. cbn [ThrV MainV] in H, HM.
    destruct H as [A B]. destruct HM as (Hg & Hs & Hl & Hsn & Hpk).
    assert (NT : noT (items fl ++ [IReal f])) by (apply noT_app; [exact A|apply noT_single; discriminate]).
    destruct (hadv_cases s (bump (push fl (IReal f)))) as [(g & Ep & _ & ->)|[(g & Ep & _ & ->)|(Ep & ->)]];
      fprj; fprj_in Ep; cbn [ThrV].
    + exact NT.
    + split; [exact NT|]. rewrite Ep in Hpk. destruct Hpk as (_ & _ & P3 & _).
      intros a Ha. rewrite reals_app in Ha. apply in_app_or in Ha. destruct Ha as [Ha|[Ha|[]]].
      * specialize (B a Ha). lia.
      * subst a. exact P3.
    + split; [exact NT|]. rewrite Hl. cbn [leB].
      intros a Ha. rewrite reals_app in Ha. apply in_app_or in Ha. destruct Ha as [Ha|[Ha|[]]].
      * specialize (B a Ha). lia.
      * subst a. lia.
  - (* threshold pushed *)
    fprj. change (items (set_h (push fl IThreshold) HAtDone)) with (items (push fl IThreshold)).
    rewrite items_push. rewrite H0 in H. cbn [ThrV] in *. destruct H as [A B].
    right. exists (items fl), []. split; [reflexivity|]. split; [exact A|]. split; [intros []|].
    split; [exact B|intros b []].
  - (* threshold not pushed *)
    fprj. change (items (set_h fl HAtDone)) with (items fl). rewrite H0 in H. cbn [ThrV] in *.
    left. split; [exact (proj1 H)|assumption].
  - (* hand-off, exit *)
    fprj. change (items (exit_live (handoff fl))) with (items fl). rewrite H0 in H. exact H.
  - (* hand-off *)
    fprj. change (items (handoff fl)) with (items fl). rewrite H0 in H. exact H.
  - exact H.
  - exact H.
  - exact H.
  - (* deliver *)
    fprj. change (items (set_l (push fl (IReal f)) LAtSent)) with (items (push fl (IReal f))).
    rewrite items_push. apply thrv_app; [discriminate| | |exact H].
    + intros X. rewrite X in Hh. cbv beta iota in Hh. destruct Hh as (Y & _). congruence.
    + intros f0 Ef. inversion Ef; subst f0. rewrite H0 in Hh.
      destruct (f_h fl) as [|g| | |[|]|]; cbn [real_ok]; cbv beta iota in Hh;
        try exact I; try (exfalso; split_all; congruence).
      unfold leL in H2. unfold gtB. destruct (f_last fl) as [l|]; [|exact I].
      apply N.leb_gt in H2. exact H2.
  - exact H.
  - exact H.
  - (* pulse *)
    rewrite items_push. fprj. apply thrv_app; [discriminate| |intros f0 X; discriminate X|exact H].
    intros X. rewrite X in Hh. cbv beta iota in Hh. destruct Hh as (_ & Y & _). congruence.
  - (* consume *)
    fprj. rewrite (items_consume fl i r H0). exact H.
Qed.

Theorem thr : forall s k fl, reach s -> nth_error (g_fs s) k = Some fl -> Thr fl.
Proof.
  apply (follower_ind_local Thr).
  - intros o. reflexivity.
  - exact thr_step.
Qed.

Lemma split_unique : forall (p1 q1 p2 q2 : list item),
  noT p1 -> noT q1 -> p1 ++ IThreshold :: q1 = p2 ++ IThreshold :: q2 -> p2 = p1 /\ q2 = q1.
Proof.
  induction p1 as [|a p1 IH]; intros q1 p2 q2 N1 N2 E.
  - destruct p2 as [|b p2]; cbn [app] in E.
    + inversion E. split; reflexivity.
    + exfalso. inversion E; subst. apply N2. apply in_or_app. right; left; reflexivity.
  - destruct p2 as [|b p2]; cbn [app] in E.
    + exfalso. inversion E; subst. apply N1. left; reflexivity.
    + inversion E; subst. destruct (IH q1 p2 q2) as [A B]; try assumption.
      * intros X. apply N1. right; exact X.
      * split; [f_equal; exact A|exact B].
Qed.

Lemma thr_cases : forall s k fl, reach s -> nth_error (g_fs s) k = Some fl ->
  noT (items fl) \/ split_at_threshold (f_last fl) (items fl).
Proof.
  intros s k fl R E. pose proof (thr s k fl R E) as H. unfold Thr in H.
  destruct (f_h fl) as [|g| | |[|]|]; cbn [ThrV] in H; try tauto.
  left. rewrite H. intros [].
Qed.

Theorem threshold_once : forall s k fl pre post, reach s -> nth_error (g_fs s) k = Some fl ->
  f_got fl ++ f_out fl = pre ++ IThreshold :: post ->
  ~ In IThreshold pre /\ ~ In IThreshold post.
Proof.
  intros s k fl pre post R E X. fold (items fl) in X.
  destruct (thr_cases s k fl R E) as [H|(p & q & Eq & P1 & P2 & _)].
  - exfalso. apply H. rewrite X. apply in_or_app. right; left; reflexivity.
  - rewrite Eq in X. destruct (split_unique p q pre post P1 P2 X) as [-> ->]. split; assumption.
Qed.

Theorem threshold_position : forall s k fl pre post, reach s -> nth_error (g_fs s) k = Some fl ->
  f_got fl ++ f_out fl = pre ++ IThreshold :: post ->
  (forall a b, In a (reals pre) -> In b (reals post) -> c_id a < c_id b) /\
  (forall a, In a (reals pre) -> match f_last fl with Some l => c_id a <= l | None => False end) /\
  (forall b, In b (reals post) -> match f_last fl with Some l => l < c_id b | None => True end).
Proof.
  intros s k fl pre post R E X. fold (items fl) in X.
  destruct (thr_cases s k fl R E) as [H|(p & q & Eq & P1 & P2 & P3 & P4)].
  - exfalso. apply H. rewrite X. apply in_or_app. right; left; reflexivity.
  - rewrite Eq in X. destruct (split_unique p q pre post P1 P2 X) as [-> ->].
    split; [|split; assumption]. intros a b Ha Hb. specialize (P3 a Ha). specialize (P4 b Hb).
    unfold leB, gtB in *. destruct (f_last fl) as [l|]; [lia|contradiction].
Qed.

(* the marker is there as soon as the history thread is past it, when it was asked for *)
Theorem threshold_present : forall s k fl, reach s -> nth_error (g_fs s) k = Some fl ->
  (f_h fl = HAtDone \/ f_h fl = HFinished true) -> wants_threshold (fo fl) = true ->
  In IThreshold (f_got fl ++ f_out fl).
Proof.
  intros s k fl R E Eh W. pose proof (thr s k fl R E) as H. unfold Thr in H.
  assert (X : (noT (items fl) /\ wants_threshold (fo fl) = false) \/
              split_at_threshold (f_last fl) (items fl))
    by (destruct Eh as [Eh|Eh]; rewrite Eh in H; exact H).
  destruct X as [[_ X]|(p & q & Eq & _)]; [congruence|].
  fold (items fl). rewrite Eq. apply in_or_app. right; left; reflexivity.
Qed.

(* ------------------------------------------------------------------ *)
(* invariants of one follower along a schedule, from any reachable    *)
(* state (used for properties relative to the subscription point)     *)
(* ------------------------------------------------------------------ *)

Theorem follower_run_ind : forall (P : cstate -> follower -> Prop) (k : nat),
  (forall s s' fl, reach s -> reach s' -> grow s s' -> nth_error (g_fs s) k = Some fl ->
                   P s fl -> P s' fl) ->
  (forall s s' fl fl', reach s -> reach s' -> g_stream s' = g_stream s -> g_chan s' = g_chan s ->
                       nth_error (g_fs s) k = Some fl -> fstep s fl fl' -> P s fl -> P s' fl') ->
  forall sched s s' fl fl', reach s -> nth_error (g_fs s) k = Some fl -> P s fl ->
    crun s sched = Some s' -> nth_error (g_fs s') k = Some fl' -> P s' fl'.
Proof.
  intros P k Hg Hf. induction sched as [|l r IH]; intros s s' fl fl' R E HP H E'; cbn [crun] in H.
  - inversion H; subst s'. rewrite E in E'. inversion E'; subst fl'. exact HP.
  - destruct (cstep s l) as [s1|] eqn:E1; [|discriminate H].
    pose proof (reach_step s l s1 R E1) as R1.
    destruct (cstep_follower s l s1 k fl (reach_inv s R) E1 E) as [[E2 G]|(fl1 & E2 & St & Es & Ec)].
    + exact (IH s1 s' fl fl' R1 E2 (Hg s s1 fl R R1 G E HP) H E').
    + exact (IH s1 s' fl1 fl' R1 E2 (Hf s s1 fl fl1 R R1 Es Ec E St HP) H E').
Qed.

(* ------------------------------------------------------------------ *)
(* relative to the subscription point p0: the live task delivers      *)
(* exactly the in-context channel elements from p0 on whose id is     *)
(* above the hand-off id (ephemeral or not); a tail follower delivers *)
(* nothing else                                                       *)
(* ------------------------------------------------------------------ *)

Definition in_history (h : hst) : Prop :=
  match h with HNotStarted | HAtSend _ | HAtThreshold | HAtDone => True | _ => False end.

Definition LiveFrom (p0 : nat) (s : cstate) (fl : follower) : Prop :=
  f_subscribed fl = true /\ (p0 <= f_pos fl)%nat /\
  (forall x, f_l fl = LAtRecv x -> (p0 < f_pos fl)%nat) /\
  (in_history (f_h fl) -> f_pos fl = p0) /\
  (forall i x, (p0 <= i < qp (f_l fl) (f_pos fl))%nat -> nth_error (g_chan s) i = Some x ->
               in_scope_c (o_ctx (fo fl)) x = true -> leL (f_last fl) x = false -> In x (seen fl)) /\
  (o_tail (fo fl) = true ->
   Forall (fun f => exists i, (p0 <= i < f_pos fl)%nat /\ nth_error (g_chan s) i = Some f) (seen fl)).

Lemma f_sub_hadv : forall s fl, f_subscribed (hist_advance s fl) = f_subscribed fl.
Proof.
  intros s fl. destruct (hadv_cases s fl) as [(g & _ & _ & ->)|[(g & _ & _ & ->)|(_ & ->)]]; reflexivity.
Qed.

Lemma f_l_hadv_recv : forall s fl y, f_l (hist_advance s fl) = LAtRecv y -> f_l fl = LAtRecv y.
Proof.
  intros s fl y. destruct (hadv_cases s fl) as [(g & _ & _ & ->)|[(g & _ & _ & ->)|(_ & ->)]]; fprj;
    try (intros H; exact H).
  destruct (f_l fl); intros H; discriminate H.
Qed.

Lemma livefrom_step : forall p0 s s' k fl fl', reach s -> reach s' ->
  g_stream s' = g_stream s -> g_chan s' = g_chan s ->
  nth_error (g_fs s) k = Some fl -> fstep s fl fl' -> LiveFrom p0 s fl -> LiveFrom p0 s' fl'.
Proof.
  intros p0 s s' k fl fl' R R' Es Ec E St (T1 & T2 & T3 & T4 & T5 & T6).
  pose proof (shape s k fl R E) as (Sex & Shb & Sln & Hh).
  pose proof (main_inv s k fl R E) as HM. unfold Main in HM.
  unfold LiveFrom. rewrite (fo_step s fl fl' St), Ec.
  assert (Same : forall fl', f_subscribed fl' = f_subscribed fl -> f_pos fl' = f_pos fl ->
                   (forall x, f_l fl' = LAtRecv x -> exists y, f_l fl = LAtRecv y) ->
                   (in_history (f_h fl') -> in_history (f_h fl)) ->
                   qp (f_l fl') (f_pos fl) = qp (f_l fl) (f_pos fl) -> f_last fl' = f_last fl ->
                   seen fl' = seen fl ->
                   f_subscribed fl' = true /\ (p0 <= f_pos fl')%nat /\
                   (forall x, f_l fl' = LAtRecv x -> (p0 < f_pos fl')%nat) /\
                   (in_history (f_h fl') -> f_pos fl' = p0) /\
                   (forall i x, (p0 <= i < qp (f_l fl') (f_pos fl'))%nat -> nth_error (g_chan s) i = Some x ->
                      in_scope_c (o_ctx (fo fl)) x = true -> leL (f_last fl') x = false -> In x (seen fl')) /\
                   (o_tail (fo fl) = true ->
                    Forall (fun f => exists i, (p0 <= i < f_pos fl')%nat /\ nth_error (g_chan s) i = Some f)
                           (seen fl'))).
  { intros fl0 A B C D Q L S. rewrite A, B, S, L, Q. split; [exact T1|]. split; [exact T2|].
    split; [intros x Hx; destruct (C x Hx) as [y Hy]; exact (T3 y Hy)|].
    split; [intros X; exact (T4 (D X))|]. split; [exact T5|exact T6]. }
  assert (Empty : forall fl', f_pos fl' = f_pos fl -> in_history (f_h fl) ->
                    forall i x, (p0 <= i < qp (f_l fl') (f_pos fl'))%nat -> nth_error (g_chan s) i = Some x ->
                      in_scope_c (o_ctx (fo fl)) x = true -> leL (f_last fl') x = false -> In x (seen fl')).
  { intros fl0 A B i x Hi. exfalso. pose proof (qp_le (f_l fl0) (f_pos fl0)). rewrite A, (T4 B) in *. lia. }
  inversion St; subst fl'; clear St.
  - congruence.
  - fprj. split; [reflexivity|]. split; [exact T2|]. split.
    + intros x Hx. destruct (o_follow (fo fl)); discriminate Hx.
    + split; [intros []|]. split.
      * apply (Empty (start_tail_fl fl)); [reflexivity|]. rewrite H0. exact I.
      * intros _. rewrite seen_start_tail. constructor.
  - rewrite f_sub_hadv, f_pos_hist. fprj. split; [reflexivity|]. split; [exact T2|]. split.
    + intros x Hx. apply f_l_hadv_recv in Hx. fprj_in Hx. destruct (o_follow (fo fl)); discriminate Hx.
    + split; [intros _; apply T4; rewrite H0; exact I|]. split.
      * intros i x Hi. exfalso. pose proof (qp_le (f_l (hist_advance s (start_fl s fl))) (f_pos fl)).
        rewrite T4 in * by (rewrite H0; exact I). lia.
      * intros _. rewrite seen_hadv, seen_start. constructor.
  - rewrite f_sub_hadv, f_pos_hist. fprj. split; [exact T1|]. split; [exact T2|]. split.
    + intros x Hx. apply f_l_hadv_recv in Hx. fprj_in Hx. exact (T3 x Hx).
    + split; [intros _; apply T4; rewrite H; exact I|]. split.
      * intros i x Hi. exfalso.
        pose proof (qp_le (f_l (hist_advance s (bump (push fl (IReal f))))) (f_pos fl)).
        rewrite T4 in * by (rewrite H; exact I). lia.
      * intros Ht. exfalso. rewrite H in Hh. cbv beta iota in Hh. destruct Hh as (_ & X & _). congruence.
  - apply Same; try reflexivity; [intros x Hx; exists x; exact Hx| |].
    + intros _. rewrite H. exact I.
    + rewrite seen_set_h, seen_push_thr. reflexivity.
  - apply Same; try reflexivity; [intros x Hx; exists x; exact Hx|].
    intros _. rewrite H. exact I.
  - apply Same; try reflexivity; [intros x Hx; discriminate Hx|intros []|].
    fprj. rewrite H0. reflexivity.
  - apply Same; try reflexivity; [intros x Hx; exists x; exact Hx|intros []].
  - apply Same; try reflexivity; [intros x Hx; discriminate Hx|intros X; exact X|].
    fprj. destruct H as [[El _]|El]; rewrite El; reflexivity.
  - assert (NH : ~ in_history (f_h fl)).
    { intros X. destruct H as [[El Eh]|El]; [rewrite Eh in X; exact X|].
      destruct (f_h fl) as [| | | |[|]|]; try exact X; split_all; congruence. }
    assert (Q : qp (f_l fl) (f_pos fl) = f_pos fl) by (destruct H as [[El _]|El]; rewrite El; reflexivity).
    fprj. rewrite seen_recv. split; [exact T1|]. split; [lia|]. split; [intros x _; lia|].
    split; [intros X; contradiction (NH X)|]. split.
    + cbn [qp pred]. rewrite <- Q. exact T5.
    + intros Ht. specialize (T6 Ht). eapply Forall_impl; [|exact T6].
      intros a (i & Hi & Hn). exists i. split; [lia|exact Hn].
  - (* skip *)
    assert (Hin : inhand (g_chan s) (f_l fl) (f_pos fl)).
    { rewrite H in Hh. destruct (f_h fl) as [|g| | |[|]|]; cbn [MainV] in HM; cbv beta iota in Hh;
        try (exfalso; split_all; congruence).
      - destruct HM as (_ & ls & _ & _ & X). exact X.
      - destruct HM as (_ & X). exact X. }
    destruct (Hin f H) as [Hp Hn].
    fprj. rewrite seen_set_l. split; [exact T1|]. split; [exact T2|].
    split; [intros x Hx; discriminate Hx|]. split; [exact T4|]. split; [|exact T6].
    cbn [qp]. intros i x Hi Hx Cx Lx. destruct (PeanoNat.Nat.eq_dec i (pred (f_pos fl))) as [->|D].
    + rewrite Hn in Hx. inversion Hx; subst x. rewrite Cx, Lx in H0. discriminate H0.
    + apply (T5 i x); try assumption. rewrite H. cbn [qp]. lia.
  - (* deliver *)
    assert (Hin : inhand (g_chan s) (f_l fl) (f_pos fl)).
    { rewrite H in Hh. destruct (f_h fl) as [|g| | |[|]|]; cbn [MainV] in HM; cbv beta iota in Hh;
        try (exfalso; split_all; congruence).
      - destruct HM as (_ & ls & _ & _ & X). exact X.
      - destruct HM as (_ & X). exact X. }
    destruct (Hin f H) as [Hp Hn]. pose proof (T3 f H) as Hp0.
    fprj. rewrite seen_set_l, seen_push_real. split; [exact T1|]. split; [exact T2|].
    split; [intros x Hx; discriminate Hx|]. split; [exact T4|]. split.
    + cbn [qp]. intros i x Hi Hx Cx Lx. apply in_or_app.
      destruct (PeanoNat.Nat.eq_dec i (pred (f_pos fl))) as [->|D].
      * rewrite Hn in Hx. inversion Hx; subst x. right; left; reflexivity.
      * left. apply (T5 i x); try assumption. rewrite H. cbn [qp]. lia.
    + intros Ht. apply Forall_app. split; [exact (T6 Ht)|]. constructor; [|constructor].
      exists (pred (f_pos fl)). split; [lia|exact Hn].
  - apply Same; try reflexivity; [|intros X; exact X|].
    + intros x Hx. fprj_in Hx. destruct (n <=? f_lcount fl + 1); discriminate Hx.
    + fprj. rewrite H. destruct (n <=? f_lcount fl + 1); reflexivity.
  - apply Same; try reflexivity; [intros x Hx; discriminate Hx|intros X; exact X|].
    fprj. rewrite H. reflexivity.
  - apply Same; try reflexivity; [intros x Hx; exists x; exact Hx|intros X; exact X|]. apply seen_push_pulse.
  - apply Same; try reflexivity; [intros x Hx; exists x; exact Hx|intros X; exact X|]. apply seen_consume. exact H.
Qed.

Lemma livefrom_grow : forall p0 s s' k fl, reach s -> nth_error (g_fs s) k = Some fl ->
  grow s s' -> LiveFrom p0 s fl -> LiveFrom p0 s' fl.
Proof.
  intros p0 s s' k fl R E G (T1 & T2 & T3 & T4 & T5 & T6).
  pose proof (i_fs s (reach_inv s R) k fl E) as Hp.
  split; [exact T1|]. split; [exact T2|]. split; [exact T3|]. split; [exact T4|]. split.
  - intros i x Hi Hn. apply (T5 i x Hi).
    destruct G as [_ E2|f _ E2 _ _|f _ E2 _]; rewrite E2 in Hn; try exact Hn.
    rewrite nth_error_app1 in Hn; [exact Hn|]. pose proof (qp_le (f_l fl) (f_pos fl)). lia.
  - intros Ht. specialize (T6 Ht). eapply Forall_impl; [|exact T6]. intros a (i & Hi & Hn).
    exists i. split; [exact Hi|]. destruct G as [_ E2|f _ E2 _ _|f _ E2 _]; rewrite E2; try exact Hn.
    apply nth_error_app_some. exact Hn.
Qed.

Theorem live_from_subscription : forall s k s1 sched s2 fl2, reach s ->
  cstep s (LSubscribe k) = Some s1 -> crun s1 sched = Some s2 ->
  nth_error (g_fs s2) k = Some fl2 -> LiveFrom (length (g_chan s)) s2 fl2.
Proof.
  intros s k s1 sched s2 fl2 R H1 H2 E2.
  pose proof (reach_step s _ s1 R H1) as R1.
  cbn [cstep follower_step] in H1.
  destruct (nth_error (g_fs s) k) as [fl|] eqn:E; [|discriminate H1].
  destruct (f_subscribed fl) eqn:Es; [discriminate H1|]. inversion H1; subst s1; clear H1.
  fold (sub_fl s fl) in *.
  assert (E1 : nth_error (g_fs (set_f s k (sub_fl s fl))) k = Some (sub_fl s fl))
    by (unfold set_f; prj; exact (nth_upd_same _ _ _ _ _ E)).
  assert (T : LiveFrom (length (g_chan s)) (set_f s k (sub_fl s fl)) (sub_fl s fl)).
  { pose proof (shape s k fl R E) as (_ & _ & _ & Hh).
    assert (Hl : f_l fl = LNone) by (destruct (f_h fl) as [| | | |[|]|]; split_all; congruence).
    split; [reflexivity|]. split; [apply le_n|]. split.
    - intros x Hx. fprj_in Hx. congruence.
    - split; [intros _; reflexivity|]. split.
      + fprj. rewrite Hl. cbn [qp]. intros i x Hi. lia.
      + intros _. rewrite seen_sub. constructor. }
  exact (follower_run_ind (LiveFrom (length (g_chan s))) k
           (fun s0 s' fl0 R0 _ G E0 X => livefrom_grow _ s0 s' k fl0 R0 E0 G X)
           (fun s0 s' fl0 fl' R0 R' A B C D X => livefrom_step _ s0 s' k fl0 fl' R0 R' A B C D X)
           sched _ s2 _ fl2 R1 E1 T H2 E2).
Qed.

(* F5, strong form *)
Corollary tail_after_subscription : forall s k s1 sched s2 fl2, reach s ->
  cstep s (LSubscribe k) = Some s1 -> crun s1 sched = Some s2 ->
  nth_error (g_fs s2) k = Some fl2 -> o_tail (fo fl2) = true ->
  Forall (fun f => exists i, (length (g_chan s) <= i < f_pos fl2)%nat /\
                             nth_error (g_chan s2) i = Some f) (seen fl2) /\
  (forall i x, (length (g_chan s) <= i < qp (f_l fl2) (f_pos fl2))%nat ->
               nth_error (g_chan s2) i = Some x -> in_scope_c (o_ctx (fo fl2)) x = true ->
               In x (seen fl2)).
Proof.
  intros s k s1 sched s2 fl2 R H1 H2 E2 Ht.
  pose proof (live_from_subscription s k s1 sched s2 fl2 R H1 H2 E2) as (_ & _ & _ & _ & T5 & T6).
  split; [exact (T6 Ht)|]. intros i x Hi Hn Cx. apply (T5 i x Hi Hn Cx).
  pose proof (reach_run _ _ _ (reach_step s _ s1 R H1) H2) as R2.
  destruct (tail_no_history s2 k fl2 R2 E2 Ht) as (_ & _ & L & _). rewrite L. reflexivity.
Qed.

(* live completeness for every follower, ephemeral frames included: a channel element
   from the subscription point on that the live task has processed, in context and above
   the hand-off id, has been delivered *)
Corollary live_complete : forall s k s1 sched s2 fl2, reach s ->
  cstep s (LSubscribe k) = Some s1 -> crun s1 sched = Some s2 ->
  nth_error (g_fs s2) k = Some fl2 ->
  forall i x, (length (g_chan s) <= i < qp (f_l fl2) (f_pos fl2))%nat ->
              nth_error (g_chan s2) i = Some x -> in_scope_c (o_ctx (fo fl2)) x = true ->
              leL (f_last fl2) x = false -> In x (seen fl2).
Proof.
  intros s k s1 sched s2 fl2 R H1 H2 E2.
  pose proof (live_from_subscription s k s1 sched s2 fl2 R H1 H2 E2) as (_ & _ & _ & _ & T5 & _).
  exact T5.
Qed.

(* ------------------------------------------------------------------ *)
(* what is not delivered at the hand-off and lies at or below the     *)
(* hand-off id is never delivered (for ephemeral frames: the gap)     *)
(* ------------------------------------------------------------------ *)

Lemma handed_off_stable : forall l sched s s' k fl fl', reach s -> crun s sched = Some s' ->
  nth_error (g_fs s) k = Some fl -> nth_error (g_fs s') k = Some fl' ->
  f_h fl = HFinished true /\ f_last fl = Some l ->
  (f_h fl' = HFinished true /\ f_last fl' = Some l) /\ fo fl' = fo fl.
Proof.
  intros l. apply (crun_stable _ fo (fun fl => f_h fl = HFinished true /\ f_last fl = Some l)).
  intros s k fl fl' R E St [Eh El]. split; [|exact (fo_step s fl fl' St)].
  pose proof (shape s k fl R E) as (_ & _ & _ & Hh). rewrite Eh in Hh.
  inversion St; subst fl'; fprj; try (split; assumption); try congruence.
  destruct Hh as [_ X]. congruence.
Qed.

Theorem below_handoff_never_delivered : forall s k fl l x, reach s ->
  nth_error (g_fs s) k = Some fl -> f_h fl = HFinished true -> f_last fl = Some l ->
  c_id x <= l -> ~ In x (seen fl) ->
  forall sched s' fl', crun s sched = Some s' -> nth_error (g_fs s') k = Some fl' ->
  ~ In x (seen fl').
Proof.
  intros s k fl l x R E Eh El Hx Hns sched s' fl' H E' Hin.
  destruct (handed_off_stable l sched s s' k fl fl' R H E E' (conj Eh El)) as [[Eh' El'] Eo].
  pose proof (reach_run s sched s' R H) as R'.
  pose proof (main_inv s k fl R E) as HM. pose proof (main_inv s' k fl' R' E') as HM'.
  unfold Main in HM, HM'. rewrite Eh, El in HM. rewrite Eh', El', Eo in HM'. cbn [MainV] in HM, HM'.
  destruct HM as ((g & Hg & Eg & _) & ls & Hsn & _).
  destruct HM' as (_ & ls' & Hsn' & (_ & L2 & _) & _).
  rewrite Hsn' in Hin. apply in_app_or in Hin. destruct Hin as [Hin|Hin].
  - apply filter_In in Hin. destruct Hin as [Hst' Hc].
    destruct (run_appends_at_end s sched s' R H) as [(suf & Es & Ha) _].
    rewrite Es in Hst'. apply in_app_or in Hst'. destruct Hst' as [Hst|Hst].
    + apply Hns. rewrite Hsn. apply in_or_app. left. apply filter_In. split; assumption.
    + rewrite Forall_forall in Ha. specialize (Ha x Hst). rewrite Forall_forall in Ha.
      specialize (Ha g Hg). lia.
  - destruct (L2 x Hin) as (i & _ & _ & _ & X). cbn [leL] in X. apply N.leb_gt in X. lia.
Qed.

(* in the witness state the ephemeral frame #2 is lost for good *)
Corollary ephemeral_never_delivered :
  exists s fl, reach s /\ crun eph_init eph_sched = Some s /\ nth_error (g_fs s) 0 = Some fl /\
    nth_error (g_chan s) 2 = Some (mkC 2 0 true) /\ scope_ok (fo fl) (mkC 2 0 true) = true /\
    forall sched s' fl', crun s sched = Some s' -> nth_error (g_fs s') 0 = Some fl' ->
                         ~ In (mkC 2 0 true) (seen fl').
Proof.
  destruct ephemeral_dropped_witness as (s & fl & R & H & E & _ & Hs & Hc & Hsc & Hn & _ & _ & _ & Hl).
  exists s, fl. split; [exact R|]. split; [exact H|]. split; [exact E|]. split; [exact Hc|].
  split; [exact Hsc|].
  assert (Eh : f_h fl = HFinished true).
  { clear - H E. vm_compute in H. inversion H; subst s. vm_compute in E. inversion E; subst fl. reflexivity. }
  apply (below_handoff_never_delivered s 0 fl 3 (mkC 2 0 true) R E Eh Hl); [cbn [c_id]; lia|exact Hn].
Qed.

Print Assumptions shape.
Print Assumptions seen_increasing.
Print Assumptions seen_nodup.
Print Assumptions seen_in_scope.
Print Assumptions seen_after_last.
Print Assumptions seen_scope_ok.
Print Assumptions seen_visible_strong.
Print Assumptions seen_visible.
Print Assumptions no_gap.
Print Assumptions tail_no_history.
Print Assumptions tail_after_subscription.
Print Assumptions live_complete.
Print Assumptions live_from_subscription.
Print Assumptions threshold_once.
Print Assumptions threshold_position.
Print Assumptions threshold_present.
Print Assumptions limit_exact.
Print Assumptions limit_closes.
Print Assumptions limit_ends_stream.
Print Assumptions closed_spec.
Print Assumptions exited_is_final.
Print Assumptions exited_no_more.
Print Assumptions pulse_only_if_asked.
Print Assumptions threshold_only_if_following.
Print Assumptions ephemeral_dropped_witness.
Print Assumptions below_handoff_never_delivered.
Print Assumptions ephemeral_never_delivered.
Print Assumptions history_then_live_reachable.
Print Assumptions limit_reached_reachable.
Print Assumptions tail_limit_zero_delivers_one.
Print Assumptions future_last_id_not_filtered_live.
Print Assumptions main_inv.
Print Assumptions g1.
Print Assumptions stream_in_chan_or_above.
