(* Followers of the event store (Model/Conc.v) in reachable states of the LOCKED append
   protocol: ordering, scope, visibility, gap-freedom for stored frames, tail, threshold,
   limit, end of stream, synthetic frames; the known gap for ephemeral frames (by
   computation).  Stdlib only, no axioms. *)
From XS Require Import Model.Conc Proofs.ConcP.
From Coq Require Import Lia Sorting.Sorted.
From Coq Require Import ZifyN ZifyBool.

Definition scope_ok (o : fopts) (f : cfr) : bool := in_scope_c (o_ctx o) f && after_c (o_last o) f.

Definition items (fl : follower) : list item := f_got fl ++ f_out fl.

Lemma seen_items : forall fl, seen fl = reals (items fl).
Proof. reflexivity. Qed.

(* ------------------------------------------------------------------ *)
(* one follower's own steps, as a relation                            *)
(* ------------------------------------------------------------------ *)

Definition leL (L : option N) (f : cfr) : bool :=
  match L with Some l => c_id f <=? l | None => false end.

Definition start_fl (s : cstate) (fl : follower) : follower :=
  mkF (fo fl) true (f_pos fl) HNone (f_cursor fl)
      (scan_next (g_stream s) (o_ctx (fo fl)) (f_cursor fl)) None 0
      (if o_follow (fo fl) then LWaiting else LNone) 0 (o_follow (fo fl) && o_pulse (fo fl)) [] [].

Definition start_tail_fl (fl : follower) : follower :=
  mkF (fo fl) true (f_pos fl) HNone (f_cursor fl) None None 0
      (if o_follow (fo fl) then LRecvWait else LNone) 0 (o_follow (fo fl) && o_pulse (fo fl)) [] [].

Definition bump (fl : follower) : follower :=
  mkF (fo fl) (f_subscribed fl) (f_pos fl) (f_h fl) (f_cursor fl) (f_peek fl) (f_last fl)
      (f_count fl + 1) (f_l fl) (f_lcount fl) (f_hb fl) (f_out fl) (f_got fl).

Definition handoff (fl : follower) : follower :=
  mkF (fo fl) (f_subscribed fl) (f_pos fl) (HFinished true) (f_cursor fl) (f_peek fl) (f_last fl)
      (f_count fl) (f_l fl) (f_count fl) (f_hb fl) (f_out fl) (f_got fl).

Definition recv_fl (fl : follower) (f : cfr) : follower :=
  mkF (fo fl) (f_subscribed fl) (S (f_pos fl)) (f_h fl) (f_cursor fl) (f_peek fl)
      (f_last fl) (f_count fl) (LAtRecv f) (f_lcount fl) (f_hb fl) (f_out fl) (f_got fl).

Definition sent_fl (fl : follower) (n : N) : follower :=
  mkF (fo fl) (f_subscribed fl) (f_pos fl) (f_h fl) (f_cursor fl) (f_peek fl) (f_last fl)
      (f_count fl) (if n <=? f_lcount fl + 1 then LExited else LRecvWait) (f_lcount fl + 1)
      (if n <=? f_lcount fl + 1 then false else f_hb fl) (f_out fl) (f_got fl).

Definition consume_fl (fl : follower) (i : item) (r : list item) : follower :=
  mkF (fo fl) (f_subscribed fl) (f_pos fl) (f_h fl) (f_cursor fl) (f_peek fl) (f_last fl)
      (f_count fl) (f_l fl) (f_lcount fl) (f_hb fl) r (f_got fl ++ [i]).

Definition sub_fl (s : cstate) (fl : follower) : follower :=
  mkF (fo fl) true (length (g_chan s)) (f_h fl) (o_last (fo fl)) None None 0 (f_l fl) 0 false [] [].

Definition can_recv (fl : follower) : Prop :=
  (f_l fl = LWaiting /\ f_h fl = HFinished true) \/ f_l fl = LRecvWait.

Definition wants_threshold (o : fopts) : bool :=
  o_follow o && match o_limit o with None => true | Some _ => false end.

Inductive fstep (s : cstate) (fl : follower) : follower -> Prop :=
| FS_sub : f_subscribed fl = false -> fstep s fl (sub_fl s fl)
| FS_start_tail : f_subscribed fl = true -> f_h fl = HNotStarted -> o_tail (fo fl) = true ->
    fstep s fl (start_tail_fl fl)
| FS_start : f_subscribed fl = true -> f_h fl = HNotStarted -> o_tail (fo fl) = false ->
    fstep s fl (hist_advance s (start_fl s fl))
| FS_send : forall f, f_h fl = HAtSend f -> out_full fl = false ->
    fstep s fl (hist_advance s (bump (push fl (IReal f))))
| FS_thr_push : f_h fl = HAtThreshold -> wants_threshold (fo fl) = true -> out_full fl = false ->
    fstep s fl (set_h (push fl IThreshold) HAtDone)
| FS_thr_skip : f_h fl = HAtThreshold -> wants_threshold (fo fl) = false ->
    fstep s fl (set_h fl HAtDone)
| FS_done_exit : f_h fl = HAtDone -> f_l fl = LWaiting ->
    limit_reached (o_limit (fo fl)) (f_count fl) = true ->
    fstep s fl (exit_live (handoff fl))
| FS_done : f_h fl = HAtDone ->
    (f_l fl = LWaiting -> limit_reached (o_limit (fo fl)) (f_count fl) = false) ->
    fstep s fl (handoff fl)
| FS_lag : can_recv fl -> lagged s fl = true -> fstep s fl (exit_live fl)
| FS_recv : forall f, can_recv fl -> lagged s fl = false ->
    nth_error (g_chan s) (f_pos fl) = Some f -> fstep s fl (recv_fl fl f)
| FS_skip : forall f, f_l fl = LAtRecv f ->
    negb (in_scope_c (o_ctx (fo fl)) f) || leL (f_last fl) f = true ->
    fstep s fl (set_l fl LRecvWait)
| FS_deliver : forall f, f_l fl = LAtRecv f ->
    in_scope_c (o_ctx (fo fl)) f = true -> leL (f_last fl) f = false -> out_full fl = false ->
    fstep s fl (set_l (push fl (IReal f)) LAtSent)
| FS_sent_lim : forall n, f_l fl = LAtSent -> o_limit (fo fl) = Some n -> fstep s fl (sent_fl fl n)
| FS_sent : f_l fl = LAtSent -> o_limit (fo fl) = None -> fstep s fl (set_l fl LRecvWait)
| FS_pulse : f_hb fl = true -> out_full fl = false -> fstep s fl (push fl IPulse)
| FS_consume : forall i r, f_out fl = i :: r -> fstep s fl (consume_fl fl i r).

Lemma follower_fstep : forall s l s', follower_step s l = Some s' ->
  exists k fl fl', nth_error (g_fs s) k = Some fl /\ fstep s fl fl' /\ s' = set_f s k fl'.
Proof.
  intros s l s' H.
  destruct l as [w|w|w|w|p|k|k|k|k|k|k]; cbn [follower_step] in H; try discriminate H;
    (destruct (nth_error (g_fs s) k) as [fl|] eqn:Ek; [|discriminate H]);
    exists k, fl.
  - (* subscribe *)
    destruct (f_subscribed fl) eqn:Es; [discriminate H|]. inversion H; subst s'.
    eexists. split; [exact Ek|]. split; [|reflexivity]. apply FS_sub. exact Es.
  - (* start *)
    destruct (f_subscribed fl) eqn:Es; [|discriminate H].
    destruct (f_h fl) eqn:Eh; try discriminate H.
    destruct (o_tail (fo fl)) eqn:Et; inversion H; subst s'.
    + exists (start_tail_fl fl). split; [exact Ek|]. split; [|reflexivity].
      apply FS_start_tail; assumption.
    + exists (hist_advance s (start_fl s fl)). split; [exact Ek|]. split; [|reflexivity].
      apply FS_start; assumption.
  - (* hist *)
    destruct (f_h fl) eqn:Eh; try discriminate H.
    + destruct (out_full fl) eqn:Ef; [discriminate H|]. inversion H; subst s'.
      eexists. split; [exact Ek|]. split; [|reflexivity]. apply (FS_send s fl f Eh Ef).
    + fold (wants_threshold (fo fl)) in H.
      destruct (wants_threshold (fo fl)) eqn:Ew.
      * destruct (out_full fl) eqn:Ef; [discriminate H|]. inversion H; subst s'.
        eexists. split; [exact Ek|]. split; [|reflexivity]. apply FS_thr_push; assumption.
      * inversion H; subst s'.
        eexists. split; [exact Ek|]. split; [|reflexivity]. apply FS_thr_skip; assumption.
    + fold (handoff fl) in H. inversion H; subst s'; clear H.
      destruct (f_l fl) eqn:El;
        try (eexists; split; [exact Ek|]; split; [|reflexivity]; apply FS_done;
             [exact Eh|intros X; rewrite El in X; discriminate X]).
      destruct (limit_reached (o_limit (fo fl)) (f_count fl)) eqn:Elim.
      * eexists. split; [exact Ek|]. split; [|reflexivity]. apply FS_done_exit; assumption.
      * eexists. split; [exact Ek|]. split; [|reflexivity]. apply FS_done; [exact Eh|].
        intros _. exact Elim.
  - (* live *)
    fold (recv_fl fl) in H.
    assert (R : can_recv fl ->
                (if lagged s fl then Some (set_f s k (exit_live fl))
                 else match nth_error (g_chan s) (f_pos fl) with
                      | Some f => Some (set_f s k (recv_fl fl f))
                      | None => None
                      end) = Some s' ->
                exists fl', nth_error (g_fs s) k = Some fl /\ fstep s fl fl' /\ s' = set_f s k fl').
    { intros C H0. destruct (lagged s fl) eqn:Elag.
      - inversion H0; subst s'. eexists. split; [exact Ek|]. split; [|reflexivity].
        apply FS_lag; assumption.
      - destruct (nth_error (g_chan s) (f_pos fl)) as [f|] eqn:En; [|discriminate H0].
        inversion H0; subst s'. eexists. split; [exact Ek|]. split; [|reflexivity].
        apply (FS_recv s fl f); assumption. }
    destruct (f_l fl) eqn:El; try discriminate H.
    + destruct (f_h fl) as [| | | |b|] eqn:Eh; try discriminate H.
      destruct b; [|discriminate H]. rewrite <- Eh in H. apply R; [left; split; assumption|exact H].
    + apply R; [right; assumption|exact H].
    + destruct (negb (in_scope_c (o_ctx (fo fl)) f)) eqn:Ec.
      * inversion H; subst s'. eexists. split; [exact Ek|]. split; [|reflexivity].
        apply (FS_skip s fl f El). rewrite Ec. reflexivity.
      * fold (leL (f_last fl) f) in H. destruct (leL (f_last fl) f) eqn:Ele.
        -- inversion H; subst s'. eexists. split; [exact Ek|]. split; [|reflexivity].
           apply (FS_skip s fl f El). rewrite Ec, Ele. reflexivity.
        -- destruct (out_full fl) eqn:Ef; [discriminate H|]. inversion H; subst s'.
           eexists. split; [exact Ek|]. split; [|reflexivity].
           apply (FS_deliver s fl f El); try assumption.
           destruct (in_scope_c (o_ctx (fo fl)) f); [reflexivity|discriminate Ec].
    + destruct (o_limit (fo fl)) as [n|] eqn:Elim.
      * fold (sent_fl fl n) in H. inversion H; subst s'.
        eexists. split; [exact Ek|]. split; [|reflexivity]. apply FS_sent_lim; assumption.
      * inversion H; subst s'.
        eexists. split; [exact Ek|]. split; [|reflexivity]. apply FS_sent; assumption.
  - (* pulse *)
    destruct (f_hb fl) eqn:Eb; [|discriminate H].
    destruct (out_full fl) eqn:Ef; [discriminate H|]. inversion H; subst s'.
    eexists. split; [exact Ek|]. split; [|reflexivity]. apply FS_pulse; assumption.
  - (* consume *)
    destruct (f_out fl) as [|i r] eqn:Eo; [discriminate H|]. inversion H; subst s'.
    eexists. split; [exact Ek|]. split; [|reflexivity]. apply (FS_consume s fl i r Eo).
Qed.

(* ------------------------------------------------------------------ *)
(* what one step of the system does to the stream, the channel and    *)
(* one follower                                                       *)
(* ------------------------------------------------------------------ *)

Lemma nth_upd_other : forall A (l : list A) n m x,
  n <> m -> nth_error (upd n x l) m = nth_error l m.
Proof.
  induction l as [|a l IH]; intros n m x H.
  - destruct n; reflexivity.
  - destruct n as [|n]; destruct m as [|m]; cbn [upd nth_error]; try reflexivity.
    + contradiction H; reflexivity.
    + apply IH. intros X; apply H; rewrite X; reflexivity.
Qed.

Lemma assign_fs : forall s w wr s', assign s w wr = Some s' -> g_fs s' = g_fs s.
Proof.
  intros s w wr s' H. unfold assign in H. destruct (w_todo wr); [discriminate H|].
  cbv zeta in H. inversion H; subst s'. reflexivity.
Qed.

Lemma unlock_fs : forall s s', unlock s = Some s' -> g_fs s' = g_fs s.
Proof.
  intros s s' H. rewrite unlock_eq in H.
  destruct (g_locked s); [destruct (find_blocked (g_ws s)) as [b|];
                          [destruct (nth_error (g_ws s) b) as [wr|]|]|];
    try (inversion H; subst s'; reflexivity).
  apply assign_fs in H. exact H.
Qed.

Inductive grow (s s' : cstate) : Prop :=
| G_same : g_stream s' = g_stream s -> g_chan s' = g_chan s -> grow s s'
| G_commit : forall f, g_stream s' = g_stream s ++ [f] -> g_chan s' = g_chan s ->
    below (c_id f) (g_stream s) -> below (c_id f) (g_chan s) -> grow s s'
| G_bcast : forall f, g_stream s' = g_stream s -> g_chan s' = g_chan s ++ [f] ->
    below (c_id f) (g_chan s) -> grow s s'.

Lemma writer_grow : forall s l s', Inv s -> writer_step s l = Some s' ->
  g_fs s' = g_fs s /\ grow s s'.
Proof.
  intros s l s' HI H.
  destruct l as [w|w|w|w|p|k|k|k|k|k|k]; cbn [writer_step] in H; try discriminate H;
    (destruct (nth_error (g_ws s) w) as [wr|] eqn:Ew; [|discriminate H]);
    pose proof (i_ws s HI w wr Ew) as Hw; unfold wok in Hw.
  - destruct (w_st wr); try discriminate H. destruct (w_todo wr); [discriminate H|].
    destruct (lock_free s).
    + split; [exact (assign_fs _ _ _ _ H)|]. apply assign_proj in H. apply G_same; tauto.
    + destruct (find_blocked (g_ws s)); [discriminate H|]. inversion H; subst s'.
      split; [reflexivity|]. apply G_same; reflexivity.
  - destruct (w_st wr) as [| |f ok| |]; try discriminate H. destruct Hw as (L & Hn & Hs & Hc).
    destruct ok.
    + inversion H; subst s'. split; [reflexivity|]. destruct (c_eph f).
      * apply G_same; reflexivity.
      * apply (G_commit _ _ f); prj; try reflexivity; assumption.
    + split; [exact (unlock_fs _ _ H)|]. apply unlock_proj in H. apply G_same; tauto.
  - destruct (w_st wr) as [| | |f|]; try discriminate H. destruct Hw as (L & Hn & Hc).
    inversion H; subst s'. split; [reflexivity|].
    apply (G_bcast _ _ f); prj; try reflexivity; assumption.
  - destruct (w_st wr); try discriminate H.
    split; [exact (unlock_fs _ _ H)|]. apply unlock_proj in H. apply G_same; tauto.
Qed.

(* a step of the system, seen from follower k *)
Lemma cstep_follower : forall s l s' k fl, Inv s -> cstep s l = Some s' ->
  nth_error (g_fs s) k = Some fl ->
  (nth_error (g_fs s') k = Some fl /\ grow s s') \/
  (exists fl', nth_error (g_fs s') k = Some fl' /\ fstep s fl fl' /\
               g_stream s' = g_stream s /\ g_chan s' = g_chan s).
Proof.
  intros s l s' k fl HI H E.
  assert (W : writer_step s l = Some s' ->
              (nth_error (g_fs s') k = Some fl /\ grow s s') \/
              (exists fl', nth_error (g_fs s') k = Some fl' /\ fstep s fl fl' /\
                           g_stream s' = g_stream s /\ g_chan s' = g_chan s)).
  { intros X. destruct (writer_grow s l s' HI X) as [F G]. left. rewrite F. split; assumption. }
  assert (Fo : follower_step s l = Some s' ->
              (nth_error (g_fs s') k = Some fl /\ grow s s') \/
              (exists fl', nth_error (g_fs s') k = Some fl' /\ fstep s fl fl' /\
                           g_stream s' = g_stream s /\ g_chan s' = g_chan s)).
  { intros X. destruct (follower_fstep s l s' X) as (k0 & fl0 & fl' & E0 & St & Es). subst s'.
    unfold set_f; prj. destruct (PeanoNat.Nat.eq_dec k0 k) as [->|N].
    - right. exists fl'. rewrite E in E0. inversion E0; subst fl0.
      split; [exact (nth_upd_same _ _ _ _ _ E)|]. split; [exact St|]. split; reflexivity.
    - left. rewrite (nth_upd_other _ _ _ _ _ N). split; [exact E|]. apply G_same; reflexivity. }
  destruct l; cbn [cstep] in H; try exact (W H); try exact (Fo H).
  unfold poll_step in H. destruct (nth_error (g_ps s) p); [|discriminate H].
  cbv zeta in H. inversion H; subst s'. prj. left. split; [exact E|]. apply G_same; reflexivity.
Qed.

Lemma init_followers : forall s k fl, init_ok s -> nth_error (g_fs s) k = Some fl ->
  exists o, fl = init_follower o.
Proof.
  intros s k fl (next & stream & ws & fs & np & E & _) H. subst s. unfold cinit in H. prj.
  apply nth_error_In in H. apply in_map_iff in H. destruct H as (o & H & _). exists o. symmetry. exact H.
Qed.

Lemma init_stream_chan : forall s, init_ok s -> g_chan s = g_stream s.
Proof. intros s (next & stream & ws & fs & np & E & _). subst s. reflexivity. Qed.

Lemma upd_length : forall A (l : list A) n x, length (upd n x l) = length l.
Proof.
  induction l as [|a l IH]; intros n x; destruct n; cbn [upd length]; auto.
Qed.

Lemma cstep_fs_length : forall s l s', Inv s -> cstep s l = Some s' ->
  length (g_fs s') = length (g_fs s).
Proof.
  intros s l s' HI H. destruct l; cbn [cstep] in H;
    try (destruct (writer_grow _ _ _ HI H) as [F _]; rewrite F; reflexivity);
    try (destruct (follower_set _ _ _ H) as (k' & fl' & ->); unfold set_f; prj; apply upd_length).
  unfold poll_step in H. destruct (nth_error (g_ps s) p); [|discriminate H].
  cbv zeta in H. inversion H; subst s'. reflexivity.
Qed.

Lemma cstep_follower_back : forall s l s' k fl', Inv s -> cstep s l = Some s' ->
  nth_error (g_fs s') k = Some fl' -> exists fl, nth_error (g_fs s) k = Some fl.
Proof.
  intros s l s' k fl' HI H E.
  assert (L : (k < length (g_fs s))%nat).
  { rewrite <- (cstep_fs_length s l s' HI H). apply nth_error_Some. rewrite E. discriminate. }
  apply nth_error_Some in L. destruct (nth_error (g_fs s) k) as [fl|]; [exists fl; reflexivity|].
  contradiction L; reflexivity.
Qed.

(* induction principle for per-follower invariants that may mention the state *)
Theorem follower_ind : forall (P : cstate -> follower -> Prop),
  (forall s o, init_ok s -> P s (init_follower o)) ->
  (forall s s' k fl, reach s -> reach s' -> grow s s' -> nth_error (g_fs s) k = Some fl ->
                     P s fl -> P s' fl) ->
  (forall s s' k fl fl', reach s -> reach s' -> g_stream s' = g_stream s -> g_chan s' = g_chan s ->
                         nth_error (g_fs s) k = Some fl -> fstep s fl fl' -> P s fl -> P s' fl') ->
  forall s k fl, reach s -> nth_error (g_fs s) k = Some fl -> P s fl.
Proof.
  intros P H0 Hg Hf.
  assert (A : forall sched s s', reach s ->
                (forall k fl, nth_error (g_fs s) k = Some fl -> P s fl) ->
                crun s sched = Some s' ->
                forall k fl, nth_error (g_fs s') k = Some fl -> P s' fl).
  { induction sched as [|l r IH]; intros s s' R HP H k fl E; cbn [crun] in H.
    - inversion H; subst s'. exact (HP k fl E).
    - destruct (cstep s l) as [s1|] eqn:E1; [|discriminate H].
      pose proof (reach_step s l s1 R E1) as R1. pose proof (reach_inv s R) as HI.
      apply (IH s1 s' R1) with (k := k); [|exact H|exact E]. clear k fl E. intros k fl E.
      destruct (cstep_follower_back s l s1 k fl HI E1 E) as [fl0 E0].
      destruct (cstep_follower s l s1 k fl0 HI E1 E0) as [[E2 G]|(fl' & E2 & St & Es & Ec)].
      + rewrite E in E2. inversion E2; subst fl0.
        exact (Hg s s1 k fl R R1 G E0 (HP k fl E0)).
      + rewrite E in E2. inversion E2; subst fl'.
        exact (Hf s s1 k fl0 fl R R1 Es Ec E0 St (HP k fl0 E0)). }
  intros s k fl R E. pose proof R as R'. destruct R' as (s0 & sched & I0 & H).
  apply (A sched s0 s) with (k := k); [| |exact H|exact E].
  - exists s0, []. split; [exact I0|reflexivity].
  - intros k0 fl0 E0. destruct (init_followers s0 k0 fl0 I0 E0) as [o ->]. apply H0. exact I0.
Qed.

(* the same for invariants that only mention the follower *)
Corollary follower_ind_local : forall (P : follower -> Prop),
  (forall o, P (init_follower o)) ->
  (forall s k fl fl', reach s -> nth_error (g_fs s) k = Some fl -> fstep s fl fl' -> P fl -> P fl') ->
  forall s k fl, reach s -> nth_error (g_fs s) k = Some fl -> P fl.
Proof.
  intros P H0 Hf s k fl R E.
  apply (follower_ind (fun _ fl => P fl)) with (s := s) (k := k); try assumption.
  - intros s0 o _. apply H0.
  - intros; assumption.
  - intros s0 s' k0 fl0 fl' R0 _ _ _ E0 St X. exact (Hf s0 k0 fl0 fl' R0 E0 St X).
Qed.

(* ------------------------------------------------------------------ *)
(* projections                                                        *)
(* ------------------------------------------------------------------ *)

Ltac fprj :=
  cbn [fo f_subscribed f_pos f_h f_cursor f_peek f_last f_count f_l f_lcount f_hb f_out f_got
       push set_h set_l exit_live bump handoff recv_fl sent_fl consume_fl sub_fl start_fl
       start_tail_fl init_follower].
Ltac fprj_in H :=
  cbn [fo f_subscribed f_pos f_h f_cursor f_peek f_last f_count f_l f_lcount f_hb f_out f_got
       push set_h set_l exit_live bump handoff recv_fl sent_fl consume_fl sub_fl start_fl
       start_tail_fl init_follower] in H.

Lemma hadv_cases : forall s fl,
  (exists g, f_peek fl = Some g /\ limit_reached (o_limit (fo fl)) (f_count fl) = true /\
     hist_advance s fl =
     mkF (fo fl) (f_subscribed fl) (f_pos fl) (HFinished false) (Some (c_id g))
         (scan_next (g_stream s) (o_ctx (fo fl)) (Some (c_id g))) (Some (c_id g))
         (f_count fl) (match f_l fl with LNone => LNone | _ => LExited end) (f_lcount fl)
         false (f_out fl) (f_got fl)) \/
  (exists g, f_peek fl = Some g /\ limit_reached (o_limit (fo fl)) (f_count fl) = false /\
     hist_advance s fl =
     mkF (fo fl) (f_subscribed fl) (f_pos fl) (HAtSend g) (Some (c_id g))
         (scan_next (g_stream s) (o_ctx (fo fl)) (Some (c_id g))) (Some (c_id g))
         (f_count fl) (f_l fl) (f_lcount fl) (f_hb fl) (f_out fl) (f_got fl)) \/
  (f_peek fl = None /\
     hist_advance s fl =
     mkF (fo fl) (f_subscribed fl) (f_pos fl) HAtThreshold (f_cursor fl) None (f_last fl)
         (f_count fl) (f_l fl) (f_lcount fl) (f_hb fl) (f_out fl) (f_got fl)).
Proof.
  intros s fl. unfold hist_advance. destruct (f_peek fl) as [g|].
  - destruct (limit_reached (o_limit (fo fl)) (f_count fl)).
    + left. exists g. repeat split.
    + right. left. exists g. repeat split.
  - right. right. split; reflexivity.
Qed.

Lemma items_push : forall fl i, items (push fl i) = items fl ++ [i].
Proof. intros fl i. unfold items. fprj. apply app_assoc. Qed.

Lemma items_consume : forall fl i r, f_out fl = i :: r -> items (consume_fl fl i r) = items fl.
Proof. intros fl i r H. unfold items. fprj. rewrite H, <- app_assoc. reflexivity. Qed.

Lemma reals_app : forall a b, reals (a ++ b) = reals a ++ reals b.
Proof. intros a b. unfold reals. apply flat_map_app. Qed.

(* ------------------------------------------------------------------ *)
(* shape: which combinations of thread states occur                   *)
(* ------------------------------------------------------------------ *)

Definition Shape (fl : follower) : Prop :=
  (f_l fl = LExited -> f_hb fl = false) /\
  (f_hb fl = true -> o_follow (fo fl) = true /\ o_pulse (fo fl) = true) /\
  (f_l fl <> LNone -> o_follow (fo fl) = true) /\
  match f_h fl with
  | HNotStarted => f_l fl = LNone /\ f_hb fl = false /\ items fl = [] /\ f_count fl = 0 /\ f_last fl = None /\
                   (f_subscribed fl = true -> f_cursor fl = o_last (fo fl))
  | HAtSend _ | HAtThreshold | HAtDone =>
      (f_l fl = LWaiting \/ f_l fl = LNone) /\ o_tail (fo fl) = false /\ f_subscribed fl = true
  | HFinished false =>
      (f_l fl = LExited \/ f_l fl = LNone) /\ f_hb fl = false /\ o_tail (fo fl) = false /\ f_subscribed fl = true
  | HFinished true => o_tail (fo fl) = false /\ f_subscribed fl = true
  | HNone => o_tail (fo fl) = true /\ f_l fl <> LWaiting /\ f_last fl = None /\ f_count fl = 0 /\
             f_subscribed fl = true
  end.

Lemma shape_step : forall s fl fl', fstep s fl fl' -> Shape fl -> Shape fl'.
Proof.
  intros s fl fl' St (Hx & Hb & Hn & Hh).
  inversion St; subst fl'; clear St; unfold Shape.
  all: try match goal with C : can_recv _ |- _ => destruct C as [[El Eh]|El] end.
  all: try match goal with
       | |- context [hist_advance ?s0 ?x] =>
           destruct (hadv_cases s0 x) as [(g & Ep & Elim & ->)|[(g & Ep & Elim & ->)|(Ep & ->)]]
       end; fprj.
  all: repeat match goal with
       | E : f_h _ = _ |- _ => rewrite E in *
       | E : f_l _ = _ |- _ => rewrite E in *
       end; cbv beta iota in Hh.
  all: try match goal with |- context [f_h ?x] => destruct (f_h x) as [| | | |[|]|]; try discriminate end.
  all: try match goal with |- context [if o_follow ?x then _ else _] => destruct (o_follow x) end.
  all: try match goal with |- context [if ?n <=? ?m then _ else _] => destruct (n <=? m) end.
  all: try match goal with |- context [match f_l ?x with _ => _ end] => destruct (f_l x) end.
  all: try rewrite items_push; try (rewrite items_consume by assumption).
  all: try solve [intuition (try discriminate; try congruence)].
Qed.

Theorem shape : forall s k fl, reach s -> nth_error (g_fs s) k = Some fl -> Shape fl.
Proof.
  apply (follower_ind_local Shape).
  - intros o. unfold Shape. fprj. unfold items. fprj. cbn [app].
    intuition (try discriminate; try congruence).
  - intros s k fl fl' _ _ St H. exact (shape_step s fl fl' St H).
Qed.

Lemma fo_hadv : forall s fl, fo (hist_advance s fl) = fo fl.
Proof.
  intros s fl. destruct (hadv_cases s fl) as [(g & _ & _ & ->)|[(g & _ & _ & ->)|(_ & ->)]]; reflexivity.
Qed.

Lemma items_hadv : forall s fl, items (hist_advance s fl) = items fl.
Proof.
  intros s fl. destruct (hadv_cases s fl) as [(g & _ & _ & ->)|[(g & _ & _ & ->)|(_ & ->)]]; reflexivity.
Qed.

Lemma fo_step : forall s fl fl', fstep s fl fl' -> fo fl' = fo fl.
Proof.
  intros s fl fl' St. inversion St; subst fl'; rewrite ?fo_hadv; reflexivity.
Qed.

(* what a step does to the sequence of delivered items *)
Lemma items_step : forall s fl fl', fstep s fl fl' ->
  items fl' = items fl \/
  ((f_subscribed fl = false \/ f_h fl = HNotStarted) /\ items fl' = []) \/
  (exists f, f_h fl = HAtSend f /\ items fl' = items fl ++ [IReal f]) \/
  (exists f, f_l fl = LAtRecv f /\ in_scope_c (o_ctx (fo fl)) f = true /\ leL (f_last fl) f = false /\
             items fl' = items fl ++ [IReal f]) \/
  (f_h fl = HAtThreshold /\ wants_threshold (fo fl) = true /\ items fl' = items fl ++ [IThreshold]) \/
  (f_hb fl = true /\ items fl' = items fl ++ [IPulse]).
Proof.
  intros s fl fl' St. inversion St; subst fl'; rewrite ?items_hadv.
  - right; left; split; [left; assumption|reflexivity].
  - right; left; split; [right; assumption|reflexivity].
  - right; left; split; [right; assumption|reflexivity].
  - right; right; left. exists f. split; [assumption|]. apply (items_push fl (IReal f)).
  - right; right; right; right; left. split; [assumption|]. split; [assumption|].
    apply (items_push fl IThreshold).
  - left; reflexivity.
  - left; reflexivity.
  - left; reflexivity.
  - left; reflexivity.
  - left; reflexivity.
  - left; reflexivity.
  - right; right; right; left. exists f. repeat (split; [assumption|]). apply (items_push fl (IReal f)).
  - left; reflexivity.
  - left; reflexivity.
  - right; right; right; right; right. split; [assumption|]. apply items_push.
  - left. apply items_consume. assumption.
Qed.

(* ------------------------------------------------------------------ *)
(* F9: synthetic items only when asked for                            *)
(* ------------------------------------------------------------------ *)

Definition Synth (fl : follower) : Prop :=
  (In IPulse (items fl) -> o_pulse (fo fl) = true /\ o_follow (fo fl) = true) /\
  (In IThreshold (items fl) ->
   o_follow (fo fl) = true /\ o_tail (fo fl) = false /\ o_limit (fo fl) = None).

Lemma wants_threshold_spec : forall o, wants_threshold o = true ->
  o_follow o = true /\ o_limit o = None.
Proof.
  intros o H. unfold wants_threshold in H. apply andb_true_iff in H. destruct H as [A B].
  split; [exact A|]. destruct (o_limit o); [discriminate B|reflexivity].
Qed.

Lemma synth : forall s k fl, reach s -> nth_error (g_fs s) k = Some fl -> Synth fl.
Proof.
  apply (follower_ind_local Synth).
  - intros o. split; intros H; destruct H.
  - intros s k fl fl' R E St [Hp Ht]. pose proof (shape s k fl R E) as (_ & Hb & _ & Hh).
    unfold Synth. rewrite (fo_step s fl fl' St).
    destruct (items_step s fl fl' St) as [X|[(_ & X)|[(f & _ & X)|[(f & _ & _ & _ & X)|[(Eh & W & X)|(Eb & X)]]]]];
      rewrite X; split; intros H; try (apply in_app_or in H; destruct H as [H|[H|[]]]);
      try discriminate H; try (destruct H; fail); auto.
    + apply wants_threshold_spec in W. rewrite Eh in Hh. destruct Hh as (_ & T & _). tauto.
    + apply Hb in Eb. tauto.
Qed.

Theorem pulse_only_if_asked : forall s k fl, reach s -> nth_error (g_fs s) k = Some fl ->
  In IPulse (f_got fl ++ f_out fl) -> o_pulse (fo fl) = true /\ o_follow (fo fl) = true.
Proof. intros s k fl R E. exact (proj1 (synth s k fl R E)). Qed.

Theorem threshold_only_if_following : forall s k fl, reach s -> nth_error (g_fs s) k = Some fl ->
  In IThreshold (f_got fl ++ f_out fl) ->
  o_follow (fo fl) = true /\ o_tail (fo fl) = false /\ o_limit (fo fl) = None.
Proof. intros s k fl R E. exact (proj2 (synth s k fl R E)). Qed.

(* ------------------------------------------------------------------ *)
(* F8 (first part): the heartbeat ends with the live task             *)
(* ------------------------------------------------------------------ *)

Theorem exited_is_final : forall s k fl, reach s -> nth_error (g_fs s) k = Some fl ->
  f_l fl = LExited -> f_hb fl = false.
Proof. intros s k fl R E. exact (proj1 (shape s k fl R E)). Qed.

(* ------------------------------------------------------------------ *)
(* seen under the step constructors                                   *)
(* ------------------------------------------------------------------ *)

Lemma seen_hadv : forall s fl, seen (hist_advance s fl) = seen fl.
Proof. intros s fl. rewrite !seen_items, items_hadv. reflexivity. Qed.
Lemma seen_push_real : forall fl f, seen (push fl (IReal f)) = seen fl ++ [f].
Proof. intros fl f. rewrite !seen_items, items_push, reals_app. reflexivity. Qed.
Lemma seen_push_thr : forall fl, seen (push fl IThreshold) = seen fl.
Proof. intros fl. rewrite !seen_items, items_push, reals_app. apply app_nil_r. Qed.
Lemma seen_push_pulse : forall fl, seen (push fl IPulse) = seen fl.
Proof. intros fl. rewrite !seen_items, items_push, reals_app. apply app_nil_r. Qed.
Lemma seen_consume : forall fl i r, f_out fl = i :: r -> seen (consume_fl fl i r) = seen fl.
Proof. intros fl i r H. rewrite !seen_items, items_consume by exact H. reflexivity. Qed.
Lemma seen_set_l : forall fl x, seen (set_l fl x) = seen fl.  Proof. reflexivity. Qed.
Lemma seen_set_h : forall fl x, seen (set_h fl x) = seen fl.  Proof. reflexivity. Qed.
Lemma seen_exit : forall fl, seen (exit_live fl) = seen fl.  Proof. reflexivity. Qed.
Lemma seen_handoff : forall fl, seen (handoff fl) = seen fl.  Proof. reflexivity. Qed.
Lemma seen_recv : forall fl f, seen (recv_fl fl f) = seen fl.  Proof. reflexivity. Qed.
Lemma seen_sent : forall fl n, seen (sent_fl fl n) = seen fl.  Proof. reflexivity. Qed.
Lemma seen_bump : forall fl, seen (bump fl) = seen fl.  Proof. reflexivity. Qed.
Lemma seen_sub : forall s fl, seen (sub_fl s fl) = [].  Proof. reflexivity. Qed.
Lemma seen_start : forall s fl, seen (start_fl s fl) = [].  Proof. reflexivity. Qed.
Lemma seen_start_tail : forall fl, seen (start_tail_fl fl) = [].  Proof. reflexivity. Qed.

Ltac seen_rw :=
  rewrite ?seen_hadv, ?seen_bump, ?seen_set_l, ?seen_set_h, ?seen_exit, ?seen_handoff, ?seen_recv,
          ?seen_sent, ?seen_sub, ?seen_start, ?seen_start_tail, ?seen_push_real, ?seen_push_thr,
          ?seen_push_pulse.

(* ------------------------------------------------------------------ *)
(* F7: the limit                                                      *)
(* ------------------------------------------------------------------ *)

Definition Cnt (fl : follower) : Prop :=
  forall n, o_limit (fo fl) = Some n -> (o_tail (fo fl) = false \/ n <> 0) ->
  match f_h fl with
  | HNotStarted => N.of_nat (length (seen fl)) = 0
  | HAtSend _ => N.of_nat (length (seen fl)) = f_count fl /\ f_count fl < n
  | HAtThreshold | HAtDone | HFinished false =>
      N.of_nat (length (seen fl)) = f_count fl /\ f_count fl <= n
  | HFinished true | HNone =>
      match f_l fl with
      | LWaiting | LRecvWait | LAtRecv _ => N.of_nat (length (seen fl)) = f_lcount fl /\ f_lcount fl < n
      | LAtSent => N.of_nat (length (seen fl)) = f_lcount fl + 1 /\ f_lcount fl < n
      | LExited | LNone => N.of_nat (length (seen fl)) <= n
      end
  end.

Ltac split_all := repeat match goal with
  | H : _ /\ _ |- _ => destruct H
  | H : _ \/ _ |- _ => destruct H
  end.

Lemma cnt_step : forall s fl fl', fstep s fl fl' -> Shape fl -> Cnt fl -> Cnt fl'.
Proof.
  intros s fl fl' St (Hx & Hb & Hn & Hh) HC n Elim Hnz.
  rewrite (fo_step s fl fl' St) in Elim, Hnz. specialize (HC n Elim Hnz).
  inversion St; subst fl'; clear St.
  all: try (rewrite seen_consume by assumption).
  all: seen_rw.
  all: try match goal with C : can_recv _ |- _ => destruct C as [[El Eh]|El] end.
  all: try match goal with
       | |- context [hist_advance ?s0 ?x] =>
           let Ep := fresh "Ep" in let Elr := fresh "Elr" in
           destruct (hadv_cases s0 x) as [(g & Ep & Elr & ->)|[(g & Ep & Elr & ->)|(Ep & ->)]];
           [fprj_in Elr; rewrite Elim in Elr; unfold limit_reached in Elr
           |fprj_in Elr; rewrite Elim in Elr; unfold limit_reached in Elr|]
       end; fprj.
  all: try match goal with E : limit_reached _ _ = _ |- _ => rewrite Elim in E; unfold limit_reached in E end.
  all: try match goal with E : f_l _ = LWaiting -> limit_reached _ _ = _ |- _ =>
             rewrite Elim in E; unfold limit_reached in E end.
  all: try match goal with E : wants_threshold _ = true |- _ =>
             apply wants_threshold_spec in E; destruct E as [_ E]; rewrite E in Elim; discriminate Elim end.
  all: try match goal with E : o_limit _ = None |- _ => rewrite E in Elim; discriminate Elim end.
  all: repeat match goal with
       | E : f_h _ = _ |- _ => rewrite E in *
       | E : f_l _ = _ |- _ => rewrite E in *
       end; cbv beta iota in Hh; cbv beta iota in HC.
  all: try (rewrite seen_consume by assumption).
  all: repeat match goal with |- context [seen ?x] =>
         progress (change (seen x) with (@nil cfr)) end.
  all: seen_rw.
  all: try match goal with |- context [f_h ?x] => destruct (f_h x) as [| | | |[|]|] eqn:Eh'; try discriminate end.
  all: cbv beta iota in Hh; cbv beta iota in HC.
  all: try match goal with |- context [if o_follow ?x then _ else _] => destruct (o_follow x) end.
  all: try match goal with E : o_limit _ = Some ?m |- context [if ?m <=? ?c then _ else _] =>
             rewrite E in Elim; inversion Elim; subst m; destruct (n <=? c) eqn:Ele end.
  all: try match goal with |- context [match f_l ?x with _ => _ end] => destruct (f_l x) eqn:El' end.
  all: cbv beta iota in HC.
  all: try rewrite app_length; cbn [length].
  all: split_all; try discriminate; try congruence.
  all: try lia.
  all: try (split; lia).
Qed.

Theorem cnt : forall s k fl, reach s -> nth_error (g_fs s) k = Some fl -> Cnt fl.
Proof.
  apply (follower_ind_local Cnt).
  - intros o n _ _. reflexivity.
  - intros s k fl fl' R E St H. exact (cnt_step s fl fl' St (shape s k fl R E) H).
Qed.

Theorem limit_exact : forall s k fl n, reach s -> nth_error (g_fs s) k = Some fl ->
  o_limit (fo fl) = Some n -> (o_tail (fo fl) = false \/ n <> 0) ->
  (length (seen fl) <= N.to_nat n)%nat.
Proof.
  intros s k fl n R E L Hnz. pose proof (cnt s k fl R E n L Hnz) as H.
  destruct (f_h fl) as [| | | |[|]|]; try (destruct (f_l fl)); lia.
Qed.

(* a property of follower k that is preserved by its own steps is preserved by schedules *)
Lemma crun_stable : forall (A : Type) (obs : follower -> A) (Q : follower -> Prop),
  (forall s k fl fl', reach s -> nth_error (g_fs s) k = Some fl -> fstep s fl fl' -> Q fl ->
                      Q fl' /\ obs fl' = obs fl) ->
  forall sched s s' k fl fl', reach s -> crun s sched = Some s' ->
    nth_error (g_fs s) k = Some fl -> nth_error (g_fs s') k = Some fl' -> Q fl ->
    Q fl' /\ obs fl' = obs fl.
Proof.
  intros A obs Q HS. induction sched as [|l r IH]; intros s s' k fl fl' R H E E' HQ; cbn [crun] in H.
  - inversion H; subst s'. rewrite E in E'. inversion E'; subst fl'. split; [exact HQ|reflexivity].
  - destruct (cstep s l) as [s1|] eqn:E1; [|discriminate H].
    pose proof (reach_step s l s1 R E1) as R1.
    destruct (cstep_follower s l s1 k fl (reach_inv s R) E1 E) as [[E2 _]|(fl1 & E2 & St & _)].
    + exact (IH s1 s' k fl fl' R1 H E2 E' HQ).
    + destruct (HS s k fl fl1 R E St HQ) as [Q1 O1].
      destruct (IH s1 s' k fl1 fl' R1 H E2 E' Q1) as [Q2 O2]. split; [exact Q2|]. congruence.
Qed.

Theorem exited_no_more : forall s k fl, reach s -> nth_error (g_fs s) k = Some fl ->
  f_l fl = LExited ->
  (f_h fl = HFinished true \/ f_h fl = HFinished false \/ f_h fl = HNone) ->
  forall sched s' fl', crun s sched = Some s' -> nth_error (g_fs s') k = Some fl' ->
  f_got fl' ++ f_out fl' = f_got fl ++ f_out fl.
Proof.
  intros s k fl R E El Eh sched s' fl' H E'.
  apply (crun_stable _ items
           (fun fl => f_l fl = LExited /\
                      (f_h fl = HFinished true \/ f_h fl = HFinished false \/ f_h fl = HNone)))
    with (sched := sched) (s := s) (s' := s') (k := k); try assumption; [|split; assumption].
  clear. intros s k fl fl' R E St [El Eh]. pose proof (shape s k fl R E) as (Hx & Hb & Hn & Hh).
  specialize (Hx El).
  inversion St; subst fl'; fprj;
    try match goal with C : can_recv _ |- _ => destruct C as [[C _]|C] end;
    try congruence;
    try (exfalso; destruct Eh as [Eh|[Eh|Eh]]; rewrite Eh in Hh; cbv beta iota in Hh; split_all; congruence);
    try (exfalso; destruct Eh as [Eh|[Eh|Eh]]; congruence).
  split; [split; assumption|]. apply items_consume. assumption.
Qed.

(* ------------------------------------------------------------------ *)
(* the scan: least in-scope committed frame above the cursor          *)
(* ------------------------------------------------------------------ *)

Definition sok (c cur : option N) (f : cfr) : bool := in_scope_c c f && after_c cur f.

Definition scanF (c cur : option N) (best : option cfr) (f : cfr) : option cfr :=
  if in_scope_c c f && after_c cur f then
    match best with
    | Some b => if c_id f <? c_id b then Some f else best
    | None => Some f
    end
  else best.

Lemma scan_next_fold : forall st c cur, scan_next st c cur = fold_left (scanF c cur) st None.
Proof. reflexivity. Qed.

Lemma scan_fold : forall c cur st best,
  (forall b, best = Some b -> sok c cur b = true) ->
  match fold_left (scanF c cur) st best with
  | Some r => sok c cur r = true /\ (best = Some r \/ In r st) /\
              (forall b, best = Some b -> c_id r <= c_id b) /\
              (forall x, In x st -> sok c cur x = true -> c_id r <= c_id x)
  | None => best = None /\ forall x, In x st -> sok c cur x = false
  end.
Proof.
  intros c cur. induction st as [|a st IH]; intros best Hb; cbn [fold_left].
  - destruct best as [b|].
    + split; [apply Hb; reflexivity|]. split; [left; reflexivity|]. split.
      * intros b0 E. inversion E; subst. lia.
      * intros x [].
    + split; [reflexivity|]. intros x [].
  - assert (Hb' : forall b, scanF c cur best a = Some b -> sok c cur b = true).
    { intros b E. unfold scanF in E. fold (sok c cur a) in E.
      destruct (sok c cur a) eqn:Ea.
      - destruct best as [b0|].
        + destruct (c_id a <? c_id b0); inversion E; subst; [exact Ea|apply Hb; reflexivity].
        + inversion E; subst. exact Ea.
      - apply Hb. exact E. }
    specialize (IH (scanF c cur best a) Hb').
    destruct (fold_left (scanF c cur) st (scanF c cur best a)) as [r|].
    + destruct IH as (A & B & C & D). split; [exact A|].
      unfold scanF in B, C. fold (sok c cur a) in B, C.
      destruct (sok c cur a) eqn:Ea.
      * destruct best as [b0|].
        -- destruct (c_id a <? c_id b0) eqn:Elt.
           ++ split; [destruct B as [B|B]; [inversion B; subst; right; left; reflexivity|right; right; exact B]|].
              split.
              ** intros b E. inversion E; subst. specialize (C a eq_refl). lia.
              ** intros x [X|X] Sx; [subst; apply C; reflexivity|exact (D x X Sx)].
           ++ split; [destruct B as [B|B]; [left; exact B|right; right; exact B]|].
              split; [exact C|].
              intros x [X|X] Sx; [subst; specialize (C b0 eq_refl); lia|exact (D x X Sx)].
        -- split; [destruct B as [B|B]; [inversion B; subst; right; left; reflexivity|right; right; exact B]|].
           split; [intros b E; discriminate E|].
           intros x [X|X] Sx; [subst; apply C; reflexivity|exact (D x X Sx)].
      * split; [destruct B as [B|B]; [left; exact B|right; right; exact B]|].
        split; [exact C|].
        intros x [X|X] Sx; [subst; rewrite Ea in Sx; discriminate Sx|exact (D x X Sx)].
    + destruct IH as [A B]. unfold scanF in A. fold (sok c cur a) in A.
      destruct (sok c cur a) eqn:Ea.
      * destruct best as [b0|]; [destruct (c_id a <? c_id b0)|]; discriminate A.
      * split; [exact A|]. intros x [X|X]; [subst; exact Ea|exact (B x X)].
Qed.

Lemma scan_next_some : forall st c cur r, scan_next st c cur = Some r ->
  In r st /\ sok c cur r = true /\ forall x, In x st -> sok c cur x = true -> c_id r <= c_id x.
Proof.
  intros st c cur r H. rewrite scan_next_fold in H.
  pose proof (scan_fold c cur st None) as F. rewrite H in F.
  destruct F as (A & B & _ & D); [intros b E; discriminate E|].
  split; [destruct B as [B|B]; [discriminate B|exact B]|]. split; assumption.
Qed.

Lemma scan_next_none : forall st c cur, scan_next st c cur = None ->
  forall x, In x st -> sok c cur x = false.
Proof.
  intros st c cur H. rewrite scan_next_fold in H.
  pose proof (scan_fold c cur st None) as F. rewrite H in F.
  destruct F as [_ B]; [intros b E; discriminate E|]. exact B.
Qed.
