(* Properties of the HTTP front-end model (Model/Http.v) over the store model. *)
From XS Require Import Model.Http Proofs.AppendP.
From Coq Require Import Lia.
From XS Require Import Proofs.BytesP.

(* ---------------------------------------------------------------------------- *)
(* store-level facts used below *)

Lemma insert_frame_err_unchanged s f e s' : insert_frame s f = (Err e, s') -> s' = s.
Proof.
  unfold insert_frame, insert_frame_gen.
  destruct (has_nul (f_topic f)); intros H; inversion H; reflexivity.
Qed.

Lemma remove_err_unchanged s j e s' : remove s j = (Err e, s') -> s' = s.
Proof.
  unfold remove. destruct (get s j) as [f|].
  - destruct (has_nul (f_topic f)); intros H; inversion H; reflexivity.
  - intros H; inversion H.
Qed.

Lemma append_ok_hash s i f0 f s' : append s i f0 = (Ok f, s') -> f_hash f = f_hash f0.
Proof.
  unfold append. cbn [f_topic f_ctx f_ttl f_hash f_meta f_id].
  destruct (is_ctx_topic (f_topic f0)).
  - destruct (f_ctx f0 =? 0).
    + cbn [f_topic f_ctx f_ttl f_hash f_meta f_id].
      destruct (has_nul (f_topic f0)); intros H; inversion H; reflexivity.
    + intros H; inversion H.
  - destruct (mem (f_ctx f0) (s_ctxs s)).
    + cbn [f_topic f_ctx f_ttl f_hash f_meta f_id].
      destruct (has_nul (f_topic f0)); intros H; inversion H; reflexivity.
    + intros H; inversion H.
Qed.

(* the ttl the handler passes to the store *)
Definition http_ttl (t : qttl) : ttl := match t with TOk x => x | _ => Forever end.
Definition http_meta (m : hmeta) : option bytes := match m with MOk j => Some j | _ => None end.
Definition http_hash (body bh : bytes) : option bytes := if is_nil body then None else Some bh.
Definition http_cas (body bh : bytes) (c : cas) : cas :=
  if is_nil body then c else cas_put bh body c.

(* ---------------------------------------------------------------------------- *)
(* H1 totality *)

Ltac split_matches :=
  repeat match goal with
         | |- context [match ?x with _ => _ end] => destruct x eqn:?
         end.

Theorem handle_total : forall st i r, exists status b st', handle true st i r = (HResp status b, st').
Proof.
  intros st i r. unfold handle. cbv zeta.
  destruct r; split_matches; eauto.
Qed.

Theorem hrun_total : forall rs st, Forall (fun resp => resp <> HDropped) (fst (hrun true st rs)).
Proof.
  induction rs as [|[i r] rs IH]; intros st; cbn [hrun].
  - constructor.
  - destruct (handle_total st i r) as (status & b & st' & H). rewrite H.
    specialize (IH st'). destruct (hrun true st' rs) as [l st''].
    cbn [fst] in *. constructor; [discriminate | exact IH].
Qed.

(* every request in a sequence is answered: as many responses as requests *)
Theorem hrun_length : forall fixed rs st, length (fst (hrun fixed st rs)) = length rs.
Proof.
  induction rs as [|[i r] rs IH]; intros st; cbn [hrun]; [reflexivity|].
  destruct (handle fixed st i r) as [resp st']. specialize (IH st').
  destruct (hrun fixed st' rs) as [l st'']. cbn [fst length] in *. now rewrite IH.
Qed.

(* ---------------------------------------------------------------------------- *)
(* H2 errors are pure *)

Theorem handle_error_pure : forall st i r status b st',
  handle true st i r = (HResp status b, st') -> 400 <= status -> h_store st' = h_store st.
Proof.
  intros st i r status b st' H Hs. unfold handle in H. cbv zeta in H.
  destruct r.
  - (* version *) inversion H; subst; lia.
  - (* cat *)
    destruct opts as [[[l lim] c]|].
    + destruct (read_hist (h_store st) l lim c). inversion H; subst; lia.
    + inversion H; reflexivity.
  - (* append *)
    destruct (ctx_of c) as [cx|]; [|inversion H; reflexivity].
    assert (G : forall meta,
      match append (h_store st) i
              (mkFrame 0 cx topic (if is_nil body then None else Some bh) meta
                 (match t with TOk x => Some x | _ => Some Forever end)) with
      | (Ok f, s') => (HResp 200 (BFrame f), mkH s' (if is_nil body then h_cas st else cas_put bh body (h_cas st)))
      | (Err _, s') => (HResp 400 BText, mkH s' (if is_nil body then h_cas st else cas_put bh body (h_cas st)))
      end = (HResp status b, st') -> h_store st' = h_store st).
    { clear H. intros meta. destruct (append _ _ _) as [[f|e] s'] eqn:E; intros H'; inversion H'; subst.
      - lia.
      - cbn [h_store]. eapply append_err_unchanged; eassumption. }
    destruct t; destruct m; try (inversion H; reflexivity); try (apply G in H; exact H).
  - (* get *)
    destruct i0; try (inversion H; reflexivity).
    destruct (get (h_store st) i0); inversion H; reflexivity.
  - (* remove *)
    destruct i0; try (inversion H; reflexivity).
    destruct (remove (h_store st) i0) as [[u|e] s'] eqn:E; inversion H; subst.
    + lia.
    + cbn [h_store]. eapply remove_err_unchanged; eassumption.
  - (* head *)
    destruct (ctx_of c) as [cx|]; [|inversion H; reflexivity].
    destruct (head (h_store st) topic cx); inversion H; reflexivity.
  - (* cas get *)
    destruct h as [h|]; [|inversion H; reflexivity].
    destruct (cas_get h (h_cas st)); inversion H; reflexivity.
  - (* cas post *)
    destruct (is_nil body); inversion H; reflexivity.
  - (* import *)
    destruct f as [f|]; [|inversion H; reflexivity].
    destruct (insert_frame (h_store st) f) as [[u|e] s'] eqn:E; inversion H; subst.
    + lia.
    + cbn [h_store]. eapply insert_frame_err_unchanged; eassumption.
  - inversion H; reflexivity.
Qed.

(* ---------------------------------------------------------------------------- *)
(* H3 faithfulness *)

(* the append route as one equation: whatever the store answers *)
Lemma faithful_append : forall st i topic c cx t m body bh,
  ctx_of c = Some cx -> t <> TBad -> (m = MAbsent \/ exists j, m = MOk j) ->
  handle true st i (RAppend topic c t m body bh) =
  (match fst (append (h_store st) i
                (mkFrame 0 cx topic (http_hash body bh) (http_meta m) (Some (http_ttl t)))) with
   | Ok f => HResp 200 (BFrame f)
   | Err _ => HResp 400 BText
   end,
   mkH (snd (append (h_store st) i
               (mkFrame 0 cx topic (http_hash body bh) (http_meta m) (Some (http_ttl t)))))
       (http_cas body bh (h_cas st))).
Proof.
  intros st i topic c cx t m body bh Hc Ht Hm.
  unfold handle. cbv zeta. rewrite Hc. unfold http_hash, http_meta, http_ttl, http_cas.
  destruct t; [| |congruence];
    (destruct Hm as [->|[j ->]];
     match goal with |- context [append ?a ?b ?c] => destruct (append a b c) as [[f|e] s'] end;
     reflexivity).
Qed.

Theorem faithful_append_ok : forall st i topic c cx t m body bh f s',
  ctx_of c = Some cx -> t <> TBad -> (m = MAbsent \/ exists j, m = MOk j) ->
  append (h_store st) i
    (mkFrame 0 cx topic (if is_nil body then None else Some bh)
       (match m with MOk j => Some j | _ => None end)
       (Some (match t with TOk x => x | _ => Forever end))) = (Ok f, s') ->
  exists cas', handle true st i (RAppend topic c t m body bh) = (HResp 200 (BFrame f), mkH s' cas').
Proof.
  intros st i topic c cx t m body bh f s' Hc Ht Hm Ha.
  rewrite (faithful_append st i topic c cx t m body bh Hc Ht Hm).
  unfold http_hash, http_meta, http_ttl. rewrite Ha. cbn [fst snd]. eauto.
Qed.

Theorem faithful_append_err : forall st i topic c cx t m body bh e s',
  ctx_of c = Some cx -> t <> TBad -> (m = MAbsent \/ exists j, m = MOk j) ->
  append (h_store st) i
    (mkFrame 0 cx topic (if is_nil body then None else Some bh)
       (match m with MOk j => Some j | _ => None end)
       (Some (match t with TOk x => x | _ => Forever end))) = (Err e, s') ->
  exists cas', handle true st i (RAppend topic c t m body bh) = (HResp 400 BText, mkH s' cas').
Proof.
  intros st i topic c cx t m body bh e s' Hc Ht Hm Ha.
  rewrite (faithful_append st i topic c cx t m body bh Hc Ht Hm).
  unfold http_hash, http_meta, http_ttl. rewrite Ha. cbn [fst snd]. eauto.
Qed.

(* the CAS after an append: the body is stored under its integrity string (when there is one) *)
Corollary faithful_append_cas : forall st i topic c cx t m body bh,
  ctx_of c = Some cx -> t <> TBad -> (m = MAbsent \/ exists j, m = MOk j) ->
  h_cas (snd (handle true st i (RAppend topic c t m body bh))) =
  if is_nil body then h_cas st else cas_put bh body (h_cas st).
Proof.
  intros. erewrite faithful_append by eassumption. reflexivity.
Qed.

Theorem faithful_get : forall st i j,
  handle true st i (RGet (QOk j)) =
  (match get (h_store st) j with Some f => HResp 200 (BFrame f) | None => HResp 404 BEmpty end, st).
Proof. intros. unfold handle. destruct (get (h_store st) j); reflexivity. Qed.

Theorem faithful_head : forall st i topic c cx, ctx_of c = Some cx ->
  handle true st i (RHead topic c) =
  (match head (h_store st) topic cx with Some f => HResp 200 (BFrame f) | None => HResp 404 BEmpty end, st).
Proof. intros st i topic c cx Hc. unfold handle. rewrite Hc. destruct (head _ _ _); reflexivity. Qed.

Theorem faithful_remove : forall st i j,
  handle true st i (RRemove (QOk j)) =
  (match fst (remove (h_store st) j) with Ok _ => HResp 204 BEmpty | Err _ => HResp 500 BText end,
   mkH (snd (remove (h_store st) j)) (h_cas st)).
Proof. intros. unfold handle. destruct (remove (h_store st) j) as [[u|e] s']; reflexivity. Qed.

Theorem faithful_import : forall st i f,
  handle true st i (RImport (Some f)) =
  (match fst (insert_frame (h_store st) f) with Ok _ => HResp 200 (BFrame f) | Err _ => HResp 400 BText end,
   mkH (snd (insert_frame (h_store st) f)) (h_cas st)).
Proof. intros. unfold handle. destruct (insert_frame (h_store st) f) as [[u|e] s']; reflexivity. Qed.

Theorem faithful_cat : forall st i sse l lim c,
  handle true st i (RCat sse (Some (l, lim, c))) =
  (HResp 200 (BFrames sse (fst (read_hist (h_store st) l lim c))),
   mkH (snd (read_hist (h_store st) l lim c)) (h_cas st)).
Proof. intros. unfold handle. destruct (read_hist (h_store st) l lim c); reflexivity. Qed.

Definition frames_of (r : hresp) : option (list frame) :=
  match r with HResp _ (BFrames _ l) => Some l | _ => None end.

(* NDJSON and SSE carry the same frames and have the same effect *)
Corollary cat_sse_same_frames : forall st i l lim c,
  frames_of (fst (handle true st i (RCat true (Some (l, lim, c))))) =
  frames_of (fst (handle true st i (RCat false (Some (l, lim, c)))))
  /\ snd (handle true st i (RCat true (Some (l, lim, c)))) =
     snd (handle true st i (RCat false (Some (l, lim, c)))).
Proof. intros. rewrite !faithful_cat. split; reflexivity. Qed.

Theorem faithful_cas : forall st i body bh, is_nil body = false ->
  handle true st i (RCasPost body bh) =
  (HResp 200 (BHash bh), mkH (h_store st) (cas_put bh body (h_cas st))).
Proof. intros st i body bh Hn. unfold handle. rewrite Hn. reflexivity. Qed.

Theorem faithful_cas_get : forall st i h,
  handle true st i (RCasGet (Some h)) =
  (match cas_get h (h_cas st) with Some b => HResp 200 (BBytes b) | None => HResp 404 BEmpty end, st).
Proof. intros. unfold handle. destruct (cas_get h (h_cas st)); reflexivity. Qed.

Lemma find_app_none {A} (p : A -> bool) l r : find p l = None -> find p (l ++ r) = find p r.
Proof.
  induction l as [|x l IH]; cbn [find app]; [reflexivity|].
  destruct (p x); [discriminate|exact IH].
Qed.

Lemma cas_get_put_fresh : forall bh body c,
  cas_get bh c = None -> cas_get bh (cas_put bh body c) = Some body.
Proof.
  intros bh body c Hn. unfold cas_put. rewrite Hn.
  unfold cas_get in *. destruct (find _ c) eqn:E; [discriminate|].
  rewrite (find_app_none _ _ _ E). cbn [find fst]. rewrite bytes_eqb_refl. reflexivity.
Qed.

(* first write wins; what is stored under a hash is what comes back *)
Lemma cas_get_put_same : forall bh body c,
  cas_get bh (cas_put bh body c) =
  match cas_get bh c with Some b0 => Some b0 | None => Some body end.
Proof.
  intros bh body c. destruct (cas_get bh c) eqn:E.
  - unfold cas_put. rewrite E. exact E.
  - apply cas_get_put_fresh; exact E.
Qed.

Theorem cas_roundtrip : forall bh body c, is_nil body = false ->
  cas_get bh (cas_put bh body c) <> None.
Proof. intros bh body c _. rewrite cas_get_put_same. destruct (cas_get bh c); discriminate. Qed.

(* end to end: POST /cas then GET /cas/<hash> on a CAS that did not hold the hash *)
Corollary cas_post_then_get : forall st i i' body bh,
  is_nil body = false -> cas_get bh (h_cas st) = None ->
  fst (handle true (snd (handle true st i (RCasPost body bh))) i' (RCasGet (Some bh))) =
  HResp 200 (BBytes body).
Proof.
  intros st i i' body bh Hn Hf. rewrite (faithful_cas _ _ _ _ Hn). cbn [snd].
  rewrite faithful_cas_get. cbn [h_cas fst]. rewrite (cas_get_put_fresh _ _ _ Hf). reflexivity.
Qed.

Theorem no_body_no_hash : forall st i topic c cx t m bh f st',
  ctx_of c = Some cx -> t <> TBad -> (m = MAbsent \/ exists j, m = MOk j) ->
  handle true st i (RAppend topic c t m [] bh) = (HResp 200 (BFrame f), st') -> f_hash f = None.
Proof.
  intros st i topic c cx t m bh f st' Hc Ht Hm H.
  rewrite (faithful_append st i topic c cx t m [] bh Hc Ht Hm) in H.
  unfold http_hash in H. cbn [is_nil] in H.
  destruct (append (h_store st) i _) as [[f1|e] s'] eqn:E; cbn [fst snd] in H; inversion H; subst.
  apply append_ok_hash in E. exact E.
Qed.

(* and with a body the frame carries exactly the integrity string of that body *)
Theorem body_hash : forall st i topic c cx t m body bh f st',
  ctx_of c = Some cx -> t <> TBad -> (m = MAbsent \/ exists j, m = MOk j) -> is_nil body = false ->
  handle true st i (RAppend topic c t m body bh) = (HResp 200 (BFrame f), st') -> f_hash f = Some bh.
Proof.
  intros st i topic c cx t m body bh f st' Hc Ht Hm Hn H.
  rewrite (faithful_append st i topic c cx t m body bh Hc Ht Hm) in H.
  unfold http_hash in H. rewrite Hn in H.
  destruct (append (h_store st) i _) as [[f1|e] s'] eqn:E; cbn [fst snd] in H; inversion H; subst.
  apply append_ok_hash in E. exact E.
Qed.

(* ---------------------------------------------------------------------------- *)
(* H4 the pinned handlers are refuted *)

Example pinned_nonascii_meta_dropped :
  fst (handle false (mkH (empty_store 0) []) 1 (RAppend [97] QAbsent TAbsent MNonAscii [] [])) = HDropped.
Proof. vm_compute. reflexivity. Qed.

Example fixed_nonascii_meta_400 :
  fst (handle true (mkH (empty_store 0) []) 1 (RAppend [97] QAbsent TAbsent MNonAscii [] [])) = HResp 400 BText.
Proof. vm_compute. reflexivity. Qed.

Example pinned_unknown_cas_dropped :
  fst (handle false (mkH (empty_store 0) []) 1 (RCasGet (Some [1;2;3]))) = HDropped.
Proof. vm_compute. reflexivity. Qed.

Example fixed_unknown_cas_404 :
  fst (handle true (mkH (empty_store 0) []) 1 (RCasGet (Some [1;2;3]))) = HResp 404 BEmpty.
Proof. vm_compute. reflexivity. Qed.

Theorem pinned_not_total : ~ (forall st i r, exists status b st', handle false st i r = (HResp status b, st')).
Proof.
  intros H. destruct (H (mkH (empty_store 0) []) 1 (RCasGet (Some [1;2;3]))) as (s & b & st' & E).
  vm_compute in E. discriminate E.
Qed.

Theorem pinned_drops : exists st i r st', handle false st i r = (HDropped, st').
Proof.
  exists (mkH (empty_store 0) []), 1, (RAppend [97] QAbsent TAbsent MNonAscii [] []).
  eexists. vm_compute. reflexivity.
Qed.

(* the two handlers differ only on appends (non-ASCII xs-meta: dropped vs 400; refused by the store:
   500 vs 400), lookups of an unknown CAS hash (dropped vs 404) and imports the store refuses *)
Theorem pinned_differs_only_there : forall st i r,
  handle false st i r <> handle true st i r ->
  (exists topic c t m body bh, r = RAppend topic c t m body bh) \/
  (exists h, r = RCasGet (Some h) /\ cas_get h (h_cas st) = None) \/
  (exists f e, r = RImport (Some f) /\ fst (insert_frame (h_store st) f) = Err e).
Proof.
  intros st i r H. destruct r; try (exfalso; apply H; reflexivity).
  - left; eauto 8.
  - destruct h as [h|]; [|exfalso; apply H; reflexivity].
    destruct (cas_get h (h_cas st)) eqn:E.
    + exfalso; apply H. unfold handle. rewrite E. reflexivity.
    + right; left; eauto.
  - destruct f as [f|]; [|exfalso; apply H; reflexivity].
    destruct (insert_frame (h_store st) f) as [[u|e] s'] eqn:E.
    + exfalso; apply H. unfold handle. rewrite E. reflexivity.
    + right; right. exists f, e. split; [reflexivity|rewrite E; reflexivity].
Qed.

(* ---------------------------------------------------------------------------- *)
(* H5 a frame the store refuses for what it is (unregistered context, xs.context outside the zero
   context, NUL in the topic) is answered 400 (F13b, fixed in /repo); the pinned code said 500 *)

Theorem pinned_validation_error_is_500 : exists st i r st', handle false st i r = (HResp 500 BText, st').
Proof.
  exists (mkH (empty_store 0) []), 1, (RAppend [97] (QOk 7) TAbsent MAbsent [] []).
  eexists. vm_compute. reflexivity.
Qed.

(* in general: any append of an ordinary topic into an unregistered context *)
Theorem unregistered_ctx_is_400 : forall st i topic cx t m body bh,
  t <> TBad -> (m = MAbsent \/ exists j, m = MOk j) ->
  is_ctx_topic topic = false -> mem cx (s_ctxs (h_store st)) = false ->
  fst (handle true st i (RAppend topic (QOk cx) t m body bh)) = HResp 400 BText.
Proof.
  intros st i topic cx t m body bh Ht Hm Hc Hr.
  rewrite (faithful_append st i topic (QOk cx) cx t m body bh eq_refl Ht Hm). cbn [fst].
  unfold append. cbn [f_topic f_ctx f_ttl f_hash f_meta f_id]. rewrite Hc, Hr. reflexivity.
Qed.

Definition bad_meta (m : hmeta) : Prop :=
  m = MBadB64 \/ m = MBadUtf8 \/ m = MBadJson \/ m = MNonAscii.

Inductive syntax_malformed : hreq -> Prop :=
| SM_cat sse : syntax_malformed (RCat sse None)
| SM_append_ctx topic t m body bh : syntax_malformed (RAppend topic QBad t m body bh)
| SM_append_ttl topic c m body bh : syntax_malformed (RAppend topic c TBad m body bh)
| SM_append_meta topic c t m body bh : bad_meta m -> syntax_malformed (RAppend topic c t m body bh)
| SM_get : syntax_malformed (RGet QBad)
| SM_get_absent : syntax_malformed (RGet QAbsent)
| SM_remove : syntax_malformed (RRemove QBad)
| SM_remove_absent : syntax_malformed (RRemove QAbsent)
| SM_head topic : syntax_malformed (RHead topic QBad)
| SM_cas_get : syntax_malformed (RCasGet None)
| SM_cas_post bh : syntax_malformed (RCasPost [] bh)
| SM_import : syntax_malformed (RImport None).

Theorem client_errors_4xx_partial : forall st i r, syntax_malformed r ->
  exists st', handle true st i r = (HResp 400 BText, st') /\ h_store st' = h_store st.
Proof.
  intros st i r H. destruct H; unfold handle; cbv zeta;
    try (eexists; split; reflexivity).
  - (* ttl *) destruct (ctx_of c); eexists; split; reflexivity.
  - (* meta *)
    destruct (ctx_of c); [|eexists; split; reflexivity].
    destruct t; try (eexists; split; reflexivity);
      destruct H as [->|[->|[->| ->]]]; eexists; split; reflexivity.
Qed.

(* conversely, a 400 is only ever given for a syntactically malformed request or for a frame the
   store refuses *)
Definition store_refuses (st : hstate) (i : N) (r : hreq) : Prop :=
  match r with
  | RAppend topic c t m body bh =>
      exists cx meta e s', ctx_of c = Some cx /\
        append (h_store st) i
               (mkFrame 0 cx topic (if is_nil body then None else Some bh) meta
                        (match t with TOk x => Some x | _ => Some Forever end)) = (Err e, s')
  | RImport (Some f) => exists e s', insert_frame (h_store st) f = (Err e, s')
  | _ => False
  end.

Theorem status_400_only_client_error : forall st i r b st',
  handle true st i r = (HResp 400 b, st') -> syntax_malformed r \/ store_refuses st i r.
Proof.
  intros st i r b st' H. unfold handle in H. cbv zeta in H. destruct r.
  - inversion H.
  - left. destruct opts as [[[l lim] c]|]; [|constructor].
    destruct (read_hist _ _ _ _); inversion H.
  - destruct (ctx_of c) as [cx|] eqn:Ec; [|left; destruct c; try discriminate Ec; apply SM_append_ctx].
    destruct t as [|tt|]; [| |left; apply SM_append_ttl];
      (destruct m; try (left; apply SM_append_meta; unfold bad_meta; tauto);
       (match type of H with context [append ?a ?b ?c] =>
          destruct (append a b c) as [[f|e] s'] eqn:E end;
        [inversion H| right; cbn [store_refuses]; rewrite Ec; eauto 8])).
  - left. destruct i0; try constructor. destruct (get _ _); inversion H.
  - left. destruct i0; try constructor. destruct (remove _ _) as [[u|e] s']; inversion H.
  - left. destruct c; try constructor; cbn [ctx_of] in H; destruct (head _ _ _); inversion H.
  - left. destruct h as [h|]; [|constructor]. destruct (cas_get _ _); inversion H.
  - left. destruct body; [constructor|]. cbn [is_nil] in H. inversion H.
  - destruct f as [f|]; [|left; constructor].
    destruct (insert_frame _ _) as [[u|e] s'] eqn:E; [inversion H|].
    right. cbn [store_refuses]. eauto.
  - inversion H.
Qed.

(* 5xx is left for one case only: a remove that the store itself fails (impossible for stored frames:
   their topics carry no NUL) *)
Theorem status_5xx_only_remove : forall st i r status b st',
  handle true st i r = (HResp status b, st') -> 500 <= status ->
  exists j e, r = RRemove (QOk j) /\ fst (remove (h_store st) j) = Err e.
Proof.
  intros st i r status b st' H Hs. unfold handle in H. cbv zeta in H. destruct r.
  - inversion H; subst; lia.
  - destruct opts as [[[l lim] c]|]; [destruct (read_hist _ _ _ _)|]; inversion H; subst; lia.
  - destruct (ctx_of c); [|inversion H; subst; lia].
    destruct t; destruct m; try (inversion H; subst; lia);
      match type of H with context [append ?a ?b ?c] =>
        destruct (append a b c) as [[f|e] s'] end; inversion H; subst; lia.
  - destruct i0; try (inversion H; subst; lia). destruct (get _ _); inversion H; subst; lia.
  - destruct i0; try (inversion H; subst; lia).
    destruct (remove (h_store st) i0) as [[u|e] s'] eqn:E; inversion H; subst; [lia|].
    exists i0, e. split; [reflexivity|rewrite E; reflexivity].
  - destruct (ctx_of c); [destruct (head _ _ _)|]; inversion H; subst; lia.
  - destruct h as [h|]; [destruct (cas_get _ _)|]; inversion H; subst; lia.
  - destruct (is_nil body); inversion H; subst; lia.
  - destruct f as [f|]; [destruct (insert_frame _ _) as [[u|e] s']|]; inversion H; subst; lia.
  - inversion H; subst; lia.
Qed.

(* ---------------------------------------------------------------------------- *)
(* H6 non-vacuity *)

Definition demo : list (N * hreq) :=
  [ (1, RAppend xs_context QAbsent TAbsent MAbsent [] []);
    (2, RAppend [97] (QOk 1) TAbsent (MOk [123;125]) [104;105] [9;9]);
    (3, RCat false (Some (None, None, Some 1))) ].

Example demo_run :
  fst (hrun true (mkH (empty_store 0) []) demo) =
  [ HResp 200 (BFrame (mkFrame 1 0 xs_context None None (Some Forever)));
    HResp 200 (BFrame (mkFrame 2 1 [97] (Some [9;9]) (Some [123;125]) (Some Forever)));
    HResp 200 (BFrames false [mkFrame 2 1 [97] (Some [9;9]) (Some [123;125]) (Some Forever)]) ]
  /\ map status_of (fst (hrun true (mkH (empty_store 0) []) demo)) = [Some 200; Some 200; Some 200]
  /\ cas_get [9;9] (h_cas (snd (hrun true (mkH (empty_store 0) []) demo))) = Some [104;105].
Proof. vm_compute. repeat split; reflexivity. Qed.

Print Assumptions handle_total.
Print Assumptions hrun_total.
Print Assumptions handle_error_pure.
Print Assumptions faithful_append_ok.
Print Assumptions faithful_append_err.
Print Assumptions faithful_get.
Print Assumptions faithful_head.
Print Assumptions faithful_remove.
Print Assumptions faithful_import.
Print Assumptions faithful_cat.
Print Assumptions cat_sse_same_frames.
Print Assumptions faithful_cas.
Print Assumptions cas_roundtrip.
Print Assumptions cas_get_put_fresh.
Print Assumptions cas_post_then_get.
Print Assumptions no_body_no_hash.
Print Assumptions body_hash.
Print Assumptions pinned_drops.
Print Assumptions pinned_not_total.
Print Assumptions pinned_differs_only_there.
Print Assumptions pinned_validation_error_is_500.
Print Assumptions unregistered_ctx_is_400.
Print Assumptions client_errors_4xx_partial.
Print Assumptions status_400_only_client_error.
Print Assumptions status_5xx_only_remove.
Print Assumptions demo_run.
