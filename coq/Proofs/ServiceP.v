(* Proofs about Model/Service.v: command calls (ordered results, exactly one terminal event,
   no replay) and generator lifecycles (start, ordered output, stop, restart, duplex input).
   Every theorem holds for every configuration, every call frame and every script result.
   Axiom-free; stdlib only. *)
From XS Require Import Model.Service Proofs.BytesP.
From Coq Require Import Lia.
Import ListNotations.
Open Scope N_scope.

(* ------------------------------------------------------------------------ *)
(* 0. list helpers *)

Lemma Forall_map_intro : forall (A B : Type) (f : A -> B) (P : B -> Prop) (l : list A),
  (forall x, P (f x)) -> Forall P (map f l).
Proof.
  intros A B f P l H. induction l as [|x l IH]; cbn [map].
  - constructor.
  - constructor; [apply H | exact IH].
Qed.

Lemma map_const_repeat : forall (A B : Type) (g : A -> B) (x : B) (l : list A),
  Forall (fun e => g e = x) l -> map g l = repeat x (length l).
Proof.
  intros A B g x l H. induction H as [|e l He Hl IH]; cbn [map length repeat].
  - reflexivity.
  - rewrite He, IH. reflexivity.
Qed.

(* ------------------------------------------------------------------------ *)
(* COMMANDS *)

(* S1: every frame of a call carries the definition's id and the call's id and lives in the
   caller's context *)
Theorem call_all_stamped : forall c call r,
  Forall (fun e => e_hid e = c_def c /\ e_fid e = sf_id call /\ e_ctx e = sf_ctx call)
         (call_frames c call r).
Proof.
  intros c call r. unfold call_frames. destruct r as [apps vals|apps].
  - apply Forall_app. split; [|apply Forall_app; split].
    + apply Forall_map_intro. intros a. cbn [e_hid e_fid e_ctx]. repeat split.
    + apply Forall_map_intro. intros v. cbn [e_hid e_fid e_ctx]. repeat split.
    + constructor; [|constructor]. cbn [e_hid e_fid e_ctx]. repeat split.
  - apply Forall_app. split.
    + apply Forall_map_intro. intros a. cbn [e_hid e_fid e_ctx]. repeat split.
    + constructor; [|constructor]. cbn [e_hid e_fid e_ctx]. repeat split.
Qed.

(* S2: exactly one terminal event, and it is the last frame: .complete or .error *)
Definition terminal (e : eframe) : bool :=
  match e_content e with None => true | Some _ => false end.

Theorem call_one_terminal : forall c call r,
  exists pre t,
    call_frames c call r = pre ++ [t]
    /\ terminal t = true
    /\ Forall (fun e => terminal e = false) pre
    /\ (e_err t = true <-> exists apps, r = CmdErr apps)
    /\ e_topic t = c_name c ++ (if e_err t then suffix_error else suffix_complete).
Proof.
  intros c call r. unfold call_frames. destruct r as [apps vals|apps].
  - eexists. eexists. split; [rewrite app_assoc; reflexivity|].
    split; [reflexivity|]. split; [|split].
    + apply Forall_app. split; apply Forall_map_intro; intros x; reflexivity.
    + cbn [e_err]. split; [discriminate|]. intros [apps0 H]. discriminate H.
    + reflexivity.
  - eexists. eexists. split; [reflexivity|].
    split; [reflexivity|]. split; [|split].
    + apply Forall_map_intro; intros x; reflexivity.
    + cbn [e_err]. split; [|reflexivity]. intros _. exists apps. reflexivity.
    + reflexivity.
Qed.

(* the number of terminal frames of a call is exactly one *)
Lemma filter_none : forall (A : Type) (f : A -> bool) (l : list A),
  Forall (fun e => f e = false) l -> filter f l = [].
Proof.
  intros A f l H. induction H as [|e l He Hl IH]; cbn [filter].
  - reflexivity.
  - rewrite He. exact IH.
Qed.

Theorem call_terminal_count : forall c call r,
  length (filter terminal (call_frames c call r)) = 1%nat.
Proof.
  intros c call r.
  destruct (call_one_terminal c call r) as (pre & t & Heq & Ht & Hpre & _).
  rewrite Heq, filter_app, (filter_none _ _ _ Hpre).
  cbn [filter app]. rewrite Ht. reflexivity.
Qed.

(* S3: one result frame per output value, in order, on <name><suffix> with the configured
   TTL, then .complete *)
Theorem call_results_in_order : forall c call r apps vals,
  r = CmdOk apps vals ->
  exists pre,
    call_frames c call r
    = pre
      ++ map (fun v => mkE (c_name c ++ c_suffix c) (sf_ctx call) (c_def c) (sf_id call)
                           (c_ttl c) (Some v) None false) vals
      ++ [mkE (c_name c ++ suffix_complete) (sf_ctx call) (c_def c) (sf_id call)
              None None None false]
    /\ length pre = length apps.
Proof.
  intros c call r apps vals Hr. subst r. unfold call_frames.
  eexists. split; [reflexivity|]. apply map_length.
Qed.

(* the same with the prefix spelled out: the script's explicit appends, in order *)
Theorem call_ok_shape : forall c call apps vals,
  call_frames c call (CmdOk apps vals)
  = map (fun a => mkE (oa_topic a) (sf_ctx call) (c_def c) (sf_id call) (oa_ttl a)
                      (Some (oa_content a)) (oa_meta a) false) apps
    ++ map (fun v => mkE (c_name c ++ c_suffix c) (sf_ctx call) (c_def c) (sf_id call)
                         (c_ttl c) (Some v) None false) vals
    ++ [mkE (c_name c ++ suffix_complete) (sf_ctx call) (c_def c) (sf_id call)
            None None None false].
Proof. reflexivity. Qed.

Theorem call_ok_length : forall c call apps vals,
  length (call_frames c call (CmdOk apps vals)) = (length apps + length vals + 1)%nat.
Proof.
  intros c call apps vals. rewrite call_ok_shape.
  rewrite !app_length, !map_length. cbn [length]. lia.
Qed.

(* S4: a failing call emits the appends made before the error, then .error; no result frame *)
Theorem call_error_shape : forall c call apps,
  call_frames c call (CmdErr apps)
  = map (fun a => mkE (oa_topic a) (sf_ctx call) (c_def c) (sf_id call) (oa_ttl a)
                      (Some (oa_content a)) (oa_meta a) false) apps
    ++ [mkE (c_name c ++ suffix_error) (sf_ctx call) (c_def c) (sf_id call)
            None None None true].
Proof. reflexivity. Qed.

Theorem call_error_length : forall c call apps,
  length (call_frames c call (CmdErr apps)) = (length apps + 1)%nat.
Proof.
  intros c call apps. rewrite call_error_shape.
  rewrite app_length, map_length. reflexivity.
Qed.

(* the statement as first proposed is FALSE when c_suffix c = ".error" (the terminal frame
   is then on <name><suffix>); it holds under the side condition *)
Theorem call_error_no_results : forall c call r apps,
  c_suffix c <> suffix_error ->
  r = CmdErr apps ->
  Forall (fun e => e_topic e <> c_name c ++ c_suffix c \/ In (e_topic e) (map oa_topic apps))
         (call_frames c call r).
Proof.
  intros c call r apps Hsuf Hr. subst r. rewrite call_error_shape.
  apply Forall_app. split.
  - rewrite Forall_forall. intros e He. right.
    apply in_map_iff in He. destruct He as (a & Ha & Hin). subst e.
    cbn [e_topic]. apply in_map. exact Hin.
  - constructor; [|constructor]. left. cbn [e_topic]. intros H.
    apply app_inv_head in H. congruence.
Qed.

(* unconditional form: everything with a content in a failing call is one of the script's own
   explicit appends *)
Theorem call_error_contents_are_appends : forall c call apps,
  Forall (fun e => e_content e = None
                   \/ exists a, In a apps /\ e_topic e = oa_topic a
                                /\ e_content e = Some (oa_content a))
         (call_frames c call (CmdErr apps)).
Proof.
  intros c call apps. rewrite call_error_shape. apply Forall_app. split.
  - rewrite Forall_forall. intros e He. right.
    apply in_map_iff in He. destruct He as (a & Ha & Hin). subst e.
    exists a. cbn [e_topic e_content]. repeat split. exact Hin.
  - constructor; [|constructor]. left. reflexivity.
Qed.

(* S5: the definition table *)
Lemma find_put_skip : forall (n : bytes) (t tail : list (bytes * N)),
  find (fun e => bytes_eqb (fst e) n) (filter (fun e => negb (bytes_eqb (fst e) n)) t ++ tail)
  = find (fun e => bytes_eqb (fst e) n) tail.
Proof.
  intros n t tail. induction t as [|a t IH]; cbn [filter app].
  - reflexivity.
  - destruct (bytes_eqb (fst a) n) eqn:E; cbn [negb app find].
    + exact IH.
    + rewrite E. exact IH.
Qed.

Theorem ctable_get_put_same : forall n i t, ctable_get n (ctable_put n i t) = Some i.
Proof.
  intros n i t. unfold ctable_get, ctable_put. rewrite find_put_skip.
  cbn [find fst]. rewrite bytes_eqb_refl. reflexivity.
Qed.

Lemma find_put_other : forall (m n : bytes), bytes_eqb m n = false ->
  forall (t tail : list (bytes * N)),
  find (fun e => bytes_eqb (fst e) m) (filter (fun e => negb (bytes_eqb (fst e) n)) t ++ tail)
  = match find (fun e => bytes_eqb (fst e) m) t with
    | Some x => Some x
    | None => find (fun e => bytes_eqb (fst e) m) tail
    end.
Proof.
  intros m n Hmn t tail. induction t as [|a t IH]; cbn [filter app find].
  - reflexivity.
  - destruct (bytes_eqb (fst a) n) eqn:E1; cbn [negb app find].
    + apply bytes_eqb_eq in E1.
      assert (E2 : bytes_eqb (fst a) m = false).
      { rewrite E1, bytes_eqb_sym. exact Hmn. }
      rewrite E2. exact IH.
    + destruct (bytes_eqb (fst a) m) eqn:E2; [reflexivity | exact IH].
Qed.

Theorem ctable_get_put_other : forall m n i t,
  bytes_eqb m n = false -> ctable_get m (ctable_put n i t) = ctable_get m t.
Proof.
  intros m n i t Hmn. unfold ctable_get, ctable_put.
  rewrite (find_put_other m n Hmn). cbn [find fst].
  rewrite (bytes_eqb_sym n m), Hmn.
  destruct (find (fun e => bytes_eqb (fst e) m) t); reflexivity.
Qed.

(* latest valid definition wins *)
Fixpoint last_valid_def (n : bytes) (es : list cevent) : option N :=
  match es with
  | [] => None
  | e :: r =>
      match last_valid_def n r with
      | Some i => Some i
      | None => match e with
                | EDefine f n' true => if bytes_eqb n' n then Some (sf_id f) else None
                | _ => None
                end
      end
  end.

Fixpoint table_after (t : list (bytes * N)) (es : list cevent) : list (bytes * N) :=
  match es with
  | [] => t
  | e :: r => table_after (fst (cserve_step t e)) r
  end.

Theorem cstep_invalid_define : forall t f n,
  cserve_step t (EDefine f n false) = (t, ADefError f n).
Proof. reflexivity. Qed.

Theorem cstep_valid_define : forall t f n,
  cserve_step t (EDefine f n true) = (ctable_put n (sf_id f) t, ANone).
Proof. reflexivity. Qed.

Theorem cstep_call : forall t f n,
  cserve_step t (ECall f n)
  = (t, match ctable_get n t with Some d => ARun d f | None => ANone end).
Proof.
  intros t f n. cbn [cserve_step]. destruct (ctable_get n t); reflexivity.
Qed.

Theorem cstep_other : forall t, cserve_step t EOtherC = (t, ANone).
Proof. reflexivity. Qed.

(* only a valid definition changes the table *)
Lemma cstep_table : forall t e,
  fst (cserve_step t e)
  = match e with EDefine f n true => ctable_put n (sf_id f) t | _ => t end.
Proof.
  intros t e. destruct e as [f n [|]|f n|]; cbn [cserve_step fst]; try reflexivity.
  destruct (ctable_get n t); reflexivity.
Qed.

Theorem table_after_spec_gen : forall n es t,
  ctable_get n (table_after t es)
  = match last_valid_def n es with Some i => Some i | None => ctable_get n t end.
Proof.
  intros n es. induction es as [|e r IH]; intros t; cbn [table_after last_valid_def].
  - reflexivity.
  - rewrite IH. destruct (last_valid_def n r) as [i|]; [reflexivity|].
    rewrite cstep_table. destruct e as [f n' [|]|f n'|]; try reflexivity.
    destruct (bytes_eqb n' n) eqn:E.
    + apply bytes_eqb_eq in E. subst n'. apply ctable_get_put_same.
    + apply ctable_get_put_other. rewrite bytes_eqb_sym. exact E.
Qed.

Theorem table_after_spec : forall n es,
  ctable_get n (table_after [] es) = last_valid_def n es.
Proof.
  intros n es. rewrite table_after_spec_gen.
  destruct (last_valid_def n es); reflexivity.
Qed.

Lemma table_after_app : forall es1 es2 t,
  table_after t (es1 ++ es2) = table_after (table_after t es1) es2.
Proof.
  intros es1. induction es1 as [|e r IH]; intros es2 t; cbn [app table_after].
  - reflexivity.
  - apply IH.
Qed.

(* S6: one action per event; no replay at start-up *)
Theorem cserve_length : forall es t, length (cserve t es) = length es.
Proof.
  intros es. induction es as [|e r IH]; intros t; cbn [cserve length].
  - reflexivity.
  - destruct (cserve_step t e) as [t' a]. cbn [length]. rewrite IH. reflexivity.
Qed.

Lemma cserve_app : forall es1 es2 t,
  cserve t (es1 ++ es2) = cserve t es1 ++ cserve (table_after t es1) es2.
Proof.
  intros es1. induction es1 as [|e r IH]; intros es2 t; cbn [app cserve table_after].
  - reflexivity.
  - destruct (cserve_step t e) as [t' a]. cbn [fst app]. rewrite IH. reflexivity.
Qed.

(* a call is executed exactly once, under the latest valid definition of its name (if any) *)
Theorem cserve_call_runs_latest : forall es f n,
  cserve [] (es ++ [ECall f n])
  = cserve [] es
    ++ [match last_valid_def n es with Some d => ARun d f | None => ANone end].
Proof.
  intros es f n. rewrite cserve_app. cbn [cserve].
  rewrite cstep_call, table_after_spec. reflexivity.
Qed.

Definition is_define (e : cevent) : bool :=
  match e with EDefine _ _ _ => true | _ => false end.

Lemma cboot_gen : forall history t,
  fold_left (fun t e => match e with EDefine _ _ _ => fst (cserve_step t e) | _ => t end)
            history t
  = table_after t (filter is_define history).
Proof.
  intros history. induction history as [|e r IH]; intros t; cbn [fold_left filter].
  - reflexivity.
  - destruct e as [f n v|f n|]; cbn [is_define table_after]; apply IH.
Qed.

Theorem cboot_no_calls : forall history,
  cboot history = table_after [] (filter is_define history).
Proof. intros history. unfold cboot. apply cboot_gen. Qed.

Theorem cboot_ignores_calls : forall h1 h2 f n,
  cboot (h1 ++ ECall f n :: h2) = cboot (h1 ++ h2).
Proof.
  intros h1 h2 f n. rewrite !cboot_no_calls, !filter_app.
  cbn [filter is_define]. reflexivity.
Qed.

(* the table after boot: latest valid historical definition of each name *)
Lemma last_valid_def_filter : forall n es,
  last_valid_def n (filter is_define es) = last_valid_def n es.
Proof.
  intros n es. induction es as [|e r IH]; cbn [filter].
  - reflexivity.
  - destruct e as [f n' v|f n'|]; cbn [is_define last_valid_def]; rewrite IH.
    + reflexivity.
    + destruct (last_valid_def n r); reflexivity.
    + destruct (last_valid_def n r); reflexivity.
Qed.

Theorem cboot_spec : forall n history,
  ctable_get n (cboot history) = last_valid_def n history.
Proof.
  intros n history. rewrite cboot_no_calls, table_after_spec.
  apply last_valid_def_filter.
Qed.

(* S7: the stamps are a function of the call alone *)
Theorem call_frames_independent : forall c call r,
  map (fun e => (e_hid e, e_fid e, e_ctx e)) (call_frames c call r)
  = repeat (c_def c, sf_id call, sf_ctx call) (length (call_frames c call r)).
Proof.
  intros c call r. apply map_const_repeat.
  eapply Forall_impl; [|apply call_all_stamped].
  intros e (H1 & H2 & H3). cbn beta. rewrite H1, H2, H3. reflexivity.
Qed.

(* ------------------------------------------------------------------------ *)
(* GENERATORS *)

(* G1 *)
Theorem lifecycle_shape : forall g outs,
  lifecycle g outs
  = mkE (g_name g ++ suffix_start) (g_ctx g) (g_spawn g) (g_spawn g) None None None false
    :: map (fun v => mkE (g_name g ++ suffix_grecv) (g_ctx g) (g_spawn g) (g_spawn g)
                         None (Some v) None false) outs
    ++ [mkE (g_name g ++ suffix_stop) (g_ctx g) (g_spawn g) (g_spawn g) None None None false].
Proof. reflexivity. Qed.

Theorem lifecycle_length : forall g outs, length (lifecycle g outs) = S (S (length outs)).
Proof.
  intros g outs. rewrite lifecycle_shape. cbn [length].
  rewrite app_length, map_length. cbn [length]. lia.
Qed.

(* G4 *)
Theorem lifecycles_cons : forall g r rs,
  lifecycles g (r :: rs) = lifecycle g r ++ lifecycles g rs.
Proof. reflexivity. Qed.

Theorem lifecycles_nil : forall g, lifecycles g [] = [].
Proof. reflexivity. Qed.

Theorem lifecycles_app : forall g r1 r2,
  lifecycles g (r1 ++ r2) = lifecycles g r1 ++ lifecycles g r2.
Proof. intros g r1 r2. unfold lifecycles. apply flat_map_app. Qed.

(* after a stop the next lifecycle starts with a start frame *)
Theorem lifecycles_stop_then_start : forall g rs o1 o2 rest,
  lifecycles g (rs ++ o1 :: o2 :: rest)
  = (lifecycles g rs
     ++ mkE (g_name g ++ suffix_start) (g_ctx g) (g_spawn g) (g_spawn g) None None None false
        :: map (fun v => mkE (g_name g ++ suffix_grecv) (g_ctx g) (g_spawn g) (g_spawn g)
                             None (Some v) None false) o1)
    ++ mkE (g_name g ++ suffix_stop) (g_ctx g) (g_spawn g) (g_spawn g) None None None false
    :: mkE (g_name g ++ suffix_start) (g_ctx g) (g_spawn g) (g_spawn g) None None None false
    :: map (fun v => mkE (g_name g ++ suffix_grecv) (g_ctx g) (g_spawn g) (g_spawn g)
                         None (Some v) None false) o2
    ++ mkE (g_name g ++ suffix_stop) (g_ctx g) (g_spawn g) (g_spawn g) None None None false
    :: lifecycles g rest.
Proof.
  intros g rs o1 o2 rest. rewrite lifecycles_app, !lifecycles_cons, !lifecycle_shape.
  rewrite <- !app_assoc. cbn [app]. rewrite <- !app_assoc. cbn [app]. reflexivity.
Qed.

Theorem lifecycles_length : forall g runs,
  length (lifecycles g runs) = (2 * length runs + length (concat runs))%nat.
Proof.
  intros g runs. induction runs as [|r rs IH].
  - reflexivity.
  - rewrite lifecycles_cons, app_length, lifecycle_length, IH.
    cbn [concat length]. rewrite app_length. lia.
Qed.

(* G2 *)
Theorem lifecycle_stamped : forall g outs,
  Forall (fun e => e_hid e = g_spawn g /\ e_ctx e = g_ctx g) (lifecycle g outs).
Proof.
  intros g outs. rewrite lifecycle_shape.
  constructor; [split; reflexivity|]. apply Forall_app. split.
  - apply Forall_map_intro. intros v. split; reflexivity.
  - constructor; [split; reflexivity | constructor].
Qed.

Theorem lifecycles_stamped : forall g runs,
  Forall (fun e => e_hid e = g_spawn g /\ e_ctx e = g_ctx g) (lifecycles g runs).
Proof.
  intros g runs. induction runs as [|r rs IH].
  - constructor.
  - rewrite lifecycles_cons. apply Forall_app. split; [apply lifecycle_stamped | exact IH].
Qed.

(* G3 *)
Definition contents (l : list eframe) : list bytes :=
  flat_map (fun e => match e_content e with Some v => [v] | None => [] end) l.

Lemma contents_app : forall l1 l2, contents (l1 ++ l2) = contents l1 ++ contents l2.
Proof. intros l1 l2. unfold contents. apply flat_map_app. Qed.

Lemma contents_map_some : forall (f : bytes -> eframe) (outs : list bytes),
  (forall v, e_content (f v) = Some v) -> contents (map f outs) = outs.
Proof.
  intros f outs H. induction outs as [|v outs IH].
  - reflexivity.
  - cbn [map]. change (contents (f v :: map f outs))
      with ((match e_content (f v) with Some x => [x] | None => [] end) ++ contents (map f outs)).
    rewrite H, IH. reflexivity.
Qed.

Theorem lifecycle_contents_in_order : forall g outs, contents (lifecycle g outs) = outs.
Proof.
  intros g outs. rewrite lifecycle_shape.
  change (contents (?a :: ?l)) with (contents ([a] ++ l)).
  rewrite !contents_app. rewrite contents_map_some; [|intros v; reflexivity].
  cbn [contents flat_map e_content app]. apply app_nil_r.
Qed.

Theorem lifecycles_contents_in_order : forall g runs,
  contents (lifecycles g runs) = concat runs.
Proof.
  intros g runs. induction runs as [|r rs IH].
  - reflexivity.
  - rewrite lifecycles_cons, contents_app, lifecycle_contents_in_order, IH. reflexivity.
Qed.

(* every frame with a content is a .recv of the generator; start/stop carry none *)
Theorem lifecycle_recv_topics : forall g outs,
  Forall (fun e => match e_content e with
                   | Some _ => e_topic e = g_name g ++ suffix_grecv
                   | None => e_topic e = g_name g ++ suffix_start
                             \/ e_topic e = g_name g ++ suffix_stop
                   end) (lifecycle g outs).
Proof.
  intros g outs. rewrite lifecycle_shape.
  constructor; [left; reflexivity|]. apply Forall_app. split.
  - apply Forall_map_intro. intros v. reflexivity.
  - constructor; [right; reflexivity | constructor].
Qed.

(* G5: duplex input *)
Theorem duplex_once_in_order : forall g start stream,
  duplex_input g start stream
  = map snd (filter (fun p => (start <? sf_id (fst p)) && (sf_ctx (fst p) =? g_ctx g)
                              && bytes_eqb (sf_topic (fst p)) (g_name g ++ suffix_send))
                    stream).
Proof. reflexivity. Qed.

Theorem duplex_input_app : forall g start s1 s2,
  duplex_input g start (s1 ++ s2) = duplex_input g start s1 ++ duplex_input g start s2.
Proof.
  intros g start s1 s2. unfold duplex_input. rewrite filter_app, map_app. reflexivity.
Qed.

Theorem duplex_input_nil : forall g start, duplex_input g start [] = [].
Proof. reflexivity. Qed.

Theorem duplex_input_cons : forall g start f b s,
  duplex_input g start ((f, b) :: s)
  = (if (start <? sf_id f) && (sf_ctx f =? g_ctx g) && bytes_eqb (sf_topic f) (g_name g ++ suffix_send)
     then [b] else [])
    ++ duplex_input g start s.
Proof.
  intros g start f b s. unfold duplex_input. cbn [filter fst].
  destruct ((start <? sf_id f) && (sf_ctx f =? g_ctx g) && bytes_eqb (sf_topic f) (g_name g ++ suffix_send));
    reflexivity.
Qed.

(* a .send of another context never feeds the generator *)
Theorem duplex_other_context : forall g start f b s,
  sf_ctx f <> g_ctx g ->
  duplex_input g start ((f, b) :: s) = duplex_input g start s.
Proof.
  intros g start f b s Hne. rewrite duplex_input_cons.
  apply N.eqb_neq in Hne. rewrite Hne, andb_false_r. reflexivity.
Qed.

Theorem duplex_not_send : forall g start f b s,
  sf_topic f <> g_name g ++ suffix_send ->
  duplex_input g start ((f, b) :: s) = duplex_input g start s.
Proof.
  intros g start f b s Hne. rewrite duplex_input_cons.
  apply bytes_eqb_neq in Hne. rewrite Hne, andb_false_r. reflexivity.
Qed.

Theorem duplex_before_start : forall g start f b s,
  sf_id f <= start ->
  duplex_input g start ((f, b) :: s) = duplex_input g start s.
Proof.
  intros g start f b s Hle. rewrite duplex_input_cons.
  apply N.ltb_ge in Hle. rewrite Hle. reflexivity.
Qed.

Theorem duplex_send_after_start : forall g start f b s,
  start < sf_id f -> sf_ctx f = g_ctx g -> sf_topic f = g_name g ++ suffix_send ->
  duplex_input g start ((f, b) :: s) = b :: duplex_input g start s.
Proof.
  intros g start f b s Hlt Hc Ht. rewrite duplex_input_cons.
  apply N.ltb_lt in Hlt. rewrite Hlt, Hc, N.eqb_refl, Ht, bytes_eqb_refl. reflexivity.
Qed.

(* instances: a send is fed to the instance running when it is appended, and to no other *)
Theorem instance_input_cons : forall g a b f c s,
  instance_input g a b ((f, c) :: s)
  = (if (sf_id f <? b) && ((a <? sf_id f) && (sf_ctx f =? g_ctx g) && bytes_eqb (sf_topic f) (g_name g ++ suffix_send))
     then [c] else [])
    ++ instance_input g a b s.
Proof.
  intros g a b f c s. unfold instance_input. cbn [filter fst].
  destruct (sf_id f <? b); cbn [andb].
  - rewrite duplex_input_cons. reflexivity.
  - reflexivity.
Qed.

Theorem instance_fed_while_running : forall g a b f c s,
  a < sf_id f -> sf_id f < b -> sf_ctx f = g_ctx g -> sf_topic f = g_name g ++ suffix_send ->
  instance_input g a b ((f, c) :: s) = c :: instance_input g a b s.
Proof.
  intros g a b f c s Ha Hb Hc Ht. rewrite instance_input_cons.
  apply N.ltb_lt in Ha, Hb. rewrite Ha, Hb, Hc, N.eqb_refl, Ht, bytes_eqb_refl. reflexivity.
Qed.

Theorem instance_not_fed_earlier : forall g a b f c s,
  sf_id f <= a -> instance_input g a b ((f, c) :: s) = instance_input g a b s.
Proof.
  intros g a b f c s Ha. rewrite instance_input_cons.
  apply N.ltb_ge in Ha. rewrite Ha. cbn [andb]. rewrite andb_false_r. reflexivity.
Qed.

Theorem instance_not_fed_later : forall g a b f c s,
  b <= sf_id f -> instance_input g a b ((f, c) :: s) = instance_input g a b s.
Proof.
  intros g a b f c s Hb. rewrite instance_input_cons.
  apply N.ltb_ge in Hb. rewrite Hb. reflexivity.
Qed.

(* two instances that do not overlap never share an input *)
Theorem instances_disjoint : forall g a1 b1 a2 b2 f c,
  b1 <= a2 ->
  instance_input g a1 b1 [(f, c)] <> [] -> instance_input g a2 b2 [(f, c)] = [].
Proof.
  intros g a1 b1 a2 b2 f c Hle H1.
  rewrite instance_input_cons in H1. rewrite instance_input_cons.
  destruct (sf_id f <? b1) eqn:Hb1.
  - apply N.ltb_lt in Hb1.
    assert (Hge : sf_id f <= a2) by (apply N.le_trans with b1; [apply N.lt_le_incl; exact Hb1 | exact Hle]).
    apply N.ltb_ge in Hge. rewrite Hge. cbn [andb]. rewrite andb_false_r. reflexivity.
  - cbn [andb] in H1. exfalso. apply H1. reflexivity.
Qed.

(* each frame is fed at most once *)
Theorem duplex_input_length : forall g start stream,
  (length (duplex_input g start stream) <= length stream)%nat.
Proof.
  intros g start stream. unfold duplex_input. rewrite map_length.
  induction stream as [|p s IH]; cbn [filter length].
  - lia.
  - destruct ((start <? sf_id (fst p)) && (sf_ctx (fst p) =? g_ctx g)
              && bytes_eqb (sf_topic (fst p)) (g_name g ++ suffix_send)); cbn [length]; lia.
Qed.

(* ------------------------------------------------------------------------ *)
(* G6: non-vacuity *)

Definition ex_c : cconf := mkCC 5 [99] suffix_recv (Some (Head 1)).
Definition ex_call : sframe := mkSF 9 2 [99;46;99;97;108;108] None.
Definition ex_a1 : oappend := mkOA [120] None None None [1].
Definition ex_a2 : oappend := mkOA [121] (Some [7]) (Some Ephemeral) (Some 3) [2].

Example ex_call_ok :
  call_frames ex_c ex_call (CmdOk [ex_a1; ex_a2] [[49]; [50]; [51]])
  = [ mkE [120] 2 5 9 None (Some [1]) None false;
      mkE [121] 2 5 9 (Some Ephemeral) (Some [2]) (Some [7]) false;
      mkE [99;46;114;101;99;118] 2 5 9 (Some (Head 1)) (Some [49]) None false;
      mkE [99;46;114;101;99;118] 2 5 9 (Some (Head 1)) (Some [50]) None false;
      mkE [99;46;114;101;99;118] 2 5 9 (Some (Head 1)) (Some [51]) None false;
      mkE [99;46;99;111;109;112;108;101;116;101] 2 5 9 None None None false ].
Proof. vm_compute. reflexivity. Qed.

Example ex_call_ok_terminals :
  map terminal (call_frames ex_c ex_call (CmdOk [ex_a1; ex_a2] [[49]; [50]; [51]]))
  = [false; false; false; false; false; true].
Proof. vm_compute. reflexivity. Qed.

Example ex_call_err :
  call_frames ex_c ex_call (CmdErr [ex_a1])
  = [ mkE [120] 2 5 9 None (Some [1]) None false;
      mkE [99;46;101;114;114;111;114] 2 5 9 None None None true ].
Proof. vm_compute. reflexivity. Qed.

Example ex_serve :
  cserve [] [ ECall ex_call [99];
              EDefine (mkSF 3 0 [] None) [99] true;
              EDefine (mkSF 4 0 [] None) [99] false;
              ECall ex_call [99];
              EDefine (mkSF 6 0 [] None) [99] true;
              EOtherC;
              ECall ex_call [99];
              ECall ex_call [100] ]
  = [ ANone; ANone; ADefError (mkSF 4 0 [] None) [99]; ARun 3 ex_call; ANone; ANone;
      ARun 6 ex_call; ANone ].
Proof. vm_compute. reflexivity. Qed.

Example ex_boot :
  cboot [ EDefine (mkSF 3 0 [] None) [99] true; ECall ex_call [99];
          EDefine (mkSF 4 0 [] None) [100] true; EDefine (mkSF 6 0 [] None) [99] true;
          EDefine (mkSF 7 0 [] None) [100] false ]
  = [([100], 4); ([99], 6)].
Proof. vm_compute. reflexivity. Qed.

Definition ex_g : gconf := mkGC 11 2 [103].

Example ex_lifecycles :
  lifecycles ex_g [[[97]]; [[98]]]
  = [ mkE [103;46;115;116;97;114;116] 2 11 11 None None None false;
      mkE [103;46;114;101;99;118] 2 11 11 None (Some [97]) None false;
      mkE [103;46;115;116;111;112] 2 11 11 None None None false;
      mkE [103;46;115;116;97;114;116] 2 11 11 None None None false;
      mkE [103;46;114;101;99;118] 2 11 11 None (Some [98]) None false;
      mkE [103;46;115;116;111;112] 2 11 11 None None None false ].
Proof. vm_compute. reflexivity. Qed.

Example ex_lifecycle_two_outs :
  contents (lifecycle ex_g [[97]; [98]]) = [[97]; [98]]
  /\ length (lifecycle ex_g [[97]; [98]]) = 4%nat.
Proof. vm_compute. split; reflexivity. Qed.

Example ex_duplex :
  duplex_input ex_g 20
    [ (mkSF 19 2 [103;46;115;101;110;100] None, [1]);   (* before the start: ignored *)
      (mkSF 20 2 [103;46;115;101;110;100] None, [2]);   (* the start id itself: ignored *)
      (mkSF 21 2 [103;46;115;101;110;100] None, [3]);
      (mkSF 22 2 [103;46;114;101;99;118] None, [4]);    (* not .send *)
      (mkSF 23 7 [103;46;115;101;110;100] None, [5]) ]  (* other context: not fed *)
  = [[3]].
Proof. vm_compute. reflexivity. Qed.

(* ------------------------------------------------------------------------ *)
Print Assumptions call_all_stamped.
Print Assumptions call_one_terminal.
Print Assumptions call_results_in_order.
Print Assumptions table_after_spec.
Print Assumptions cserve_length.
Print Assumptions cboot_no_calls.
Print Assumptions cboot_ignores_calls.
Print Assumptions call_frames_independent.
Print Assumptions lifecycles_stamped.
Print Assumptions lifecycles_contents_in_order.
Print Assumptions duplex_input_app.
Print Assumptions duplex_once_in_order.
