(* The refinement theorem: under the hypotheses [hyps_all], every observation of the concrete
   store model (three byte-keyed partitions, registry, GC queue) equals the observation of
   the abstract specification machine, for every finite sequence of operations. *)
From XS Require Import Proofs.Inv Proofs.RefineA Proofs.RefineB.

Lemma nonzero_reg_nz o : nonzero_reg o = true -> hyp_nz o.
Proof.
  destruct o as [i f|f| | | | | | | | |]; cbn [nonzero_reg hyp_nz]; try exact (fun _ => I).
  - intros H Hc Hz. rewrite Hc in H. apply N.eqb_eq in Hz. rewrite Hz in H. discriminate.
  - intros H Hc Hz. rewrite Hc in H. apply N.eqb_eq in Hz. rewrite Hz in H. discriminate.
Qed.

Theorem refines_every_op : forall o, refines_op_z o.
Proof.
  intros [i f|f|i|n| | | |l lim c|l lim c|i|t c].
  - apply refines_append_z.
  - apply refines_import_z.
  - apply refines_remove_zz.
  - apply refines_setnow_z.
  - apply refines_gcstep_zz.
  - apply refines_drain_zz.
  - apply refines_op_lift, refines_reopen.
  - apply refines_op_lift, refines_readsync.
  - apply refines_op_lift, refines_read.
  - apply refines_op_lift, refines_get.
  - apply refines_head_z.
Qed.

Theorem refinement_from : forall ops s a,
  InvZ s a -> hyps_all ops a = true -> run_obs ops s = a_run_obs ops a.
Proof.
  induction ops as [|o ops IH]; intros s a HI Hh; [reflexivity|].
  cbn [hyps_all] in Hh. apply andb_true_iff in Hh. destruct Hh as [Ho Hr].
  unfold hyp_all in Ho. apply andb_true_iff in Ho. destruct Ho as [Hok Hnz].
  destruct (refines_every_op o s a HI Hok (nonzero_reg_nz o Hnz)) as [Hobs HI'].
  cbn [run_obs a_run_obs].
  destruct (step s o) as [ob s'] eqn:Es. destruct (a_step a o) as [ab a'] eqn:Ea.
  cbn [fst snd] in *. subst ab. f_equal. apply IH; assumption.
Qed.

(* from the empty store *)
Theorem refinement : forall now ops,
  hyps_all ops (a_empty now) = true ->
  run_obs ops (empty_store now) = a_run_obs ops (a_empty now).
Proof. intros now ops H. apply refinement_from; [apply invz_init|exact H]. Qed.

(* the invariant at every reachable state, and the abstract state it is related to *)
Fixpoint a_run (ops : list op) (a : astore) : astore :=
  match ops with [] => a | o :: r => a_run r (snd (a_step a o)) end.

Theorem reachable_inv : forall ops s a,
  InvZ s a -> hyps_all ops a = true -> InvZ (run ops s) (a_run ops a).
Proof.
  induction ops as [|o ops IH]; intros s a HI Hh; [exact HI|].
  cbn [hyps_all] in Hh. apply andb_true_iff in Hh. destruct Hh as [Ho Hr].
  unfold hyp_all in Ho. apply andb_true_iff in Ho. destruct Ho as [Hok Hnz].
  destruct (refines_every_op o s a HI Hok (nonzero_reg_nz o Hnz)) as [_ HI'].
  unfold run. cbn [fold_left a_run]. apply IH; assumption.
Qed.

Print Assumptions refinement.
Print Assumptions reachable_inv.
