(* Proofs about Model/Bytes.v: lexicographic order, prefixes, big-endian encodings.
   Axiom-free; stdlib only. *)
From Coq Require Import List NArith ZArith Bool Lia ZifyN ZifyBool.
From XS Require Import Model.Bytes.
Import ListNotations.
Open Scope N_scope.

Ltac Zify.zify_post_hook ::= Z.div_mod_to_equations.

(* ------------------------------------------------------------------------ *)
(* 1. bytes_eqb *)

Lemma bytes_eqb_eq : forall a b, bytes_eqb a b = true <-> a = b.
Proof.
  intros a; induction a as [|x a IH]; intros [|y b]; cbn [bytes_eqb].
  - split; reflexivity.
  - split; discriminate.
  - split; discriminate.
  - rewrite andb_true_iff, N.eqb_eq, IH. split.
    + intros [Hx Ha]. subst. reflexivity.
    + intros H. injection H as Hx Ha. split; assumption.
Qed.

Lemma bytes_eqb_refl : forall a, bytes_eqb a a = true.
Proof. intros a. apply bytes_eqb_eq. reflexivity. Qed.

Lemma bytes_eqb_neq : forall a b, bytes_eqb a b = false <-> a <> b.
Proof.
  intros a b. split.
  - intros H E. apply bytes_eqb_eq in E. congruence.
  - intros H. destruct (bytes_eqb a b) eqn:E; [|reflexivity].
    apply bytes_eqb_eq in E. contradiction.
Qed.

Lemma bytes_eqb_sym : forall a b, bytes_eqb a b = bytes_eqb b a.
Proof.
  intros a b. destruct (bytes_eqb a b) eqn:E1, (bytes_eqb b a) eqn:E2; try reflexivity.
  - apply bytes_eqb_eq in E1. subst. rewrite bytes_eqb_refl in E2. discriminate.
  - apply bytes_eqb_eq in E2. subst. rewrite bytes_eqb_refl in E1. discriminate.
Qed.

(* ------------------------------------------------------------------------ *)
(* 2. lex_ltb is a strict total order *)

Lemma lex_ltb_nil_r : forall a, lex_ltb a [] = false.
Proof. intros [|x a]; reflexivity. Qed.

Lemma lex_ltb_irrefl : forall a, lex_ltb a a = false.
Proof.
  intros a; induction a as [|x a IH]; cbn [lex_ltb].
  - reflexivity.
  - rewrite N.ltb_irrefl, N.eqb_refl. exact IH.
Qed.

Lemma lex_ltb_trans : forall a b c,
  lex_ltb a b = true -> lex_ltb b c = true -> lex_ltb a c = true.
Proof.
  intros a; induction a as [|x a IH]; intros [|y b] [|z c] H1 H2;
    cbn [lex_ltb] in *; try discriminate; try reflexivity.
  destruct (N.ltb_spec x y) as [Hxy|Hxy], (N.eqb_spec x y) as [Exy|Exy],
           (N.ltb_spec y z) as [Hyz|Hyz], (N.eqb_spec y z) as [Eyz|Eyz],
           (N.ltb_spec x z) as [Hxz|Hxz], (N.eqb_spec x z) as [Exz|Exz];
    try discriminate; try reflexivity; try lia.
  eapply IH; eassumption.
Qed.

Lemma lex_ltb_asym : forall a b, lex_ltb a b = true -> lex_ltb b a = false.
Proof.
  intros a b H. destruct (lex_ltb b a) eqn:E; [|reflexivity].
  pose proof (lex_ltb_trans _ _ _ H E) as C. rewrite lex_ltb_irrefl in C. discriminate.
Qed.

Lemma lex_ltb_total : forall a b,
  lex_ltb a b = false -> lex_ltb b a = false -> a = b.
Proof.
  intros a; induction a as [|x a IH]; intros [|y b] H1 H2;
    cbn [lex_ltb] in *; try discriminate; try reflexivity.
  destruct (N.ltb_spec x y) as [Hxy|Hxy], (N.eqb_spec x y) as [Exy|Exy],
           (N.ltb_spec y x) as [Hyx|Hyx], (N.eqb_spec y x) as [Eyx|Eyx];
    try discriminate; try lia.
  subst y. f_equal. apply IH; assumption.
Qed.

Lemma lex_ltb_neq : forall a b, lex_ltb a b = true -> a <> b.
Proof. intros a b H E. subst. rewrite lex_ltb_irrefl in H. discriminate. Qed.

(* trichotomy as a sum, convenient for case analysis *)
Lemma lex_ltb_cases : forall a b,
  {lex_ltb a b = true} + {a = b} + {lex_ltb b a = true}.
Proof.
  intros a b. destruct (lex_ltb a b) eqn:E1; [left; left; reflexivity|].
  destruct (lex_ltb b a) eqn:E2; [right; reflexivity|].
  left; right. apply lex_ltb_total; assumption.
Qed.

(* ------------------------------------------------------------------------ *)
(* 3. prefixes and common prefixes *)

Lemma is_prefix_app : forall p k, is_prefix p k = true <-> exists r, k = p ++ r.
Proof.
  intros p; induction p as [|x p IH]; intros k; cbn [is_prefix app].
  - split; [intros _; exists k; reflexivity | reflexivity].
  - destruct k as [|y k].
    + split; [discriminate | intros [r Hr]; discriminate].
    + rewrite andb_true_iff, N.eqb_eq, IH. split.
      * intros [Hx [r Hr]]. subst. exists r. reflexivity.
      * intros [r Hr]. injection Hr as Hy Hk. split; [congruence | exists r; exact Hk].
Qed.

Lemma is_prefix_app_same : forall p a b, is_prefix (p ++ a) (p ++ b) = is_prefix a b.
Proof.
  intros p a b; induction p as [|x p IH]; cbn [app is_prefix].
  - reflexivity.
  - rewrite N.eqb_refl. cbn [andb]. exact IH.
Qed.

Lemma is_prefix_refl_app : forall p r, is_prefix p (p ++ r) = true.
Proof. intros p r. apply is_prefix_app. exists r. reflexivity. Qed.

Lemma lex_ltb_app_same : forall p a b, lex_ltb (p ++ a) (p ++ b) = lex_ltb a b.
Proof.
  intros p a b; induction p as [|x p IH]; cbn [app lex_ltb].
  - reflexivity.
  - rewrite N.ltb_irrefl, N.eqb_refl. exact IH.
Qed.

(* ------------------------------------------------------------------------ *)
(* 4. be: length and digit range *)

Lemma be_length : forall n x, length (be n x) = n.
Proof.
  intros n; induction n as [|n IH]; intros x; cbn [be length].
  - reflexivity.
  - rewrite IH. reflexivity.
Qed.

Lemma be_bytes : forall n x, Forall (fun b => b < 256) (be n x).
Proof.
  intros n; induction n as [|n IH]; intros x; cbn [be].
  - constructor.
  - constructor; [|apply IH]. apply N.mod_lt. discriminate.
Qed.

(* ------------------------------------------------------------------------ *)
(* 5. be n is an order isomorphism [0,256^n) -> (bytes^n, lex) *)

Lemma pow256_pos : forall n, 0 < 256 ^ N.of_nat n.
Proof.
  intros n. apply N.neq_0_lt_0. apply N.pow_nonzero. discriminate.
Qed.

Lemma pow256_succ : forall n, 256 ^ N.of_nat (S n) = 256 * 256 ^ N.of_nat n.
Proof. intros n. rewrite Nat2N.inj_succ. apply N.pow_succ_r'. Qed.

Lemma be_ltb : forall n x y,
  x < 256 ^ N.of_nat n -> y < 256 ^ N.of_nat n ->
  lex_ltb (be n x) (be n y) = (x <? y).
Proof.
  intros n; induction n as [|n IH]; intros x y Hx Hy.
  - change (256 ^ N.of_nat 0) with 1 in Hx, Hy. cbn [be lex_ltb].
    symmetry. apply N.ltb_ge. lia.
  - rewrite pow256_succ in Hx, Hy. cbn [be lex_ltb].
    pose proof (pow256_pos n) as HP.
    set (P := 256 ^ N.of_nat n) in *.
    assert (HPnz : P <> 0) by lia.
    pose proof (N.div_mod' x P) as Ex. pose proof (N.mod_lt x P HPnz) as Rx.
    pose proof (N.div_mod' y P) as Ey. pose proof (N.mod_lt y P HPnz) as Ry.
    assert (Qx : x / P < 256)
      by (apply N.div_lt_upper_bound; [exact HPnz | rewrite N.mul_comm; exact Hx]).
    assert (Qy : y / P < 256)
      by (apply N.div_lt_upper_bound; [exact HPnz | rewrite N.mul_comm; exact Hy]).
    rewrite (N.mod_small (x / P) 256 Qx), (N.mod_small (y / P) 256 Qy).
    rewrite (IH _ _ Rx Ry).
    set (qx := x / P) in *. set (rx := x mod P) in *.
    set (qy := y / P) in *. set (ry := y mod P) in *.
    clearbody qx rx qy ry P. clear IH.
    destruct (N.ltb_spec qx qy) as [Hq|Hq].
    + symmetry. apply N.ltb_lt. nia.
    + destruct (N.eqb_spec qx qy) as [Eq|Eq].
      * subst qy. destruct (N.ltb_spec rx ry) as [Hr|Hr]; symmetry.
        -- apply N.ltb_lt. nia.
        -- apply N.ltb_ge. nia.
      * symmetry. apply N.ltb_ge. nia.
Qed.

Lemma be_inj : forall n x y,
  x < 256 ^ N.of_nat n -> y < 256 ^ N.of_nat n -> be n x = be n y -> x = y.
Proof.
  intros n x y Hx Hy E.
  pose proof (be_ltb n x y Hx Hy) as H1. pose proof (be_ltb n y x Hy Hx) as H2.
  rewrite E in H1, H2. rewrite lex_ltb_irrefl in H1, H2.
  symmetry in H1, H2. apply N.ltb_ge in H1, H2. lia.
Qed.

Lemma be_eqb : forall n x y,
  x < 256 ^ N.of_nat n -> y < 256 ^ N.of_nat n ->
  bytes_eqb (be n x) (be n y) = (x =? y).
Proof.
  intros n x y Hx Hy. destruct (N.eqb_spec x y) as [E|E].
  - subst. apply bytes_eqb_refl.
  - apply bytes_eqb_neq. intros C. apply E. eapply be_inj; eassumption.
Qed.

Lemma two128_pow : two128 = 256 ^ N.of_nat 16.
Proof. vm_compute. reflexivity. Qed.

Lemma be16_length : forall x, length (be16 x) = 16%nat.
Proof. intros x. apply be_length. Qed.

Lemma be16_bytes : forall x, Forall (fun b => b < 256) (be16 x).
Proof. intros x. apply be_bytes. Qed.

Lemma be16_ltb : forall x y,
  x < two128 -> y < two128 -> lex_ltb (be16 x) (be16 y) = (x <? y).
Proof. intros x y. rewrite two128_pow. apply be_ltb. Qed.

Lemma be16_inj : forall x y, x < two128 -> y < two128 -> be16 x = be16 y -> x = y.
Proof. intros x y. rewrite two128_pow. apply be_inj. Qed.

Lemma be16_eqb : forall x y,
  x < two128 -> y < two128 -> bytes_eqb (be16 x) (be16 y) = (x =? y).
Proof. intros x y. rewrite two128_pow. apply be_eqb. Qed.

Lemma be16_nonnil : forall x, be16 x <> [].
Proof.
  intros x E. pose proof (be16_length x) as L. rewrite E in L. discriminate.
Qed.

Lemma lex_ltb_nil_be16 : forall x, lex_ltb [] (be16 x) = true.
Proof.
  intros x. pose proof (be16_nonnil x) as H. destruct (be16 x) as [|b r].
  - contradiction.
  - reflexivity.
Qed.

(* ------------------------------------------------------------------------ *)
(* 6. of_be inverts be *)

Lemma fold_be : forall n x a,
  x < 256 ^ N.of_nat n ->
  fold_left (fun acc b => acc * 256 + b) (be n x) a = a * 256 ^ N.of_nat n + x.
Proof.
  intros n; induction n as [|n IH]; intros x a Hx.
  - change (256 ^ N.of_nat 0) with 1 in *. cbn [be fold_left]. lia.
  - rewrite pow256_succ in *. cbn [be fold_left].
    pose proof (pow256_pos n) as HP.
    set (P := 256 ^ N.of_nat n) in *.
    assert (HPnz : P <> 0) by lia.
    pose proof (N.div_mod' x P) as Ex. pose proof (N.mod_lt x P HPnz) as Rx.
    assert (Qx : x / P < 256)
      by (apply N.div_lt_upper_bound; [exact HPnz | rewrite N.mul_comm; exact Hx]).
    rewrite (N.mod_small (x / P) 256 Qx).
    rewrite (IH _ _ Rx).
    set (qx := x / P) in *. set (rx := x mod P) in *.
    clearbody qx rx P. clear IH. nia.
Qed.

Lemma of_be_be : forall n x, x < 256 ^ N.of_nat n -> of_be (be n x) = x.
Proof.
  intros n x Hx. unfold of_be. rewrite (fold_be n x 0 Hx). lia.
Qed.

Lemma of_be_be16 : forall x, x < two128 -> of_be (be16 x) = x.
Proof. intros x. rewrite two128_pow. apply of_be_be. Qed.

(* ------------------------------------------------------------------------ *)
(* 7. last16 / skipn of a concatenation *)

Lemma skipn_app_len : forall (p k : bytes) n, length p = n -> skipn n (p ++ k) = k.
Proof.
  intros p; induction p as [|x p IH]; intros k n Hn; cbn [length] in Hn; subst n.
  - reflexivity.
  - cbn [app skipn]. apply IH. reflexivity.
Qed.

Lemma last16_app : forall p k, length k = 16%nat -> last16 (p ++ k) = k.
Proof.
  intros p k Hk. unfold last16. apply skipn_app_len.
  rewrite app_length, Hk. lia.
Qed.

(* ------------------------------------------------------------------------ *)
(* 8. comparison / prefix / equality of concatenations with equal-length heads *)

Lemma lex_ltb_app_eqlen : forall a a' b b',
  length a = length a' ->
  lex_ltb (a ++ b) (a' ++ b') =
  if bytes_eqb a a' then lex_ltb b b' else lex_ltb a a'.
Proof.
  intros a; induction a as [|x a IH]; intros [|y a'] b b' HL;
    cbn [length] in HL; try discriminate.
  - reflexivity.
  - injection HL as HL. cbn [app lex_ltb bytes_eqb].
    destruct (N.ltb_spec x y) as [Hxy|Hxy], (N.eqb_spec x y) as [Exy|Exy];
      cbn [andb]; try reflexivity; try lia.
    apply IH. exact HL.
Qed.

Lemma is_prefix_app_eqlen : forall a a' b b',
  length a = length a' ->
  is_prefix (a ++ b) (a' ++ b') = bytes_eqb a a' && is_prefix b b'.
Proof.
  intros a; induction a as [|x a IH]; intros [|y a'] b b' HL;
    cbn [length] in HL; try discriminate.
  - reflexivity.
  - injection HL as HL. cbn [app is_prefix bytes_eqb].
    rewrite (IH _ _ _ HL). rewrite andb_assoc. reflexivity.
Qed.

Lemma app_eqlen_inj : forall (a a' b b' : bytes),
  length a = length a' -> a ++ b = a' ++ b' -> a = a' /\ b = b'.
Proof.
  intros a; induction a as [|x a IH]; intros [|y a'] b b' HL E;
    cbn [length] in HL; try discriminate.
  - split; [reflexivity | exact E].
  - injection HL as HL. cbn [app] in E. injection E as Exy E.
    destruct (IH _ _ _ HL E) as [Ea Eb]. subst. split; reflexivity.
Qed.

(* ------------------------------------------------------------------------ *)

Print Assumptions bytes_eqb_eq.
Print Assumptions lex_ltb_trans.
Print Assumptions lex_ltb_total.
Print Assumptions is_prefix_app.
Print Assumptions lex_ltb_app_same.
Print Assumptions be_bytes.
Print Assumptions be_ltb.
Print Assumptions be16_ltb.
Print Assumptions be16_inj.
Print Assumptions of_be_be16.
Print Assumptions last16_app.
Print Assumptions lex_ltb_app_eqlen.
Print Assumptions is_prefix_app_eqlen.
Print Assumptions app_eqlen_inj.
