(* Proofs about Model/Restart.v: the start-up replay of the three dispatchers brings back
   exactly the registrations / generators / definitions that were still active when tables
   are keyed by (context, name); the name-only keyed tables of the pinned code are refuted
   by computation and proved correct only when a name is used in at most one context.
   Axiom-free; stdlib only. *)
From XS Require Import Model.Restart Proofs.BytesP.
From Coq Require Import Lia Sorting.Sorted Permutation.
Import ListNotations.
Open Scope N_scope.

Definition ids_inc (fs : list rframe) : Prop :=
  StronglySorted (fun a b => r_id a < r_id b) fs.

(* ------------------------------------------------------------------------ *)
(* 0. keys *)

Definition key (f : rframe) : N * bytes := (r_ctx f, r_name f).

Lemma same_cn_iff : forall a b, same_cn a b = true <-> key a = key b.
Proof.
  intros a b. unfold same_cn, key. rewrite andb_true_iff, bytes_eqb_eq, N.eqb_eq.
  split.
  - intros [H1 H2]. rewrite H1, H2. reflexivity.
  - intros H. injection H as H1 H2. split; assumption.
Qed.

Lemma same_cn_false_iff : forall a b, same_cn a b = false <-> key a <> key b.
Proof.
  intros a b. split.
  - intros H E. apply same_cn_iff in E. congruence.
  - intros H. destruct (same_cn a b) eqn:E; [|reflexivity].
    apply same_cn_iff in E. contradiction.
Qed.

Lemma same_cn_sym : forall a b, same_cn a b = same_cn b a.
Proof.
  intros a b. unfold same_cn.
  rewrite (bytes_eqb_sym (r_name a)), (N.eqb_sym (r_ctx a)). reflexivity.
Qed.

Lemma same_cn_refl : forall a, same_cn a a = true.
Proof. intros a. apply same_cn_iff. reflexivity. Qed.

(* with by_ctx = true the table operations are the (context, name) ones, by conversion *)
Lemma tbl_get_true : forall f t, tbl_get true f t = find (same_cn f) t.
Proof. reflexivity. Qed.

Lemma tbl_remove_true : forall f t,
  tbl_remove true f t = filter (fun e => negb (same_cn f e)) t.
Proof. reflexivity. Qed.

Lemma filter_true : forall (A : Type) (p : A -> bool) l,
  (forall x, In x l -> p x = true) -> filter p l = l.
Proof.
  intros A p l; induction l as [|a l IH]; intros H.
  - reflexivity.
  - cbn [filter]. rewrite (H a (or_introl eq_refl)). f_equal.
    apply IH. intros x Hx. apply H. right. exact Hx.
Qed.

(* at most one entry per (context, name) *)
Fixpoint kuniq (t : list rframe) : Prop :=
  match t with
  | [] => True
  | e :: r => (forall e', In e' r -> key e' <> key e) /\ kuniq r
  end.

(* ------------------------------------------------------------------------ *)
(* 1. the common shape of the three specifications *)

Section Generic.
  Variable keep : rframe -> bool.            (* frames that create an entry *)
  Variable kill : rframe -> rframe -> bool.  (* [kill e g]: the later frame g ends e *)

  Fixpoint gspec (fs : list rframe) : list rframe :=
    match fs with
    | [] => []
    | f :: rest =>
        if keep f then
          if existsb (kill f) rest then gspec rest else f :: gspec rest
        else gspec rest
    end.

  (* the specification read from the right: one more frame at the end of the history *)
  Lemma gspec_snoc : forall pre f,
    gspec (pre ++ [f]) =
    filter (fun e => negb (kill e f)) (gspec pre) ++ (if keep f then [f] else []).
  Proof.
    induction pre as [|a pre IH]; intros f.
    - cbn [app gspec existsb filter]. destruct (keep f); reflexivity.
    - cbn [app gspec]. rewrite existsb_app. cbn [existsb]. rewrite orb_false_r. rewrite IH.
      destruct (keep a); [|reflexivity].
      destruct (existsb (kill a) pre); cbn [orb]; [reflexivity|].
      cbn [filter]. destruct (kill a f); cbn [negb app]; reflexivity.
  Qed.

  Lemma gspec_In : forall fs e, In e (gspec fs) -> keep e = true /\ In e fs.
  Proof.
    induction fs as [|f rest IH]; intros e H.
    - contradiction.
    - cbn [gspec] in H. destruct (keep f) eqn:Kf.
      + destruct (existsb (kill f) rest).
        * destruct (IH e H) as [H1 H2]. split; [exact H1 | right; exact H2].
        * destruct H as [H|H].
          -- subst e. split; [exact Kf | left; reflexivity].
          -- destruct (IH e H) as [H1 H2]. split; [exact H1 | right; exact H2].
      + destruct (IH e H) as [H1 H2]. split; [exact H1 | right; exact H2].
  Qed.

  Lemma gspec_sorted : forall fs, ids_inc fs -> ids_inc (gspec fs).
  Proof.
    unfold ids_inc. induction fs as [|f rest IH]; intros H.
    - constructor.
    - apply StronglySorted_inv in H. destruct H as [Hs Hf]. specialize (IH Hs).
      cbn [gspec]. destruct (keep f); [|exact IH].
      destruct (existsb (kill f) rest); [exact IH|].
      constructor; [exact IH|].
      apply Forall_forall. intros x Hx. apply gspec_In in Hx. destruct Hx as [_ Hx].
      rewrite Forall_forall in Hf. apply Hf. exact Hx.
  Qed.

  (* an entry of the result is not ended by anything after it (ids distinct) *)
  Lemma gspec_not_killed : forall pre e post,
    ids_inc (pre ++ e :: post) -> In e (gspec (pre ++ e :: post)) ->
    existsb (kill e) post = false.
  Proof.
    unfold ids_inc. induction pre as [|a pre IH]; intros e post S H.
    - cbn [app] in *. apply StronglySorted_inv in S. destruct S as [_ Hf].
      rewrite Forall_forall in Hf.
      assert (Hno : ~ In e (gspec post)).
      { intros C. apply gspec_In in C. destruct C as [_ C].
        exact (N.lt_irrefl _ (Hf e C)). }
      cbn [gspec] in H. destruct (keep e); [|contradiction].
      destruct (existsb (kill e) post); [contradiction|reflexivity].
    - cbn [app] in *. apply StronglySorted_inv in S. destruct S as [Ss Hf].
      rewrite Forall_forall in Hf.
      assert (Hne : a <> e).
      { intros E. subst a.
        assert (Hin : In e (pre ++ e :: post))
          by (apply in_or_app; right; left; reflexivity).
        exact (N.lt_irrefl _ (Hf e Hin)). }
      cbn [gspec] in H. destruct (keep a).
      + destruct (existsb (kill a) (pre ++ e :: post)).
        * apply IH; assumption.
        * destruct H as [H|H]; [contradiction|]. apply IH; assumption.
      + apply IH; assumption.
  Qed.

  Hypothesis kill_same : forall a b, keep b = true -> key a = key b -> kill a b = true.

  Lemma gspec_kuniq : forall fs, kuniq (gspec fs).
  Proof.
    induction fs as [|f rest IH].
    - exact I.
    - cbn [gspec]. destruct (keep f); [|exact IH].
      destruct (existsb (kill f) rest) eqn:Ex; [exact IH|].
      cbn [kuniq]. split; [|exact IH].
      intros e' He' Hk. apply gspec_In in He'. destruct He' as [K1 I1].
      assert (Hkl : kill f e' = true) by (apply kill_same; [exact K1 | symmetry; exact Hk]).
      assert (Ex' : existsb (kill f) rest = true)
        by (apply existsb_exists; exists e'; split; assumption).
      congruence.
  Qed.
End Generic.

(* a dispatcher whose replay is "put on every [keep] frame" computes gspec *)
Lemma put_fold : forall (keep : rframe -> bool) (kill : rframe -> rframe -> bool)
    (step : list rframe -> rframe -> list rframe),
  (forall t f, step t f = if keep f then tbl_put true f t else t) ->
  (forall e f, kill e f = same_cn e f && keep f) ->
  forall fs, fold_left step fs [] = gspec keep kill fs.
Proof.
  intros keep kill step Hstep Hkill. induction fs as [|f pre IH] using rev_ind.
  - reflexivity.
  - rewrite fold_left_app. cbn [fold_left]. rewrite IH, gspec_snoc, Hstep.
    destruct (keep f) eqn:K.
    + unfold tbl_put. rewrite tbl_remove_true. f_equal. apply filter_ext. intros e.
      rewrite Hkill, K, andb_true_r, (same_cn_sym f e). reflexivity.
    + rewrite app_nil_r. symmetry. apply filter_true. intros e _.
      rewrite Hkill, K, andb_false_r. reflexivity.
Qed.

(* sorting an already sorted table is the identity *)
Lemma sort_by_rid_sorted : forall l, ids_inc l -> sort_by_rid l = l.
Proof.
  unfold ids_inc. induction l as [|a l IH]; intros H.
  - reflexivity.
  - apply StronglySorted_inv in H. destruct H as [Hs Hf].
    unfold sort_by_rid in *. cbn [fold_right]. rewrite (IH Hs).
    destruct l as [|g r].
    + reflexivity.
    + cbn [insert_by_rid]. apply Forall_inv in Hf. apply N.ltb_lt in Hf. rewrite Hf.
      reflexivity.
Qed.

(* ------------------------------------------------------------------------ *)
(* 2. handlers (R1) *)

Definition hkeep (f : rframe) : bool :=
  match r_kind f with KRegister => true | _ => false end.

Definition hkill (f g : rframe) : bool :=
  same_cn f g &&
  match r_kind g with
  | KRegister => true
  | KUnregister | KUnregistered =>
      match r_ref g with Some h => h =? r_id f | None => false end
  | _ => false
  end.

Lemma spec_handlers_gspec : forall fs, spec_handlers fs = gspec hkeep hkill fs.
Proof.
  induction fs as [|a fs IH].
  - reflexivity.
  - cbn [spec_handlers gspec]. unfold hkeep. rewrite IH.
    destruct (r_kind a); reflexivity.
Qed.

Lemma hkill_same : forall a b, hkeep b = true -> key a = key b -> hkill a b = true.
Proof.
  intros a b Hk E. unfold hkeep in Hk. unfold hkill.
  apply same_cn_iff in E. rewrite E.
  destruct (r_kind b); try discriminate. reflexivity.
Qed.

(* an .unregister/.unregistered naming id h, on a table with one entry per key *)
Lemma unreg_find : forall f h t, kuniq t ->
  match find (same_cn f) t with
  | Some st => if r_id st =? h then filter (fun e => negb (same_cn f e)) t else t
  | None => t
  end
  = filter (fun e => negb (same_cn e f && (h =? r_id e))) t.
Proof.
  intros f h t; induction t as [|a t IH]; intros U.
  - reflexivity.
  - destruct U as [Ua Ut]. specialize (IH Ut). cbn [find filter].
    destruct (same_cn f a) eqn:Efa.
    + assert (Eaf : same_cn a f = true) by (rewrite same_cn_sym; exact Efa).
      assert (Hrest : forall e, In e t -> same_cn f e = false /\ same_cn e f = false).
      { intros e He. apply same_cn_iff in Efa.
        assert (Hne : key e <> key f) by (rewrite Efa; apply Ua; exact He).
        split; apply same_cn_false_iff; congruence. }
      rewrite Eaf. cbn [andb negb].
      assert (F2 : filter (fun e => negb (same_cn e f && (h =? r_id e))) t = t).
      { apply filter_true. intros e He. destruct (Hrest e He) as [_ H2].
        rewrite H2. reflexivity. }
      rewrite F2.
      destruct (N.eqb_spec (r_id a) h) as [E|E].
      * subst h. rewrite N.eqb_refl. cbn [negb].
        apply filter_true. intros e He. destruct (Hrest e He) as [H1 _].
        rewrite H1. reflexivity.
      * assert (E' : (h =? r_id a) = false) by (apply N.eqb_neq; congruence).
        rewrite E'. cbn [negb]. reflexivity.
    + assert (Eaf : same_cn a f = false) by (rewrite same_cn_sym; exact Efa).
      rewrite Eaf. cbn [andb negb]. rewrite <- IH.
      destruct (find (same_cn f) t) as [st|]; [|reflexivity].
      destruct (r_id st =? h); reflexivity.
Qed.

(* the table after phase 1 IS the specification (no hypothesis on ids needed) *)
Lemma handlers_fold : forall fs,
  fold_left (handlers_step true) fs [] = spec_handlers fs.
Proof.
  intros fs. rewrite spec_handlers_gspec.
  induction fs as [|f pre IH] using rev_ind.
  - reflexivity.
  - rewrite fold_left_app. cbn [fold_left]. rewrite IH, gspec_snoc.
    pose proof (gspec_kuniq hkeep hkill hkill_same pre) as U.
    set (S := gspec hkeep hkill pre) in *. clearbody S.
    unfold handlers_step, hkeep.
    destruct (r_kind f) eqn:K.
    + unfold tbl_put. rewrite tbl_remove_true. f_equal. apply filter_ext. intros e.
      unfold hkill. rewrite K, andb_true_r, (same_cn_sym f e). reflexivity.
    + rewrite app_nil_r, tbl_get_true, tbl_remove_true.
      destruct (r_ref f) as [h|] eqn:R.
      * rewrite (unreg_find f h _ U). apply filter_ext. intros e.
        unfold hkill. rewrite K, R. reflexivity.
      * symmetry. apply filter_true. intros e _.
        unfold hkill. rewrite K, R, andb_false_r. reflexivity.
    + rewrite app_nil_r, tbl_get_true, tbl_remove_true.
      destruct (r_ref f) as [h|] eqn:R.
      * rewrite (unreg_find f h _ U). apply filter_ext. intros e.
        unfold hkill. rewrite K, R. reflexivity.
      * symmetry. apply filter_true. intros e _.
        unfold hkill. rewrite K, R, andb_false_r. reflexivity.
    + rewrite app_nil_r. symmetry. apply filter_true. intros e _.
      unfold hkill. rewrite K, andb_false_r. reflexivity.
    + rewrite app_nil_r. symmetry. apply filter_true. intros e _.
      unfold hkill. rewrite K, andb_false_r. reflexivity.
    + rewrite app_nil_r. symmetry. apply filter_true. intros e _.
      unfold hkill. rewrite K, andb_false_r. reflexivity.
    + rewrite app_nil_r. symmetry. apply filter_true. intros e _.
      unfold hkill. rewrite K, andb_false_r. reflexivity.
Qed.

Lemma spec_handlers_sorted : forall fs, ids_inc fs -> ids_inc (spec_handlers fs).
Proof. intros fs H. rewrite spec_handlers_gspec. apply gspec_sorted. exact H. Qed.

(* R1 *)
Theorem compact_handlers_correct : forall fs,
  ids_inc fs -> compact_handlers true fs = spec_handlers fs.
Proof.
  intros fs H. unfold compact_handlers. rewrite handlers_fold.
  apply sort_by_rid_sorted. apply spec_handlers_sorted. exact H.
Qed.

(* without the hypothesis on ids: same members (the table itself is the specification,
   sorting only permutes it); equality needs the order, see the example *)
Lemma insert_by_rid_perm : forall f l, Permutation (insert_by_rid f l) (f :: l).
Proof.
  intros f l; induction l as [|g r IH]; cbn [insert_by_rid].
  - apply Permutation_refl.
  - destruct (r_id f <? r_id g).
    + apply Permutation_refl.
    + eapply perm_trans; [apply perm_skip; exact IH | apply perm_swap].
Qed.

Lemma sort_by_rid_perm : forall l, Permutation (sort_by_rid l) l.
Proof.
  induction l as [|a l IH]; unfold sort_by_rid in *; cbn [fold_right].
  - apply Permutation_refl.
  - eapply perm_trans; [apply insert_by_rid_perm | apply perm_skip; exact IH].
Qed.

Theorem compact_handlers_perm : forall fs,
  Permutation (compact_handlers true fs) (spec_handlers fs).
Proof.
  intros fs. unfold compact_handlers. rewrite handlers_fold. apply sort_by_rid_perm.
Qed.

Example compact_handlers_needs_order :
  let fs := [mkR 2 0 [104] KRegister None; mkR 1 0 [103] KRegister None] in
  spec_handlers fs = fs /\ compact_handlers true fs = rev fs.
Proof. split; vm_compute; reflexivity. Qed.

(* ------------------------------------------------------------------------ *)
(* 3. generators (R2) *)

Definition gkeep (f : rframe) : bool :=
  match r_kind f with KSpawn | KSpawnError => true | _ => false end.
Definition gkill (e g : rframe) : bool := same_cn e g && gkeep g.
Definition is_spawn (f : rframe) : bool :=
  match r_kind f with KSpawn => true | _ => false end.

Lemma spec_generators_gspec : forall fs,
  spec_generators fs = filter is_spawn (gspec gkeep gkill fs).
Proof.
  induction fs as [|a fs IH].
  - reflexivity.
  - cbn [spec_generators gspec]. unfold gkeep at 1. rewrite IH.
    change (fun g : rframe => same_cn a g &&
              match r_kind g with KSpawn | KSpawnError => true | _ => false end)
      with (gkill a).
    pose proof (eq_refl (is_spawn a)) as Hs. unfold is_spawn at 2 in Hs.
    destruct (r_kind a); try reflexivity;
      (destruct (existsb (gkill a) fs); [reflexivity|]);
      cbn [filter]; rewrite Hs; reflexivity.
Qed.

Lemma generators_fold : forall fs,
  fold_left (generators_step true) fs [] = gspec gkeep gkill fs.
Proof.
  apply put_fold.
  - intros t f. unfold generators_step, gkeep. destruct (r_kind f); reflexivity.
  - reflexivity.
Qed.

(* no hypothesis on ids is needed: the table keeps history order *)
Theorem compact_generators_correct_gen : forall fs,
  compact_generators true fs = spec_generators fs.
Proof.
  intros fs. unfold compact_generators. rewrite generators_fold, spec_generators_gspec.
  reflexivity.
Qed.

(* R2 *)
Theorem compact_generators_correct : forall fs,
  ids_inc fs -> compact_generators true fs = spec_generators fs.
Proof. intros fs _. apply compact_generators_correct_gen. Qed.

(* ------------------------------------------------------------------------ *)
(* 4. commands (R3) *)

Definition ckeep (f : rframe) : bool :=
  match r_kind f with KDefine => true | _ => false end.
Definition ckill (e g : rframe) : bool := same_cn e g && ckeep g.

Lemma spec_commands_gspec : forall fs, spec_commands fs = gspec ckeep ckill fs.
Proof.
  induction fs as [|a fs IH].
  - reflexivity.
  - cbn [spec_commands gspec]. unfold ckeep at 1. rewrite IH.
    destruct (r_kind a); reflexivity.
Qed.

Lemma commands_fold : forall fs,
  fold_left (commands_step true) fs [] = gspec ckeep ckill fs.
Proof.
  apply put_fold.
  - intros t f. unfold commands_step, ckeep. destruct (r_kind f); reflexivity.
  - reflexivity.
Qed.

Theorem compact_commands_correct_gen : forall fs,
  compact_commands true fs = spec_commands fs.
Proof.
  intros fs. unfold compact_commands. rewrite commands_fold, spec_commands_gspec.
  reflexivity.
Qed.

(* R3 *)
Theorem compact_commands_correct : forall fs,
  ids_inc fs -> compact_commands true fs = spec_commands fs.
Proof. intros fs _. apply compact_commands_correct_gen. Qed.

(* ------------------------------------------------------------------------ *)
(* 5. the name-only keyed tables of the pinned code are refuted (R4) *)

Definition h1 := mkR 1 0 [104] KRegister None.
Definition h2 := mkR 2 7 [104] KRegister None.

Theorem name_keyed_handlers_refuted :
  spec_handlers [h1; h2] = [h1; h2] /\ compact_handlers false [h1; h2] = [h2].
Proof. split; vm_compute; reflexivity. Qed.

Definition g1 := mkR 1 0 [103] KSpawn None.
Definition g2e := mkR 2 7 [103] KSpawnError None.

Theorem name_keyed_generators_refuted :
  spec_generators [g1; g2e] = [g1] /\ compact_generators false [g1; g2e] = [].
Proof. split; vm_compute; reflexivity. Qed.

Definition d1 := mkR 1 0 [99] KDefine None.
Definition d2 := mkR 2 7 [99] KDefine None.

Theorem name_keyed_commands_refuted :
  spec_commands [d1; d2] = [d1; d2] /\ compact_commands false [d1; d2] = [d2].
Proof. split; vm_compute; reflexivity. Qed.

(* the fixed code on the same histories *)
Example ctx_keyed_on_refutations :
  compact_handlers true [h1; h2] = [h1; h2] /\
  compact_generators true [g1; g2e] = [g1] /\
  compact_commands true [d1; d2] = [d1; d2].
Proof. repeat split; vm_compute; reflexivity. Qed.

(* ------------------------------------------------------------------------ *)
(* 6. partial correctness of the name-only keyed tables (R5) *)

Definition names_unique (fs : list rframe) : Prop :=
  forall f g, In f fs -> In g fs -> r_name f = r_name g -> r_ctx f = r_ctx g.

Section NameKeyed.
  Variable all : list rframe.
  Hypothesis NU : names_unique all.

  Lemma key_eqb_agree : forall a b, In a all -> In b all ->
    key_eqb false a b = key_eqb true a b.
  Proof.
    intros a b Ha Hb. unfold key_eqb. cbn [negb orb].
    destruct (bytes_eqb (r_name a) (r_name b)) eqn:E; [|reflexivity].
    apply bytes_eqb_eq in E. rewrite (NU a b Ha Hb E), N.eqb_refl. reflexivity.
  Qed.

  Lemma tbl_remove_agree : forall f t, In f all -> incl t all ->
    tbl_remove false f t = tbl_remove true f t.
  Proof.
    intros f t Hf Ht. unfold tbl_remove. apply filter_ext_in. intros e He.
    rewrite (key_eqb_agree f e Hf (Ht e He)). reflexivity.
  Qed.

  Lemma tbl_get_agree : forall f t, In f all -> incl t all ->
    tbl_get false f t = tbl_get true f t.
  Proof.
    intros f t Hf. unfold tbl_get. induction t as [|a t IH]; intros Ht.
    - reflexivity.
    - cbn [find]. rewrite (key_eqb_agree f a Hf (Ht a (or_introl eq_refl))).
      rewrite IH; [reflexivity|]. intros x Hx. apply Ht. right. exact Hx.
  Qed.

  Lemma tbl_put_agree : forall f t, In f all -> incl t all ->
    tbl_put false f t = tbl_put true f t.
  Proof.
    intros f t Hf Ht. unfold tbl_put. rewrite (tbl_remove_agree f t Hf Ht). reflexivity.
  Qed.

  Lemma tbl_remove_incl : forall b f t, incl t all -> incl (tbl_remove b f t) all.
  Proof.
    intros b f t Ht x Hx. unfold tbl_remove in Hx. apply filter_In in Hx.
    apply Ht. apply Hx.
  Qed.

  Lemma tbl_put_incl : forall b f t, In f all -> incl t all -> incl (tbl_put b f t) all.
  Proof.
    intros b f t Hf Ht x Hx. unfold tbl_put in Hx. apply in_app_or in Hx.
    destruct Hx as [Hx|[Hx|[]]].
    - exact (tbl_remove_incl b f t Ht x Hx).
    - subst x. exact Hf.
  Qed.

  (* invariant: the table only holds frames of the history *)
  Lemma fold_agree : forall (step : bool -> list rframe -> rframe -> list rframe),
    (forall t f, In f all -> incl t all ->
                 step false t f = step true t f /\ incl (step true t f) all) ->
    forall l t, incl l all -> incl t all ->
                fold_left (step false) l t = fold_left (step true) l t.
  Proof.
    intros step Hstep. induction l as [|f l IH]; intros t Hl Ht.
    - reflexivity.
    - cbn [fold_left].
      assert (Hf : In f all) by (apply Hl; left; reflexivity).
      destruct (Hstep t f Hf Ht) as [E I]. rewrite E. apply IH; [|exact I].
      intros x Hx. apply Hl. right. exact Hx.
  Qed.

  Lemma handlers_step_agree : forall t f, In f all -> incl t all ->
    handlers_step false t f = handlers_step true t f /\ incl (handlers_step true t f) all.
  Proof.
    intros t f Hf Ht. unfold handlers_step.
    rewrite (tbl_put_agree f t Hf Ht), (tbl_get_agree f t Hf Ht),
            (tbl_remove_agree f t Hf Ht).
    split; [reflexivity|].
    destruct (r_kind f); try exact Ht.
    - apply tbl_put_incl; assumption.
    - destruct (r_ref f); [|exact Ht]. destruct (tbl_get true f t); [|exact Ht].
      destruct (r_id r =? n); [|exact Ht]. apply tbl_remove_incl; exact Ht.
    - destruct (r_ref f); [|exact Ht]. destruct (tbl_get true f t); [|exact Ht].
      destruct (r_id r =? n); [|exact Ht]. apply tbl_remove_incl; exact Ht.
  Qed.

  Lemma generators_step_agree : forall t f, In f all -> incl t all ->
    generators_step false t f = generators_step true t f /\
    incl (generators_step true t f) all.
  Proof.
    intros t f Hf Ht. unfold generators_step. rewrite (tbl_put_agree f t Hf Ht).
    split; [reflexivity|].
    destruct (r_kind f); try exact Ht; apply tbl_put_incl; assumption.
  Qed.

  Lemma commands_step_agree : forall t f, In f all -> incl t all ->
    commands_step false t f = commands_step true t f /\
    incl (commands_step true t f) all.
  Proof.
    intros t f Hf Ht. unfold commands_step. rewrite (tbl_put_agree f t Hf Ht).
    split; [reflexivity|].
    destruct (r_kind f); try exact Ht; apply tbl_put_incl; assumption.
  Qed.
End NameKeyed.

Lemma incl_nil_any : forall (l : list rframe), incl [] l.
Proof. intros l x []. Qed.

(* R5 *)
Theorem compact_handlers_name_keyed_partial : forall fs,
  names_unique fs -> compact_handlers false fs = compact_handlers true fs.
Proof.
  intros fs NU. unfold compact_handlers. f_equal.
  apply (fold_agree fs handlers_step (handlers_step_agree fs NU)).
  - apply incl_refl.
  - apply incl_nil_any.
Qed.

Theorem compact_generators_name_keyed_partial : forall fs,
  names_unique fs -> compact_generators false fs = compact_generators true fs.
Proof.
  intros fs NU. unfold compact_generators. f_equal.
  apply (fold_agree fs generators_step (generators_step_agree fs NU)).
  - apply incl_refl.
  - apply incl_nil_any.
Qed.

Theorem compact_commands_name_keyed_partial : forall fs,
  names_unique fs -> compact_commands false fs = compact_commands true fs.
Proof.
  intros fs NU. unfold compact_commands.
  apply (fold_agree fs commands_step (commands_step_agree fs NU)).
  - apply incl_refl.
  - apply incl_nil_any.
Qed.

(* hence the pinned code is correct when a name lives in at most one context *)
Corollary compact_handlers_name_keyed_correct : forall fs,
  names_unique fs -> ids_inc fs -> compact_handlers false fs = spec_handlers fs.
Proof.
  intros fs NU S. rewrite (compact_handlers_name_keyed_partial fs NU).
  apply compact_handlers_correct. exact S.
Qed.

Corollary compact_generators_name_keyed_correct : forall fs,
  names_unique fs -> compact_generators false fs = spec_generators fs.
Proof.
  intros fs NU. rewrite (compact_generators_name_keyed_partial fs NU).
  apply compact_generators_correct_gen.
Qed.

Corollary compact_commands_name_keyed_correct : forall fs,
  names_unique fs -> compact_commands false fs = spec_commands fs.
Proof.
  intros fs NU. rewrite (compact_commands_name_keyed_partial fs NU).
  apply compact_commands_correct_gen.
Qed.

(* the hypothesis is what fails in the refutations *)
Example refutation_not_names_unique : ~ names_unique [h1; h2].
Proof.
  intros NU.
  assert (C : r_ctx h1 = r_ctx h2).
  { apply NU; [left; reflexivity | right; left; reflexivity | reflexivity]. }
  vm_compute in C. discriminate.
Qed.

(* ------------------------------------------------------------------------ *)
(* 7. nothing that was unregistered, replaced or failed comes back (R6) *)

Theorem spec_handlers_only_registers : forall fs e,
  In e (spec_handlers fs) -> r_kind e = KRegister /\ In e fs.
Proof.
  intros fs e H. rewrite spec_handlers_gspec in H. apply gspec_In in H.
  destruct H as [K I]. split; [|exact I].
  unfold hkeep in K. destruct (r_kind e); try discriminate. reflexivity.
Qed.

Theorem spec_handlers_ended_absent : forall pre e post g,
  ids_inc (pre ++ e :: post) ->
  In g post -> same_cn e g = true ->
  (r_kind g = KRegister \/
   ((r_kind g = KUnregister \/ r_kind g = KUnregistered) /\ r_ref g = Some (r_id e))) ->
  ~ In e (spec_handlers (pre ++ e :: post)).
Proof.
  intros pre e post g S Hg Hcn Hk Hin.
  rewrite spec_handlers_gspec in Hin.
  pose proof (gspec_not_killed hkeep hkill pre e post S Hin) as Hnk.
  assert (Hex : existsb (hkill e) post = true).
  { apply existsb_exists. exists g. split; [exact Hg|].
    unfold hkill. rewrite Hcn. cbn [andb].
    destruct Hk as [K|[[K|K] R]]; rewrite K; try reflexivity;
      rewrite R; apply N.eqb_refl. }
  congruence.
Qed.

(* the same two facts for what the fixed code starts at boot *)
Corollary compact_handlers_only_registers : forall fs e,
  ids_inc fs -> In e (compact_handlers true fs) -> r_kind e = KRegister /\ In e fs.
Proof.
  intros fs e S H. rewrite (compact_handlers_correct fs S) in H.
  apply spec_handlers_only_registers. exact H.
Qed.

Corollary compact_handlers_ended_absent : forall pre e post g,
  ids_inc (pre ++ e :: post) ->
  In g post -> same_cn e g = true ->
  (r_kind g = KRegister \/
   ((r_kind g = KUnregister \/ r_kind g = KUnregistered) /\ r_ref g = Some (r_id e))) ->
  ~ In e (compact_handlers true (pre ++ e :: post)).
Proof.
  intros pre e post g S Hg Hcn Hk. rewrite (compact_handlers_correct _ S).
  eapply spec_handlers_ended_absent; eassumption.
Qed.

(* the result is in id order, and at most one registration per (context, name) *)
Corollary compact_handlers_sorted : forall fs,
  ids_inc fs -> ids_inc (compact_handlers true fs).
Proof.
  intros fs S. rewrite (compact_handlers_correct fs S). apply spec_handlers_sorted. exact S.
Qed.

Corollary compact_handlers_one_per_key : forall fs,
  ids_inc fs -> kuniq (compact_handlers true fs).
Proof.
  intros fs S. rewrite (compact_handlers_correct fs S), spec_handlers_gspec.
  apply gspec_kuniq. exact hkill_same.
Qed.

(* generators / commands: only running spawns / definitions, none that was superseded *)
Theorem spec_generators_only_spawns : forall fs e,
  In e (spec_generators fs) -> r_kind e = KSpawn /\ In e fs.
Proof.
  intros fs e H. rewrite spec_generators_gspec in H. apply filter_In in H.
  destruct H as [H K]. apply gspec_In in H. destruct H as [_ I]. split; [|exact I].
  unfold is_spawn in K. destruct (r_kind e); try discriminate. reflexivity.
Qed.

Theorem spec_generators_superseded_absent : forall pre e post g,
  ids_inc (pre ++ e :: post) ->
  In g post -> same_cn e g = true ->
  (r_kind g = KSpawn \/ r_kind g = KSpawnError) ->
  ~ In e (spec_generators (pre ++ e :: post)).
Proof.
  intros pre e post g S Hg Hcn Hk Hin.
  rewrite spec_generators_gspec in Hin. apply filter_In in Hin. destruct Hin as [Hin _].
  pose proof (gspec_not_killed gkeep gkill pre e post S Hin) as Hnk.
  assert (Hex : existsb (gkill e) post = true).
  { apply existsb_exists. exists g. split; [exact Hg|].
    unfold gkill, gkeep. rewrite Hcn. destruct Hk as [K|K]; rewrite K; reflexivity. }
  congruence.
Qed.

Theorem spec_commands_only_defines : forall fs e,
  In e (spec_commands fs) -> r_kind e = KDefine /\ In e fs.
Proof.
  intros fs e H. rewrite spec_commands_gspec in H. apply gspec_In in H.
  destruct H as [K I]. split; [|exact I].
  unfold ckeep in K. destruct (r_kind e); try discriminate. reflexivity.
Qed.

Theorem spec_commands_superseded_absent : forall pre e post g,
  ids_inc (pre ++ e :: post) ->
  In g post -> same_cn e g = true -> r_kind g = KDefine ->
  ~ In e (spec_commands (pre ++ e :: post)).
Proof.
  intros pre e post g S Hg Hcn K Hin.
  rewrite spec_commands_gspec in Hin.
  pose proof (gspec_not_killed ckeep ckill pre e post S Hin) as Hnk.
  assert (Hex : existsb (ckill e) post = true).
  { apply existsb_exists. exists g. split; [exact Hg|].
    unfold ckill, ckeep. rewrite Hcn, K. reflexivity. }
  congruence.
Qed.

(* ------------------------------------------------------------------------ *)
(* 8. non-vacuity (R7): two names (104 "h", 103 "g"), two contexts (0, 7) *)

Definition ex_history : list rframe :=
  [ mkR 1  0 [104] KRegister     None;        (* h@0 registered ...            *)
    mkR 2  7 [104] KRegister     None;        (* h@7 registered, stays active  *)
    mkR 3  0 [103] KRegister     None;        (* g@0 registered, stays active  *)
    mkR 4  0 [104] KUnregister   (Some 1);    (* ... h@0 unregister requested  *)
    mkR 5  0 [104] KUnregistered (Some 1);    (* ... and confirmed             *)
    mkR 6  0 [104] KRegister     None;        (* h@0 registered again          *)
    mkR 7  7 [103] KRegister     None;        (* g@7: registration that fails  *)
    mkR 8  7 [103] KUnregistered (Some 7);    (* ... .unregistered with error  *)
    mkR 9  7 [104] KUnregistered (Some 1);    (* stale id: does not end h@7    *)
    mkR 10 0 [104] KOther        None ].

Example ex_history_sorted : ids_inc ex_history.
Proof.
  unfold ids_inc, ex_history.
  repeat (constructor; [|repeat (constructor; [reflexivity|]); constructor]).
  constructor.
Qed.

Example ex_compact_handlers :
  compact_handlers true ex_history =
  [ mkR 2 7 [104] KRegister None; mkR 3 0 [103] KRegister None;
    mkR 6 0 [104] KRegister None ].
Proof. vm_compute. reflexivity. Qed.

Example ex_spec_handlers :
  spec_handlers ex_history = compact_handlers true ex_history.
Proof. vm_compute. reflexivity. Qed.

(* the pinned code on the same history: h@7 is lost (replaced by h@0 in the name table) and
   g@0 is lost (replaced by the failing g@7, which is then removed) *)
Example ex_compact_handlers_name_keyed :
  compact_handlers false ex_history = [ mkR 6 0 [104] KRegister None ].
Proof. vm_compute. reflexivity. Qed.

(* ------------------------------------------------------------------------ *)

Print Assumptions compact_handlers_correct.
Print Assumptions compact_generators_correct.
Print Assumptions compact_commands_correct.
Print Assumptions name_keyed_handlers_refuted.
Print Assumptions name_keyed_generators_refuted.
Print Assumptions name_keyed_commands_refuted.
Print Assumptions compact_handlers_name_keyed_partial.
Print Assumptions compact_generators_name_keyed_partial.
Print Assumptions compact_commands_name_keyed_partial.
Print Assumptions compact_handlers_name_keyed_correct.
Print Assumptions compact_generators_name_keyed_correct.
Print Assumptions compact_commands_name_keyed_correct.
Print Assumptions spec_handlers_only_registers.
Print Assumptions spec_handlers_ended_absent.
Print Assumptions compact_handlers_ended_absent.
Print Assumptions compact_handlers_one_per_key.
Print Assumptions spec_generators_superseded_absent.
Print Assumptions spec_commands_superseded_absent.
Print Assumptions ex_compact_handlers.
