(* Proofs about Model/Codec.v: decimal printing/parsing, the TTL grammar, the ReadOptions
   query codec.  Axiom-free; stdlib only. *)
From XS Require Import Model.Codec Proofs.BytesP.
From Coq Require Import ZArith Lia ZifyN ZifyBool.
Import ListNotations.
Open Scope N_scope.

Ltac Zify.zify_post_hook ::= Z.div_mod_to_equations.

(* ------------------------------------------------------------------------ *)
(* 1. decimal digits *)

Lemma pow10_succ : forall k, 10 ^ N.of_nat (S k) = 10 * 10 ^ N.of_nat k.
Proof. intros k. rewrite Nnat.Nat2N.inj_succ. apply N.pow_succ_r'. Qed.

Lemma digit_val_digit : forall d, d < 10 -> digit_val (48 + d) = Some d.
Proof.
  intros d Hd. unfold digit_val.
  destruct (N.leb_spec 48 (48 + d)) as [H1|H1]; [|lia].
  destruct (N.leb_spec (48 + d) 57) as [H2|H2]; [|lia].
  cbn [andb]. f_equal. lia.
Qed.

Lemma digit_val_some : forall b d, digit_val b = Some d -> 48 <= b <= 57 /\ d = b - 48.
Proof.
  intros b d H. unfold digit_val in H.
  destruct (N.leb_spec 48 b) as [H1|H1]; cbn [andb] in H; [|discriminate].
  destruct (N.leb_spec b 57) as [H2|H2]; [|discriminate].
  injection H as <-. split; [split; assumption | reflexivity].
Qed.

Lemma parse_digits_app : forall s t k,
  parse_digits (s ++ t) k =
  match parse_digits s k with Some v => parse_digits t v | None => None end.
Proof.
  intros s; induction s as [|b s IH]; intros t k; cbn [app parse_digits].
  - reflexivity.
  - destruct (digit_val b) as [d|]; [apply IH | reflexivity].
Qed.

Lemma dec_digits_acc : forall fuel n acc,
  dec_digits fuel n acc = dec_digits fuel n [] ++ acc.
Proof.
  intros fuel; induction fuel as [|f IH]; intros n acc; cbn [dec_digits].
  - reflexivity.
  - destruct (n / 10 =? 0).
    + reflexivity.
    + rewrite (IH (n / 10) ((48 + n mod 10) :: acc)), (IH (n / 10) [48 + n mod 10]).
      rewrite <- app_assoc. reflexivity.
Qed.

(* the round trip for arbitrary fuel: fuel digits are enough below 10^fuel *)
Lemma parse_dec_digits : forall fuel n,
  n < 10 ^ N.of_nat fuel -> parse_digits (dec_digits fuel n []) 0 = Some n.
Proof.
  intros fuel; induction fuel as [|f IH]; intros n Hn.
  - change (10 ^ N.of_nat 0) with 1 in Hn. cbn [dec_digits parse_digits]. f_equal. lia.
  - rewrite pow10_succ in Hn. cbn [dec_digits].
    assert (Hd : n mod 10 < 10) by lia.
    destruct (N.eqb_spec (n / 10) 0) as [Hq|Hq].
    + cbn [parse_digits]. rewrite (digit_val_digit _ Hd). f_equal. lia.
    + rewrite dec_digits_acc, parse_digits_app.
      assert (Hq' : n / 10 < 10 ^ N.of_nat f)
        by (apply N.div_lt_upper_bound; [discriminate | exact Hn]).
      rewrite (IH _ Hq'). cbn [parse_digits]. rewrite (digit_val_digit _ Hd).
      f_equal. lia.
Qed.

Lemma dec_digits_acc_nonempty : forall fuel n acc, acc <> [] -> dec_digits fuel n acc <> [].
Proof.
  intros fuel; induction fuel as [|f IH]; intros n acc Hacc; cbn [dec_digits].
  - exact Hacc.
  - destruct (n / 10 =? 0); [discriminate | apply IH; discriminate].
Qed.

Lemma dec_digits_S_nonempty : forall f n acc, dec_digits (S f) n acc <> [].
Proof.
  intros f n acc. cbn [dec_digits].
  destruct (n / 10 =? 0); [discriminate | apply dec_digits_acc_nonempty; discriminate].
Qed.

Lemma dec_digits_Forall : forall fuel n acc,
  Forall (fun b => 48 <= b <= 57) acc ->
  Forall (fun b => 48 <= b <= 57) (dec_digits fuel n acc).
Proof.
  intros fuel; induction fuel as [|f IH]; intros n acc Hacc; cbn [dec_digits].
  - exact Hacc.
  - assert (Hc : Forall (fun b => 48 <= b <= 57) ((48 + n mod 10) :: acc))
      by (constructor; [cbv beta; lia | exact Hacc]).
    destruct (n / 10 =? 0); [exact Hc | apply IH; exact Hc].
Qed.

(* D1 *)
Theorem parse_print_dec : forall n, n < 10 ^ 40 -> parse_digits (print_dec n) 0 = Some n.
Proof. intros n Hn. unfold print_dec. apply parse_dec_digits. exact Hn. Qed.

Lemma print_dec_nonempty : forall n, print_dec n <> [].
Proof. intros n. unfold print_dec. apply (dec_digits_S_nonempty 39 n []). Qed.

Lemma print_dec_digits : forall n, Forall (fun b => 48 <= b <= 57) (print_dec n).
Proof. intros n. unfold print_dec. apply dec_digits_Forall. constructor. Qed.

(* everything parse_digits accepts is digits only *)
Lemma parse_digits_Forall : forall s k v,
  parse_digits s k = Some v -> Forall (fun b => 48 <= b <= 57) s.
Proof.
  intros s; induction s as [|b s IH]; intros k v H; cbn [parse_digits] in H.
  - constructor.
  - destruct (digit_val b) as [d|] eqn:E; [|discriminate].
    apply digit_val_some in E. constructor; [cbv beta; lia | eapply IH; exact H].
Qed.

(* ------------------------------------------------------------------------ *)
(* 2. parse_unsigned *)

Definition strip_plus (s : bytes) : bytes := match s with 43 :: r => r | _ => s end.

Lemma parse_unsigned_eq : forall max s,
  parse_unsigned max s =
  match strip_plus s with
  | [] => None
  | _ :: _ => match parse_digits (strip_plus s) 0 with
              | Some v => if v <=? max then Some v else None
              | None => None
              end
  end.
Proof. intros max s. reflexivity. Qed.

Lemma strip_plus_not43 : forall b r, b <> 43 -> strip_plus (b :: r) = b :: r.
Proof.
  intros b r Hb. unfold strip_plus. destruct b as [|p]; [reflexivity|].
  do 6 (destruct p as [p|p|]; try reflexivity).
  exfalso. apply Hb. reflexivity.
Qed.

Lemma parse_unsigned_digits : forall max s v,
  s <> [] -> Forall (fun b => 48 <= b <= 57) s -> parse_digits s 0 = Some v -> v <= max ->
  parse_unsigned max s = Some v.
Proof.
  intros max s v Hne Hd Hp Hv. rewrite parse_unsigned_eq.
  destruct s as [|b r]; [contradiction|].
  assert (Hb : b <> 43) by (inversion Hd as [|x l Hx Hl]; subst; cbv beta in Hx; lia).
  rewrite (strip_plus_not43 b r Hb). cbv iota. rewrite Hp.
  destruct (N.leb_spec v max) as [H|H]; [reflexivity | lia].
Qed.

Theorem parse_unsigned_print : forall max n,
  n <= max -> n < 10 ^ 40 -> parse_unsigned max (print_dec n) = Some n.
Proof.
  intros max n Hmax Hn. apply parse_unsigned_digits.
  - apply print_dec_nonempty.
  - apply print_dec_digits.
  - apply parse_print_dec. exact Hn.
  - exact Hmax.
Qed.

Theorem parse_unsigned_bound : forall max s v, parse_unsigned max s = Some v -> v <= max.
Proof.
  intros max s v H. rewrite parse_unsigned_eq in H.
  destruct (strip_plus s) as [|b r]; [discriminate|]. cbv iota in H.
  destruct (parse_digits (b :: r) 0) as [w|]; [|discriminate].
  destruct (N.leb_spec w max) as [Hw|Hw]; [|discriminate].
  injection H as <-. exact Hw.
Qed.

Lemma parse_unsigned_nonempty : forall max s v, parse_unsigned max s = Some v -> s <> [].
Proof. intros max s v H E. subst s. discriminate H. Qed.

(* ------------------------------------------------------------------------ *)
(* 3. TTL strings *)

Lemma max_u64_lt : max_u64 < 10 ^ 40.
Proof. vm_compute. reflexivity. Qed.

Lemma max_u32_lt : max_u32 < 10 ^ 40.
Proof. vm_compute. reflexivity. Qed.

Lemma parse_ttl_time : forall x,
  parse_ttl (s_time ++ x) = option_map Time (parse_unsigned max_u64 x).
Proof. intros x. reflexivity. Qed.

Lemma parse_ttl_head : forall x,
  parse_ttl (s_head ++ x) =
  match parse_unsigned max_u32 x with
  | Some n => if n <? 1 then None else Some (Head n)
  | None => None
  end.
Proof. intros x. reflexivity. Qed.

(* D2 *)
Theorem parse_ttl_roundtrip : forall t, ttl_wf t = true -> parse_ttl (ttl_to_string t) = Some t.
Proof.
  intros t Hwf. destruct t as [| |ms|n]; cbn [ttl_to_string].
  - vm_compute. reflexivity.
  - vm_compute. reflexivity.
  - rewrite parse_ttl_time. cbn [ttl_wf] in Hwf. apply N.leb_le in Hwf.
    rewrite parse_unsigned_print.
    + reflexivity.
    + exact Hwf.
    + eapply N.le_lt_trans; [exact Hwf | exact max_u64_lt].
  - rewrite parse_ttl_head. cbn [ttl_wf] in Hwf. apply andb_true_iff in Hwf.
    destruct Hwf as [H1 H2]. apply N.leb_le in H1, H2.
    rewrite parse_unsigned_print.
    + destruct (N.ltb_spec n 1) as [H|H]; [lia | reflexivity].
    + exact H2.
    + eapply N.le_lt_trans; [exact H2 | exact max_u32_lt].
Qed.

(* D3 *)
Theorem parse_ttl_wf : forall s t, parse_ttl s = Some t -> ttl_wf t = true.
Proof.
  intros s t H. unfold parse_ttl in H.
  destruct (bytes_eqb s s_forever); [injection H as <-; reflexivity|].
  destruct (bytes_eqb s s_ephemeral); [injection H as <-; reflexivity|].
  destruct (is_prefix s_time s).
  - destruct (parse_unsigned max_u64 (skipn 5 s)) as [v|] eqn:E;
      cbn [option_map] in H; [|discriminate].
    injection H as <-. cbn [ttl_wf]. apply N.leb_le. eapply parse_unsigned_bound. exact E.
  - destruct (is_prefix s_head s); [|discriminate].
    destruct (parse_unsigned max_u32 (skipn 5 s)) as [v|] eqn:E; [|discriminate].
    destruct (N.ltb_spec v 1) as [Hv|Hv]; [discriminate|].
    injection H as <-. cbn [ttl_wf]. apply andb_true_iff. split; apply N.leb_le.
    + exact Hv.
    + eapply parse_unsigned_bound. exact E.
Qed.

(* the accepted language, spelled out: what parse_ttl can return and from which shape *)
Theorem parse_ttl_shape : forall s t, parse_ttl s = Some t ->
  match t with
  | Forever => s = s_forever
  | Ephemeral => s = s_ephemeral
  | Time ms => exists x, s = s_time ++ x /\ parse_unsigned max_u64 x = Some ms
  | Head n => exists x, s = s_head ++ x /\ parse_unsigned max_u32 x = Some n /\ 1 <= n
  end.
Proof.
  intros s t H. unfold parse_ttl in H.
  destruct (bytes_eqb s s_forever) eqn:E1.
  { injection H as <-. apply bytes_eqb_eq. exact E1. }
  destruct (bytes_eqb s s_ephemeral) eqn:E2.
  { injection H as <-. apply bytes_eqb_eq. exact E2. }
  destruct (is_prefix s_time s) eqn:E3.
  - apply is_prefix_app in E3. destruct E3 as [x Hx]. subst s.
    change (skipn 5 (s_time ++ x)) with x in H.
    destruct (parse_unsigned max_u64 x) as [v|] eqn:E; cbn [option_map] in H; [|discriminate].
    injection H as <-. exists x. split; [reflexivity | exact E].
  - destruct (is_prefix s_head s) eqn:E4; [|discriminate].
    apply is_prefix_app in E4. destruct E4 as [x Hx]. subst s.
    change (skipn 5 (s_head ++ x)) with x in H.
    destruct (parse_unsigned max_u32 x) as [v|] eqn:E; [|discriminate].
    destruct (N.ltb_spec v 1) as [Hv|Hv]; [discriminate|].
    injection H as <-. exists x. split; [reflexivity | split; [exact E | exact Hv]].
Qed.

(* ------------------------------------------------------------------------ *)
(* 4. TTL in query pairs *)

(* D5 *)
Theorem ttl_pairs_roundtrip : forall t,
  ttl_wf t = true -> ttl_of_pairs (ttl_to_pairs t) = Some t.
Proof.
  intros t Hwf.
  change (ttl_of_pairs (ttl_to_pairs t)) with (parse_ttl (ttl_to_string t)).
  apply parse_ttl_roundtrip. exact Hwf.
Qed.

Lemma ttl_of_pairs_nil : ttl_of_pairs [] = Some Forever.
Proof. reflexivity. Qed.

(* whatever ttl_of_pairs returns is well formed *)
Theorem ttl_of_pairs_wf : forall ps t, ttl_of_pairs ps = Some t -> ttl_wf t = true.
Proof.
  intros ps t H. unfold ttl_of_pairs in H.
  destruct (find (fun p => bytes_eqb (fst p) k_ttl) (rev ps)) as [[k v]|].
  - eapply parse_ttl_wf. exact H.
  - injection H as <-. reflexivity.
Qed.

(* the last ttl pair wins *)
Theorem ttl_of_pairs_last : forall ps v, ttl_of_pairs (ps ++ [(k_ttl, v)]) = parse_ttl v.
Proof.
  intros ps v. unfold ttl_of_pairs. rewrite rev_app_distr. reflexivity.
Qed.

(* ------------------------------------------------------------------------ *)
(* 5. FollowOption / bool values *)

Lemma parse_follow_num : forall s v,
  parse_unsigned max_u64 s = Some v -> Forall (fun b => 48 <= b <= 57) s ->
  parse_follow s = Some (FHeartbeat v).
Proof.
  intros s v Hp Hd. destruct s as [|b r]; [discriminate Hp|].
  unfold parse_follow.
  assert (Hy : bytes_eqb (b :: r) s_yes = false).
  { inversion Hd as [|x l Hx Hl]; subst. cbv beta in Hx.
    unfold s_yes. cbn [bytes_eqb].
    destruct (N.eqb_spec b 121) as [Hb|Hb]; [lia | reflexivity]. }
  rewrite Hy, Hp. reflexivity.
Qed.

Lemma parse_follow_print : forall ms,
  ms <= max_u64 -> parse_follow (print_dec ms) = Some (FHeartbeat ms).
Proof.
  intros ms Hms. apply parse_follow_num.
  - apply parse_unsigned_print; [exact Hms|].
    eapply N.le_lt_trans; [exact Hms | exact max_u64_lt].
  - apply print_dec_digits.
Qed.

Lemma parse_follow_true : parse_follow s_true = Some FOn.
Proof. vm_compute. reflexivity. Qed.

Lemma parse_tail_true : parse_tail s_true = true.
Proof. vm_compute. reflexivity. Qed.

(* a heartbeat is never out of range *)
Lemma parse_follow_bound : forall s ms, parse_follow s = Some (FHeartbeat ms) -> ms <= max_u64.
Proof.
  intros s ms H. unfold parse_follow in H. destruct s as [|b r]; [discriminate|].
  destruct (bytes_eqb (b :: r) s_yes); [discriminate|].
  destruct (parse_unsigned max_u64 (b :: r)) as [v|] eqn:E.
  - injection H as <-. eapply parse_unsigned_bound. exact E.
  - destruct (bytes_eqb (b :: r) s_true); [discriminate|].
    destruct (bytes_eqb (b :: r) s_false || bytes_eqb (b :: r) s_no); discriminate.
Qed.

(* ------------------------------------------------------------------------ *)
(* 6. ReadOptions *)

Lemma lookup_app : forall k a b, lookup k (a ++ b) = lookup k a ++ lookup k b.
Proof. intros k a b. unfold lookup. rewrite filter_app, map_app. reflexivity. Qed.

Lemma keys_distinct :
  bytes_eqb k_follow k_tail = false /\ bytes_eqb k_follow k_last = false /\
  bytes_eqb k_follow k_limit = false /\ bytes_eqb k_follow k_ctx = false /\
  bytes_eqb k_tail k_last = false /\ bytes_eqb k_tail k_limit = false /\
  bytes_eqb k_tail k_ctx = false /\ bytes_eqb k_last k_limit = false /\
  bytes_eqb k_last k_ctx = false /\ bytes_eqb k_limit k_ctx = false.
Proof. vm_compute. repeat split. Qed.

Definition ro_wf (max_usize : N) (o : ropts) : Prop :=
  (match ro_follow o with FHeartbeat ms => ms <= max_u64 | _ => True end) /\
  (match ro_last o with Some l => l < 2 ^ 128 | None => True end) /\
  (match ro_ctx o with Some c => c < 2 ^ 128 | None => True end) /\
  (match ro_limit o with Some n => n <= max_usize | None => True end).

Section RO.
  Variable print_id : N -> bytes.
  Variable parse_id : bytes -> option N.
  Hypothesis id_roundtrip : forall i, i < 2 ^ 128 -> parse_id (print_id i) = Some i.

  (* each key finds exactly its own pair *)
  Lemma lookup_follow : forall o,
    lookup k_follow (ro_to_pairs print_id o) =
    match ro_follow o with
    | FOff => [] | FOn => [s_true] | FHeartbeat ms => [print_dec ms]
    end.
  Proof. intros [f t l n c]. destruct f, t, l, n, c; reflexivity. Qed.

  Lemma lookup_tail : forall o,
    lookup k_tail (ro_to_pairs print_id o) = if ro_tail o then [s_true] else [].
  Proof. intros [f t l n c]. destruct f, t, l, n, c; reflexivity. Qed.

  Lemma lookup_last : forall o,
    lookup k_last (ro_to_pairs print_id o) =
    match ro_last o with Some l => [print_id l] | None => [] end.
  Proof. intros [f t l n c]. destruct f, t, l, n, c; reflexivity. Qed.

  Lemma lookup_limit : forall o,
    lookup k_limit (ro_to_pairs print_id o) =
    match ro_limit o with Some n => [print_dec n] | None => [] end.
  Proof. intros [f t l n c]. destruct f, t, l, n, c; reflexivity. Qed.

  Lemma lookup_ctx : forall o,
    lookup k_ctx (ro_to_pairs print_id o) =
    match ro_ctx o with Some c => [print_id c] | None => [] end.
  Proof. intros [f t l n c]. destruct f, t, l, n, c; reflexivity. Qed.

  (* D6 *)
  Theorem ro_roundtrip : forall max_usize o,
    max_usize < 10 ^ 40 -> ro_wf max_usize o ->
    ro_of_pairs parse_id max_usize (ro_to_pairs print_id o) = Some o.
  Proof.
    intros max_usize o Hmax [Hf [Hl [Hc Hn]]]. unfold ro_of_pairs.
    rewrite lookup_follow, lookup_tail, lookup_last, lookup_limit, lookup_ctx.
    destruct o as [f t l n c]. cbn [ro_follow ro_tail ro_last ro_limit ro_ctx] in *.
    assert (Ef : field (match f with
                        | FOff => [] | FOn => [s_true] | FHeartbeat ms => [print_dec ms]
                        end) parse_follow FOff = Some f).
    { destruct f as [| |ms]; cbn [field].
      - reflexivity.
      - exact parse_follow_true.
      - apply parse_follow_print. exact Hf. }
    assert (Et : field (if t then [s_true] else []) (fun v => Some (parse_tail v)) false
                 = Some t).
    { destruct t; cbn [field]; [rewrite parse_tail_true|]; reflexivity. }
    assert (El : field (match l with Some l0 => [print_id l0] | None => [] end)
                   (fun v => option_map Some (parse_id v)) None = Some l).
    { destruct l as [l0|]; cbn [field]; [|reflexivity].
      rewrite (id_roundtrip l0 Hl). reflexivity. }
    assert (En : field (match n with Some n0 => [print_dec n0] | None => [] end)
                   (fun v => option_map Some (parse_unsigned max_usize v)) None = Some n).
    { destruct n as [n0|]; cbn [field]; [|reflexivity].
      rewrite (parse_unsigned_print max_usize n0 Hn).
      - reflexivity.
      - eapply N.le_lt_trans; [exact Hn | exact Hmax]. }
    assert (Ec : field (match c with Some c0 => [print_id c0] | None => [] end)
                   (fun v => option_map Some (parse_id v)) None = Some c).
    { destruct c as [c0|]; cbn [field]; [|reflexivity].
      rewrite (id_roundtrip c0 Hc). reflexivity. }
    rewrite Ef, Et, El, En, Ec. reflexivity.
  Qed.

  (* D7: a duplicated key is an error *)
  Lemma ro_dup_limit_rejected : forall max_usize,
    ro_of_pairs parse_id max_usize [(k_limit, [49]); (k_limit, [50])] = None.
  Proof. intros max_usize. reflexivity. Qed.

  Lemma ro_dup_rejected : forall max_usize k v1 v2 ps1 ps2 ps3,
    k = k_follow \/ k = k_tail \/ k = k_last \/ k = k_limit \/ k = k_ctx ->
    ro_of_pairs parse_id max_usize (ps1 ++ (k, v1) :: ps2 ++ (k, v2) :: ps3) = None.
  Proof.
    intros max_usize k v1 v2 ps1 ps2 ps3 Hk.
    assert (Hdup : forall (A : Type) (p : bytes -> option A) (d : A),
              field (lookup k (ps1 ++ (k, v1) :: ps2 ++ (k, v2) :: ps3)) p d = None).
    { intros A p d.
      change ((k, v1) :: ps2 ++ (k, v2) :: ps3) with ([(k, v1)] ++ ps2 ++ [(k, v2)] ++ ps3).
      rewrite !lookup_app.
      assert (E : forall v, lookup k [(k, v)] = [v]).
      { intros v. unfold lookup. cbn [filter fst]. rewrite bytes_eqb_refl. reflexivity. }
      rewrite !E.
      destruct (lookup k ps1) as [|a1 [|a2 r1]]; cbn [app field];
        try reflexivity;
        destruct (lookup k ps2) as [|b1 r2]; cbn [app field]; reflexivity. }
    unfold ro_of_pairs.
    destruct Hk as [E|[E|[E|[E|E]]]]; subst k; rewrite Hdup.
    - reflexivity.
    - destruct (field _ parse_follow FOff); reflexivity.
    - destruct (field _ parse_follow FOff); [|reflexivity].
      destruct (field _ (fun v => Some (parse_tail v)) false); reflexivity.
    - destruct (field _ parse_follow FOff); [|reflexivity].
      destruct (field _ (fun v => Some (parse_tail v)) false); [|reflexivity].
      destruct (field (lookup k_last _) _ None); reflexivity.
    - destruct (field _ parse_follow FOff); [|reflexivity].
      destruct (field _ (fun v => Some (parse_tail v)) false); [|reflexivity].
      destruct (field (lookup k_last _) _ None); [|reflexivity].
      destruct (field (lookup k_limit _) _ None); reflexivity.
  Qed.

  (* D7: unknown keys are ignored *)
  Lemma ro_unknown_ignored : forall max_usize k v ps,
    bytes_eqb k k_follow = false -> bytes_eqb k k_tail = false ->
    bytes_eqb k k_last = false -> bytes_eqb k k_limit = false ->
    bytes_eqb k k_ctx = false ->
    ro_of_pairs parse_id max_usize ((k, v) :: ps) = ro_of_pairs parse_id max_usize ps.
  Proof.
    intros max_usize k v ps H1 H2 H3 H4 H5.
    unfold ro_of_pairs, lookup. cbn [filter fst].
    rewrite H1, H2, H3, H4, H5. reflexivity.
  Qed.

  (* accepted options are in range (given that accepted ids are) *)
  Theorem ro_of_pairs_wf : forall max_usize ps o,
    (forall s i, parse_id s = Some i -> i < 2 ^ 128) ->
    ro_of_pairs parse_id max_usize ps = Some o -> ro_wf max_usize o.
  Proof.
    intros max_usize ps o Hid H. unfold ro_of_pairs in H.
    destruct (field (lookup k_follow ps) parse_follow FOff) as [f|] eqn:Ef; [|discriminate].
    destruct (field (lookup k_tail ps) (fun v => Some (parse_tail v)) false) as [t|];
      [|discriminate].
    destruct (field (lookup k_last ps) (fun v => option_map Some (parse_id v)) None)
      as [l|] eqn:El; [|discriminate].
    destruct (field (lookup k_limit ps)
                (fun v => option_map Some (parse_unsigned max_usize v)) None)
      as [n|] eqn:En; [|discriminate].
    destruct (field (lookup k_ctx ps) (fun v => option_map Some (parse_id v)) None)
      as [c|] eqn:Ec; [|discriminate].
    injection H as <-. unfold ro_wf. cbn [ro_follow ro_last ro_ctx ro_limit].
    assert (Hidf : forall vals x, field vals (fun v => option_map Some (parse_id v)) None
                                  = Some (Some x) -> x < 2 ^ 128).
    { intros vals x Hx. destruct vals as [|v [|w r]]; cbn [field] in Hx; try discriminate.
      destruct (parse_id v) as [i|] eqn:Ei; cbn [option_map] in Hx; [|discriminate].
      injection Hx as <-. eapply Hid. exact Ei. }
    repeat split.
    - destruct f as [| |ms]; [exact I | exact I |].
      destruct (lookup k_follow ps) as [|v [|w r]]; cbn [field] in Ef; try discriminate.
      eapply parse_follow_bound. exact Ef.
    - destruct l as [x|]; [|exact I]. eapply Hidf. exact El.
    - destruct c as [x|]; [|exact I]. eapply Hidf. exact Ec.
    - destruct n as [x|]; [|exact I].
      destruct (lookup k_limit ps) as [|v [|w r]]; cbn [field] in En; try discriminate.
      destruct (parse_unsigned max_usize v) as [i|] eqn:Ei; cbn [option_map] in En;
        [|discriminate].
      injection En as <-. eapply parse_unsigned_bound. exact Ei.
  Qed.
End RO.

(* ------------------------------------------------------------------------ *)
(* 7. single strings, by computation *)

Module Examples.
  Import Coq.Strings.String Coq.Strings.Ascii.
  Definition B (s : string) : bytes := List.map N_of_ascii (list_ascii_of_string s).

  (* the literals are what they claim to be *)
  Example lit_forever : B "forever" = s_forever. Proof. reflexivity. Qed.
  Example lit_ephemeral : B "ephemeral" = s_ephemeral. Proof. reflexivity. Qed.
  Example lit_time : B "time:" = s_time. Proof. reflexivity. Qed.
  Example lit_head : B "head:" = s_head. Proof. reflexivity. Qed.
  Example lit_two64 : B "18446744073709551616" = print_dec (2 ^ 64).
  Proof. vm_compute. reflexivity. Qed.
  Example lit_two32 : B "4294967296" = print_dec (2 ^ 32).
  Proof. vm_compute. reflexivity. Qed.
  Example lit_max64 : print_dec max_u64 = B "18446744073709551615".
  Proof. vm_compute. reflexivity. Qed.
  Example lit_zero : print_dec 0 = B "0". Proof. vm_compute. reflexivity. Qed.
  Example lit_keys :
    k_ttl = B "ttl" /\ k_follow = B "follow" /\ k_tail = B "tail" /\ k_last = B "last-id" /\
    k_limit = B "limit" /\ k_ctx = B "context-id" /\ s_true = B "true" /\ s_false = B "false" /\
    s_yes = B "yes" /\ s_no = B "no" /\ s_zero = B "0".
  Proof. vm_compute. repeat split. Qed.

  (* D4: rejected *)
  Example rej_head0 : parse_ttl (B "head:0") = None. Proof. vm_compute. reflexivity. Qed.
  Example rej_head_empty : parse_ttl (B "head:") = None. Proof. vm_compute. reflexivity. Qed.
  Example rej_time_empty : parse_ttl (B "time:") = None. Proof. vm_compute. reflexivity. Qed.
  Example rej_time_neg : parse_ttl (B "time:-1") = None. Proof. vm_compute. reflexivity. Qed.
  Example rej_time_2_64 : parse_ttl (B "time:18446744073709551616") = None.
  Proof. vm_compute. reflexivity. Qed.
  Example rej_head_2_32 : parse_ttl (B "head:4294967296") = None.
  Proof. vm_compute. reflexivity. Qed.
  Example rej_never : parse_ttl (B "never") = None. Proof. vm_compute. reflexivity. Qed.
  Example rej_empty : parse_ttl (B "") = None. Proof. vm_compute. reflexivity. Qed.
  Example rej_case : parse_ttl (B "Forever") = None. Proof. vm_compute. reflexivity. Qed.
  Example rej_space : parse_ttl (B "time: 5") = None. Proof. vm_compute. reflexivity. Qed.
  Example rej_trailing : parse_ttl (B "time:5 ") = None. Proof. vm_compute. reflexivity. Qed.
  Example rej_plus_only : parse_ttl (B "time:+") = None. Proof. vm_compute. reflexivity. Qed.
  Example rej_plus_plus : parse_ttl (B "time:++5") = None. Proof. vm_compute. reflexivity. Qed.
  Example rej_forever_suffix : parse_ttl (B "forever ") = None.
  Proof. vm_compute. reflexivity. Qed.

  (* D4: accepted, boundaries and oddities *)
  Example acc_time_max : parse_ttl (B "time:18446744073709551615") = Some (Time max_u64).
  Proof. vm_compute. reflexivity. Qed.
  Example acc_head_max : parse_ttl (B "head:4294967295") = Some (Head max_u32).
  Proof. vm_compute. reflexivity. Qed.
  Example acc_time_zero : parse_ttl (B "time:0") = Some (Time 0).
  Proof. vm_compute. reflexivity. Qed.
  Example acc_head_one : parse_ttl (B "head:1") = Some (Head 1).
  Proof. vm_compute. reflexivity. Qed.
  Example acc_time_plus : parse_ttl (B "time:+5") = Some (Time 5).
  Proof. vm_compute. reflexivity. Qed.
  Example acc_time_zeros : parse_ttl (B "time:007") = Some (Time 7).
  Proof. vm_compute. reflexivity. Qed.
  Example acc_head_plus_zeros : parse_ttl (B "head:+01") = Some (Head 1).
  Proof. vm_compute. reflexivity. Qed.

  (* D7: option values *)
  Example follow_maybe : parse_follow (B "maybe") = None. Proof. vm_compute. reflexivity. Qed.
  Example follow_neg : parse_follow (B "-1") = None. Proof. vm_compute. reflexivity. Qed.
  Example follow_2_64 : parse_follow (B "18446744073709551616") = None.
  Proof. vm_compute. reflexivity. Qed.
  Example follow_empty : parse_follow (B "") = Some FOn. Proof. vm_compute. reflexivity. Qed.
  Example follow_yes : parse_follow (B "yes") = Some FOn. Proof. vm_compute. reflexivity. Qed.
  Example follow_false : parse_follow (B "false") = Some FOff.
  Proof. vm_compute. reflexivity. Qed.
  Example follow_no : parse_follow (B "no") = Some FOff. Proof. vm_compute. reflexivity. Qed.
  Example follow_zero : parse_follow (B "0") = Some (FHeartbeat 0).
  Proof. vm_compute. reflexivity. Qed.
  Example follow_plus : parse_follow (B "+5") = Some (FHeartbeat 5).
  Proof. vm_compute. reflexivity. Qed.

  Example unsigned_empty : forall max, parse_unsigned max (B "") = None.
  Proof. intros max. reflexivity. Qed.
  Example unsigned_2_64 : parse_unsigned (2 ^ 64 - 1) (B "18446744073709551616") = None.
  Proof. vm_compute. reflexivity. Qed.
  Example unsigned_junk : forall max, parse_unsigned max (B "1x") = None.
  Proof. intros max. reflexivity. Qed.
  Example unsigned_plus_only : forall max, parse_unsigned max (B "+") = None.
  Proof. intros max. reflexivity. Qed.

  Example ro_dup_limit : forall parse_id max_usize,
    ro_of_pairs parse_id max_usize [(k_limit, B "1"); (k_limit, B "2")] = None.
  Proof. intros parse_id max_usize. reflexivity. Qed.
End Examples.

(* ------------------------------------------------------------------------ *)

Print Assumptions parse_print_dec.
Print Assumptions parse_unsigned_print.
Print Assumptions parse_unsigned_bound.
Print Assumptions parse_ttl_roundtrip.
Print Assumptions parse_ttl_wf.
Print Assumptions parse_ttl_shape.
Print Assumptions ttl_pairs_roundtrip.
Print Assumptions ro_roundtrip.
Print Assumptions ro_dup_rejected.
Print Assumptions ro_unknown_ignored.
Print Assumptions ro_of_pairs_wf.
