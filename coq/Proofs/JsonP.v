(* Proofs about Model/Json.v: the printer/parser pair is exact on wf_lex values within the
   recursion limit, fails (never mis-parses) beyond it, normalize is the identity on
   serde_json::Values, and the Frame codec round trip / poison theorems.
   The parser theorems are proved once for wf_lex' (wf_lex extended with float lexemes that
   lex_number reads back whole, T7: the primed theorems) and instantiated for wf_lex (T1-T4).
   Fuel bound of T1: F v = S (length (print_json v)) <= fuel_for (print_json v).
   Axiom-free; stdlib only. *)
From XS Require Import Model.Json Proofs.BytesP Proofs.CodecP.
From Coq Require Import Lia ZArith ZifyN ZifyBool.
Import ListNotations.
Open Scope N_scope.

Ltac Zify.zify_post_hook ::= Z.div_mod_to_equations.

(* ------------------------------------------------------------------------ *)
(* 0. induction principle for the nested inductive *)

Section JsonInd.
  Variable P : json -> Prop.
  Hypothesis Hnull : P JNull.
  Hypothesis Hbool : forall b, P (JBool b).
  Hypothesis Hint : forall neg n, P (JInt neg n).
  Hypothesis Hfloat : forall lex, P (JFloat lex).
  Hypothesis Hstr : forall s, P (JStr s).
  Hypothesis Harr : forall l, Forall P l -> P (JArr l).
  Hypothesis Hobj : forall l, Forall (fun kv => P (snd kv)) l -> P (JObj l).

  Fixpoint json_ind' (v : json) : P v :=
    match v with
    | JNull => Hnull
    | JBool b => Hbool b
    | JInt neg n => Hint neg n
    | JFloat lex => Hfloat lex
    | JStr s => Hstr s
    | JArr l =>
        Harr l ((fix go (l : list json) : Forall P l :=
                   match l with
                   | [] => Forall_nil _
                   | x :: r => Forall_cons x (json_ind' x) (go r)
                   end) l)
    | JObj l =>
        Hobj l ((fix go (l : list (bytes * json)) : Forall (fun kv => P (snd kv)) l :=
                   match l with
                   | [] => Forall_nil _
                   | (k, x) :: r => Forall_cons (k, x) (json_ind' x) (go r)
                   end) l)
    end.
End JsonInd.

Definition delim (rest : bytes) : Prop :=
  match rest with [] => True | b :: _ => b = 44 \/ b = 93 \/ b = 125 end.

(* ------------------------------------------------------------------------ *)
(* 1. unfolding equations for the mutual fixpoint *)

Lemma parse_value_O : forall depth s, parse_value O depth s = None.
Proof. reflexivity. Qed.

Lemma parse_value_S : forall f depth s,
  parse_value (S f) depth s =
  match skip_ws s with
  | [] => None
  | b :: r =>
      if b =? 110 then expect [117;108;108] r JNull
      else if b =? 116 then expect [114;117;101] r (JBool true)
      else if b =? 102 then expect [97;108;115;101] r (JBool false)
      else if b =? 34 then
        match parse_str r with Some (str, t) => Some (JStr str, t) | None => None end
      else if b =? 91 then
        match depth with
        | S (S d) =>
            match skip_ws r with
            | c :: r' => if c =? 93 then Some (JArr [], r') else parse_elems f (S d) (c :: r') []
            | [] => None
            end
        | _ => None
        end
      else if b =? 123 then
        match depth with
        | S (S d) =>
            match skip_ws r with
            | c :: r' => if c =? 125 then Some (JObj [], r') else parse_members f (S d) (c :: r') []
            | [] => None
            end
        | _ => None
        end
      else if (b =? 45) || is_digit b then lex_number (b :: r)
      else None
  end.
Proof. reflexivity. Qed.

Lemma parse_elems_O : forall depth s acc, parse_elems O depth s acc = None.
Proof. reflexivity. Qed.

Lemma parse_elems_S : forall f depth s acc,
  parse_elems (S f) depth s acc =
  match parse_value f depth s with
  | None => None
  | Some (v, t) =>
      match skip_ws t with
      | c :: t' =>
          if c =? 44 then parse_elems f depth t' (v :: acc)
          else if c =? 93 then Some (JArr (rev (v :: acc)), t')
          else None
      | [] => None
      end
  end.
Proof. reflexivity. Qed.

Lemma parse_members_O : forall depth s acc, parse_members O depth s acc = None.
Proof. reflexivity. Qed.

Lemma parse_members_S : forall f depth s acc,
  parse_members (S f) depth s acc =
  match skip_ws s with
  | q :: r =>
      if q =? 34 then
        match parse_str r with
        | Some (k, t) =>
            match skip_ws t with
            | c :: t1 =>
                if c =? 58 then
                  match parse_value f depth t1 with
                  | Some (v, t2) =>
                      match skip_ws t2 with
                      | c2 :: t3 =>
                          if c2 =? 44 then parse_members f depth t3 ((k, v) :: acc)
                          else if c2 =? 125 then Some (JObj (rev ((k, v) :: acc)), t3)
                          else None
                      | [] => None
                      end
                  | None => None
                  end
                else None
            | [] => None
            end
        | None => None
        end
      else None
  | [] => None
  end.
Proof. reflexivity. Qed.

(* parse_value on a known first byte *)
Lemma pv_null : forall f depth rest,
  parse_value (S f) depth (s_null ++ rest) = Some (JNull, rest).
Proof. reflexivity. Qed.
Lemma pv_true : forall f depth rest,
  parse_value (S f) depth (s_jtrue ++ rest) = Some (JBool true, rest).
Proof. reflexivity. Qed.
Lemma pv_false : forall f depth rest,
  parse_value (S f) depth (s_jfalse ++ rest) = Some (JBool false, rest).
Proof. reflexivity. Qed.
Lemma pv_str : forall f depth r,
  parse_value (S f) depth (34 :: r) =
  match parse_str r with Some (str, t) => Some (JStr str, t) | None => None end.
Proof. reflexivity. Qed.
Lemma pv_arr : forall f depth r,
  parse_value (S f) depth (91 :: r) =
  match depth with
  | S (S d) =>
      match skip_ws r with
      | c :: r' => if c =? 93 then Some (JArr [], r') else parse_elems f (S d) (c :: r') []
      | [] => None
      end
  | _ => None
  end.
Proof. reflexivity. Qed.
Lemma pv_obj : forall f depth r,
  parse_value (S f) depth (123 :: r) =
  match depth with
  | S (S d) =>
      match skip_ws r with
      | c :: r' => if c =? 125 then Some (JObj [], r') else parse_members f (S d) (c :: r') []
      | [] => None
      end
  | _ => None
  end.
Proof. reflexivity. Qed.

Lemma is_digit_iff : forall b, is_digit b = true <-> 48 <= b <= 57.
Proof. intros b. unfold is_digit. lia. Qed.

Lemma pv_num : forall f depth b r,
  b = 45 \/ 48 <= b <= 57 ->
  parse_value (S f) depth (b :: r) = lex_number (b :: r).
Proof.
  intros f depth b r Hb. rewrite parse_value_S. cbn [skip_ws].
  assert (Hws : is_ws b = false) by (unfold is_ws; lia).
  rewrite Hws.
  assert (E1 : b =? 110 = false) by lia. assert (E2 : b =? 116 = false) by lia.
  assert (E3 : b =? 102 = false) by lia. assert (E4 : b =? 34 = false) by lia.
  assert (E5 : b =? 91 = false) by lia. assert (E6 : b =? 123 = false) by lia.
  rewrite E1, E2, E3, E4, E5, E6.
  assert (E7 : (b =? 45) || is_digit b = true) by (unfold is_digit; lia).
  rewrite E7. reflexivity.
Qed.

Lemma skip_ws_nws : forall b r, is_ws b = false -> skip_ws (b :: r) = b :: r.
Proof. intros b r H. cbn [skip_ws]. rewrite H. reflexivity. Qed.

(* ------------------------------------------------------------------------ *)
(* 2. strings: arbitrary bytes round-trip *)

Lemma parse_str_u : forall h1 h2 h3 h4 r3,
  parse_str (92 :: 117 :: h1 :: h2 :: h3 :: h4 :: r3) =
  match hex4 h1 h2 h3 h4 with
  | None => None
  | Some c =>
      if (55296 <=? c) && (c <=? 56319) then
        match r3 with
        | b1 :: b2 :: l1 :: l2 :: l3 :: l4 :: r4 =>
            if (b1 =? 92) && (b2 =? 117) then
              match hex4 l1 l2 l3 l4 with
              | Some lo =>
                  if (56320 <=? lo) && (lo <=? 57343)
                  then cons_str (utf8 (65536 + (c - 55296) * 1024 + (lo - 56320))) (parse_str r4)
                  else None
              | None => None
              end
            else None
        | _ => None
        end
      else if (56320 <=? c) && (c <=? 57343) then None
      else cons_str (utf8 c) (parse_str r3)
  end.
Proof. reflexivity. Qed.

Lemma parse_str_plain : forall b r,
  b <> 34 -> 32 <= b -> b <> 92 -> parse_str (b :: r) = cons_str [b] (parse_str r).
Proof.
  intros b r H1 H2 H3. cbn [parse_str].
  assert (E1 : b =? 34 = false) by lia. assert (E2 : b <? 32 = false) by lia.
  assert (E3 : b =? 92 = false) by lia. rewrite E1, E2, E3. reflexivity.
Qed.

Lemma hex_low : forall b, b < 32 ->
  hex4 48 48 (hex_digit (b / 16)) (hex_digit (b mod 16)) = Some b.
Proof.
  intros b Hb.
  assert (H : exists n, (n < 32)%nat /\ b = N.of_nat n) by (exists (N.to_nat b); lia).
  destruct H as (n & Hn & ->). clear Hb.
  do 32 (destruct n as [|n]; [vm_compute; reflexivity|]). lia.
Qed.

Lemma parse_str_esc : forall b t, parse_str (esc_byte b ++ t) = cons_str [b] (parse_str t).
Proof.
  intros b t. unfold esc_byte.
  destruct (N.eqb_spec b 34) as [->|N1]; [reflexivity|].
  destruct (N.eqb_spec b 92) as [->|N2]; [reflexivity|].
  destruct (N.eqb_spec b 8) as [->|N3]; [reflexivity|].
  destruct (N.eqb_spec b 12) as [->|N4]; [reflexivity|].
  destruct (N.eqb_spec b 10) as [->|N5]; [reflexivity|].
  destruct (N.eqb_spec b 13) as [->|N6]; [reflexivity|].
  destruct (N.eqb_spec b 9) as [->|N7]; [reflexivity|].
  destruct (N.ltb_spec b 32) as [L|L].
  - cbn [app]. rewrite parse_str_u, (hex_low b L).
    assert (E1 : (55296 <=? b) && (b <=? 56319) = false) by lia.
    assert (E2 : (56320 <=? b) && (b <=? 57343) = false) by lia.
    rewrite E1, E2. unfold utf8.
    assert (E3 : b <? 128 = true) by lia. rewrite E3. reflexivity.
  - cbn [app]. apply parse_str_plain; assumption.
Qed.

Lemma parse_str_print : forall s rest,
  parse_str (flat_map esc_byte s ++ 34 :: rest) = Some (s, rest).
Proof.
  intros s rest. induction s as [|b s IH]; cbn [flat_map app].
  - reflexivity.
  - rewrite <- app_assoc, parse_str_esc, IH. reflexivity.
Qed.

Lemma print_str_app : forall s rest,
  print_str s ++ rest = 34 :: flat_map esc_byte s ++ 34 :: rest.
Proof. intros. unfold print_str. cbn [app]. rewrite <- app_assoc. reflexivity. Qed.

Lemma pv_print_str : forall f depth s rest,
  parse_value (S f) depth (print_str s ++ rest) = Some (JStr s, rest).
Proof. intros. rewrite print_str_app, pv_str, parse_str_print. reflexivity. Qed.

(* ------------------------------------------------------------------------ *)
(* 3. integers *)

Definition nd (rest : bytes) : Prop :=
  match rest with [] => True | b :: _ => is_digit b = false end.

Lemma delim_nd : forall rest, delim rest -> nd rest.
Proof.
  intros [|b r] H; [exact I|]. cbn [delim nd] in *.
  destruct H as [->|[->| ->]]; reflexivity.
Qed.

Lemma span_digits_app : forall ds rest,
  Forall (fun b => 48 <= b <= 57) ds -> nd rest -> span_digits (ds ++ rest) = (ds, rest).
Proof.
  intros ds rest Hd Hr. induction Hd as [|b ds Hb Hd IH]; cbn [app span_digits].
  - destruct rest as [|c r]; [reflexivity|]. cbn [span_digits]. cbn [nd] in Hr.
    rewrite Hr. reflexivity.
  - apply is_digit_iff in Hb. rewrite Hb, IH. reflexivity.
Qed.

(* no leading zero *)
Lemma dec_digits_head : forall fuel n acc,
  0 < n -> n < 10 ^ N.of_nat fuel ->
  exists d t, dec_digits fuel n acc = d :: t /\ d <> 48.
Proof.
  intros fuel; induction fuel as [|f IH]; intros n acc Hpos Hn.
  - change (10 ^ N.of_nat 0) with 1 in Hn. lia.
  - rewrite pow10_succ in Hn. cbn [dec_digits].
    destruct (N.eqb_spec (n / 10) 0) as [Hq|Hq].
    + exists (48 + n mod 10), acc. split; [reflexivity | lia].
    + apply IH; [lia|]. apply N.div_lt_upper_bound; [discriminate | exact Hn].
Qed.

Lemma print_dec_no_lead0 : forall n more,
  n < 10 ^ 40 -> print_dec n = 48 :: more -> more = [].
Proof.
  intros n more Hn E. destruct (N.eq_dec n 0) as [->|Hz].
  - vm_compute in E. injection E as <-. reflexivity.
  - destruct (dec_digits_head 40 n []) as (d & t & E' & Hd); [lia | exact Hn |].
    unfold print_dec in E. rewrite E in E'. injection E' as <- _. congruence.
Qed.

Lemma lex_number_core : forall (neg : bool) d0 more rest,
  span_digits ((d0 :: more) ++ rest) = (d0 :: more, rest) ->
  d0 <> 45 ->
  (d0 =? 48) && negb (is_nil more) = false ->
  delim rest ->
  lex_number ((if neg then [45] else []) ++ (d0 :: more) ++ rest) =
  match parse_digits (d0 :: more) 0 with
  | Some v =>
      if neg then
        if (1 <=? v) && (v <=? two63) then Some (JInt true v, rest)
        else Some (JFloat (45 :: d0 :: more), rest)
      else if v <=? max_u64 then Some (JInt false v, rest) else Some (JFloat (d0 :: more), rest)
  | None => None
  end.
Proof.
  intros neg d0 more rest Hspan H45 Hlz Hdelim.
  assert (Hcases : rest = [] \/ exists b r, rest = b :: r /\ (b = 44 \/ b = 93 \/ b = 125)).
  { destruct rest as [|b r]; [left; reflexivity | right; exists b, r; split; [reflexivity | exact Hdelim]]. }
  clear Hdelim.
  unfold lex_number. destruct neg; cbn [app].
  - rewrite N.eqb_refl. change (d0 :: more ++ rest) with ((d0 :: more) ++ rest).
    rewrite Hspan. cbv beta iota. rewrite Hlz.
    destruct Hcases as [->|(b & r & -> & [->|[->| ->]])];
      cbv beta iota; cbn [N.eqb Pos.eqb orb andb is_nil app]; cbv beta iota;
      destruct (parse_digits (d0 :: more) 0) as [v|]; reflexivity.
  - assert (E : d0 =? 45 = false) by lia. rewrite E.
    change (d0 :: more ++ rest) with ((d0 :: more) ++ rest).
    rewrite Hspan. cbv beta iota. rewrite Hlz.
    destruct Hcases as [->|(b & r & -> & [->|[->| ->]])];
      cbv beta iota; cbn [N.eqb Pos.eqb orb andb is_nil app]; cbv beta iota;
      destruct (parse_digits (d0 :: more) 0) as [v|]; reflexivity.
Qed.

Lemma wf_int_lt : forall neg n, wf_lex (JInt neg n) = true -> n < 10 ^ 40.
Proof.
  intros neg n H. cbn [wf_lex] in H. pose proof max_u64_lt as M.
  assert (T : two63 <= max_u64) by (vm_compute; discriminate).
  destruct neg; lia.
Qed.

Lemma lex_number_int : forall neg n rest,
  wf_lex (JInt neg n) = true -> delim rest ->
  lex_number (print_int neg n ++ rest) = Some (JInt neg n, rest).
Proof.
  intros neg n rest Hwf Hdelim.
  pose proof (wf_int_lt _ _ Hwf) as Hlt.
  pose proof (print_dec_digits n) as Hd.
  pose proof (parse_print_dec n Hlt) as Hp.
  pose proof (print_dec_no_lead0 n) as Hl0.
  destruct (print_dec n) as [|d0 more] eqn:E; [exfalso; eapply print_dec_nonempty; exact E|].
  assert (Hd0 : 48 <= d0 <= 57) by (inversion Hd; assumption).
  assert (Hlz : (d0 =? 48) && negb (is_nil more) = false).
  { destruct (N.eqb_spec d0 48) as [->|]; [|reflexivity].
    rewrite (Hl0 more Hlt eq_refl). reflexivity. }
  assert (Hspan : span_digits ((d0 :: more) ++ rest) = (d0 :: more, rest))
    by (apply span_digits_app; [exact Hd | apply delim_nd; exact Hdelim]).
  assert (Hgo := lex_number_core neg d0 more rest Hspan ltac:(lia) Hlz Hdelim).
  rewrite Hp in Hgo. cbn [wf_lex] in Hwf.
  unfold print_int. rewrite E. destruct neg.
  - cbn [app] in *. rewrite Hgo, Hwf. reflexivity.
  - cbn [app] in *. rewrite Hgo, Hwf. reflexivity.
Qed.

Lemma print_int_head : forall neg n,
  exists b t, print_int neg n = b :: t /\ (b = 45 \/ 48 <= b <= 57).
Proof.
  intros neg n. unfold print_int. destruct neg.
  - exists 45, (print_dec n). split; [reflexivity | left; reflexivity].
  - pose proof (print_dec_digits n) as Hd.
    destruct (print_dec n) as [|d0 more] eqn:E; [exfalso; eapply print_dec_nonempty; exact E|].
    exists d0, more. split; [reflexivity | right; inversion Hd; assumption].
Qed.

Lemma pv_print_int : forall f depth neg n rest,
  wf_lex (JInt neg n) = true -> delim rest ->
  parse_value (S f) depth (print_int neg n ++ rest) = Some (JInt neg n, rest).
Proof.
  intros f depth neg n rest Hwf Hdelim.
  destruct (print_int_head neg n) as (b & t & E & Hb).
  rewrite <- (lex_number_int neg n rest Hwf Hdelim). rewrite E. cbn [app].
  apply pv_num. exact Hb.
Qed.

(* ------------------------------------------------------------------------ *)
(* 3b. T7: number lexemes the lexer keeps as floats.  lex_number in stages, and the stages
       commute with appending a delimiter-led rest *)

Definition num_head (s : bytes) : bool * bytes :=
  match s with
  | b :: r => if b =? 45 then (true, r) else (false, s)
  | [] => (false, s)
  end.

Definition frac_of (s2 : bytes) : bytes * bytes * bool :=
  match s2 with
  | b :: r => if b =? 46 then let '(fd, t) := span_digits r in (46 :: fd, t, negb (is_nil fd))
              else ([], s2, true)
  | [] => ([], s2, true)
  end.

Definition exp_of (s3 : bytes) : bytes * bytes * bool :=
  match s3 with
  | b :: r =>
      if (b =? 101) || (b =? 69) then
        let '(sg, r2) := match r with
                         | c :: r' => if (c =? 43) || (c =? 45) then ([c], r') else ([], r)
                         | [] => ([], r)
                         end in
        let '(ed, t) := span_digits r2 in (b :: sg ++ ed, t, negb (is_nil ed))
      else ([], s3, true)
  | [] => ([], s3, true)
  end.

Definition num_fin (neg : bool) (ip frac ex s4 : bytes) : option (json * bytes) :=
  let sign := if neg then [45] else [] in
  if is_nil frac && is_nil ex then
    match parse_digits ip 0 with
    | Some v =>
        if neg then
          if (1 <=? v) && (v <=? two63) then Some (JInt true v, s4) else Some (JFloat (sign ++ ip), s4)
        else if v <=? max_u64 then Some (JInt false v, s4) else Some (JFloat ip, s4)
    | None => None
    end
  else Some (JFloat (sign ++ ip ++ frac ++ ex), s4).

Definition num_tail (neg : bool) (ip s2 : bytes) : option (json * bytes) :=
  match ip with
  | [] => None
  | d0 :: more =>
      if (d0 =? 48) && negb (is_nil more) then None
      else
        let '(frac, s3, okf) := frac_of s2 in
        let '(ex, s4, oke) := exp_of s3 in
        if okf && oke then num_fin neg ip frac ex s4 else None
  end.

Lemma lex_number_eq : forall s,
  lex_number s =
  let '(neg, s1) := num_head s in
  let '(ip, s2) := span_digits s1 in num_tail neg ip s2.
Proof. reflexivity. Qed.

Lemma span_digits_app_gen : forall s d t rest,
  span_digits s = (d, t) -> nd rest -> span_digits (s ++ rest) = (d, t ++ rest).
Proof.
  intros s; induction s as [|a s IH]; intros d t rest H Hnd.
  - cbn [span_digits] in H. injection H as <- <-. cbn [app].
    destruct rest as [|c r]; [reflexivity|]. cbn [span_digits]. cbn [nd] in Hnd.
    rewrite Hnd. reflexivity.
  - cbn [span_digits app] in *. destruct (is_digit a).
    + destruct (span_digits s) as [d' t'] eqn:E. injection H as <- <-.
      rewrite (IH d' t' rest eq_refl Hnd). reflexivity.
    + injection H as <- <-. reflexivity.
Qed.

Lemma frac_of_app : forall s2 rest, delim rest ->
  frac_of (s2 ++ rest) = let '(fr, s3, ok) := frac_of s2 in (fr, s3 ++ rest, ok).
Proof.
  intros [|b r] rest Hd; cbn [app].
  - destruct rest as [|c r']; [reflexivity|]. cbn [delim] in Hd.
    destruct Hd as [->|[->| ->]]; reflexivity.
  - unfold frac_of. destruct (b =? 46); [|reflexivity].
    destruct (span_digits r) as [fd t] eqn:E.
    rewrite (span_digits_app_gen r fd t rest E (delim_nd _ Hd)). reflexivity.
Qed.

Lemma exp_of_app : forall s3 rest, delim rest ->
  exp_of (s3 ++ rest) = let '(ex, s4, ok) := exp_of s3 in (ex, s4 ++ rest, ok).
Proof.
  intros [|b r] rest Hd; cbn [app].
  - destruct rest as [|c r']; [reflexivity|]. cbn [delim] in Hd.
    destruct Hd as [->|[->| ->]]; reflexivity.
  - unfold exp_of. destruct ((b =? 101) || (b =? 69)); [|reflexivity].
    destruct r as [|c r']; cbn [app].
    + destruct rest as [|c r']; [reflexivity|]. cbn [delim] in Hd.
      destruct Hd as [->|[->| ->]]; reflexivity.
    + destruct ((c =? 43) || (c =? 45)).
      * destruct (span_digits r') as [ed t] eqn:E.
        rewrite (span_digits_app_gen r' ed t rest E (delim_nd _ Hd)). reflexivity.
      * destruct (span_digits (c :: r')) as [ed t] eqn:E.
        change (c :: r' ++ rest) with ((c :: r') ++ rest).
        rewrite (span_digits_app_gen (c :: r') ed t rest E (delim_nd _ Hd)). reflexivity.
Qed.

Lemma num_fin_app : forall neg ip fr ex s4 v t rest,
  num_fin neg ip fr ex s4 = Some (v, t) ->
  num_fin neg ip fr ex (s4 ++ rest) = Some (v, t ++ rest).
Proof.
  intros neg ip fr ex s4 v t rest. unfold num_fin.
  destruct (is_nil fr && is_nil ex).
  - destruct (parse_digits ip 0) as [n|]; [|discriminate]. destruct neg.
    + destruct ((1 <=? n) && (n <=? two63)); intros H; injection H as <- <-; reflexivity.
    + destruct (n <=? max_u64); intros H; injection H as <- <-; reflexivity.
  - intros H; injection H as <- <-; reflexivity.
Qed.

Lemma num_tail_app : forall neg ip s2 v t rest,
  delim rest -> num_tail neg ip s2 = Some (v, t) ->
  num_tail neg ip (s2 ++ rest) = Some (v, t ++ rest).
Proof.
  intros neg ip s2 v t rest Hd. unfold num_tail.
  destruct ip as [|d0 more]; [discriminate|].
  destruct ((d0 =? 48) && negb (is_nil more)); [discriminate|].
  rewrite (frac_of_app s2 rest Hd). destruct (frac_of s2) as [[fr s3] okf].
  rewrite (exp_of_app s3 rest Hd). destruct (exp_of s3) as [[ex s4] oke].
  destruct (okf && oke); [|discriminate]. apply num_fin_app.
Qed.

(* a number followed by a delimiter is read as the same number, up to the delimiter *)
Lemma lex_number_app : forall s v t rest,
  delim rest -> lex_number s = Some (v, t) -> lex_number (s ++ rest) = Some (v, t ++ rest).
Proof.
  intros s v t rest Hd. rewrite !lex_number_eq.
  destruct s as [|b r]; [discriminate|]. cbn [app]. unfold num_head.
  destruct (b =? 45).
  - destruct (span_digits r) as [ip s2] eqn:E.
    rewrite (span_digits_app_gen r ip s2 rest E (delim_nd _ Hd)). apply num_tail_app. exact Hd.
  - destruct (span_digits (b :: r)) as [ip s2] eqn:E.
    change (b :: r ++ rest) with ((b :: r) ++ rest).
    rewrite (span_digits_app_gen (b :: r) ip s2 rest E (delim_nd _ Hd)). apply num_tail_app. exact Hd.
Qed.

Lemma lex_number_first : forall s p, lex_number s = Some p ->
  exists b r, s = b :: r /\ (b = 45 \/ 48 <= b <= 57).
Proof.
  intros s p. rewrite lex_number_eq. destruct s as [|b r]; [discriminate|].
  intros H. exists b, r. split; [reflexivity|].
  destruct (N.eqb_spec b 45) as [e|n]; [left; exact e | right].
  unfold num_head in H. rewrite (proj2 (N.eqb_neq b 45) n) in H.
  cbn [span_digits] in H. destruct (is_digit b) eqn:D; [apply is_digit_iff; exact D|].
  discriminate H.
Qed.

(* a float lexeme: the lexer reads the whole of it back as that float *)
Definition float_lexeme (lex : bytes) : bool :=
  match lex_number lex with
  | Some (JFloat l, []) => bytes_eqb l lex
  | _ => false
  end.

Lemma float_lexeme_spec : forall lex,
  float_lexeme lex = true -> lex_number lex = Some (JFloat lex, []).
Proof.
  intros lex. unfold float_lexeme.
  destruct (lex_number lex) as [[v t]|]; [|discriminate].
  destruct v; try discriminate. destruct t; [|discriminate].
  intros H. apply bytes_eqb_eq in H. subst. reflexivity.
Qed.

Fixpoint wf_lex' (v : json) : bool :=
  match v with
  | JInt false n => n <=? max_u64
  | JInt true n => (1 <=? n) && (n <=? two63)
  | JFloat lex => float_lexeme lex
  | JArr l => forallb wf_lex' l
  | JObj l => forallb (fun kv => match kv with (_, x) => wf_lex' x end) l
  | _ => true
  end.

Lemma wf_lex_wf_lex' : forall v, wf_lex v = true -> wf_lex' v = true.
Proof.
  intros v; induction v as [| b | neg n | lex | s | l IH | l IH] using json_ind'; intros Hwf;
    try exact Hwf.
  - discriminate.
  - cbn [wf_lex wf_lex'] in *. induction IH as [|x r Hx Hr IHr]; [reflexivity|].
    cbn [forallb] in *. apply andb_prop in Hwf. destruct Hwf as [Wx Wr].
    rewrite (Hx Wx), (IHr Wr). reflexivity.
  - cbn [wf_lex wf_lex'] in *. induction IH as [|[k x] r Hx Hr IHr]; [reflexivity|].
    cbn [forallb snd] in *. apply andb_prop in Hwf. destruct Hwf as [Wx Wr].
    rewrite (Hx Wx), (IHr Wr). reflexivity.
Qed.

(* examples: fractions, exponents, "-0", integers beyond u64 are float lexemes; integers in
   range and malformed numbers are not *)
Example float_lexeme_ex :
  map float_lexeme
    [ [49;46;53];                         (* 1.5 *)
      [45;48];                            (* -0 *)
      [49;101;45;55];                     (* 1e-7 *)
      [49;56;52;52;54;55;52;52;48;55;51;55;48;57;53;53;49;54;49;54];   (* 2^64 *)
      [52;50];                            (* 42: an integer *)
      [49;46];                            (* 1. *)
      [48;49;46;53];                      (* 01.5 *)
      [49;46;53;32] ]                     (* trailing space *)
  = [true; true; true; true; false; false; false; false].
Proof. vm_compute. reflexivity. Qed.

Lemma pv_float : forall f depth lex rest,
  float_lexeme lex = true -> delim rest ->
  parse_value (S f) depth (lex ++ rest) = Some (JFloat lex, rest).
Proof.
  intros f depth lex rest Hf Hd. apply float_lexeme_spec in Hf.
  pose proof (lex_number_app lex _ _ rest Hd Hf) as H. cbn [app] in H.
  destruct (lex_number_first _ _ Hf) as (b & r & -> & Hb).
  cbn [app] in *. rewrite pv_num by exact Hb. exact H.
Qed.

(* ------------------------------------------------------------------------ *)
(* 4. shape of the printed text *)

Definition pm (kv : bytes * json) : bytes :=
  match kv with (k, x) => print_str k ++ 58 :: print_json x end.

Lemma print_arr : forall l, print_json (JArr l) = 91 :: sep_concat (map print_json l) ++ [93].
Proof. reflexivity. Qed.
Lemma print_obj : forall l, print_json (JObj l) = 123 :: sep_concat (map pm l) ++ [125].
Proof. reflexivity. Qed.

Lemma print_arr_app : forall l rest,
  print_json (JArr l) ++ rest = 91 :: (sep_concat (map print_json l) ++ 93 :: rest).
Proof. intros. rewrite print_arr. cbn [app]. rewrite <- app_assoc. reflexivity. Qed.
Lemma print_obj_app : forall l rest,
  print_json (JObj l) ++ rest = 123 :: (sep_concat (map pm l) ++ 125 :: rest).
Proof. intros. rewrite print_obj. cbn [app]. rewrite <- app_assoc. reflexivity. Qed.

Lemma sep_concat_1 : forall x : bytes, sep_concat [x] = x.
Proof. reflexivity. Qed.
Lemma sep_concat_2 : forall (x y : bytes) r, sep_concat (x :: y :: r) = x ++ 44 :: sep_concat (y :: r).
Proof. reflexivity. Qed.

Lemma sep_concat_app_1 : forall (x : bytes) t, sep_concat [x] ++ t = x ++ t.
Proof. reflexivity. Qed.
Lemma sep_concat_app_2 : forall (x y : bytes) r t,
  sep_concat (x :: y :: r) ++ t = x ++ 44 :: (sep_concat (y :: r) ++ t).
Proof. intros. rewrite sep_concat_2, <- app_assoc. reflexivity. Qed.

Lemma sep_concat_head : forall (x : bytes) r t, exists u, sep_concat (x :: r) ++ t = x ++ u.
Proof.
  intros x [|y r] t; [exists t; reflexivity|].
  eexists. apply sep_concat_app_2.
Qed.

Lemma sep_len_2 : forall (x y : bytes) r,
  length (sep_concat (x :: y :: r)) = (length x + S (length (sep_concat (y :: r))))%nat.
Proof. intros. rewrite sep_concat_2, app_length. reflexivity. Qed.

Lemma pm_app : forall k x u,
  pm (k, x) ++ u = 34 :: flat_map esc_byte k ++ 34 :: (58 :: (print_json x ++ u)).
Proof.
  intros. unfold pm. rewrite <- app_assoc. rewrite print_str_app. reflexivity.
Qed.

Lemma pm_length : forall k x, (S (length (print_json x)) <= length (pm (k, x)))%nat.
Proof. intros. unfold pm. rewrite app_length. cbn [length]. lia. Qed.

(* first byte of a printed value: not whitespace, not a closing bracket *)
Lemma print_head : forall v, wf_lex' v = true ->
  exists b t, print_json v = b :: t /\ is_ws b = false /\ (b =? 93) = false /\ (b =? 125) = false.
Proof.
  intros v Hwf. destruct v as [|[|]|neg n|lex|s|l|l].
  - eexists _, _. split; [reflexivity | repeat split].
  - eexists _, _. split; [reflexivity | repeat split].
  - eexists _, _. split; [reflexivity | repeat split].
  - destruct (print_int_head neg n) as (b & t & E & Hb). exists b, t.
    split; [exact E|]. unfold is_ws. lia.
  - cbn [wf_lex'] in Hwf. apply float_lexeme_spec in Hwf.
    destruct (lex_number_first _ _ Hwf) as (b & t & -> & Hb). exists b, t.
    split; [reflexivity|]. unfold is_ws. lia.
  - eexists _, _. split; [reflexivity | repeat split].
  - eexists _, _. split; [reflexivity | repeat split].
  - eexists _, _. split; [reflexivity | repeat split].
Qed.

Lemma elems_head : forall x r t, wf_lex' x = true ->
  exists b w, sep_concat (map print_json (x :: r)) ++ t = b :: w /\
              is_ws b = false /\ (b =? 93) = false.
Proof.
  intros x r t Hwf. cbn [map].
  destruct (sep_concat_head (print_json x) (map print_json r) t) as (u & E).
  destruct (print_head x Hwf) as (b & w & E' & H1 & H2 & _).
  exists b, (w ++ u). rewrite E, E'. split; [reflexivity | split; assumption].
Qed.

Lemma members_head : forall k x r t,
  exists w, sep_concat (map pm ((k, x) :: r)) ++ t = 34 :: w.
Proof.
  intros k x r t. cbn [map].
  destruct (sep_concat_head (pm (k, x)) (map pm r) t) as (u & E).
  rewrite E, pm_app. eexists. reflexivity.
Qed.

(* nest and Forall *)
Lemma nest_arr : forall l, nest (JArr l) = S (fold_right (fun x m => Nat.max (nest x) m) O l).
Proof. reflexivity. Qed.
Lemma nest_obj : forall l,
  nest (JObj l) = S (fold_right (fun kv m => Nat.max (nest (snd kv)) m) O l).
Proof.
  intros l. cbn [nest]. f_equal. induction l as [|[k x] r IH]; cbn [fold_right snd]; congruence.
Qed.

Lemma max_nest_le : forall l d,
  (fold_right (fun x m => Nat.max (nest x) m) O l <= d)%nat <->
  Forall (fun x => (nest x <= d)%nat) l.
Proof.
  intros l d. induction l as [|x r IH]; cbn [fold_right].
  - split; [constructor | lia].
  - split.
    + intros H. constructor; [lia | apply IH; lia].
    + intros H. inversion H as [|? ? H1 H2]; subst. apply IH in H2. lia.
Qed.

Lemma max_nest_le_obj : forall (l : list (bytes * json)) d,
  (fold_right (fun kv m => Nat.max (nest (snd kv)) m) O l <= d)%nat <->
  Forall (fun kv => (nest (snd kv) <= d)%nat) l.
Proof.
  intros l d. induction l as [|x r IH]; cbn [fold_right].
  - split; [constructor | lia].
  - split.
    + intros H. constructor; [lia | apply IH; lia].
    + intros H. inversion H as [|? ? H1 H2]; subst. apply IH in H2. lia.
Qed.

(* ------------------------------------------------------------------------ *)
(* 5. T1: the parser reads back what the printer wrote *)

Definition scalar (v : json) : Prop :=
  match v with JArr _ | JObj _ => False | _ => True end.

Lemma pv_scalar : forall v f depth rest,
  scalar v -> wf_lex' v = true -> delim rest ->
  parse_value (S f) depth (print_json v ++ rest) = Some (v, rest).
Proof.
  intros v f depth rest Hs Hwf Hd. destruct v as [|[|]|neg n|lex|s|l|l]; try contradiction.
  - apply pv_null.
  - apply pv_true.
  - apply pv_false.
  - apply pv_print_int; [exact Hwf | assumption].
  - apply pv_float; [exact Hwf | assumption].
  - apply pv_print_str.
Qed.

Definition pv_ok (v : json) : Prop :=
  forall depth rest fuel,
    (nest v < depth)%nat -> delim rest -> (S (length (print_json v)) <= fuel)%nat ->
    parse_value fuel depth (print_json v ++ rest) = Some (v, rest).

Lemma elems_ok : forall l,
  Forall (fun x => wf_lex' x = true -> pv_ok x) l ->
  forallb wf_lex' l = true -> l <> [] ->
  forall depth, Forall (fun x => (nest x < depth)%nat) l ->
  forall fuel acc rest,
    (length (sep_concat (map print_json l)) + 2 <= fuel)%nat ->
    parse_elems fuel depth (sep_concat (map print_json l) ++ 93 :: rest) acc =
    Some (JArr (rev acc ++ l), rest).
Proof.
  intros l; induction l as [|x r IH]; [congruence|].
  intros HP Hwf _ depth Hn fuel acc rest Hf.
  inversion HP as [|? ? Px Pr]; subst. inversion Hn as [|? ? Nx Nr]; subst.
  cbn [forallb] in Hwf. apply andb_prop in Hwf. destruct Hwf as [Wx Wr].
  specialize (Px Wx). destruct fuel as [|f]; [lia|].
  rewrite parse_elems_S. destruct r as [|y r'].
  - cbn [map] in *. rewrite sep_concat_1 in Hf. rewrite sep_concat_app_1.
    rewrite (Px depth (93 :: rest) f Nx); [| cbn [delim]; auto | lia].
    rewrite skip_ws_nws by reflexivity.
    change (93 =? 44) with false. change (93 =? 93) with true. cbv beta iota.
    cbn [rev]. reflexivity.
  - cbn [map] in *. rewrite sep_len_2 in Hf. rewrite sep_concat_app_2.
    rewrite (Px depth (44 :: _) f Nx); [| cbn [delim]; auto | lia].
    rewrite skip_ws_nws by reflexivity.
    change (44 =? 44) with true. cbv beta iota.
    rewrite IH; [| assumption | assumption | discriminate | assumption | lia].
    cbn [rev]. rewrite <- app_assoc. reflexivity.
Qed.

Lemma members_ok : forall l,
  Forall (fun kv => wf_lex' (snd kv) = true -> pv_ok (snd kv)) l ->
  forallb (fun kv => match kv with (_, x) => wf_lex' x end) l = true -> l <> [] ->
  forall depth, Forall (fun kv => (nest (snd kv) < depth)%nat) l ->
  forall fuel acc rest,
    (length (sep_concat (map pm l)) + 2 <= fuel)%nat ->
    parse_members fuel depth (sep_concat (map pm l) ++ 125 :: rest) acc =
    Some (JObj (rev acc ++ l), rest).
Proof.
  intros l; induction l as [|[k x] r IH]; [congruence|].
  intros HP Hwf _ depth Hn fuel acc rest Hf.
  inversion HP as [|? ? Px Pr]; subst. inversion Hn as [|? ? Nx Nr]; subst.
  cbn [forallb] in Hwf. apply andb_prop in Hwf. destruct Hwf as [Wx Wr].
  cbn [snd] in Px, Nx. specialize (Px Wx). destruct fuel as [|f]; [lia|].
  pose proof (pm_length k x) as Hl.
  rewrite parse_members_S. destruct r as [|y r'].
  - cbn [map] in *. rewrite sep_concat_1 in Hf. rewrite sep_concat_app_1, pm_app.
    rewrite skip_ws_nws by reflexivity. change (34 =? 34) with true. cbv beta iota.
    rewrite parse_str_print. rewrite skip_ws_nws by reflexivity.
    change (58 =? 58) with true. cbv beta iota.
    rewrite (Px depth (125 :: rest) f Nx); [| cbn [delim]; auto | lia].
    rewrite skip_ws_nws by reflexivity.
    change (125 =? 44) with false. change (125 =? 125) with true. cbv beta iota.
    cbn [rev]. reflexivity.
  - cbn [map] in *. rewrite sep_len_2 in Hf. rewrite sep_concat_app_2, pm_app.
    rewrite skip_ws_nws by reflexivity. change (34 =? 34) with true. cbv beta iota.
    rewrite parse_str_print. rewrite skip_ws_nws by reflexivity.
    change (58 =? 58) with true. cbv beta iota.
    rewrite (Px depth (44 :: _) f Nx); [| cbn [delim]; auto | lia].
    rewrite skip_ws_nws by reflexivity.
    change (44 =? 44) with true. cbv beta iota.
    rewrite IH; [| assumption | assumption | discriminate | assumption | lia].
    cbn [rev]. rewrite <- app_assoc. reflexivity.
Qed.

Lemma print_parse_ok : forall v, wf_lex' v = true -> pv_ok v.
Proof.
  intros v; induction v as [| b | neg n | lex | s | l IH | l IH] using json_ind'; intros Hwf;
    try (intros depth rest [|f] Hn Hd Hf; [cbn [length] in Hf; lia | apply pv_scalar; [exact I | assumption | assumption]]).
  - (* arrays *)
    intros depth rest fuel Hn Hd Hf. rewrite nest_arr in Hn.
    destruct depth as [|[|d]]; [lia | lia |].
    assert (Hn' : Forall (fun x => (nest x < S d)%nat) l).
    { assert (H : (fold_right (fun x m => Nat.max (nest x) m) O l <= d)%nat) by lia.
      apply max_nest_le in H. eapply Forall_impl; [|exact H]. cbv beta. intros; lia. }
    rewrite print_arr in Hf. cbn [length] in Hf. rewrite app_length in Hf. cbn [length] in Hf.
    destruct fuel as [|f]; [lia|].
    rewrite print_arr_app, pv_arr. cbn [wf_lex'] in Hwf.
    destruct l as [|x r]; [reflexivity|].
    assert (Wx : wf_lex' x = true) by (cbn [forallb] in Hwf; apply andb_prop in Hwf; tauto).
    destruct (elems_head x r (93 :: rest) Wx) as (b & w & E & H1 & H2).
    rewrite E, (skip_ws_nws _ _ H1), H2, <- E.
    apply (elems_ok (x :: r) IH Hwf ltac:(discriminate) (S d) Hn' f [] rest). lia.
  - (* objects *)
    intros depth rest fuel Hn Hd Hf. rewrite nest_obj in Hn.
    destruct depth as [|[|d]]; [lia | lia |].
    assert (Hn' : Forall (fun kv => (nest (snd kv) < S d)%nat) l).
    { assert (H : (fold_right (fun kv m => Nat.max (nest (snd kv)) m) O l <= d)%nat) by lia.
      apply max_nest_le_obj in H. eapply Forall_impl; [|exact H]. cbv beta. intros; lia. }
    rewrite print_obj in Hf. cbn [length] in Hf. rewrite app_length in Hf. cbn [length] in Hf.
    destruct fuel as [|f]; [lia|].
    rewrite print_obj_app, pv_obj. cbn [wf_lex'] in Hwf.
    destruct l as [|[k x] r]; [reflexivity|].
    destruct (members_head k x r (125 :: rest)) as (w & E).
    rewrite E, skip_ws_nws by reflexivity. change (34 =? 125) with false. cbv beta iota.
    rewrite <- E.
    apply (members_ok ((k, x) :: r) IH Hwf ltac:(discriminate) (S d) Hn' f [] rest). lia.
Qed.

Theorem print_parse_value' : forall v rest depth,
  wf_lex' v = true -> delim rest -> (nest v < depth)%nat ->
  exists F, forall fuel, (F <= fuel)%nat ->
    parse_value fuel depth (print_json v ++ rest) = Some (v, rest).
Proof.
  intros v rest depth Hwf Hd Hn. exists (S (length (print_json v))).
  intros fuel Hf. apply print_parse_ok; assumption.
Qed.

(* T2 *)
Theorem parse_json_print' : forall v,
  wf_lex' v = true -> (nest v < recursion_limit)%nat -> parse_json (print_json v) = Some v.
Proof.
  intros v Hwf Hn. unfold parse_json, parse_json_at.
  pose proof (print_parse_ok v Hwf recursion_limit [] (fuel_for (print_json v)) Hn I) as H.
  rewrite app_nil_r in H. rewrite H; [reflexivity|]. unfold fuel_for. lia.
Qed.

(* ------------------------------------------------------------------------ *)
(* 6. T3/T4: for every fuel and depth the parser either fails or returns exactly the printed
      value, and it only succeeds when the value fits the depth budget *)

Definition pv_sound (v : json) : Prop :=
  forall fuel depth rest, delim rest ->
    parse_value fuel depth (print_json v ++ rest) = None \/
    (parse_value fuel depth (print_json v ++ rest) = Some (v, rest) /\
     (nest v = O \/ nest v < depth)%nat).

Lemma elems_sound : forall l,
  Forall (fun x => wf_lex' x = true -> pv_sound x) l ->
  forallb wf_lex' l = true -> l <> [] ->
  forall fuel d acc rest,
    parse_elems fuel (S d) (sep_concat (map print_json l) ++ 93 :: rest) acc = None \/
    (parse_elems fuel (S d) (sep_concat (map print_json l) ++ 93 :: rest) acc =
       Some (JArr (rev acc ++ l), rest) /\
     Forall (fun x => (nest x <= d)%nat) l).
Proof.
  intros l; induction l as [|x r IH]; [congruence|].
  intros HP Hwf _ fuel d acc rest.
  inversion HP as [|? ? Px Pr]; subst.
  cbn [forallb] in Hwf. apply andb_prop in Hwf. destruct Hwf as [Wx Wr].
  specialize (Px Wx). destruct fuel as [|f]; [left; reflexivity|].
  rewrite parse_elems_S. destruct r as [|y r'].
  - cbn [map] in *. rewrite sep_concat_app_1.
    destruct (Px f (S d) (93 :: rest)) as [E|[E Hn]]; [cbn [delim]; auto | | ]; rewrite E.
    + left; reflexivity.
    + right. rewrite skip_ws_nws by reflexivity.
      change (93 =? 44) with false. change (93 =? 93) with true. cbv beta iota.
      cbn [rev]. split; [reflexivity|]. constructor; [lia | constructor].
  - cbn [map] in *. rewrite sep_concat_app_2.
    destruct (Px f (S d) (44 :: (sep_concat (print_json y :: map print_json r') ++ 93 :: rest)))
      as [E|[E Hn]]; [cbn [delim]; auto | | ]; rewrite E.
    + left; reflexivity.
    + rewrite skip_ws_nws by reflexivity.
      change (44 =? 44) with true. cbv beta iota.
      destruct (IH Pr Wr ltac:(discriminate) f d (x :: acc) rest) as [E2|[E2 Hn2]]; rewrite E2.
      * left; reflexivity.
      * right. cbn [rev]. rewrite <- app_assoc. split; [reflexivity|].
        constructor; [lia | exact Hn2].
Qed.

Lemma members_sound : forall l,
  Forall (fun kv => wf_lex' (snd kv) = true -> pv_sound (snd kv)) l ->
  forallb (fun kv => match kv with (_, x) => wf_lex' x end) l = true -> l <> [] ->
  forall fuel d acc rest,
    parse_members fuel (S d) (sep_concat (map pm l) ++ 125 :: rest) acc = None \/
    (parse_members fuel (S d) (sep_concat (map pm l) ++ 125 :: rest) acc =
       Some (JObj (rev acc ++ l), rest) /\
     Forall (fun kv => (nest (snd kv) <= d)%nat) l).
Proof.
  intros l; induction l as [|[k x] r IH]; [congruence|].
  intros HP Hwf _ fuel d acc rest.
  inversion HP as [|? ? Px Pr]; subst.
  cbn [forallb] in Hwf. apply andb_prop in Hwf. destruct Hwf as [Wx Wr].
  cbn [snd] in Px. specialize (Px Wx). destruct fuel as [|f]; [left; reflexivity|].
  rewrite parse_members_S. destruct r as [|y r'].
  - cbn [map] in *. rewrite sep_concat_app_1, pm_app.
    rewrite skip_ws_nws by reflexivity. change (34 =? 34) with true. cbv beta iota.
    rewrite parse_str_print. rewrite skip_ws_nws by reflexivity.
    change (58 =? 58) with true. cbv beta iota.
    destruct (Px f (S d) (125 :: rest)) as [E|[E Hn]]; [cbn [delim]; auto | | ]; rewrite E.
    + left; reflexivity.
    + right. rewrite skip_ws_nws by reflexivity.
      change (125 =? 44) with false. change (125 =? 125) with true. cbv beta iota.
      cbn [rev]. split; [reflexivity|]. constructor; [cbn [snd]; lia | constructor].
  - cbn [map] in *. rewrite sep_concat_app_2, pm_app.
    rewrite skip_ws_nws by reflexivity. change (34 =? 34) with true. cbv beta iota.
    rewrite parse_str_print. rewrite skip_ws_nws by reflexivity.
    change (58 =? 58) with true. cbv beta iota.
    destruct (Px f (S d) (44 :: (sep_concat (pm y :: map pm r') ++ 125 :: rest)))
      as [E|[E Hn]]; [cbn [delim]; auto | | ]; rewrite E.
    + left; reflexivity.
    + rewrite skip_ws_nws by reflexivity.
      change (44 =? 44) with true. cbv beta iota.
      destruct (IH Pr Wr ltac:(discriminate) f d ((k, x) :: acc) rest) as [E2|[E2 Hn2]]; rewrite E2.
      * left; reflexivity.
      * right. cbn [rev]. rewrite <- app_assoc. split; [reflexivity|].
        constructor; [cbn [snd]; lia | exact Hn2].
Qed.

Lemma parse_value_sound : forall v, wf_lex' v = true -> pv_sound v.
Proof.
  intros v; induction v as [| b | neg n | lex | s | l IH | l IH] using json_ind'; intros Hwf;
    try (intros [|f] depth rest Hd;
         [left; reflexivity
         | right; split; [apply pv_scalar; [exact I | assumption | assumption] | left; reflexivity]]).
  - (* arrays *)
    intros [|f] depth rest Hd; [left; reflexivity|].
    rewrite print_arr_app, pv_arr. cbn [wf_lex'] in Hwf.
    destruct depth as [|[|d]]; [left; reflexivity | left; reflexivity |].
    destruct l as [|x r].
    { right. split; [reflexivity|]. right. rewrite nest_arr. cbn [fold_right]. lia. }
    assert (Wx : wf_lex' x = true) by (cbn [forallb] in Hwf; apply andb_prop in Hwf; tauto).
    destruct (elems_head x r (93 :: rest) Wx) as (b & w & E & H1 & H2).
    rewrite E, (skip_ws_nws _ _ H1), H2, <- E.
    destruct (elems_sound (x :: r) IH Hwf ltac:(discriminate) f d [] rest) as [E2|[E2 Hn]];
      rewrite E2; [left; reflexivity|].
    right. split; [reflexivity|]. right. rewrite nest_arr. apply max_nest_le in Hn. lia.
  - (* objects *)
    intros [|f] depth rest Hd; [left; reflexivity|].
    rewrite print_obj_app, pv_obj. cbn [wf_lex'] in Hwf.
    destruct depth as [|[|d]]; [left; reflexivity | left; reflexivity |].
    destruct l as [|[k x] r].
    { right. split; [reflexivity|]. right. rewrite nest_obj. cbn [fold_right]. lia. }
    destruct (members_head k x r (125 :: rest)) as (w & E).
    rewrite E, skip_ws_nws by reflexivity. change (34 =? 125) with false. cbv beta iota.
    rewrite <- E.
    destruct (members_sound ((k, x) :: r) IH Hwf ltac:(discriminate) f d [] rest) as [E2|[E2 Hn]];
      rewrite E2; [left; reflexivity|].
    right. split; [reflexivity|]. right. rewrite nest_obj. apply max_nest_le_obj in Hn. lia.
Qed.

(* the generalisation: never a wrong answer *)
Corollary parse_value_none_or_exact' : forall v rest fuel depth,
  wf_lex' v = true -> delim rest ->
  parse_value fuel depth (print_json v ++ rest) = None \/
  parse_value fuel depth (print_json v ++ rest) = Some (v, rest).
Proof.
  intros v rest fuel depth Hwf Hd.
  destruct (parse_value_sound v Hwf fuel depth rest Hd) as [E|[E _]]; auto.
Qed.

(* T3 *)
Theorem too_deep_value' : forall v rest fuel depth,
  wf_lex' v = true -> delim rest -> (1 <= nest v)%nat -> (depth <= nest v)%nat ->
  parse_value fuel depth (print_json v ++ rest) = None.
Proof.
  intros v rest fuel depth Hwf Hd H1 H2.
  destruct (parse_value_sound v Hwf fuel depth rest Hd) as [E|[_ [H|H]]]; [exact E | lia | lia].
Qed.

(* T4 *)
Theorem parse_json_too_deep' : forall v,
  wf_lex' v = true -> (recursion_limit <= nest v)%nat -> parse_json (print_json v) = None.
Proof.
  intros v Hwf Hn. unfold parse_json, parse_json_at.
  pose proof (too_deep_value' v [] (fuel_for (print_json v)) recursion_limit Hwf I) as H.
  rewrite app_nil_r in H. rewrite H; [reflexivity | | exact Hn].
  unfold recursion_limit in Hn. lia.
Qed.

(* ------------------------------------------------------------------------ *)
(* 6b. T1-T4 as stated for wf_lex (no floats): instances of the primed theorems *)

Theorem print_parse_value : forall v rest depth,
  wf_lex v = true -> delim rest -> (nest v < depth)%nat ->
  exists F, forall fuel, (F <= fuel)%nat ->
    parse_value fuel depth (print_json v ++ rest) = Some (v, rest).
Proof. intros v rest depth Hwf. apply print_parse_value'. apply wf_lex_wf_lex'. exact Hwf. Qed.

Theorem parse_json_print : forall v,
  wf_lex v = true -> (nest v < recursion_limit)%nat -> parse_json (print_json v) = Some v.
Proof. intros v Hwf. apply parse_json_print'. apply wf_lex_wf_lex'. exact Hwf. Qed.

Corollary parse_value_none_or_exact : forall v rest fuel depth,
  wf_lex v = true -> delim rest ->
  parse_value fuel depth (print_json v ++ rest) = None \/
  parse_value fuel depth (print_json v ++ rest) = Some (v, rest).
Proof. intros v rest fuel depth Hwf. apply parse_value_none_or_exact'. apply wf_lex_wf_lex'. exact Hwf. Qed.

Theorem too_deep_value : forall v rest fuel depth,
  wf_lex v = true -> delim rest -> (1 <= nest v)%nat -> (depth <= nest v)%nat ->
  parse_value fuel depth (print_json v ++ rest) = None.
Proof. intros v rest fuel depth Hwf. apply too_deep_value'. apply wf_lex_wf_lex'. exact Hwf. Qed.

Theorem parse_json_too_deep : forall v,
  wf_lex v = true -> (recursion_limit <= nest v)%nat -> parse_json (print_json v) = None.
Proof. intros v Hwf. apply parse_json_too_deep'. apply wf_lex_wf_lex'. exact Hwf. Qed.

(* ------------------------------------------------------------------------ *)
(* 7. T5: normalize is the identity on serde_json::Values (IndexMap objects: keys pairwise
      distinct, any order) *)

Fixpoint norm_go (l m : list (bytes * json)) : list (bytes * json) :=
  match l with
  | [] => m
  | (k, x) :: r => norm_go r (obj_insert k (normalize x) m)
  end.

Lemma normalize_obj : forall l, normalize (JObj l) = JObj (norm_go l []).
Proof. reflexivity. Qed.
Lemma normalize_arr : forall l, normalize (JArr l) = JArr (map normalize l).
Proof. reflexivity. Qed.

(* an IndexMap insert of a key that is not present appends *)
Lemma obj_insert_fresh : forall m k x, key_in k m = false -> obj_insert k x m = m ++ [(k, x)].
Proof.
  intros m k x; induction m as [|[k' v'] m IH]; intros H; cbn [obj_insert app].
  - reflexivity.
  - unfold key_in in H. cbn [existsb fst] in H. apply orb_false_elim in H. destruct H as [E H].
    rewrite E, (IH H). reflexivity.
Qed.

Lemma key_in_app : forall k a b, key_in k (a ++ b) = key_in k a || key_in k b.
Proof. intros. unfold key_in. apply existsb_app. Qed.

Lemma key_in_false : forall k r, key_in k r = false ->
  Forall (fun kv => bytes_eqb k (fst kv) = false) r.
Proof.
  intros k r; induction r as [|kv r IH]; intros H; [constructor|].
  unfold key_in in H. cbn [existsb] in H. apply orb_false_elim in H. destruct H as [E H].
  constructor; [exact E | apply IH; exact H].
Qed.

Lemma nodup_keys_cons : forall k x r,
  nodup_keys ((k, x) :: r) = true -> key_in k r = false /\ nodup_keys r = true.
Proof.
  intros k x r H. cbn [nodup_keys] in H. apply andb_prop in H. destruct H as [H1 H2].
  split; [apply negb_true_iff; exact H1 | exact H2].
Qed.

(* folding the inserts over members with pairwise distinct keys, none of them in m already,
   appends them in order *)
Lemma norm_go_nodup : forall l m,
  nodup_keys l = true ->
  Forall (fun kv => key_in (fst kv) m = false) l ->
  Forall (fun kv => normalize (snd kv) = snd kv) l ->
  norm_go l m = m ++ l.
Proof.
  intros l; induction l as [|[k x] r IH]; intros m Hs Hm Hn; cbn [norm_go].
  - rewrite app_nil_r. reflexivity.
  - inversion Hn as [|? ? Nx Nr]; subst. cbn [snd] in Nx. rewrite Nx.
    inversion Hm as [|? ? Mk Mr]; subst. cbn [fst] in Mk.
    rewrite (obj_insert_fresh m k x Mk).
    apply nodup_keys_cons in Hs. destruct Hs as [Hk Hs].
    rewrite IH; [rewrite <- app_assoc; reflexivity | exact Hs | | exact Nr].
    apply key_in_false in Hk. rewrite Forall_forall in *. intros kv Hin.
    rewrite key_in_app, (Mr kv Hin). unfold key_in at 1. cbn [existsb fst orb].
    rewrite bytes_eqb_sym, (Hk kv Hin). reflexivity.
Qed.

Theorem normalize_wf : forall v, wf_value v = true -> normalize v = v.
Proof.
  intros v; induction v as [| b | neg n | lex | s | l IH | l IH] using json_ind'; intros Hwf;
    try reflexivity.
  - rewrite normalize_arr. f_equal. cbn [wf_value] in Hwf.
    induction IH as [|x r Hx Hr IHr]; [reflexivity|].
    cbn [forallb] in Hwf. apply andb_prop in Hwf. destruct Hwf as [Wx Wr].
    cbn [map]. rewrite (Hx Wx), (IHr Wr). reflexivity.
  - rewrite normalize_obj. f_equal. cbn [wf_value] in Hwf.
    apply andb_prop in Hwf. destruct Hwf as [Hs Hw].
    rewrite norm_go_nodup; [reflexivity | exact Hs | apply Forall_forall; intros; reflexivity |].
    clear Hs. induction IH as [|[k x] r Hx Hr IHr]; [constructor|].
    cbn [forallb] in Hw. apply andb_prop in Hw. destruct Hw as [Wx Wr].
    constructor; [cbn [snd] in *; exact (Hx Wx) | exact (IHr Wr)].
Qed.

(* a duplicate key keeps its first position and takes the last value *)
Theorem normalize_dup_last : forall k v w,
  normalize (JObj [(k, v); (k, w)]) = JObj [(k, normalize w)].
Proof.
  intros k v w. rewrite normalize_obj. cbn [norm_go obj_insert].
  rewrite bytes_eqb_refl. reflexivity.
Qed.

(* ------------------------------------------------------------------------ *)
(* 8. T6: the Frame codec *)

Definition mk_fields (a b c d e g : json) : list (bytes * json) :=
  [(k_topic, a); (k_context_id, b); (k_id, c); (k_hash, d); (k_meta, e); (k_jttl, g)].

Lemma get_all_fields : forall a b c d e g,
  get_all k_topic (mk_fields a b c d e g) = [a] /\
  get_all k_context_id (mk_fields a b c d e g) = [b] /\
  get_all k_id (mk_fields a b c d e g) = [c] /\
  get_all k_hash (mk_fields a b c d e g) = [d] /\
  get_all k_meta (mk_fields a b c d e g) = [e] /\
  get_all k_jttl (mk_fields a b c d e g) = [g].
Proof. intros. repeat split. Qed.

Fixpoint deep (n : nat) : json :=
  match n with O => JNull | S k => JArr [deep k] end.

Lemma deep_nest : forall n, nest (deep n) = n.
Proof.
  induction n as [|n IH]; [reflexivity|].
  change (deep (S n)) with (JArr [deep n]). rewrite nest_arr. cbn [fold_right]. rewrite IH. lia.
Qed.
Lemma deep_wf_lex : forall n, wf_lex (deep n) = true.
Proof.
  induction n as [|n IH]; [reflexivity|].
  change (deep (S n)) with (JArr [deep n]). cbn [wf_lex forallb]. rewrite IH. reflexivity.
Qed.
Lemma deep_wf_value : forall n, wf_value (deep n) = true.
Proof.
  induction n as [|n IH]; [reflexivity|].
  change (deep (S n)) with (JArr [deep n]). cbn [wf_value forallb]. rewrite IH. reflexivity.
Qed.

Section FrameP.
  Variable print_id : N -> bytes.
  Variable parse_id : bytes -> option N.
  Variable parse_hash : bytes -> option bytes.
  Variable hash_ok : bytes -> Prop.
  Hypothesis Hid : forall i, i < two128 -> parse_id (print_id i) = Some i.
  Hypothesis Hhash : forall h, hash_ok h -> parse_hash h = Some h.

  Definition meta_nest (f : jframe) : nat :=
    match jf_meta f with Some v => nest v | None => O end.

  Definition wf_frame (f : jframe) : Prop :=
    jf_ctx f < two128 /\ jf_id f < two128 /\
    (match jf_hash f with Some h => hash_ok h | None => True end) /\
    (match jf_meta f with Some v => wf_lex v = true /\ wf_value v = true /\ v <> JNull | None => True end) /\
    (match jf_ttl f with Some t => ttl_wf t = true | None => True end).

  Definition frame_fields (f : jframe) : list (bytes * json) :=
    mk_fields (JStr (jf_topic f)) (JStr (print_id (jf_ctx f))) (JStr (print_id (jf_id f)))
              (match jf_hash f with Some h => JStr h | None => JNull end)
              (match jf_meta f with Some v => v | None => JNull end)
              (match jf_ttl f with Some t => JStr (ttl_to_string t) | None => JNull end).

  Lemma frame_to_json_eq : forall f, frame_to_json print_id f = JObj (frame_fields f).
  Proof. reflexivity. Qed.

  Lemma frame_json_wf_lex : forall f, wf_frame f -> wf_lex (frame_to_json print_id f) = true.
  Proof.
    intros [t c i h m tl] (_ & _ & _ & Hm & _). cbn [jf_meta] in Hm.
    rewrite frame_to_json_eq. unfold frame_fields, mk_fields.
    cbn [jf_topic jf_ctx jf_id jf_hash jf_meta jf_ttl].
    destruct h as [h|], m as [v|], tl as [tl|]; cbn [wf_lex forallb andb];
      try reflexivity; destruct Hm as (Hm & _); rewrite Hm; reflexivity.
  Qed.

  Lemma frame_json_nest : forall f, nest (frame_to_json print_id f) = S (meta_nest f).
  Proof.
    intros [t c i h m tl]. rewrite frame_to_json_eq, nest_obj. unfold frame_fields, mk_fields, meta_nest.
    cbn [jf_topic jf_ctx jf_id jf_hash jf_meta jf_ttl].
    destruct h as [h|], m as [v|], tl as [tl|]; cbn [fold_right snd nest]; lia.
  Qed.

  Lemma frame_fields_ok : forall f, wf_frame f ->
    frame_of_fields parse_id parse_hash (frame_fields f) = Some f.
  Proof.
    intros [t c i h m tl] (Hc & Hi & Hh & Hm & Ht).
    cbn [jf_topic jf_ctx jf_id jf_hash jf_meta jf_ttl] in *.
    unfold frame_of_fields, frame_fields.
    cbn [jf_topic jf_ctx jf_id jf_hash jf_meta jf_ttl].
    match goal with |- context [mk_fields ?a ?b ?c ?d ?e ?g] =>
      destruct (get_all_fields a b c d e g) as (E1 & E2 & E3 & E4 & E5 & E6) end.
    rewrite E1, E2, E3, E4, E5, E6. clear E1 E2 E3 E4 E5 E6.
    cbn [req bind as_str]. rewrite (Hid c Hc), (Hid i Hi).
    assert (Eh : optf [match h with Some h0 => JStr h0 | None => JNull end]
                   (fun v => bind (as_str v) parse_hash) = Some h).
    { destruct h as [h|]; cbn [optf bind as_str option_map]; [rewrite (Hhash h Hh)|]; reflexivity. }
    assert (Em : optf [match m with Some v => v | None => JNull end]
                   (fun v => Some (normalize v)) = Some m).
    { destruct m as [v|]; [|reflexivity]. destruct Hm as (_ & Hv & Hnn).
      destruct v; try congruence; cbn [optf option_map]; rewrite normalize_wf by assumption;
        reflexivity. }
    assert (Et : optf [match tl with Some t0 => JStr (ttl_to_string t0) | None => JNull end]
                   (fun v => bind (as_str v) parse_ttl) = Some tl).
    { destruct tl as [tl|]; cbn [optf bind as_str option_map];
        [rewrite (parse_ttl_roundtrip tl Ht)|]; reflexivity. }
    rewrite Eh, Em, Et. reflexivity.
  Qed.

  Theorem frame_roundtrip : forall f, wf_frame f -> (meta_nest f < 127)%nat ->
    decode_frame parse_id parse_hash (encode_frame print_id f) = Some f.
  Proof.
    intros f Hwf Hn. unfold decode_frame, encode_frame.
    rewrite parse_json_print.
    - rewrite frame_to_json_eq. apply frame_fields_ok. exact Hwf.
    - apply frame_json_wf_lex. exact Hwf.
    - rewrite frame_json_nest. unfold recursion_limit. lia.
  Qed.

  Theorem frame_poison : forall f, wf_frame f -> (127 <= meta_nest f)%nat ->
    decode_frame parse_id parse_hash (encode_frame print_id f) = None.
  Proof.
    intros f Hwf Hn. unfold decode_frame, encode_frame.
    rewrite parse_json_too_deep; [reflexivity | apply frame_json_wf_lex; exact Hwf |].
    rewrite frame_json_nest. unfold recursion_limit. lia.
  Qed.

  Theorem accepted_is_readable : forall f, wf_frame f ->
    accept print_id parse_id parse_hash true f = true ->
    decode_frame parse_id parse_hash (encode_frame print_id f) = Some f.
  Proof.
    intros f Hwf Ha. destruct (Nat.lt_ge_cases (meta_nest f) 127) as [Hn|Hn].
    - apply frame_roundtrip; assumption.
    - unfold accept, readable in Ha. rewrite (frame_poison f Hwf Hn) in Ha. discriminate.
  Qed.

  Theorem accept_pinned_refuted : exists f, wf_frame f /\
    accept print_id parse_id parse_hash false f = true /\
    decode_frame parse_id parse_hash (encode_frame print_id f) = None.
  Proof.
    exists (mkJF [] 0 0 None (Some (deep 127)) None).
    assert (Hwf : wf_frame (mkJF [] 0 0 None (Some (deep 127)) None)).
    { unfold wf_frame. cbn [jf_ctx jf_id jf_hash jf_meta jf_ttl].
      split; [reflexivity|]. split; [reflexivity|]. split; [exact I|]. split; [|exact I].
      split; [apply deep_wf_lex|]. split; [apply deep_wf_value|].
      change (deep 127) with (JArr [deep 126]). discriminate. }
    split; [exact Hwf|]. split; [reflexivity|].
    apply frame_poison; [exact Hwf|].
    unfold meta_nest. cbn [jf_meta]. rewrite deep_nest. lia.
  Qed.
End FrameP.

Print Assumptions print_parse_value.
Print Assumptions print_parse_value'.
Print Assumptions parse_json_print'.
Print Assumptions too_deep_value'.
Print Assumptions parse_json_too_deep'.
Print Assumptions parse_json_print.
Print Assumptions too_deep_value.
Print Assumptions parse_json_too_deep.
Print Assumptions normalize_wf.
Print Assumptions normalize_dup_last.
Print Assumptions frame_roundtrip.
Print Assumptions frame_poison.
Print Assumptions accepted_is_readable.
Print Assumptions accept_pinned_refuted.
