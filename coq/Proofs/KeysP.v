(* Proofs about the key layouts of Model/Store.v: prefix exactness of the topic
   index, injectivity of the three key encodings, range exactness of the context
   index, order of keys.  Axiom-free; stdlib only. *)
From Coq Require Import List NArith ZArith Bool Lia ZifyN ZifyBool.
From XS Require Import Model.Store Proofs.BytesP.
Import ListNotations.
Open Scope N_scope.

Definition idok (f : frame) : Prop := f_id f < two128 /\ f_ctx f < two128.
Definition nonul (t : bytes) : Prop := has_nul t = false.

(* ------------------------------------------------------------------------ *)
(* NUL-terminated strings *)

Lemma has_nul_cons : forall x t, has_nul (x :: t) = false <-> x <> 0 /\ has_nul t = false.
Proof.
  intros x t. unfold has_nul. cbn [existsb].
  rewrite orb_false_iff, N.eqb_neq. reflexivity.
Qed.

Lemma nul_term_prefix : forall t t' r,
  has_nul t = false -> has_nul t' = false ->
  is_prefix (t ++ [0]) (t' ++ 0 :: r) = true -> t = t'.
Proof.
  intros t; induction t as [|x t IH]; intros [|y t'] r Ht Ht' H;
    cbn [app is_prefix] in H.
  - reflexivity.
  - apply has_nul_cons in Ht'. destruct Ht' as [Hy _].
    apply andb_true_iff in H. destruct H as [H _]. apply N.eqb_eq in H. congruence.
  - apply has_nul_cons in Ht. destruct Ht as [Hx _].
    apply andb_true_iff in H. destruct H as [H _]. apply N.eqb_eq in H. congruence.
  - apply has_nul_cons in Ht. destruct Ht as [_ Ht].
    apply has_nul_cons in Ht'. destruct Ht' as [_ Ht'].
    apply andb_true_iff in H. destruct H as [Hxy H]. apply N.eqb_eq in Hxy. subst y.
    f_equal. eapply IH; eassumption.
Qed.

(* ------------------------------------------------------------------------ *)
(* 9. prefix exactness of the topic index *)

Lemma tkey_unfold : forall f,
  tkey f = be16 (f_ctx f) ++ (f_topic f ++ 0 :: be16 (f_id f)).
Proof.
  intros f. unfold tkey, tprefix. rewrite <- !app_assoc. reflexivity.
Qed.

Lemma tprefix_exact : forall c t f,
  c < two128 -> f_ctx f < two128 ->
  has_nul t = false -> has_nul (f_topic f) = false ->
  (is_prefix (tprefix c t) (tkey f) = true <-> (f_ctx f = c /\ f_topic f = t)).
Proof.
  intros c t f Hc Hf Ht Htf. rewrite tkey_unfold. unfold tprefix.
  rewrite is_prefix_app_eqlen by (rewrite !be16_length; reflexivity).
  rewrite (be16_eqb _ _ Hc Hf). rewrite andb_true_iff, N.eqb_eq. split.
  - intros [Ec H]. split; [congruence|].
    symmetry. eapply nul_term_prefix; eassumption.
  - intros [Ec Et]. subst. split; [reflexivity|].
    change (f_topic f ++ 0 :: be16 (f_id f)) with (f_topic f ++ [0] ++ be16 (f_id f)).
    rewrite app_assoc. apply is_prefix_refl_app.
Qed.

(* ------------------------------------------------------------------------ *)
(* 10. the id is recoverable from a topic-index key *)

Lemma last16_tkey : forall f, last16 (tkey f) = be16 (f_id f).
Proof. intros f. unfold tkey. apply last16_app. apply be16_length. Qed.

Lemma id_of_tkey : forall f, f_id f < two128 -> of_be (last16 (tkey f)) = f_id f.
Proof. intros f Hf. rewrite last16_tkey. apply of_be_be16. exact Hf. Qed.

(* ------------------------------------------------------------------------ *)
(* 11. injectivity of the key encodings *)

Lemma tkey_inj : forall f g, idok f -> idok g ->
  has_nul (f_topic f) = false -> has_nul (f_topic g) = false ->
  tkey f = tkey g ->
  f_id f = f_id g /\ f_ctx f = f_ctx g /\ f_topic f = f_topic g.
Proof.
  intros f g [Hif Hcf] [Hig Hcg] Htf Htg E.
  assert (HP : is_prefix (tprefix (f_ctx g) (f_topic g)) (tkey f) = true).
  { rewrite E. unfold tkey. apply is_prefix_refl_app. }
  apply (tprefix_exact _ _ _ Hcg Hcf Htg Htf) in HP. destruct HP as [Ec Et].
  split; [|split; assumption].
  apply be16_inj; try assumption.
  rewrite <- !last16_tkey. rewrite E. reflexivity.
Qed.

Lemma ckey_inj : forall f g, idok f -> idok g -> ckey f = ckey g ->
  f_id f = f_id g /\ f_ctx f = f_ctx g.
Proof.
  intros f g [Hif Hcf] [Hig Hcg] E. unfold ckey in E.
  apply app_eqlen_inj in E; [|rewrite !be16_length; reflexivity].
  destruct E as [Ec Ei]. split; apply be16_inj; assumption.
Qed.

Lemma skey_inj : forall i j, i < two128 -> j < two128 -> skey i = skey j -> i = j.
Proof. intros i j Hi Hj E. unfold skey in E. apply be16_inj; assumption. Qed.

(* ------------------------------------------------------------------------ *)
(* 12. range exactness of the context index *)

(* a 16-byte bound against a 32-byte context-index key *)
Lemma ckey_ltb_be16 : forall c f, c < two128 -> idok f ->
  lex_ltb (ckey f) (be16 c) = (f_ctx f <? c).
Proof.
  intros c f Hc [Hif Hcf]. unfold ckey.
  rewrite <- (app_nil_r (be16 c)).
  rewrite lex_ltb_app_eqlen by (rewrite !be16_length; reflexivity).
  rewrite (be16_eqb _ _ Hcf Hc), (be16_ltb _ _ Hcf Hc), lex_ltb_nil_r.
  destruct (N.eqb_spec (f_ctx f) c) as [E|E]; [|reflexivity].
  symmetry. apply N.ltb_ge. lia.
Qed.

Lemma be16_ltb_ckey : forall c f, c < two128 -> idok f ->
  lex_ltb (be16 c) (ckey f) = (c <=? f_ctx f).
Proof.
  intros c f Hc [Hif Hcf]. unfold ckey.
  rewrite <- (app_nil_r (be16 c)).
  rewrite lex_ltb_app_eqlen by (rewrite !be16_length; reflexivity).
  rewrite (be16_eqb _ _ Hc Hcf), (be16_ltb _ _ Hc Hcf), lex_ltb_nil_be16.
  destruct (N.eqb_spec c (f_ctx f)) as [E|E]; symmetry.
  - apply N.leb_le. lia.
  - destruct (N.ltb_spec c (f_ctx f)) as [L|L].
    + apply N.leb_le. lia.
    + apply N.leb_gt. lia.
Qed.

Lemma be16x2_ltb_ckey : forall c l f, c < two128 -> l < two128 -> idok f ->
  lex_ltb (be16 c ++ be16 l) (ckey f) =
  if c =? f_ctx f then l <? f_id f else c <? f_ctx f.
Proof.
  intros c l f Hc Hl [Hif Hcf]. unfold ckey.
  rewrite lex_ltb_app_eqlen by (rewrite !be16_length; reflexivity).
  rewrite (be16_eqb _ _ Hc Hcf), (be16_ltb _ _ Hc Hcf), (be16_ltb _ _ Hl Hif).
  reflexivity.
Qed.

Lemma max128_lt : max128 < two128.
Proof. vm_compute. reflexivity. Qed.

Lemma ctx_range_end_lt : forall c, c < max128 -> ctx_range_end c = be16 (c + 1).
Proof.
  intros c Hc. unfold ctx_range_end, sat_succ128.
  apply N.ltb_lt in Hc. rewrite Hc. reflexivity.
Qed.

Lemma ctx_range_end_max : ctx_range_end max128 = be16 max128.
Proof.
  unfold ctx_range_end, sat_succ128. rewrite N.ltb_irrefl. reflexivity.
Qed.

Lemma ckey_range_all : forall c f, c < max128 -> idok f ->
  (above (Incl (be16 c)) (ckey f) && below (Excl (ctx_range_end c)) (ckey f))
  = (f_ctx f =? c).
Proof.
  intros c f Hc Hf. pose proof max128_lt as HM.
  assert (Hc1 : c + 1 < two128) by lia.
  assert (Hc0 : c < two128) by lia.
  rewrite (ctx_range_end_lt c Hc). cbn [above below]. unfold lex_leb.
  rewrite (ckey_ltb_be16 c f Hc0 Hf), (ckey_ltb_be16 (c + 1) f Hc1 Hf).
  lia.
Qed.

Lemma ckey_range_after : forall c l f, c < max128 -> l < two128 -> idok f ->
  (above (Excl (be16 c ++ be16 l)) (ckey f)
   && below (Excl (ctx_range_end c)) (ckey f))
  = ((f_ctx f =? c) && (l <? f_id f)).
Proof.
  intros c l f Hc Hl Hf. pose proof max128_lt as HM.
  assert (Hc1 : c + 1 < two128) by lia.
  assert (Hc0 : c < two128) by lia.
  rewrite (ctx_range_end_lt c Hc). cbn [above below].
  rewrite (be16x2_ltb_ckey c l f Hc0 Hl Hf), (ckey_ltb_be16 (c + 1) f Hc1 Hf).
  destruct (N.eqb_spec c (f_ctx f)) as [E|E].
  - subst c. rewrite N.eqb_refl. cbn [andb].
    assert (L : (f_ctx f <? f_ctx f + 1) = true) by (apply N.ltb_lt; lia).
    rewrite L. apply andb_true_r.
  - destruct (N.eqb_spec (f_ctx f) c) as [E'|E']; [congruence|]. cbn [andb].
    destruct (N.ltb_spec c (f_ctx f)) as [L|L]; [|reflexivity]. cbn [andb].
    apply N.ltb_ge. lia.
Qed.

(* F8: context 2^128-1 can never be read by context: the range is empty *)
Lemma ckey_range_max_empty : forall f, idok f ->
  (above (Incl (be16 max128)) (ckey f)
   && below (Excl (ctx_range_end max128)) (ckey f)) = false.
Proof.
  intros f Hf. rewrite ctx_range_end_max. cbn [above below]. unfold lex_leb.
  apply andb_negb_l.
Qed.

(* ------------------------------------------------------------------------ *)
(* 13. order of keys *)

Lemma skey_ltb : forall i j, i < two128 -> j < two128 ->
  lex_ltb (skey i) (skey j) = (i <? j).
Proof. intros i j Hi Hj. unfold skey. apply be16_ltb; assumption. Qed.

Lemma ckey_ltb_same_ctx : forall f g, idok f -> idok g -> f_ctx f = f_ctx g ->
  lex_ltb (ckey f) (ckey g) = (f_id f <? f_id g).
Proof.
  intros f g [Hif Hcf] [Hig Hcg] E. unfold ckey. rewrite E.
  rewrite lex_ltb_app_same. apply be16_ltb; assumption.
Qed.

Lemma tkey_ltb_same : forall f g, idok f -> idok g ->
  f_ctx f = f_ctx g -> f_topic f = f_topic g ->
  lex_ltb (tkey f) (tkey g) = (f_id f <? f_id g).
Proof.
  intros f g [Hif Hcf] [Hig Hcg] Ec Et. unfold tkey. rewrite Ec, Et.
  rewrite lex_ltb_app_same. apply be16_ltb; assumption.
Qed.

Lemma skip16_ckey : forall f, skipn 16 (ckey f) = be16 (f_id f).
Proof. intros f. unfold ckey. apply skipn_app_len. apply be16_length. Qed.

Lemma id_of_ckey : forall f, f_id f < two128 -> of_be (skipn 16 (ckey f)) = f_id f.
Proof. intros f Hf. rewrite skip16_ckey. apply of_be_be16. exact Hf. Qed.

Lemma skip16_ckey_length : forall f, length (skipn 16 (ckey f)) = 16%nat.
Proof. intros f. rewrite skip16_ckey. apply be16_length. Qed.

(* ------------------------------------------------------------------------ *)

Print Assumptions tprefix_exact.
Print Assumptions last16_tkey.
Print Assumptions id_of_tkey.
Print Assumptions tkey_inj.
Print Assumptions ckey_inj.
Print Assumptions skey_inj.
Print Assumptions ckey_range_all.
Print Assumptions ckey_range_after.
Print Assumptions ckey_range_max_empty.
Print Assumptions skey_ltb.
Print Assumptions ckey_ltb_same_ctx.
Print Assumptions tkey_ltb_same.
Print Assumptions skip16_ckey.
Print Assumptions id_of_ckey.
Print Assumptions skip16_ckey_length.
