(* The journal / durability model (Model/Crash.v) connected with the refinement invariant
   (Proofs/Inv.v, Proofs/RefineA.v): whatever instant the process is killed (or the power
   lost) at, the recovered partitions are the partitions of a store state that satisfies the
   lock-step invariant - the state after k or after k+1 operations. *)
From XS Require Import Model.Crash Proofs.CrashP Proofs.Inv Proofs.RefineA Proofs.Refine Proofs.Corollaries.
From Coq Require Import Lia.

(* ------------------------------------------------------------------ 1 *)

Definition jop_to_op (o : jop) : op :=
  match o with JInsert f => OImport f | JRemove i => ORemove i end.

(* ------------------------------------------------------------------ 2 *)

Lemma step_jop : forall s o, snd (step s (jop_to_op o)) = store_op s o.
Proof.
  intros s o. destruct o as [f|i]; cbn [jop_to_op step store_op].
  - destruct (insert_frame s f) as [r s']. reflexivity.
  - destruct (remove s i) as [r s']. reflexivity.
Qed.

Lemma run_snoc : forall l o s, run (l ++ [o]) s = snd (step (run l s) o).
Proof. intros l o s. unfold run. rewrite fold_left_app. reflexivity. Qed.

Theorem exec_ops_store : forall now js,
  fst (exec_ops js) = parts_of (run (map jop_to_op js) (empty_store now)).
Proof.
  intros now js. induction js as [|o l IH] using rev_ind.
  - reflexivity.
  - rewrite exec_ops_snoc, map_app. cbn [map]. rewrite run_snoc, step_jop.
    destruct (exec_ops l) as [p d]. cbn [fst] in IH. subst p.
    apply exec_op_store.
Qed.

(* ------------------------------------------------------------------ 3 *)

Lemma firstn_map : forall (A B : Type) (g : A -> B) k (l : list A),
  firstn k (map g l) = map g (firstn k l).
Proof.
  intros A B g k. induction k as [|k IH]; intros l; [reflexivity|].
  destruct l as [|x l]; [reflexivity|]. cbn [map firstn]. rewrite IH. reflexivity.
Qed.

Lemma admissible_firstn : forall now ops k,
  admissible now ops -> admissible now (firstn k ops).
Proof.
  intros now ops k H. unfold admissible in *.
  rewrite <- (firstn_skipn k ops) in H. rewrite hyps_all_app in H.
  apply andb_true_iff in H. destruct H as [H1 _]. exact H1.
Qed.

Lemma admissible_jprefix : forall now js k,
  admissible now (map jop_to_op js) -> admissible now (map jop_to_op (firstn k js)).
Proof.
  intros now js k H. rewrite <- firstn_map. apply admissible_firstn. exact H.
Qed.

(* ------------------------------------------------------------------ 4 *)

(* the journal partitions after a prefix are those of a state satisfying the invariant *)
Lemma prefix_consistent : forall now js m,
  admissible now (map jop_to_op js) ->
  InvZ (c_after now (map jop_to_op (firstn m js))) (a_after now (map jop_to_op (firstn m js))) /\
  fst (exec_ops (firstn m js)) = parts_of (c_after now (map jop_to_op (firstn m js))).
Proof.
  intros now js m Hadm. split.
  - apply after_inv. apply admissible_jprefix. exact Hadm.
  - unfold c_after. apply exec_ops_store.
Qed.

Theorem crash_image_is_consistent : forall now js k n,
  (k < length js)%nat -> admissible now (map jop_to_op js) ->
  exists s a, InvZ s a /\
    replay (kill_image (crash_state js k n)) = parts_of s /\
    (s = c_after now (map jop_to_op (firstn k js)) \/
     s = c_after now (map jop_to_op (firstn (S k) js))).
Proof.
  intros now js k n Hk Hadm.
  destruct (kill_all_or_nothing js k Hk n) as [Hr|Hr].
  - destruct (prefix_consistent now js k Hadm) as [HI Hp].
    exists (c_after now (map jop_to_op (firstn k js))),
           (a_after now (map jop_to_op (firstn k js))).
    split; [exact HI|]. split; [|left; reflexivity].
    rewrite Hr. exact Hp.
  - destruct (prefix_consistent now js (S k) Hadm) as [HI Hp].
    exists (c_after now (map jop_to_op (firstn (S k) js))),
           (a_after now (map jop_to_op (firstn (S k) js))).
    split; [exact HI|]. split; [|right; reflexivity].
    rewrite Hr. exact Hp.
Qed.

(* ------------------------------------------------------------------ 5 *)

Theorem power_image_is_consistent : forall now js k n img,
  (k < length js)%nat -> admissible now (map jop_to_op js) ->
  In img (power_images (crash_state js k n)) ->
  exists s a, InvZ s a /\ replay img = parts_of s /\
    (s = c_after now (map jop_to_op (firstn k js)) \/
     s = c_after now (map jop_to_op (firstn (S k) js))).
Proof.
  intros now js k n img Hk Hadm Himg.
  destruct (power_all_or_nothing js k Hk n img Himg) as [Hr|Hr].
  - destruct (prefix_consistent now js k Hadm) as [HI Hp].
    exists (c_after now (map jop_to_op (firstn k js))),
           (a_after now (map jop_to_op (firstn k js))).
    split; [exact HI|]. split; [|left; reflexivity].
    rewrite Hr. exact Hp.
  - destruct (prefix_consistent now js (S k) Hadm) as [HI Hp].
    exists (c_after now (map jop_to_op (firstn (S k) js))),
           (a_after now (map jop_to_op (firstn (S k) js))).
    split; [exact HI|]. split; [|right; reflexivity].
    rewrite Hr. exact Hp.
Qed.

(* ------------------------------------------------------------------ 6 *)

(* one consequence of the invariant for a recovered image: the stream partition is exactly the
   encoding of an id-sorted list of valid frames *)
Theorem recovered_stream_is_sorted_frames : forall js k n s a,
  InvZ s a ->
  replay (kill_image (crash_state js k n)) = parts_of s ->
  p_stream (replay (kill_image (crash_state js k n))) = map enc (a_live a) /\
  StronglySorted id_lt (a_live a) /\ Forall frame_ok (a_live a).
Proof.
  intros js k n s a [HI _] Hr. rewrite Hr. cbn [parts_of p_stream].
  split; [apply (inv_stream _ _ HI)|]. split; [apply (inv_sorted _ _ HI)|apply (inv_ok _ _ HI)].
Qed.

(* the same, composed with the main theorem: no hypothesis on the image left *)
Corollary crash_stream_is_sorted_frames : forall now js k n,
  (k < length js)%nat -> admissible now (map jop_to_op js) ->
  exists live,
    p_stream (replay (kill_image (crash_state js k n))) = map enc live /\
    StronglySorted id_lt live /\ Forall frame_ok live.
Proof.
  intros now js k n Hk Hadm.
  destruct (crash_image_is_consistent now js k n Hk Hadm) as (s & a & HI & Hr & _).
  exists (a_live a). exact (recovered_stream_is_sorted_frames js k n s a HI Hr).
Qed.

(* acknowledged operations: once operation k has returned, the recovered image is exactly the store
   state after k+1 operations (and it satisfies the invariant) - for process kill and power loss *)
Theorem acked_kill_image_is_store : forall now js k n o,
  (k < length js)%nat -> admissible now (map jop_to_op js) ->
  nth_error js k = Some o ->
  (length (program (fst (exec_ops (firstn k js))) o) <= n)%nat ->
  InvZ (c_after now (map jop_to_op (firstn (S k) js))) (a_after now (map jop_to_op (firstn (S k) js))) /\
  replay (kill_image (crash_state js k n)) = parts_of (c_after now (map jop_to_op (firstn (S k) js))).
Proof.
  intros now js k n o Hk Hadm Hnth Hlen.
  destruct (prefix_consistent now js (S k) Hadm) as [HI Hp].
  split; [exact HI|].
  rewrite (kill_acked js k Hk n o Hnth Hlen). exact Hp.
Qed.

Theorem acked_power_image_is_store : forall now js k n o img,
  (k < length js)%nat -> admissible now (map jop_to_op js) ->
  nth_error js k = Some o ->
  (length (program (fst (exec_ops (firstn k js))) o) <= n)%nat ->
  In img (power_images (crash_state js k n)) ->
  InvZ (c_after now (map jop_to_op (firstn (S k) js))) (a_after now (map jop_to_op (firstn (S k) js))) /\
  replay img = parts_of (c_after now (map jop_to_op (firstn (S k) js))).
Proof.
  intros now js k n o img Hk Hadm Hnth Hlen Himg.
  destruct (prefix_consistent now js (S k) Hadm) as [HI Hp].
  split; [exact HI|].
  rewrite (power_acked js k Hk n o img Hnth Hlen Himg). exact Hp.
Qed.

(* ------------------------------------------------------------------ 7 *)

Definition g1 : frame := mkFrame 5 0 [97] None None None.
Definition g2 : frame := mkFrame 6 0 [97] None None None.
Definition js7 : list jop := [JInsert g1; JInsert g2; JRemove (f_id g1)].

Example js7_admissible : admissible 0 (map jop_to_op js7).
Proof. reflexivity. Qed.

Example js7_crash :
  exists s a, InvZ s a /\
    replay (kill_image (crash_state js7 1 1)) = parts_of s /\
    (s = c_after 0 (map jop_to_op (firstn 1 js7)) \/
     s = c_after 0 (map jop_to_op (firstn 2 js7))).
Proof.
  apply crash_image_is_consistent.
  - cbn [js7 length]. lia.
  - exact js7_admissible.
Qed.

(* which of the two it is, and that the two differ: the instance is not degenerate *)
Example js7_crash_which :
  replay (kill_image (crash_state js7 1 1)) = parts_of (c_after 0 [OImport g1]) /\
  replay (kill_image (crash_state js7 1 2)) = parts_of (c_after 0 [OImport g1; OImport g2]) /\
  parts_of (c_after 0 [OImport g1]) <> parts_of (c_after 0 [OImport g1; OImport g2]).
Proof.
  vm_compute. repeat split; try reflexivity. discriminate.
Qed.

Print Assumptions exec_ops_store.
Print Assumptions crash_image_is_consistent.
Print Assumptions power_image_is_consistent.
Print Assumptions recovered_stream_is_sorted_frames.
Print Assumptions crash_stream_is_sorted_frames.
Print Assumptions js7_crash.
