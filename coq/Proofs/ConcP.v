(* Append-only property of the LOCKED append protocol of Model/Conc.v, and the
   refutation (by computation) of the unlocked one.  Stdlib only, no axioms. *)
From XS Require Import Model.Conc.
From Coq Require Import Lia Sorting.Sorted.
From Coq Require Import ZifyN ZifyBool.

Definition cid_lt (f g : cfr) : Prop := c_id f < c_id g.
Definition inc (l : list cfr) : Prop := StronglySorted cid_lt l.          (* strictly increasing ids *)
Definition init_ok (s : cstate) : Prop :=
  exists next stream ws fs np,
    s = cinit true next stream ws fs np /\ inc stream /\ Forall (fun f => c_id f < next) stream.
Definition reach (s : cstate) : Prop :=
  exists s0 sched, init_ok s0 /\ crun s0 sched = Some s.

Definition below (n : N) (l : list cfr) : Prop := Forall (fun f => c_id f < n) l.

Ltac prj := cbn [g_locked g_next g_lock g_stream g_chan g_ws g_fs g_ps].

(* ------------------------------------------------------------------ *)
(* lists                                                              *)
(* ------------------------------------------------------------------ *)

Lemma inc_app : forall l1 l2,
  inc (l1 ++ l2) <-> inc l1 /\ inc l2 /\ Forall (fun a => Forall (cid_lt a) l2) l1.
Proof.
  unfold inc. induction l1 as [|a l1 IH]; intros l2; cbn [app].
  - split.
    + intros H. split; [constructor|]. split; [exact H|constructor].
    + intros (_ & H & _). exact H.
  - split.
    + intros H. apply StronglySorted_inv in H. destruct H as [H1 H2].
      apply IH in H1. destruct H1 as (A & B & C).
      apply Forall_app in H2. destruct H2 as [D E].
      split; [constructor; assumption|]. split; [assumption|]. constructor; assumption.
    + intros (A & B & C). apply StronglySorted_inv in A. destruct A as [A1 A2].
      inversion C as [|x l Cx Cl]; subst. constructor.
      * apply IH. split; [assumption|]. split; assumption.
      * apply Forall_app. split; assumption.
Qed.

Lemma inc_snoc : forall l x, inc l -> below (c_id x) l -> inc (l ++ [x]).
Proof.
  intros l x Hl Hb. apply inc_app. split; [exact Hl|]. split.
  - constructor; constructor.
  - unfold below in Hb. eapply Forall_impl; [|exact Hb].
    intros a Ha. constructor; [exact Ha|constructor].
Qed.

Lemma Forall_transpose : forall (l1 l2 : list cfr),
  Forall (fun a => Forall (cid_lt a) l2) l1 ->
  Forall (fun f => Forall (fun g => c_id g < c_id f) l1) l2.
Proof.
  intros l1 l2 H. apply Forall_forall. intros f Hf. apply Forall_forall. intros g Hg.
  rewrite Forall_forall in H. specialize (H g Hg). rewrite Forall_forall in H.
  exact (H f Hf).
Qed.

Lemma inc_app_above : forall l suf,
  inc (l ++ suf) -> Forall (fun f => Forall (fun g => c_id g < c_id f) l) suf.
Proof.
  intros l suf H. apply inc_app in H. destruct H as (_ & _ & H).
  apply Forall_transpose. exact H.
Qed.

Lemma inc_nth_lt : forall l i j f g,
  inc l -> nth_error l i = Some f -> nth_error l j = Some g -> (i < j)%nat -> c_id f < c_id g.
Proof.
  induction l as [|a l IH]; intros i j f g Hl Hi Hj Hij.
  - destruct i; discriminate Hi.
  - apply StronglySorted_inv in Hl. destruct Hl as [Hl Ha].
    destruct j as [|j]; [lia|]. cbn [nth_error] in Hj.
    destruct i as [|i]; cbn [nth_error] in Hi.
    + inversion Hi; subst a. apply nth_error_In in Hj.
      rewrite Forall_forall in Ha. exact (Ha g Hj).
    + apply (IH i j f g Hl Hi Hj). lia.
Qed.

Lemma sort_inc : forall l, inc l -> sort_by_id l = l.
Proof.
  induction l as [|a l IH]; intros H; [reflexivity|].
  apply StronglySorted_inv in H. destruct H as [H1 H2].
  unfold sort_by_id in *. cbn [fold_right]. rewrite (IH H1).
  destruct l as [|g r]; [reflexivity|].
  cbn [insert_by_id]. inversion H2 as [|x y Hx Hy]; subst. unfold cid_lt in Hx.
  apply N.ltb_lt in Hx. rewrite Hx. reflexivity.
Qed.

Lemma last_id_snoc : forall l x, last_id (l ++ [x]) = Some (c_id x).
Proof. intros l x. unfold last_id. rewrite rev_unit. reflexivity. Qed.

Lemma filter_all : forall (p : cfr -> bool) l, Forall (fun x => p x = true) l -> filter p l = l.
Proof.
  intros p l H. induction H as [|x l Hx Hl IH]; [reflexivity|].
  cbn [filter]. rewrite Hx, IH. reflexivity.
Qed.

Lemma filter_none : forall (p : cfr -> bool) l, Forall (fun x => p x = false) l -> filter p l = [].
Proof.
  intros p l H. induction H as [|x l Hx Hl IH]; [reflexivity|].
  cbn [filter]. rewrite Hx, IH. reflexivity.
Qed.

Lemma Forall_filter : forall (P : cfr -> Prop) p l, Forall P l -> Forall P (filter p l).
Proof.
  intros P p l H. rewrite Forall_forall in *. intros x Hx. apply filter_In in Hx.
  apply H. tauto.
Qed.

(* what a poller fetches: everything above the last id it has *)
Lemma filter_fresh : forall acc rest,
  inc (acc ++ rest) -> filter (after_c (last_id acc)) (acc ++ rest) = rest.
Proof.
  intros acc rest. destruct acc as [|a0 acc0] using rev_ind.
  - intros _. cbn [app]. apply filter_all. apply Forall_forall. intros x _. reflexivity.
  - clear IHacc0. intros H. rewrite last_id_snoc. rewrite filter_app.
    apply inc_app in H. destruct H as (A & B & C).
    apply inc_app in A. destruct A as (_ & _ & A).
    apply Forall_app in C. destruct C as [_ C].
    inversion C as [|x l Cx _]; subst.
    rewrite filter_none, filter_all.
    + reflexivity.
    + eapply Forall_impl; [|exact Cx]. intros g Hg. unfold after_c, cid_lt in *.
      apply N.ltb_lt. exact Hg.
    + apply Forall_app. split.
      * eapply Forall_impl; [|exact A]. intros g Hg. inversion Hg as [|x l Hx _]; subst.
        unfold after_c, cid_lt in *. apply N.ltb_ge. lia.
      * constructor; [|constructor]. unfold after_c. apply N.ltb_irrefl.
Qed.

Lemma nth_upd : forall A (l : list A) n m x y,
  nth_error (upd n x l) m = Some y ->
  (n = m /\ y = x) \/ (n <> m /\ nth_error l m = Some y).
Proof.
  induction l as [|a l IH]; intros n m x y H.
  - destruct n; cbn [upd] in H; destruct m; discriminate H.
  - destruct n as [|n]; cbn [upd] in H.
    + destruct m as [|m]; cbn [nth_error] in *.
      * left. inversion H; auto.
      * right. split; [discriminate|exact H].
    + destruct m as [|m]; cbn [nth_error] in *.
      * right; split; [discriminate|exact H].
      * apply IH in H. destruct H as [[E1 E2]|[E1 E2]]; [left|right]; split; auto.
Qed.

Lemma nth_upd_same : forall A (l : list A) n x y,
  nth_error l n = Some y -> nth_error (upd n x l) n = Some x.
Proof.
  induction l as [|a l IH]; intros n x y H.
  - destruct n; discriminate H.
  - destruct n as [|n]; cbn [upd nth_error] in *; [reflexivity|]. eapply IH; eauto.
Qed.

(* ------------------------------------------------------------------ *)
(* the invariant                                                      *)
(* ------------------------------------------------------------------ *)

Definition wok (s : cstate) (w : nat) (wr : writer) : Prop :=
  match w_st wr with
  | WIdle | WBlocked => True
  | WAssigned f _ =>
      g_lock s = Some w /\ c_id f < g_next s /\ below (c_id f) (g_stream s) /\ below (c_id f) (g_chan s)
  | WCommitted f =>
      g_lock s = Some w /\ c_id f < g_next s /\ below (c_id f) (g_chan s)
  | WBcasted f => g_lock s = Some w
  end.

Definition quiet (wr : writer) : Prop :=
  match w_st wr with WIdle | WBlocked => True | _ => False end.

Definition allquiet (s : cstate) : Prop :=
  forall w wr, nth_error (g_ws s) w = Some wr -> quiet wr.

Record Inv (s : cstate) : Prop := mkInv {
  i_locked : g_locked s = true;
  i_sinc : inc (g_stream s);
  i_cinc : inc (g_chan s);
  i_sb : below (g_next s) (g_stream s);
  i_cb : below (g_next s) (g_chan s);
  i_ws : forall w wr, nth_error (g_ws s) w = Some wr -> wok s w wr;
  i_ps : forall p acc, nth_error (g_ps s) p = Some acc -> exists rest, g_stream s = acc ++ rest;
  i_fs : forall k fl, nth_error (g_fs s) k = Some fl -> (f_pos fl <= length (g_chan s))%nat }.

Lemma wok_quiet : forall s w wr, wok s w wr -> g_lock s <> Some w -> quiet wr.
Proof.
  intros s w wr H L. unfold wok, quiet in *. destruct (w_st wr); try exact I; exfalso; apply L; tauto.
Qed.

Lemma quiet_wok : forall s w wr, quiet wr -> wok s w wr.
Proof.
  intros s w wr H. unfold wok, quiet in *. destruct (w_st wr); try exact I; contradiction.
Qed.

Lemma others_quiet : forall s w w' wr',
  Inv s -> g_lock s = Some w -> w <> w' -> nth_error (g_ws s) w' = Some wr' -> quiet wr'.
Proof.
  intros s w w' wr' HI L N E. apply (wok_quiet s w' wr').
  - apply (i_ws s HI). exact E.
  - rewrite L. intros X. inversion X. contradiction.
Qed.

Lemma free_allquiet : forall s, Inv s -> g_lock s = None -> allquiet s.
Proof.
  intros s HI L w wr E. apply (wok_quiet s w wr).
  - apply (i_ws s HI). exact E.
  - rewrite L. discriminate.
Qed.

Lemma set_w_inv : forall s w x, Inv s -> quiet x -> Inv (set_w s w x).
Proof.
  intros s w x HI Q. unfold set_w. constructor; prj; try apply HI.
  intros w' wr' E. apply nth_upd in E. destruct E as [[E1 E2]|[E1 E2]].
  - subst. apply quiet_wok. exact Q.
  - exact (i_ws s HI w' wr' E2).
Qed.

Lemma set_w_allquiet : forall s w x,
  Inv s -> g_lock s = Some w -> quiet x -> allquiet (set_w s w x).
Proof.
  intros s w x HI L Q w' wr' E. unfold set_w in E. cbn [g_ws] in E.
  apply nth_upd in E. destruct E as [[E1 E2]|[E1 E2]].
  - subst. exact Q.
  - exact (others_quiet s w w' wr' HI L E1 E2).
Qed.

(* ------------------------------------------------------------------ *)
(* writer steps                                                       *)
(* ------------------------------------------------------------------ *)

Lemma below_succ : forall n l, below n l -> below (n + 1) l.
Proof.
  intros n l H. unfold below in *. eapply Forall_impl; [|exact H]. intros a Ha. cbn beta in *. lia.
Qed.

Lemma assign_inv : forall s w wr s',
  Inv s -> allquiet s -> assign s w wr = Some s' -> Inv s'.
Proof.
  intros s w wr s' HI Q H. unfold assign in H.
  destruct (w_todo wr) as [|p rest]; [discriminate H|].
  cbv zeta in H. rewrite (i_locked s HI) in H. inversion H; subst s'; clear H.
  constructor; prj.
  - reflexivity.
  - apply HI.
  - apply HI.
  - apply below_succ. apply HI.
  - apply below_succ. apply HI.
  - intros w' wr' E. apply nth_upd in E. destruct E as [[E1 E2]|[E1 E2]].
    + subst. unfold wok. cbn [w_st c_id]. prj.
      split; [reflexivity|]. split; [lia|]. split; apply HI.
    + apply quiet_wok. exact (Q w' wr' E2).
  - apply HI.
  - apply HI.
Qed.

Definition rel (s : cstate) : cstate :=
  mkS (g_locked s) (g_next s) None (g_stream s) (g_chan s) (g_ws s) (g_fs s) (g_ps s).

Lemma unlock_eq : forall s,
  unlock s =
  if g_locked s then
    match find_blocked (g_ws s) with
    | Some b => match nth_error (g_ws s) b with
                | Some wr => assign (rel s) b wr
                | None => Some (rel s)
                end
    | None => Some (rel s)
    end
  else Some (rel s).
Proof. reflexivity. Qed.

Lemma rel_inv : forall s, Inv s -> allquiet s -> Inv (rel s) /\ allquiet (rel s).
Proof.
  intros s HI Q. split; [|exact Q].
  unfold rel. constructor; prj; try apply HI.
  intros w wr E. apply quiet_wok. exact (Q w wr E).
Qed.

Lemma unlock_inv : forall s s', Inv s -> allquiet s -> unlock s = Some s' -> Inv s'.
Proof.
  intros s s' HI Q H. rewrite unlock_eq in H.
  destruct (rel_inv s HI Q) as [HI0 Q0].
  destruct (g_locked s).
  - destruct (find_blocked (g_ws s)) as [b|].
    + destruct (nth_error (g_ws s) b) as [wr|].
      * exact (assign_inv (rel s) b wr s' HI0 Q0 H).
      * inversion H; subst; exact HI0.
    + inversion H; subst; exact HI0.
  - inversion H; subst; exact HI0.
Qed.

Lemma lock_free_none : forall s, g_locked s = true -> lock_free s = true -> g_lock s = None.
Proof.
  intros s L H. unfold lock_free in H. rewrite L in H. cbn [negb orb] in H.
  destruct (g_lock s); [discriminate H|reflexivity].
Qed.

Lemma writer_inv : forall s l s', Inv s -> writer_step s l = Some s' -> Inv s'.
Proof.
  intros s l s' HI H.
  destruct l as [w|w|w|w|p|k|k|k|k|k|k]; cbn [writer_step] in H; try discriminate H;
    (destruct (nth_error (g_ws s) w) as [wr|] eqn:Ew; [|discriminate H]);
    pose proof (i_ws s HI w wr Ew) as Hw; unfold wok in Hw.
  - (* enter *)
    destruct (w_st wr) eqn:Est; try discriminate H.
    destruct (w_todo wr) as [|p rest] eqn:Etodo; [discriminate H|].
    destruct (lock_free s) eqn:Elf.
    + apply (assign_inv s w wr s' HI); [|exact H].
      apply free_allquiet; [exact HI|]. apply lock_free_none; [apply HI|exact Elf].
    + destruct (find_blocked (g_ws s)); [discriminate H|]. inversion H; subst s'.
      apply set_w_inv; [exact HI|]. exact I.
  - (* commit *)
    destruct (w_st wr) as [| |f ok| |] eqn:Est; try discriminate H.
    destruct Hw as (L & Hn & Hs & Hc).
    destruct ok.
    + inversion H; subst s'; clear H. constructor; prj.
      * apply HI.
      * destruct (c_eph f); [apply HI|]. apply inc_snoc; [apply HI|exact Hs].
      * apply HI.
      * destruct (c_eph f); [apply HI|]. apply Forall_app. split; [apply HI|].
        constructor; [exact Hn|constructor].
      * apply HI.
      * intros w' wr' E. apply nth_upd in E. destruct E as [[E1 E2]|[E1 E2]].
        -- subst. unfold wok. cbn [w_st]. prj. split; [exact L|]. split; [exact Hn|exact Hc].
        -- apply quiet_wok. exact (others_quiet s w w' wr' HI L E1 E2).
      * intros p acc E. destruct (i_ps s HI p acc E) as [rest R].
        destruct (c_eph f); [exists rest; exact R|].
        exists (rest ++ [f]). rewrite R. rewrite app_assoc. reflexivity.
      * apply HI.
    + apply (unlock_inv (set_w s w (mkW WIdle (w_todo wr)))); [| |exact H].
      * apply set_w_inv; [exact HI|exact I].
      * apply set_w_allquiet; [exact HI|exact L|exact I].
  - (* broadcast *)
    destruct (w_st wr) as [| | | f |] eqn:Est; try discriminate H.
    destruct Hw as (L & Hn & Hc).
    inversion H; subst s'; clear H. constructor; prj.
    + apply HI.
    + apply HI.
    + apply inc_snoc; [apply HI|exact Hc].
    + apply HI.
    + apply Forall_app. split; [apply HI|]. constructor; [exact Hn|constructor].
    + intros w' wr' E. apply nth_upd in E. destruct E as [[E1 E2]|[E1 E2]].
      * subst. unfold wok. cbn [w_st]. prj. exact L.
      * apply quiet_wok. exact (others_quiet s w w' wr' HI L E1 E2).
    + apply HI.
    + intros k fl E. pose proof (i_fs s HI k fl E) as Hk. rewrite app_length. lia.
  - (* release *)
    destruct (w_st wr) as [| | | | f] eqn:Est; try discriminate H.
    apply (unlock_inv (set_w s w (mkW WIdle (w_todo wr)))); [| |exact H].
    + apply set_w_inv; [exact HI|exact I].
    + apply set_w_allquiet; [exact HI|exact Hw|exact I].
Qed.

(* ------------------------------------------------------------------ *)
(* poll steps                                                         *)
(* ------------------------------------------------------------------ *)

Lemma poll_fresh : forall s p acc,
  Inv s -> nth_error (g_ps s) p = Some acc ->
  acc ++ filter (after_c (last_id acc)) (sort_by_id (g_stream s)) = g_stream s.
Proof.
  intros s p acc HI E. destruct (i_ps s HI p acc E) as [rest R].
  rewrite (sort_inc _ (i_sinc s HI)). pose proof (i_sinc s HI) as Hs.
  rewrite R in *. rewrite (filter_fresh acc rest Hs). reflexivity.
Qed.

Lemma poll_inv : forall s p s', Inv s -> poll_step s p = Some s' -> Inv s'.
Proof.
  intros s p s' HI H. unfold poll_step in H.
  destruct (nth_error (g_ps s) p) as [acc|] eqn:E; [|discriminate H].
  cbv zeta in H. rewrite (poll_fresh s p acc HI E) in H.
  inversion H; subst s'; clear H. constructor; prj; try apply HI.
  intros p' acc' E'. apply nth_upd in E'. destruct E' as [[E1 E2]|[E1 E2]].
  - subst. exists []. rewrite app_nil_r. reflexivity.
  - exact (i_ps s HI p' acc' E2).
Qed.

(* ------------------------------------------------------------------ *)
(* follower steps                                                     *)
(* ------------------------------------------------------------------ *)

Lemma f_pos_hist : forall s fl, f_pos (hist_advance s fl) = f_pos fl.
Proof.
  intros s fl. unfold hist_advance. destruct (f_peek fl); [|reflexivity].
  destruct (limit_reached (o_limit (fo fl)) (f_count fl)); reflexivity.
Qed.

Ltac brk H :=
  repeat (match type of H with
          | context [match ?x with _ => _ end] => destruct x eqn:?
          end; try discriminate H).

Lemma follower_shape : forall s l s',
  (forall k fl, nth_error (g_fs s) k = Some fl -> (f_pos fl <= length (g_chan s))%nat) ->
  follower_step s l = Some s' ->
  exists k fl', s' = set_f s k fl' /\ (f_pos fl' <= length (g_chan s))%nat.
Proof.
  intros s l s' HF H.
  destruct l as [w|w|w|w|p|k|k|k|k|k|k]; cbn [follower_step] in H; try discriminate H;
    (destruct (nth_error (g_fs s) k) as [fl|] eqn:Ek; [|discriminate H]);
    pose proof (HF _ _ Ek) as Hp;
    brk H; inversion H; subst s'; clear H;
    (eexists; eexists; split; [reflexivity|]);
    repeat (rewrite ?f_pos_hist; cbn [f_pos push set_h set_l]);
    try exact Hp; try apply le_n.
  all: match goal with
       | E : nth_error (g_chan ?s0) (f_pos ?x) = Some _ |- _ =>
           assert (f_pos x < length (g_chan s0))%nat by (apply nth_error_Some; rewrite E; discriminate)
       end; lia.
Qed.

Lemma follower_inv : forall s l s', Inv s -> follower_step s l = Some s' -> Inv s'.
Proof.
  intros s l s' HI H.
  destruct (follower_shape s l s' (i_fs s HI) H) as (k & fl' & E & Hp). subst s'.
  unfold set_f. constructor; prj; try apply HI.
  intros k' fl E'. apply nth_upd in E'. destruct E' as [[E1 E2]|[E1 E2]].
  - subst. exact Hp.
  - exact (i_fs s HI k' fl E2).
Qed.

Lemma cstep_inv : forall s l s', Inv s -> cstep s l = Some s' -> Inv s'.
Proof.
  intros s l s' HI H. destruct l; cbn [cstep] in H;
    first [ exact (writer_inv _ _ _ HI H) | exact (poll_inv _ _ _ HI H) | exact (follower_inv _ _ _ HI H) ].
Qed.

Lemma crun_inv : forall sched s s', Inv s -> crun s sched = Some s' -> Inv s'.
Proof.
  induction sched as [|l r IH]; intros s s' HI H; cbn [crun] in H.
  - inversion H; subst; exact HI.
  - destruct (cstep s l) as [s1|] eqn:E; [|discriminate H].
    exact (IH s1 s' (cstep_inv s l s1 HI E) H).
Qed.

Lemma init_inv : forall s, init_ok s -> Inv s.
Proof.
  intros s (next & stream & ws & fs & np & E & Hi & Hb). subst s. unfold cinit.
  constructor; prj.
  - reflexivity.
  - exact Hi.
  - exact Hi.
  - exact Hb.
  - exact Hb.
  - intros w wr E. apply quiet_wok. apply nth_error_In in E. apply in_map_iff in E.
    destruct E as (t & E & _). subst wr. exact I.
  - intros p acc E. apply nth_error_In in E. apply repeat_spec in E. subst acc.
    exists stream. reflexivity.
  - intros k fl E. apply nth_error_In in E. apply in_map_iff in E.
    destruct E as (o & E & _). subst fl. cbn [init_follower f_pos]. apply le_0_n.
Qed.

Theorem reach_inv : forall s, reach s -> Inv s.
Proof.
  intros s (s0 & sched & H0 & H). exact (crun_inv sched s0 s (init_inv s0 H0) H).
Qed.

Lemma crun_app : forall a b s,
  crun s (a ++ b) = match crun s a with Some s1 => crun s1 b | None => None end.
Proof.
  induction a as [|l a IH]; intros b s; cbn [app crun]; [reflexivity|].
  destruct (cstep s l); [apply IH|reflexivity].
Qed.

Lemma reach_step : forall s l s', reach s -> cstep s l = Some s' -> reach s'.
Proof.
  intros s l s' (s0 & sched & H0 & H) E. exists s0, (sched ++ [l]). split; [exact H0|].
  rewrite crun_app, H. cbn [crun]. rewrite E. reflexivity.
Qed.

Lemma reach_run : forall s sched s', reach s -> crun s sched = Some s' -> reach s'.
Proof.
  intros s sched s' (s0 & sched0 & H0 & H) E. exists s0, (sched0 ++ sched). split; [exact H0|].
  rewrite crun_app, H. exact E.
Qed.

(* ------------------------------------------------------------------ *)
(* every step only appends to the stream and to the channel           *)
(* (this part holds for the unlocked protocol too: the difference is   *)
(* WHERE in id order the appended frame lies)                          *)
(* ------------------------------------------------------------------ *)

Definition extends (s s' : cstate) : Prop :=
  (exists suf, g_stream s' = g_stream s ++ suf) /\ (exists suf, g_chan s' = g_chan s ++ suf).

Lemma extends_refl_proj : forall s s',
  g_stream s' = g_stream s -> g_chan s' = g_chan s -> extends s s'.
Proof.
  intros s s' E1 E2. split; exists []; rewrite app_nil_r; assumption.
Qed.

Lemma assign_proj : forall s w wr s',
  assign s w wr = Some s' -> g_stream s' = g_stream s /\ g_chan s' = g_chan s.
Proof.
  intros s w wr s' H. unfold assign in H. destruct (w_todo wr); [discriminate H|].
  cbv zeta in H. inversion H; subst s'. prj. split; reflexivity.
Qed.

Lemma unlock_proj : forall s s',
  unlock s = Some s' -> g_stream s' = g_stream s /\ g_chan s' = g_chan s.
Proof.
  intros s s' H. rewrite unlock_eq in H.
  destruct (g_locked s); [destruct (find_blocked (g_ws s)) as [b|];
                          [destruct (nth_error (g_ws s) b) as [wr|]|]|];
    try (inversion H; subst s'; unfold rel; prj; split; reflexivity).
  apply assign_proj in H. exact H.
Qed.

Lemma writer_ext : forall s l s', writer_step s l = Some s' -> extends s s'.
Proof.
  intros s l s' H.
  destruct l as [w|w|w|w|p|k|k|k|k|k|k]; cbn [writer_step] in H; try discriminate H;
    (destruct (nth_error (g_ws s) w) as [wr|] eqn:Ew; [|discriminate H]).
  - destruct (w_st wr); try discriminate H. destruct (w_todo wr); [discriminate H|].
    destruct (lock_free s).
    + apply assign_proj in H. apply extends_refl_proj; tauto.
    + destruct (find_blocked (g_ws s)); [discriminate H|]. inversion H; subst s'.
      apply extends_refl_proj; reflexivity.
  - destruct (w_st wr) as [| |f ok| |]; try discriminate H. destruct ok.
    + inversion H; subst s'. split; prj.
      * destruct (c_eph f); [exists []; rewrite app_nil_r|exists [f]]; reflexivity.
      * exists []; rewrite app_nil_r; reflexivity.
    + apply unlock_proj in H. apply extends_refl_proj; tauto.
  - destruct (w_st wr) as [| | |f|]; try discriminate H.
    inversion H; subst s'. split; prj.
    + exists []; rewrite app_nil_r; reflexivity.
    + exists [f]; reflexivity.
  - destruct (w_st wr); try discriminate H.
    apply unlock_proj in H. apply extends_refl_proj; tauto.
Qed.

Lemma follower_set : forall s l s', follower_step s l = Some s' -> exists k fl', s' = set_f s k fl'.
Proof.
  intros s l s' H.
  destruct l as [w|w|w|w|p|k|k|k|k|k|k]; cbn [follower_step] in H; try discriminate H;
    (destruct (nth_error (g_fs s) k) as [fl|] eqn:Ek; [|discriminate H]);
    brk H; inversion H; subst s'; clear H; eexists; eexists; reflexivity.
Qed.

Lemma cstep_ext : forall s l s', cstep s l = Some s' -> extends s s'.
Proof.
  intros s l s' H. destruct l; cbn [cstep] in H;
    try exact (writer_ext _ _ _ H);
    try (destruct (follower_set _ _ _ H) as (k' & fl' & E); subst s';
         apply extends_refl_proj; reflexivity).
  unfold poll_step in H. destruct (nth_error (g_ps s) p); [|discriminate H].
  cbv zeta in H. inversion H; subst s'. apply extends_refl_proj; reflexivity.
Qed.

Lemma extends_trans : forall a b c, extends a b -> extends b c -> extends a c.
Proof.
  intros a b c [[x1 H1] [y1 G1]] [[x2 H2] [y2 G2]]. split.
  - exists (x1 ++ x2). rewrite H2, H1, app_assoc. reflexivity.
  - exists (y1 ++ y2). rewrite G2, G1, app_assoc. reflexivity.
Qed.

Lemma crun_ext : forall sched s s', crun s sched = Some s' -> extends s s'.
Proof.
  induction sched as [|l r IH]; intros s s' H; cbn [crun] in H.
  - inversion H; subst. apply extends_refl_proj; reflexivity.
  - destruct (cstep s l) as [s1|] eqn:E; [|discriminate H].
    exact (extends_trans s s1 s' (cstep_ext s l s1 E) (IH s1 s' H)).
Qed.

(* ------------------------------------------------------------------ *)
(* the theorems                                                       *)
(* ------------------------------------------------------------------ *)

(* T1 *)
Theorem reach_locked : forall s, reach s -> g_locked s = true.
Proof. intros s H. exact (i_locked s (reach_inv s H)). Qed.

(* T2: commit order = id order, broadcast order = id order *)
Theorem stream_increasing : forall s, reach s ->
  inc (g_stream s) /\ inc (g_chan s) /\
  Forall (fun f => c_id f < g_next s) (g_stream s) /\
  Forall (fun f => c_id f < g_next s) (g_chan s).
Proof.
  intros s H. pose proof (reach_inv s H) as HI.
  split; [apply HI|]. split; [apply HI|]. split; [exact (i_sb s HI)|exact (i_cb s HI)].
Qed.

(* T3: whatever a step adds lies above everything already there *)
Theorem step_appends_at_end : forall s l s', reach s -> cstep s l = Some s' ->
  (exists suf, g_stream s' = g_stream s ++ suf /\
               Forall (fun f => Forall (fun g => c_id g < c_id f) (g_stream s)) suf) /\
  (exists suf, g_chan s' = g_chan s ++ suf /\
               Forall (fun f => Forall (fun g => c_id g < c_id f) (g_chan s)) suf).
Proof.
  intros s l s' R H. pose proof (reach_inv s' (reach_step s l s' R H)) as HI'.
  destruct (cstep_ext s l s' H) as [[x Hx] [y Hy]]. split.
  - exists x. split; [exact Hx|]. apply inc_app_above. rewrite <- Hx. apply HI'.
  - exists y. split; [exact Hy|]. apply inc_app_above. rewrite <- Hy. apply HI'.
Qed.

(* the same over a whole schedule *)
Theorem run_appends_at_end : forall s sched s', reach s -> crun s sched = Some s' ->
  (exists suf, g_stream s' = g_stream s ++ suf /\
               Forall (fun f => Forall (fun g => c_id g < c_id f) (g_stream s)) suf) /\
  (exists suf, g_chan s' = g_chan s ++ suf /\
               Forall (fun f => Forall (fun g => c_id g < c_id f) (g_chan s)) suf).
Proof.
  intros s sched s' R H. pose proof (reach_inv s' (reach_run s sched s' R H)) as HI'.
  destruct (crun_ext sched s s' H) as [[x Hx] [y Hy]]. split.
  - exists x. split; [exact Hx|]. apply inc_app_above. rewrite <- Hx. apply HI'.
  - exists y. split; [exact Hy|]. apply inc_app_above. rewrite <- Hy. apply HI'.
Qed.

(* T3': the same through any scope filter (context / topic) *)
Corollary step_appends_at_end_filtered : forall (p : cfr -> bool) s l s',
  reach s -> cstep s l = Some s' ->
  exists suf, filter p (g_stream s') = filter p (g_stream s) ++ suf /\
              Forall (fun f => Forall (fun g => c_id g < c_id f) (g_stream s)) suf /\
              Forall (fun f => Forall (fun g => c_id g < c_id f) (filter p (g_stream s))) suf.
Proof.
  intros p s l s' R H. destruct (step_appends_at_end s l s' R H) as [(x & Hx & Bx) _].
  exists (filter p x). split; [rewrite Hx; apply filter_app|].
  assert (B : Forall (fun f => Forall (fun g => c_id g < c_id f) (g_stream s)) (filter p x))
    by (apply Forall_filter; exact Bx).
  split; [exact B|]. eapply Forall_impl; [|exact B]. intros f Hf. apply Forall_filter. exact Hf.
Qed.

(* T4: pollers never miss a frame *)
Theorem poller_prefix : forall s p acc, reach s -> nth_error (g_ps s) p = Some acc ->
  exists rest, g_stream s = acc ++ rest.
Proof. intros s p acc R E. exact (i_ps s (reach_inv s R) p acc E). Qed.

Theorem poll_complete : forall s p s', reach s -> cstep s (LPoll p) = Some s' ->
  nth_error (g_ps s') p = Some (g_stream s').
Proof.
  intros s p s' R H. pose proof (reach_inv s R) as HI. cbn [cstep] in H. unfold poll_step in H.
  destruct (nth_error (g_ps s) p) as [acc|] eqn:E; [|discriminate H].
  cbv zeta in H. rewrite (poll_fresh s p acc HI E) in H. inversion H; subst s'; clear H. prj.
  exact (nth_upd_same _ (g_ps s) p (g_stream s) acc E).
Qed.

(* a poll only ever appends to what the poller has, and what it appends is above it *)
Corollary poll_appends : forall s p s' acc, reach s -> cstep s (LPoll p) = Some s' ->
  nth_error (g_ps s) p = Some acc ->
  exists fresh, nth_error (g_ps s') p = Some (acc ++ fresh) /\ inc (acc ++ fresh).
Proof.
  intros s p s' acc R H E. pose proof (poll_complete s p s' R H) as C.
  destruct (cstep_ext s (LPoll p) s' H) as [[x Hx] _].
  destruct (poller_prefix s p acc R E) as [rest Hr].
  exists (rest ++ x). rewrite app_assoc, <- Hr, <- Hx. split; [exact C|].
  apply (i_sinc s' (reach_inv s' (reach_step s _ s' R H))).
Qed.

(* T5: a subscriber's cursor stays inside the channel, the channel is increasing and stable *)
Theorem live_recv_increasing : forall s k fl, reach s -> nth_error (g_fs s) k = Some fl ->
  (f_pos fl <= length (g_chan s))%nat.
Proof. intros s k fl R E. exact (i_fs s (reach_inv s R) k fl E). Qed.

Theorem chan_nth_increasing : forall s i j f g, reach s ->
  nth_error (g_chan s) i = Some f -> nth_error (g_chan s) j = Some g -> (i < j)%nat ->
  c_id f < c_id g.
Proof. intros s i j f g R. apply inc_nth_lt. apply (i_cinc s (reach_inv s R)). Qed.

Theorem stream_nth_increasing : forall s i j f g, reach s ->
  nth_error (g_stream s) i = Some f -> nth_error (g_stream s) j = Some g -> (i < j)%nat ->
  c_id f < c_id g.
Proof. intros s i j f g R. apply inc_nth_lt. apply (i_sinc s (reach_inv s R)). Qed.

Lemma nth_error_app_some : forall A (l suf : list A) i x,
  nth_error l i = Some x -> nth_error (l ++ suf) i = Some x.
Proof.
  intros A l suf i x H. rewrite nth_error_app1; [exact H|]. apply nth_error_Some. rewrite H. discriminate.
Qed.

Theorem chan_nth_stable : forall s sched s' i f, crun s sched = Some s' ->
  nth_error (g_chan s) i = Some f -> nth_error (g_chan s') i = Some f.
Proof.
  intros s sched s' i f H E. destruct (crun_ext sched s s' H) as [_ [y Hy]]. rewrite Hy.
  apply nth_error_app_some. exact E.
Qed.

Theorem stream_nth_stable : forall s sched s' i f, crun s sched = Some s' ->
  nth_error (g_stream s) i = Some f -> nth_error (g_stream s') i = Some f.
Proof.
  intros s sched s' i f H E. destruct (crun_ext sched s s' H) as [[x Hx] _]. rewrite Hx.
  apply nth_error_app_some. exact E.
Qed.

(* one LLive step: either the cursor stays and the task is not holding a newly received
   frame, or the task received exactly the channel element at its cursor and the cursor
   advanced by one.  With chan_nth_increasing / chan_nth_stable: the frames a live task
   receives are consecutive channel elements, hence have strictly increasing ids. *)
Theorem live_recv_step : forall s k s' fl fl',
  cstep s (LLive k) = Some s' ->
  nth_error (g_fs s) k = Some fl -> nth_error (g_fs s') k = Some fl' ->
  (f_pos fl' = f_pos fl /\ forall f, f_l fl' <> LAtRecv f) \/
  (f_pos fl' = S (f_pos fl) /\
   exists f, f_l fl' = LAtRecv f /\ nth_error (g_chan s) (f_pos fl) = Some f).
Proof.
  intros s k s' fl fl' H E E'. cbn [cstep follower_step] in H. rewrite E in H.
  brk H; inversion H; subst s'; clear H; unfold set_f in E'; cbn [g_fs] in E';
    rewrite (nth_upd_same _ _ _ _ _ E) in E'; inversion E'; subst fl'; clear E';
    cbn [f_pos f_l set_l push];
    first [ left; split; [reflexivity|intros f0 X; discriminate X]
          | right; split; [reflexivity|eexists; split; reflexivity] ].
Qed.

(* lock discipline: at most one writer is between after_id and unlock *)
Definition in_cs (wr : writer) : Prop :=
  match w_st wr with WAssigned _ _ | WCommitted _ | WBcasted _ => True | _ => False end.

Theorem cs_holds_lock : forall s w wr, reach s ->
  nth_error (g_ws s) w = Some wr -> in_cs wr -> g_lock s = Some w.
Proof.
  intros s w wr R E C. pose proof (i_ws s (reach_inv s R) w wr E) as Hw.
  unfold wok, in_cs in *. destruct (w_st wr); try contradiction; tauto.
Qed.

Theorem mutual_exclusion : forall s w1 w2 wr1 wr2, reach s ->
  nth_error (g_ws s) w1 = Some wr1 -> nth_error (g_ws s) w2 = Some wr2 ->
  in_cs wr1 -> in_cs wr2 -> w1 = w2.
Proof.
  intros s w1 w2 wr1 wr2 R E1 E2 C1 C2.
  pose proof (cs_holds_lock s w1 wr1 R E1 C1) as L1.
  pose proof (cs_holds_lock s w2 wr2 R E2 C2) as L2.
  rewrite L1 in L2. inversion L2. reflexivity.
Qed.

(* ------------------------------------------------------------------ *)
(* T6: the unlocked protocol is refuted, by computation               *)
(* ------------------------------------------------------------------ *)

Definition unlocked_witness : cstate :=
  cinit false 0 [] [[mkP 0 false true]; [mkP 0 false true]] [] 1.
Definition unlocked_sched : list label :=
  [LEnter 0; LEnter 1; LCommit 1; LBcast 1; LPoll 0; LCommit 0; LBcast 0; LPoll 0].

(* the poller saw frame 1; then frame 0 became visible below it and is never returned *)
Theorem unlocked_refuted :
  exists s, crun unlocked_witness unlocked_sched = Some s /\
            nth_error (g_ps s) 0 = Some [mkC 1 0 false] /\
            g_stream s = [mkC 1 0 false; mkC 0 0 false].
Proof.
  exists (match crun unlocked_witness unlocked_sched with Some s => s | None => unlocked_witness end).
  vm_compute. repeat split.
Qed.

(* so in the unlocked protocol the stream is not increasing, and however often the poller
   polls again it keeps [frame 1] although frame 0 is committed: poll_complete fails *)
Corollary unlocked_not_increasing :
  exists s, crun unlocked_witness unlocked_sched = Some s /\ ~ inc (g_stream s) /\
            In (mkC 0 0 false) (g_stream s) /\
            (forall s', cstep s (LPoll 0) = Some s' ->
                        nth_error (g_ps s') 0 = Some [mkC 1 0 false] /\ g_stream s' = g_stream s /\
                        nth_error (g_ps s') 0 <> Some (g_stream s')).
Proof.
  destruct unlocked_refuted as (s & H & P & S). exists s. split; [exact H|]. split; [|split].
  - rewrite S. intros X. apply StronglySorted_inv in X. destruct X as [_ X].
    inversion X as [|a l Ha _]; subst. unfold cid_lt in Ha. cbn [c_id] in Ha. lia.
  - rewrite S. right. left. reflexivity.
  - intros s' H'. cbn [cstep] in H'. unfold poll_step in H'. rewrite P in H'. cbv zeta in H'.
    assert (F : filter (after_c (last_id [mkC 1 0 false])) (sort_by_id (g_stream s)) = [])
      by (rewrite S; vm_compute; reflexivity).
    rewrite F in H'. inversion H'; subst s'; clear H'. prj.
    destruct (g_ps s) as [|a r]; [discriminate P|]. cbn [nth_error].
    split; [reflexivity|]. split; [reflexivity|]. rewrite S. discriminate.
Qed.

(* the same schedule cannot run under the lock: LEnter 1 leaves writer 1 blocked, so
   LCommit 1 is not enabled *)
Theorem locked_blocks :
  crun (cinit true 0 [] [[mkP 0 false true]; [mkP 0 false true]] [] 1) unlocked_sched = None.
Proof. vm_compute. reflexivity. Qed.

Theorem locked_blocks_where :
  exists s, crun (cinit true 0 [] [[mkP 0 false true]; [mkP 0 false true]] [] 1) [LEnter 0; LEnter 1] = Some s /\
            option_map w_st (nth_error (g_ws s) 1) = Some WBlocked /\
            cstep s (LCommit 1) = None.
Proof.
  exists (match crun (cinit true 0 [] [[mkP 0 false true]; [mkP 0 false true]] [] 1) [LEnter 0; LEnter 1]
          with Some s => s | None => unlocked_witness end).
  vm_compute. repeat split.
Qed.

(* ------------------------------------------------------------------ *)
(* T7: non-vacuity                                                    *)
(* ------------------------------------------------------------------ *)

Definition two_init : cstate := cinit true 0 [] [[mkP 0 false true]; [mkP 0 false true]] [] 0.
Definition two_sched : list label :=
  [LEnter 0; LCommit 0; LBcast 0; LRelease 0; LEnter 1; LCommit 1; LBcast 1; LRelease 1].

Lemma two_init_ok : init_ok two_init.
Proof.
  exists 0, [], [[mkP 0 false true]; [mkP 0 false true]], [], 0%nat.
  split; [reflexivity|]. split; constructor.
Qed.

Example two_writers_reachable :
  exists s, reach s /\ crun two_init two_sched = Some s /\
            g_stream s = [mkC 0 0 false; mkC 1 0 false] /\ length (g_stream s) = 2%nat /\
            g_chan s = [mkC 0 0 false; mkC 1 0 false].
Proof.
  exists (match crun two_init two_sched with Some s => s | None => two_init end).
  split.
  - exists two_init, two_sched. split; [exact two_init_ok|]. vm_compute. reflexivity.
  - vm_compute. repeat split.
Qed.

(* contention under the lock: writer 1 enters while writer 0 holds the lock, is blocked,
   and gets the lock (and the larger id) on release *)
Example two_writers_contended :
  exists s, reach s /\
            crun two_init [LEnter 0; LEnter 1; LCommit 0; LBcast 0; LRelease 0; LCommit 1; LBcast 1; LRelease 1] = Some s /\
            g_stream s = [mkC 0 0 false; mkC 1 0 false].
Proof.
  exists (match crun two_init [LEnter 0; LEnter 1; LCommit 0; LBcast 0; LRelease 0; LCommit 1; LBcast 1; LRelease 1]
          with Some s => s | None => two_init end).
  split.
  - exists two_init, [LEnter 0; LEnter 1; LCommit 0; LBcast 0; LRelease 0; LCommit 1; LBcast 1; LRelease 1].
    split; [exact two_init_ok|]. vm_compute. reflexivity.
  - vm_compute. repeat split.
Qed.

Print Assumptions reach_locked.
Print Assumptions stream_increasing.
Print Assumptions step_appends_at_end.
Print Assumptions step_appends_at_end_filtered.
Print Assumptions poller_prefix.
Print Assumptions poll_complete.
Print Assumptions live_recv_increasing.
Print Assumptions live_recv_step.
Print Assumptions mutual_exclusion.
Print Assumptions unlocked_refuted.
Print Assumptions unlocked_not_increasing.
Print Assumptions locked_blocks.
Print Assumptions two_writers_reachable.
