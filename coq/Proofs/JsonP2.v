(* Follow-up to Proofs/JsonP.v: fuel monotonicity of the parser, stability of a parse under
   appending text that cannot continue a number, whitespace around a document, and the Frame
   codec theorems for metas that may contain float lexemes (wf_lex').
   Axiom-free; stdlib only. *)
From XS Require Import Model.Json Proofs.BytesP Proofs.CodecP.
From XS Require Import Proofs.JsonP.
From Coq Require Import Lia ZArith ZifyN ZifyBool.
Import ListNotations.
Open Scope N_scope.

Ltac Zify.zify_post_hook ::= Z.div_mod_to_equations.

(* ------------------------------------------------------------------------ *)
(* 1. more fuel never hurts *)

Lemma fuel_mono_all : forall fuel,
  (forall fuel' depth s r, (fuel <= fuel')%nat ->
     parse_value fuel depth s = Some r -> parse_value fuel' depth s = Some r) /\
  (forall fuel' depth s acc r, (fuel <= fuel')%nat ->
     parse_elems fuel depth s acc = Some r -> parse_elems fuel' depth s acc = Some r) /\
  (forall fuel' depth s acc r, (fuel <= fuel')%nat ->
     parse_members fuel depth s acc = Some r -> parse_members fuel' depth s acc = Some r).
Proof.
  induction fuel as [|f (IHv & IHe & IHm)].
  - repeat split; intros; discriminate.
  - split; [|split].
    + intros [|f'] depth s r Hle; [lia|]. assert (Hf : (f <= f')%nat) by lia.
      rewrite !parse_value_S.
      destruct (skip_ws s) as [|b t]; [discriminate|].
      destruct (b =? 110); [auto|]. destruct (b =? 116); [auto|]. destruct (b =? 102); [auto|].
      destruct (b =? 34); [auto|].
      destruct (b =? 91).
      { destruct depth as [|[|d]]; try discriminate.
        destruct (skip_ws t) as [|c t']; [discriminate|].
        destruct (c =? 93); [auto|]. apply IHe. exact Hf. }
      destruct (b =? 123).
      { destruct depth as [|[|d]]; try discriminate.
        destruct (skip_ws t) as [|c t']; [discriminate|].
        destruct (c =? 125); [auto|]. apply IHm. exact Hf. }
      auto.
    + intros [|f'] depth s acc r Hle; [lia|]. assert (Hf : (f <= f')%nat) by lia.
      rewrite !parse_elems_S.
      destruct (parse_value f depth s) as [[v t]|] eqn:E; [|discriminate].
      rewrite (IHv f' depth s (v, t) Hf E).
      destruct (skip_ws t) as [|c t']; [discriminate|].
      destruct (c =? 44); [apply IHe; exact Hf | auto].
    + intros [|f'] depth s acc r Hle; [lia|]. assert (Hf : (f <= f')%nat) by lia.
      rewrite !parse_members_S.
      destruct (skip_ws s) as [|q t]; [discriminate|].
      destruct (q =? 34); [|discriminate].
      destruct (parse_str t) as [[k t0]|]; [|discriminate].
      destruct (skip_ws t0) as [|c t1]; [discriminate|].
      destruct (c =? 58); [|discriminate].
      destruct (parse_value f depth t1) as [[v t2]|] eqn:E; [|discriminate].
      rewrite (IHv f' depth t1 (v, t2) Hf E).
      destruct (skip_ws t2) as [|c2 t3]; [discriminate|].
      destruct (c2 =? 44); [apply IHm; exact Hf | auto].
Qed.

Theorem parse_value_fuel_mono : forall fuel fuel' depth s r,
  (fuel <= fuel')%nat -> parse_value fuel depth s = Some r -> parse_value fuel' depth s = Some r.
Proof. intros fuel. apply (fuel_mono_all fuel). Qed.

Theorem parse_elems_fuel_mono : forall fuel fuel' depth s acc r,
  (fuel <= fuel')%nat ->
  parse_elems fuel depth s acc = Some r -> parse_elems fuel' depth s acc = Some r.
Proof. intros fuel. apply (fuel_mono_all fuel). Qed.

Theorem parse_members_fuel_mono : forall fuel fuel' depth s acc r,
  (fuel <= fuel')%nat ->
  parse_members fuel depth s acc = Some r -> parse_members fuel' depth s acc = Some r.
Proof. intros fuel. apply (fuel_mono_all fuel). Qed.

(* ------------------------------------------------------------------------ *)
(* 2. a successful parse is stable under appending x, when x cannot continue a number *)

Definition nsafe (x : bytes) : Prop :=
  match x with
  | [] => True
  | b :: _ => is_digit b = false /\ b <> 46 /\ b <> 101 /\ b <> 69 /\ b <> 43 /\ b <> 45
  end.

Lemma nsafe_nd : forall x, nsafe x -> nd x.
Proof. intros [|b r] H; [exact I | exact (proj1 H)]. Qed.

Lemma nsafe_delim : forall x, delim x -> nsafe x.
Proof.
  intros [|b r] H; [exact I|]. cbn [delim] in H. cbn [nsafe].
  destruct H as [->|[->| ->]]; repeat split; discriminate.
Qed.

Lemma nsafe_space : nsafe [32].
Proof. cbn [nsafe]. repeat split; discriminate. Qed.

Lemma skip_ws_app : forall s b r x, skip_ws s = b :: r -> skip_ws (s ++ x) = b :: r ++ x.
Proof.
  intros s; induction s as [|a s IH]; intros b r x H; [discriminate|].
  cbn [skip_ws app] in *. destruct (is_ws a).
  - apply IH. exact H.
  - injection H as <- <-. reflexivity.
Qed.

Lemma expect_app : forall lit s v p t x,
  expect lit s v = Some (p, t) -> expect lit (s ++ x) v = Some (p, t ++ x).
Proof.
  intros lit s v p t x. unfold expect.
  destruct (is_prefix lit s) eqn:P; [|discriminate].
  apply is_prefix_app in P. destruct P as (r & ->).
  intros H. injection H as <- <-.
  rewrite <- app_assoc, is_prefix_refl_app.
  rewrite !(skipn_app_len lit) by reflexivity. reflexivity.
Qed.

(* strings *)
Lemma cons_str_step : forall p r x str t,
  (forall str' t', parse_str r = Some (str', t') -> parse_str (r ++ x) = Some (str', t' ++ x)) ->
  cons_str p (parse_str r) = Some (str, t) ->
  cons_str p (parse_str (r ++ x)) = Some (str, t ++ x).
Proof.
  intros p r x str t IH. destruct (parse_str r) as [[s' t']|] eqn:E; [|discriminate].
  rewrite (IH s' t' eq_refl). cbn [cons_str]. intros H. injection H as <- <-. reflexivity.
Qed.

Lemma parse_str_app_n : forall n s, (length s <= n)%nat ->
  forall str t x, parse_str s = Some (str, t) -> parse_str (s ++ x) = Some (str, t ++ x).
Proof.
  induction n as [|n IH]; intros s Hlen str t x.
  - destruct s; [discriminate | cbn [length] in Hlen; lia].
  - destruct s as [|b r]; [discriminate|].
    cbn [length] in Hlen. cbn [app parse_str].
    destruct (b =? 34).
    { intros H. injection H as <- <-. reflexivity. }
    destruct (b <? 32); [discriminate|].
    destruct (b =? 92).
    2:{ apply cons_str_step. intros. apply IH; [lia | assumption]. }
    destruct r as [|e r2]; [discriminate|]. cbn [app length] in *.
    destruct (e =? 117).
    2:{ destruct (unescape e); [|discriminate].
        apply cons_str_step. intros. apply IH; [lia | assumption]. }
    destruct r2 as [|h1 [|h2 [|h3 [|h4 r3]]]]; try discriminate. cbn [app length] in *.
    destruct (hex4 h1 h2 h3 h4) as [c|]; [|discriminate].
    destruct ((55296 <=? c) && (c <=? 56319)).
    + destruct r3 as [|b1 [|b2 [|l1 [|l2 [|l3 [|l4 r4]]]]]]; try discriminate.
      cbn [app length] in *.
      destruct ((b1 =? 92) && (b2 =? 117)); [|discriminate].
      destruct (hex4 l1 l2 l3 l4) as [lo|]; [|discriminate].
      destruct ((56320 <=? lo) && (lo <=? 57343)); [|discriminate].
      apply cons_str_step. intros. apply IH; [lia | assumption].
    + destruct ((56320 <=? c) && (c <=? 57343)); [discriminate|].
      apply cons_str_step. intros. apply IH; [lia | assumption].
Qed.

Lemma parse_str_app : forall s str t x,
  parse_str s = Some (str, t) -> parse_str (s ++ x) = Some (str, t ++ x).
Proof. intros s. apply (parse_str_app_n (length s)). lia. Qed.

(* numbers: lex_number_app of JsonP for the wider class of continuations *)
Lemma frac_of_app' : forall s2 x, nsafe x ->
  frac_of (s2 ++ x) = let '(fr, s3, ok) := frac_of s2 in (fr, s3 ++ x, ok).
Proof.
  intros [|b r] x Hx; cbn [app].
  - destruct x as [|c r']; [reflexivity|]. cbn [nsafe] in Hx.
    unfold frac_of. assert (E : c =? 46 = false) by lia. rewrite E. reflexivity.
  - unfold frac_of. destruct (b =? 46); [|reflexivity].
    destruct (span_digits r) as [fd t] eqn:E.
    rewrite (span_digits_app_gen r fd t x E (nsafe_nd _ Hx)). reflexivity.
Qed.

Lemma exp_of_app' : forall s3 x, nsafe x ->
  exp_of (s3 ++ x) = let '(ex, s4, ok) := exp_of s3 in (ex, s4 ++ x, ok).
Proof.
  intros [|b r] x Hx; cbn [app].
  - destruct x as [|c r']; [reflexivity|]. cbn [nsafe] in Hx.
    unfold exp_of. assert (E : (c =? 101) || (c =? 69) = false) by lia. rewrite E. reflexivity.
  - unfold exp_of. destruct ((b =? 101) || (b =? 69)); [|reflexivity].
    destruct r as [|c r']; cbn [app].
    + destruct x as [|c r']; [reflexivity|]. pose proof (nsafe_nd _ Hx) as Hnd.
      cbn [nsafe nd] in Hx, Hnd.
      assert (E : (c =? 43) || (c =? 45) = false) by lia. rewrite E.
      cbn [span_digits]. rewrite Hnd. reflexivity.
    + destruct ((c =? 43) || (c =? 45)).
      * destruct (span_digits r') as [ed t] eqn:E.
        rewrite (span_digits_app_gen r' ed t x E (nsafe_nd _ Hx)). reflexivity.
      * destruct (span_digits (c :: r')) as [ed t] eqn:E.
        change (c :: r' ++ x) with ((c :: r') ++ x).
        rewrite (span_digits_app_gen (c :: r') ed t x E (nsafe_nd _ Hx)). reflexivity.
Qed.

Lemma num_tail_app' : forall neg ip s2 v t x,
  nsafe x -> num_tail neg ip s2 = Some (v, t) ->
  num_tail neg ip (s2 ++ x) = Some (v, t ++ x).
Proof.
  intros neg ip s2 v t x Hx. unfold num_tail.
  destruct ip as [|d0 more]; [discriminate|].
  destruct ((d0 =? 48) && negb (is_nil more)); [discriminate|].
  rewrite (frac_of_app' s2 x Hx). destruct (frac_of s2) as [[fr s3] okf].
  rewrite (exp_of_app' s3 x Hx). destruct (exp_of s3) as [[ex s4] oke].
  destruct (okf && oke); [|discriminate]. apply num_fin_app.
Qed.

Lemma lex_number_app' : forall s v t x,
  nsafe x -> lex_number s = Some (v, t) -> lex_number (s ++ x) = Some (v, t ++ x).
Proof.
  intros s v t x Hx. rewrite !lex_number_eq.
  destruct s as [|b r]; [discriminate|]. cbn [app]. unfold num_head.
  destruct (b =? 45).
  - destruct (span_digits r) as [ip s2] eqn:E.
    rewrite (span_digits_app_gen r ip s2 x E (nsafe_nd _ Hx)). apply num_tail_app'. exact Hx.
  - destruct (span_digits (b :: r)) as [ip s2] eqn:E.
    change (b :: r ++ x) with ((b :: r) ++ x).
    rewrite (span_digits_app_gen (b :: r) ip s2 x E (nsafe_nd _ Hx)). apply num_tail_app'. exact Hx.
Qed.

Lemma parse_app_all : forall x, nsafe x -> forall fuel,
  (forall depth s v t, parse_value fuel depth s = Some (v, t) ->
     parse_value fuel depth (s ++ x) = Some (v, t ++ x)) /\
  (forall depth s acc v t, parse_elems fuel depth s acc = Some (v, t) ->
     parse_elems fuel depth (s ++ x) acc = Some (v, t ++ x)) /\
  (forall depth s acc v t, parse_members fuel depth s acc = Some (v, t) ->
     parse_members fuel depth (s ++ x) acc = Some (v, t ++ x)).
Proof.
  intros x Hx. induction fuel as [|f (IHv & IHe & IHm)].
  - repeat split; intros; discriminate.
  - split; [|split].
    + intros depth s v t. rewrite !parse_value_S.
      destruct (skip_ws s) as [|b r] eqn:E; [discriminate|].
      rewrite (skip_ws_app s b r x E).
      destruct (b =? 110); [apply expect_app|].
      destruct (b =? 116); [apply expect_app|].
      destruct (b =? 102); [apply expect_app|].
      destruct (b =? 34).
      { destruct (parse_str r) as [[str t0]|] eqn:Es; [|discriminate].
        rewrite (parse_str_app r str t0 x Es). intros H. injection H as <- <-. reflexivity. }
      destruct (b =? 91).
      { destruct depth as [|[|d]]; try discriminate.
        destruct (skip_ws r) as [|c r'] eqn:E2; [discriminate|].
        rewrite (skip_ws_app r c r' x E2).
        destruct (c =? 93).
        - intros H. injection H as <- <-. reflexivity.
        - change (c :: r' ++ x) with ((c :: r') ++ x). apply IHe. }
      destruct (b =? 123).
      { destruct depth as [|[|d]]; try discriminate.
        destruct (skip_ws r) as [|c r'] eqn:E2; [discriminate|].
        rewrite (skip_ws_app r c r' x E2).
        destruct (c =? 125).
        - intros H. injection H as <- <-. reflexivity.
        - change (c :: r' ++ x) with ((c :: r') ++ x). apply IHm. }
      destruct ((b =? 45) || is_digit b); [|discriminate].
      change (b :: r ++ x) with ((b :: r) ++ x). apply lex_number_app'. exact Hx.
    + intros depth s acc v t. rewrite !parse_elems_S.
      destruct (parse_value f depth s) as [[v0 t0]|] eqn:E; [|discriminate].
      rewrite (IHv depth s v0 t0 E).
      destruct (skip_ws t0) as [|c t'] eqn:E2; [discriminate|].
      rewrite (skip_ws_app t0 c t' x E2).
      destruct (c =? 44); [apply IHe|].
      destruct (c =? 93); [|discriminate].
      intros H. injection H as <- <-. reflexivity.
    + intros depth s acc v t. rewrite !parse_members_S.
      destruct (skip_ws s) as [|q r] eqn:E; [discriminate|].
      rewrite (skip_ws_app s q r x E).
      destruct (q =? 34); [|discriminate].
      destruct (parse_str r) as [[k t0]|] eqn:Es; [|discriminate].
      rewrite (parse_str_app r k t0 x Es).
      destruct (skip_ws t0) as [|c t1] eqn:E1; [discriminate|].
      rewrite (skip_ws_app t0 c t1 x E1).
      destruct (c =? 58); [|discriminate].
      destruct (parse_value f depth t1) as [[v0 t2]|] eqn:Ev; [|discriminate].
      rewrite (IHv depth t1 v0 t2 Ev).
      destruct (skip_ws t2) as [|c2 t3] eqn:E2; [discriminate|].
      rewrite (skip_ws_app t2 c2 t3 x E2).
      destruct (c2 =? 44); [apply IHm|].
      destruct (c2 =? 125); [|discriminate].
      intros H. injection H as <- <-. reflexivity.
Qed.

Theorem parse_value_app : forall x fuel depth s v t,
  nsafe x -> parse_value fuel depth s = Some (v, t) ->
  parse_value fuel depth (s ++ x) = Some (v, t ++ x).
Proof. intros x fuel depth s v t Hx. apply (parse_app_all x Hx fuel). Qed.

(* ------------------------------------------------------------------------ *)
(* 3. whitespace around a document *)

Lemma skip_ws_all_app : forall t, is_nil (skip_ws t) = true -> skip_ws (t ++ [32]) = [].
Proof.
  intros t; induction t as [|b t IH]; intros H; [reflexivity|].
  cbn [skip_ws app] in *. destruct (is_ws b); [apply IH; exact H | discriminate].
Qed.

Lemma parse_value_lead_ws : forall f depth s,
  parse_value (S f) depth (32 :: s) = parse_value (S f) depth s.
Proof. intros. rewrite !parse_value_S. reflexivity. Qed.

Theorem parse_json_ws : forall v s, parse_json s = Some v ->
  parse_json (s ++ [32]) = Some v /\ parse_json (32 :: s) = Some v.
Proof.
  intros v s. unfold parse_json, parse_json_at.
  destruct (parse_value (fuel_for s) recursion_limit s) as [[v0 t]|] eqn:E; [|discriminate].
  destruct (is_nil (skip_ws t)) eqn:Et; [|discriminate].
  intros H. injection H as <-. split.
  - assert (Hle : (fuel_for s <= fuel_for (s ++ [32%N]))%nat)
      by (unfold fuel_for; rewrite app_length; lia).
    rewrite (parse_value_app [32] _ _ s v0 t nsafe_space
               (parse_value_fuel_mono _ _ _ _ _ Hle E)).
    rewrite (skip_ws_all_app t Et). reflexivity.
  - assert (Hf : fuel_for (32 :: s) = S (S (fuel_for s)))
      by (unfold fuel_for; cbn [length]; lia).
    rewrite Hf, parse_value_lead_ws.
    rewrite (parse_value_fuel_mono (fuel_for s) (S (S (fuel_for s))) _ _ _ ltac:(lia) E).
    rewrite Et. reflexivity.
Qed.

(* ------------------------------------------------------------------------ *)
(* 4. the Frame codec with float lexemes in the meta *)

Section FrameP'.
  Variable print_id : N -> bytes.
  Variable parse_id : bytes -> option N.
  Variable parse_hash : bytes -> option bytes.
  Variable hash_ok : bytes -> Prop.
  Hypothesis Hid : forall i, i < two128 -> parse_id (print_id i) = Some i.
  Hypothesis Hhash : forall h, hash_ok h -> parse_hash h = Some h.

  Definition wf_frame' (f : jframe) : Prop :=
    jf_ctx f < two128 /\ jf_id f < two128 /\
    (match jf_hash f with Some h => hash_ok h | None => True end) /\
    (match jf_meta f with Some v => wf_lex' v = true /\ wf_value v = true /\ v <> JNull | None => True end) /\
    (match jf_ttl f with Some t => ttl_wf t = true | None => True end).

  Lemma wf_frame_wf_frame' : forall f, wf_frame hash_ok f -> wf_frame' f.
  Proof.
    intros f (H1 & H2 & H3 & H4 & H5). repeat (split; [assumption|]). split; [|assumption].
    destruct (jf_meta f) as [v|]; [|exact I]. destruct H4 as (Ha & Hb & Hc).
    split; [apply wf_lex_wf_lex'; exact Ha | split; assumption].
  Qed.

  Lemma frame_json_wf_lex' : forall f, wf_frame' f -> wf_lex' (frame_to_json print_id f) = true.
  Proof.
    intros [t c i h m tl] (_ & _ & _ & Hm & _). cbn [jf_meta] in Hm.
    rewrite frame_to_json_eq. unfold frame_fields, mk_fields.
    cbn [jf_topic jf_ctx jf_id jf_hash jf_meta jf_ttl].
    destruct h as [h|], m as [v|], tl as [tl|]; cbn [wf_lex' forallb andb];
      try reflexivity; destruct Hm as (Hm & _); rewrite Hm; reflexivity.
  Qed.

  Lemma frame_fields_ok' : forall f, wf_frame' f ->
    frame_of_fields parse_id parse_hash (frame_fields print_id f) = Some f.
  Proof.
    intros [t c i h m tl] (Hc & Hi & Hh & Hm & Ht).
    cbn [jf_topic jf_ctx jf_id jf_hash jf_meta jf_ttl] in *.
    unfold frame_of_fields, frame_fields.
    cbn [jf_topic jf_ctx jf_id jf_hash jf_meta jf_ttl].
    match goal with |- context [mk_fields ?a ?b ?c ?d ?e ?g] =>
      destruct (get_all_fields a b c d e g) as (E1 & E2 & E3 & E4 & E5 & E6) end.
    rewrite E1, E2, E3, E4, E5, E6. clear E1 E2 E3 E4 E5 E6.
    cbn [req bind as_str]. rewrite (Hid c Hc), (Hid i Hi).
    assert (Eh : optf [match h with Some h0 => JStr h0 | None => JNull end]
                   (fun v => bind (as_str v) parse_hash) = Some h).
    { destruct h as [h|]; cbn [optf bind as_str option_map]; [rewrite (Hhash h Hh)|]; reflexivity. }
    assert (Em : optf [match m with Some v => v | None => JNull end]
                   (fun v => Some (normalize v)) = Some m).
    { destruct m as [v|]; [|reflexivity]. destruct Hm as (_ & Hv & Hnn).
      destruct v; try congruence; cbn [optf option_map]; rewrite normalize_wf by assumption;
        reflexivity. }
    assert (Et : optf [match tl with Some t0 => JStr (ttl_to_string t0) | None => JNull end]
                   (fun v => bind (as_str v) parse_ttl) = Some tl).
    { destruct tl as [tl|]; cbn [optf bind as_str option_map];
        [rewrite (parse_ttl_roundtrip tl Ht)|]; reflexivity. }
    rewrite Eh, Em, Et. reflexivity.
  Qed.

  Theorem frame_roundtrip' : forall f, wf_frame' f -> (meta_nest f < 127)%nat ->
    decode_frame parse_id parse_hash (encode_frame print_id f) = Some f.
  Proof.
    intros f Hwf Hn. unfold decode_frame, encode_frame.
    rewrite parse_json_print'.
    - rewrite frame_to_json_eq. apply frame_fields_ok'. exact Hwf.
    - apply frame_json_wf_lex'. exact Hwf.
    - rewrite (frame_json_nest print_id parse_id parse_hash hash_ok Hid Hhash). unfold recursion_limit. lia.
  Qed.

  Theorem frame_poison' : forall f, wf_frame' f -> (127 <= meta_nest f)%nat ->
    decode_frame parse_id parse_hash (encode_frame print_id f) = None.
  Proof.
    intros f Hwf Hn. unfold decode_frame, encode_frame.
    rewrite parse_json_too_deep'; [reflexivity | apply frame_json_wf_lex'; exact Hwf |].
    rewrite (frame_json_nest print_id parse_id parse_hash hash_ok Hid Hhash). unfold recursion_limit. lia.
  Qed.

  Theorem accepted_is_readable' : forall f, wf_frame' f ->
    accept print_id parse_id parse_hash true f = true ->
    decode_frame parse_id parse_hash (encode_frame print_id f) = Some f.
  Proof.
    intros f Hwf Ha. destruct (Nat.lt_ge_cases (meta_nest f) 127) as [Hn|Hn].
    - apply frame_roundtrip'; assumption.
    - unfold accept, readable in Ha. rewrite (frame_poison' f Hwf Hn) in Ha. discriminate.
  Qed.
End FrameP'.

Print Assumptions parse_value_fuel_mono.
Print Assumptions parse_elems_fuel_mono.
Print Assumptions parse_members_fuel_mono.
Print Assumptions parse_value_app.
Print Assumptions parse_json_ws.
Print Assumptions frame_roundtrip'.
Print Assumptions frame_poison'.
Print Assumptions accepted_is_readable'.
