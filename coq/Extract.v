(* Extraction of the executable model for the correspondence check.
   ExtrOcamlBasic only: bool/option/unit/list/prod/sumbool map to OCaml's;
   N/positive/nat stay inductive. No Extract Constant of ours. *)
From XS Require Import Model.Store Model.Spec Model.Conc Model.Http Model.Handler Model.Codec Model.Restart Model.Service Model.Json Model.Route.
Require Import ExtrOcamlBasic.
Cd "../build/extract".
Extraction "xsmodel.ml" step run empty_store a_step a_empty hyp_ok hyp_all a_ctxs spec_read be16 of_be frame_eqb N.of_nat N.to_nat
  cstep crun cinit closed seen reals init_follower lock_free
  handle hrun
  serve dsl_closure dec quote
  parse_ttl ttl_to_string ttl_of_pairs ro_of_pairs ro_to_pairs
  compact_handlers compact_generators compact_commands spec_handlers spec_generators spec_commands
  call_frames lifecycles cserve_step cboot duplex_input instance_input
  parse_json print_json normalize decode_frame encode_frame readable accept nest
  route_path.
