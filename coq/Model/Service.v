(* Command calls (src/commands/serve.rs) and generator lifecycles (src/generators/serve.rs)
   around opaque Nushell code.  The script is a parameter (its result is a list of values or a
   failure); the theorems quantify over every script result.  Model file: definitions only. *)
From XS Require Export Model.Handler.

(* ---- commands ---- *)
Record cconf := mkCC {
  c_def : N;                 (* id of the .define frame = command_id *)
  c_name : bytes;
  c_suffix : bytes;          (* return_options.suffix, default ".recv" *)
  c_ttl : option ttl }.

(* what evaluating the command's closure on a call frame yields *)
Inductive cmd_result :=
| CmdOk (appends : list oappend) (values : list bytes)   (* explicit .append calls (immediate), then the output values as JSON *)
| CmdErr (appends : list oappend).                       (* appends made before the runtime error stay (they are not buffered) *)

Definition suffix_recv : bytes := [46;114;101;99;118].                       (* ".recv" *)
Definition suffix_complete : bytes := [46;99;111;109;112;108;101;116;101].   (* ".complete" *)
Definition suffix_error : bytes := [46;101;114;114;111;114].                 (* ".error" *)

(* the frames one call produces, in order; all in the caller's context, stamped with the
   definition's id (e_hid) and the call's id (e_fid) *)
Definition call_frames (c : cconf) (call : sframe) (r : cmd_result) : list eframe :=
  let stamp_app (a : oappend) :=
    mkE (oa_topic a) (sf_ctx call) (c_def c) (sf_id call) (oa_ttl a) (Some (oa_content a)) (oa_meta a) false in
  match r with
  | CmdOk apps vals =>
      map stamp_app apps
      ++ map (fun v => mkE (c_name c ++ c_suffix c) (sf_ctx call) (c_def c) (sf_id call) (c_ttl c) (Some v) None false) vals
      ++ [mkE (c_name c ++ suffix_complete) (sf_ctx call) (c_def c) (sf_id call) None None None false]
  | CmdErr apps =>
      map stamp_app apps
      ++ [mkE (c_name c ++ suffix_error) (sf_ctx call) (c_def c) (sf_id call) None None None true]
  end.

(* the serve loop after the threshold: the table of definitions (latest valid definition of a
   name wins; the pinned table is keyed by name only) and the calls that are executed *)
Inductive cevent :=
| EDefine (f : sframe) (name : bytes) (valid : bool)     (* .define frame; valid = the script parses *)
| ECall (f : sframe) (name : bytes)                      (* .call frame *)
| EOtherC.

Record cstate_ := mkCS { cs_table : list (bytes * N) }.   (* name -> id of the definition in force *)

Definition ctable_put (n : bytes) (i : N) (t : list (bytes * N)) : list (bytes * N) :=
  filter (fun e => negb (bytes_eqb (fst e) n)) t ++ [(n, i)].
Definition ctable_get (n : bytes) (t : list (bytes * N)) : option N :=
  option_map snd (find (fun e => bytes_eqb (fst e) n) t).

(* which definition (if any) runs a call, and the .error announcements of invalid definitions *)
Inductive caction := ARun (def : N) (call : sframe) | ADefError (def : sframe) (name : bytes) | ANone.

Definition cserve_step (t : list (bytes * N)) (e : cevent) : list (bytes * N) * caction :=
  match e with
  | EDefine f n true => (ctable_put n (sf_id f) t, ANone)
  | EDefine f n false => (t, ADefError f n)
  | ECall f n => match ctable_get n t with
                 | Some d => (t, ARun d f)
                 | None => (t, ANone)
                 end
  | EOtherC => (t, ANone)
  end.

Fixpoint cserve (t : list (bytes * N)) (es : list cevent) : list caction :=
  match es with
  | [] => []
  | e :: r => let '(t', a) := cserve_step t e in a :: cserve t' r
  end.

(* start-up: every historical .define is registered, historical calls are NOT executed *)
Definition cboot (history : list cevent) : list (bytes * N) :=
  fold_left (fun t e => match e with EDefine _ _ _ => fst (cserve_step t e) | _ => t end) history [].

(* ---- generators ---- *)
Record gconf := mkGC { g_spawn : N; g_ctx : N; g_name : bytes }.   (* source_id = id of the .spawn frame *)

Definition suffix_start : bytes := [46;115;116;97;114;116].   (* ".start" *)
Definition suffix_stop : bytes := [46;115;116;111;112].       (* ".stop" *)
Definition suffix_grecv : bytes := [46;114;101;99;118].       (* ".recv" *)

(* one lifecycle: start, one recv per produced string (content = the string), stop *)
Definition lifecycle (g : gconf) (outs : list bytes) : list eframe :=
  [mkE (g_name g ++ suffix_start) (g_ctx g) (g_spawn g) (g_spawn g) None None None false]
  ++ map (fun v => mkE (g_name g ++ suffix_grecv) (g_ctx g) (g_spawn g) (g_spawn g) None (Some v) None false) outs
  ++ [mkE (g_name g ++ suffix_stop) (g_ctx g) (g_spawn g) (g_spawn g) None None None false].

(* consecutive lifecycles of one generator (it is started again after every stop) *)
Definition lifecycles (g : gconf) (runs : list (list bytes)) : list eframe :=
  flat_map (lifecycle g) runs.

(* duplex input: what is fed to the running instance = the contents of the <name>.send frames of
   its own context after its start, once each, in order (the context filter is the fix "feed a
   duplex generator only from its own context") *)
Definition suffix_send : bytes := [46;115;101;110;100].       (* ".send" *)
Definition duplex_input (g : gconf) (start_id : N) (stream : list (sframe * bytes)) : list bytes :=
  map snd (filter (fun p => (start_id <? sf_id (fst p)) && (sf_ctx (fst p) =? g_ctx g)
                            && bytes_eqb (sf_topic (fst p)) (g_name g ++ suffix_send)) stream).

(* consecutive instances of one duplex generator: the instance started by the frame `start_id`
   subscribes after that frame (last_id = its own .start) and lives until its .stop `stop_id`:
   it is fed the sends appended in between - not those consumed by earlier instances *)
Definition instance_input (g : gconf) (start_id stop_id : N) (stream : list (sframe * bytes)) : list bytes :=
  duplex_input g start_id (filter (fun p => sf_id (fst p) <? stop_id) stream).
