(* match_route of src/api.rs on the raw request path (hyper's Uri::path(): NOT percent-decoded):
   which route a (method, path) pair selects and which topic / id text / hash text it carries.
   Query parameters and headers are handled by the abstract request of Model/Http.v.
   Model file: definitions only. *)
From XS Require Export Model.Bytes.

Inductive meth := MGet | MPost | MDelete | MOther.

Inductive proute :=
| PVersion
| PCat
| PHead (topic : bytes)
| PCasGet (hash : bytes)
| PCasPost
| PImport
| PItemGet (idtext : bytes)
| PItemRemove (idtext : bytes)
| PAppend (topic : bytes)
| PNotFound.

Definition p_version : bytes := [47;118;101;114;115;105;111;110].   (* "/version" *)
Definition p_root : bytes := [47].
Definition p_head : bytes := [47;104;101;97;100;47].                (* "/head/" *)
Definition p_cas_ : bytes := [47;99;97;115;47].                     (* "/cas/" *)
Definition p_cas : bytes := [47;99;97;115].                         (* "/cas" *)
Definition p_import : bytes := [47;105;109;112;111;114;116].        (* "/import" *)

(* str::trim_start_matches('/') *)
Fixpoint trim_slashes (p : bytes) : bytes :=
  match p with
  | b :: r => if b =? 47 then trim_slashes r else p
  | [] => []
  end.

Definition starts_slash (p : bytes) : bool := match p with b :: _ => b =? 47 | [] => false end.

(* the match arms in source order *)
Definition route_path (m : meth) (p : bytes) : proute :=
  match m with
  | MGet =>
      if bytes_eqb p p_version then PVersion
      else if bytes_eqb p p_root then PCat
      else if is_prefix p_head p then PHead (skipn 6 p)        (* strip_prefix: ONCE *)
      else if is_prefix p_cas_ p then PCasGet (skipn 5 p)
      else PItemGet (trim_slashes p)
  | MPost =>
      if bytes_eqb p p_cas then PCasPost
      else if bytes_eqb p p_import then PImport
      else if starts_slash p then PAppend (trim_slashes p)
      else PNotFound
  | MDelete => PItemRemove (trim_slashes p)
  | MOther => PNotFound
  end.

(* query parameters read through a HashMap collected from the decoded pairs (context, follow on the
   head route): the LAST occurrence of a key is the one in force *)
Fixpoint param_last (k : bytes) (ps : list (bytes * bytes)) : option bytes :=
  match ps with
  | [] => None
  | (k', v) :: r =>
      match param_last k r with
      | Some w => Some w
      | None => if bytes_eqb k k' then Some v else None
      end
  end.
