(* Start-up replay of the three dispatchers (handlers/serve.rs, generators/serve.rs,
   commands/serve.rs): which registrations / spawns / definitions are brought back when
   the server starts on an existing stream.  Pure folds over the historical frames.
   [keyed_by_ctx = false] is the pinned code (tables keyed by name only), [true] the code
   after the fix (keyed by (context, name)).  Model file: definitions only. *)
From XS Require Export Model.Store.

Inductive rkind :=
| KRegister | KUnregister | KUnregistered      (* handlers *)
| KSpawn | KSpawnError                         (* generators *)
| KDefine                                      (* commands *)
| KOther.

Record rframe := mkR {
  r_id : N; r_ctx : N; r_name : bytes; r_kind : rkind;
  r_ref : option N }.        (* meta.handler_id (handlers) *)

Definition key_eqb (by_ctx : bool) (a b : rframe) : bool :=
  bytes_eqb (r_name a) (r_name b) && (negb by_ctx || (r_ctx a =? r_ctx b)).

(* association table keyed by name (or by (context, name)) holding one frame per key *)
Definition tbl_remove (by_ctx : bool) (k : rframe) (t : list rframe) : list rframe :=
  filter (fun e => negb (key_eqb by_ctx k e)) t.
Definition tbl_put (by_ctx : bool) (k : rframe) (t : list rframe) : list rframe :=
  tbl_remove by_ctx k t ++ [k].
Definition tbl_get (by_ctx : bool) (k : rframe) (t : list rframe) : option rframe :=
  find (key_eqb by_ctx k) t.

Fixpoint insert_by_rid (f : rframe) (l : list rframe) : list rframe :=
  match l with
  | [] => [f]
  | g :: r => if r_id f <? r_id g then f :: l else g :: insert_by_rid f r
  end.
Definition sort_by_rid (l : list rframe) : list rframe := fold_right insert_by_rid [] l.

(* handlers/serve.rs, phase 1 *)
Definition handlers_step (by_ctx : bool) (t : list rframe) (f : rframe) : list rframe :=
  match r_kind f with
  | KRegister => tbl_put by_ctx f t
  | KUnregister | KUnregistered =>
      match r_ref f, tbl_get by_ctx f t with
      | Some h, Some st => if r_id st =? h then tbl_remove by_ctx f t else t
      | _, _ => t
      end
  | _ => t
  end.
(* the registrations started at boot, in id order *)
Definition compact_handlers (by_ctx : bool) (fs : list rframe) : list rframe :=
  sort_by_rid (fold_left (handlers_step by_ctx) fs []).

(* generators/serve.rs, phase 1: last of {spawn, spawn.error} per key; started iff it is a spawn *)
Definition generators_step (by_ctx : bool) (t : list rframe) (f : rframe) : list rframe :=
  match r_kind f with
  | KSpawn | KSpawnError => tbl_put by_ctx f t
  | _ => t
  end.
Definition compact_generators (by_ctx : bool) (fs : list rframe) : list rframe :=
  filter (fun f => match r_kind f with KSpawn => true | _ => false end)
         (fold_left (generators_step by_ctx) fs []).

(* commands/serve.rs, phase 1: every .define is registered in stream order, the latest wins *)
Definition commands_step (by_ctx : bool) (t : list rframe) (f : rframe) : list rframe :=
  match r_kind f with
  | KDefine => tbl_put by_ctx f t
  | _ => t
  end.
Definition compact_commands (by_ctx : bool) (fs : list rframe) : list rframe :=
  fold_left (commands_step by_ctx) fs [].

(* ---- specification, keyed by (context, name) ---- *)
(* a handler registration is still active at the end of the history iff no later frame of its
   own (context, name) replaced it (.register) or announced its end (.unregister/.unregistered
   naming its id) *)
Definition same_cn (a b : rframe) : bool := bytes_eqb (r_name a) (r_name b) && (r_ctx a =? r_ctx b).

Fixpoint spec_handlers (fs : list rframe) : list rframe :=
  match fs with
  | [] => []
  | f :: rest =>
      let later := spec_handlers rest in
      match r_kind f with
      | KRegister =>
          if existsb (fun g => same_cn f g &&
                               match r_kind g with
                               | KRegister => true
                               | KUnregister | KUnregistered =>
                                   match r_ref g with Some h => h =? r_id f | None => false end
                               | _ => false
                               end) rest
          then later else f :: later
      | _ => later
      end
  end.

(* a generator is active iff the latest spawn / spawn.error of its (context, name) is a spawn *)
Fixpoint spec_generators (fs : list rframe) : list rframe :=
  match fs with
  | [] => []
  | f :: rest =>
      let later := spec_generators rest in
      match r_kind f with
      | KSpawn =>
          if existsb (fun g => same_cn f g && match r_kind g with KSpawn | KSpawnError => true | _ => false end) rest
          then later else f :: later
      | _ => later
      end
  end.

(* the latest definition of every (context, name) *)
Fixpoint spec_commands (fs : list rframe) : list rframe :=
  match fs with
  | [] => []
  | f :: rest =>
      let later := spec_commands rest in
      match r_kind f with
      | KDefine =>
          if existsb (fun g => same_cn f g && match r_kind g with KDefine => true | _ => false end) rest
          then later else f :: later
      | _ => later
      end
  end.
