(* Durability protocol of Store::insert_frame / Store::remove over a journal model of
   fjall (an oracle: journal of atomic batches; recovery keeps exactly the complete
   batches, in order; persist(SyncAll) = flush the user-space buffer, then fsync).
   Model file: definitions only.

   Every store mutation is ONE batch over the three partitions:
     insert_frame f : put stream[id] := f ; put idx_topic[tkey f] ; put idx_context[ckey f]
     remove i       : del stream[id]      ; del idx_topic[tkey f] ; del idx_context[ckey f]
   and returns (acknowledges) only after persist.  Three volatility levels: the process's
   user-space buffer (lost on process kill), the OS cache (lost on power loss), the disk. *)
From XS Require Export Model.Store.

Inductive mutation :=
| MPutS (k : bytes) (f : frame) | MPutT (k : bytes) | MPutC (k : bytes)
| MDelS (k : bytes) | MDelT (k : bytes) | MDelC (k : bytes).
Definition batch := list mutation.

Record parts := mkParts { p_stream : kv frame; p_itopic : kv unit; p_ictx : kv unit }.
Definition parts_empty : parts := mkParts [] [] [].
Definition parts_of (s : store) : parts := mkParts (s_stream s) (s_itopic s) (s_ictx s).

Definition apply_mut (p : parts) (m : mutation) : parts :=
  match m with
  | MPutS k f => mkParts (kv_put k f (p_stream p)) (p_itopic p) (p_ictx p)
  | MPutT k => mkParts (p_stream p) (kv_put k tt (p_itopic p)) (p_ictx p)
  | MPutC k => mkParts (p_stream p) (p_itopic p) (kv_put k tt (p_ictx p))
  | MDelS k => mkParts (kv_del k (p_stream p)) (p_itopic p) (p_ictx p)
  | MDelT k => mkParts (p_stream p) (kv_del k (p_itopic p)) (p_ictx p)
  | MDelC k => mkParts (p_stream p) (p_itopic p) (kv_del k (p_ictx p))
  end.
Definition apply_batch (p : parts) (b : batch) : parts := fold_left apply_mut b p.
(* recovery: replay the complete batches of the journal, oldest first *)
Definition replay (j : list batch) : parts := fold_left apply_batch j parts_empty.

(* the journaled operations of the store *)
Inductive jop := JInsert (f : frame) | JRemove (i : N).

(* the batch an operation writes, given the current partitions (None: nothing is written -
   NUL topic rejected, or remove of a missing frame) *)
Definition batch_of (p : parts) (o : jop) : option batch :=
  match o with
  | JInsert f =>
      if has_nul (f_topic f) then None
      else
        (* the index entries of an overwritten frame with other keys go in the same batch *)
        let drop := match kv_get (skey (f_id f)) (p_stream p) with
                    | Some old => if same_keys old f then [] else [MDelT (tkey old); MDelC (ckey old)]
                    | None => []
                    end in
        Some (drop ++ [MPutS (skey (f_id f)) f; MPutT (tkey f); MPutC (ckey f)])
  | JRemove i =>
      match kv_get (skey i) (p_stream p) with
      | None => None
      | Some f => if has_nul (f_topic f) then None
                  else Some [MDelS (skey i); MDelT (tkey f); MDelC (ckey f)]
      end
  end.

(* the storage stack: what is where *)
Record disk := mkDisk {
  d_durable : list batch;     (* fsynced *)
  d_os : list batch;          (* written to the OS, not yet fsynced *)
  d_user : list batch }.      (* still in the process's buffer *)
Definition disk_empty : disk := mkDisk [] [] [].

(* the steps of one mutating operation, in program order *)
Inductive pstep := PCommit (b : batch) | PFlush | PFsync.
Definition do_pstep (d : disk) (s : pstep) : disk :=
  match s with
  | PCommit b => mkDisk (d_durable d) (d_os d) (d_user d ++ [b])
  | PFlush => mkDisk (d_durable d) (d_os d ++ d_user d) []
  | PFsync => mkDisk (d_durable d ++ d_os d) [] (d_user d)
  end.

(* program of one operation: commit the batch (if any), then persist(SyncAll) *)
Definition program (p : parts) (o : jop) : list pstep :=
  match batch_of p o with
  | Some b => [PCommit b; PFlush; PFsync]
  | None => []
  end.

(* [weak_persist = true] models a (wrong) implementation that acknowledges without
   persisting (the mutation "dropping persist(SyncAll)"): used only for the refutation *)
Definition program_gen (persist : bool) (p : parts) (o : jop) : list pstep :=
  match batch_of p o with
  | Some b => if persist then [PCommit b; PFlush; PFsync] else [PCommit b]
  | None => []
  end.

(* what survives *)
Definition kill_image (d : disk) : list batch := d_durable d ++ d_os d.   (* process kill *)
(* power loss: any prefix of the un-fsynced OS segment may have reached the disk; a torn last
   record is an incomplete batch and is discarded by recovery, i.e. also a prefix *)
Definition power_images (d : disk) : list (list batch) :=
  map (fun n => d_durable d ++ firstn n (d_os d)) (seq 0 (S (length (d_os d)))).

(* sequential execution of whole operations: the in-memory partitions and the disk *)
Definition exec_op (st : parts * disk) (o : jop) : parts * disk :=
  let '(p, d) := st in
  (match batch_of p o with Some b => apply_batch p b | None => p end,
   fold_left do_pstep (program p o) d).
Definition exec_ops (ops : list jop) : parts * disk :=
  fold_left exec_op ops (parts_empty, disk_empty).

(* a crash instant inside operation number k (0-based): after the first n steps of its program *)
Definition crash_state (ops : list jop) (k n : nat) : disk :=
  let '(p, d) := exec_ops (firstn k ops) in
  match nth_error ops k with
  | Some o => fold_left do_pstep (firstn n (program p o)) d
  | None => d
  end.
