(* The HTTP front end (src/api.rs: match_route + handle) over the store model.
   Requests are abstract: every way a component can be malformed is an explicit
   constructor, so that "every request, however malformed, receives a response" is a
   statement about all values of [hreq].  Rendering to bytes and hyper's own parsing are
   outside the model (the orchestrator classifies what hyper rejects before [handle]).
   Model file: definitions only.  [fixed = false] is the pinned code (kept as a regression
   witness), [fixed = true] the code after the `fix:` commits on api.rs. *)
From XS Require Export Model.Store.

Inductive qid := QAbsent | QOk (i : N) | QBad.
Inductive qttl := TAbsent | TOk (t : ttl) | TBad.
Inductive hmeta := MAbsent | MOk (m : bytes) | MBadB64 | MBadUtf8 | MBadJson | MNonAscii.

Inductive hreq :=
| RVersion
| RCat (sse : bool) (opts : option (option N * option N * option N))   (* last-id, limit, context-id; None = options rejected *)
| RAppend (topic : bytes) (c : qid) (t : qttl) (m : hmeta) (body : bytes) (bh : bytes)
                                            (* bh = the integrity string of [body] (computed independently) *)
| RGet (i : qid)
| RRemove (i : qid)
| RHead (topic : bytes) (c : qid)
| RCasGet (h : option bytes)                (* None = malformed hash *)
| RCasPost (body : bytes) (bh : bytes)
| RImport (f : option frame)                (* None = body is not a frame *)
| RNotFound.

Inductive hbody :=
| BEmpty | BText | BVersion
| BFrame (f : frame)
| BFrames (sse : bool) (l : list frame)
| BBytes (b : bytes)
| BHash (h : bytes).

Inductive hresp := HResp (status : N) (b : hbody) | HDropped.   (* HDropped: no response, connection closed *)

Definition cas := list (bytes * bytes).      (* integrity string -> content *)
Definition cas_get (h : bytes) (c : cas) : option bytes :=
  option_map snd (find (fun e => bytes_eqb h (fst e)) c).
Definition cas_put (h b : bytes) (c : cas) : cas :=
  match cas_get h c with Some _ => c | None => c ++ [(h, b)] end.

Record hstate := mkH { h_store : store; h_cas : cas }.

Definition ctx_of (c : qid) : option N :=
  match c with QAbsent => Some 0 | QOk i => Some i | QBad => None end.

Definition is_nil {A} (l : list A) : bool := match l with [] => true | _ => false end.

(* [i] = the id the store's generator hands out if this request appends *)
Definition handle (fixed : bool) (st : hstate) (i : N) (r : hreq) : hresp * hstate :=
  let s := h_store st in
  match r with
  | RVersion => (HResp 200 BVersion, st)
  | RCat sse None => (HResp 400 BText, st)
  | RCat sse (Some (l, lim, c)) =>
      let '(fs, s') := read_hist s l lim c in
      (HResp 200 (BFrames sse fs), mkH s' (h_cas st))
  | RAppend topic c t m body bh =>
      match ctx_of c with
      | None => (HResp 400 BText, st)
      | Some cx =>
          match t with
          | TBad => (HResp 400 BText, st)
          | _ =>
              (* the body is written to CAS first (an orphan if the request is then rejected) *)
              let cas1 := if is_nil body then h_cas st else cas_put bh body (h_cas st) in
              let hash := if is_nil body then None else Some bh in
              let st1 := mkH s cas1 in
              let go (meta : option bytes) :=
                let ttl := match t with TOk x => Some x | _ => Some Forever end in
                match append s i (mkFrame 0 cx topic hash meta ttl) with
                | (Ok f, s') => (HResp 200 (BFrame f), mkH s' cas1)
                (* the store refuses the frame for what it is (unregistered context, xs.context outside the zero
                   context, NUL in the topic): a client error since the fix "answer a frame the store refuses with
                   400"; the pinned code said 500 *)
                | (Err _, s') => (HResp (if fixed then 400 else 500) BText, mkH s' cas1)
                end in
              match m with
              | MAbsent => go None
              | MOk j => go (Some j)
              | MBadB64 | MBadUtf8 | MBadJson => (HResp 400 BText, st1)
              | MNonAscii => if fixed then (HResp 400 BText, st1) else (HDropped, st1)
              end
          end
      end
  | RGet QBad | RRemove QBad => (HResp 400 BText, st)
  | RGet QAbsent | RRemove QAbsent => (HResp 400 BText, st)
  | RGet (QOk j) =>
      match get s j with
      | Some f => (HResp 200 (BFrame f), st)
      | None => (HResp 404 BEmpty, st)
      end
  | RRemove (QOk j) =>
      match remove s j with
      | (Ok _, s') => (HResp 204 BEmpty, mkH s' (h_cas st))
      | (Err _, s') => (HResp 500 BText, mkH s' (h_cas st))
      end
  | RHead topic c =>
      match ctx_of c with
      | None => (HResp 400 BText, st)
      | Some cx =>
          match head s topic cx with
          | Some f => (HResp 200 (BFrame f), st)
          | None => (HResp 404 BEmpty, st)
          end
      end
  | RCasGet None => (HResp 400 BText, st)
  | RCasGet (Some h) =>
      match cas_get h (h_cas st) with
      | Some b => (HResp 200 (BBytes b), st)
      | None => if fixed then (HResp 404 BEmpty, st) else (HDropped, st)
      end
  | RCasPost body bh =>
      if is_nil body then (HResp 400 BText, st)
      else (HResp 200 (BHash bh), mkH s (cas_put bh body (h_cas st)))
  | RImport None => (HResp 400 BText, st)
  | RImport (Some f) =>
      match insert_frame s f with
      | (Ok _, s') => (HResp 200 (BFrame f), mkH s' (h_cas st))
      | (Err _, s') => (HResp (if fixed then 400 else 500) BText, mkH s' (h_cas st))
      end
  | RNotFound => (HResp 404 BEmpty, st)
  end.

Fixpoint hrun (fixed : bool) (st : hstate) (rs : list (N * hreq)) : list hresp * hstate :=
  match rs with
  | [] => ([], st)
  | (i, r) :: rest =>
      let '(resp, st') := handle fixed st i r in
      let '(l, st'') := hrun fixed st' rest in (resp :: l, st'')
  end.

Definition status_of (r : hresp) : option N := match r with HResp s _ => Some s | HDropped => None end.
