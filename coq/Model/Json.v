(* JSON as serde_json (no arbitrary_precision, no preserve_order, recursion limit 128) writes and
   reads it, and the Frame codec on top (derive(Serialize, Deserialize) for Frame in
   src/store/mod.rs; deserialize_frame panics on undecodable stored bytes).
   (Object member order: see `normalize`.)
   Oracles: f64 printing/parsing (a non-integer number is kept as its lexeme), UTF-8 validation
   (strings are byte lists; Rust Strings are valid by type), the scru128 text form and
   ssri::Integrity (section variables).  Model file: definitions only. *)
From XS Require Export Model.Codec.

Inductive json :=
| JNull
| JBool (b : bool)
| JInt (neg : bool) (n : N)        (* serde_json::Number PosInt (u64) / NegInt (i64, < 0) *)
| JFloat (lex : bytes)             (* any other number, as its lexeme *)
| JStr (s : bytes)
| JArr (l : list json)
| JObj (l : list (bytes * json)).  (* members in document order *)

(* ---- printer (serde_json::to_vec, compact) ---- *)
Definition hex_digit (n : N) : N := if n <? 10 then 48 + n else 87 + n.   (* lowercase *)

Definition esc_byte (b : N) : bytes :=
  if b =? 34 then [92; 34]
  else if b =? 92 then [92; 92]
  else if b =? 8 then [92; 98]
  else if b =? 12 then [92; 102]
  else if b =? 10 then [92; 110]
  else if b =? 13 then [92; 114]
  else if b =? 9 then [92; 116]
  else if b <? 32 then [92; 117; 48; 48; hex_digit (b / 16); hex_digit (b mod 16)]
  else [b].

Definition print_str (s : bytes) : bytes := 34 :: flat_map esc_byte s ++ [34].

Definition print_int (neg : bool) (n : N) : bytes :=
  if neg then 45 :: print_dec n else print_dec n.

Fixpoint sep_concat (l : list bytes) : bytes :=
  match l with
  | [] => []
  | [x] => x
  | x :: r => x ++ 44 :: sep_concat r
  end.

Definition s_null : bytes := [110;117;108;108].
Definition s_jtrue : bytes := [116;114;117;101].
Definition s_jfalse : bytes := [102;97;108;115;101].

Fixpoint print_json (v : json) : bytes :=
  match v with
  | JNull => s_null
  | JBool true => s_jtrue
  | JBool false => s_jfalse
  | JInt neg n => print_int neg n
  | JFloat lex => lex
  | JStr s => print_str s
  | JArr l => 91 :: sep_concat (map print_json l) ++ [93]
  | JObj l => 123 :: sep_concat (map (fun kv => match kv with (k, x) => print_str k ++ 58 :: print_json x end) l) ++ [125]
  end.

(* ---- lexer ---- *)
Definition is_ws (b : N) : bool := (b =? 32) || (b =? 9) || (b =? 10) || (b =? 13).
Fixpoint skip_ws (s : bytes) : bytes :=
  match s with
  | b :: r => if is_ws b then skip_ws r else s
  | [] => []
  end.
Definition is_digit (b : N) : bool := (48 <=? b) && (b <=? 57).
Fixpoint span_digits (s : bytes) : bytes * bytes :=
  match s with
  | b :: r => if is_digit b then let '(d, t) := span_digits r in (b :: d, t) else ([], s)
  | [] => ([], [])
  end.
Definition is_nil {A} (l : list A) : bool := match l with [] => true | _ => false end.

Definition two63 : N := 2 ^ 63.

(* the JSON number grammar: optional minus, integer part without leading zeros, optional fraction,
   optional exponent; an integer lexeme in range is an integer ("-0" and out-of-range integers
   become floats) *)
Definition lex_number (s : bytes) : option (json * bytes) :=
  let '(neg, s1) := match s with
                    | b :: r => if b =? 45 then (true, r) else (false, s)
                    | [] => (false, s)
                    end in
  let '(ip, s2) := span_digits s1 in
  match ip with
  | [] => None
  | d0 :: more =>
      if (d0 =? 48) && negb (is_nil more) then None
      else
        let '(frac, s3, okf) :=
          match s2 with
          | b :: r => if b =? 46 then let '(fd, t) := span_digits r in (46 :: fd, t, negb (is_nil fd))
                      else ([], s2, true)
          | [] => ([], s2, true)
          end in
        let '(ex, s4, oke) :=
          match s3 with
          | b :: r =>
              if (b =? 101) || (b =? 69) then
                let '(sg, r2) := match r with
                                 | c :: r' => if (c =? 43) || (c =? 45) then ([c], r') else ([], r)
                                 | [] => ([], r)
                                 end in
                let '(ed, t) := span_digits r2 in (b :: sg ++ ed, t, negb (is_nil ed))
              else ([], s3, true)
          | [] => ([], s3, true)
          end in
        if okf && oke then
          let sign := if neg then [45] else [] in
          if is_nil frac && is_nil ex then
            match parse_digits ip 0 with
            | Some v =>
                if neg then
                  if (1 <=? v) && (v <=? two63) then Some (JInt true v, s4) else Some (JFloat (sign ++ ip), s4)
                else if v <=? max_u64 then Some (JInt false v, s4) else Some (JFloat ip, s4)
            | None => None
            end
          else Some (JFloat (sign ++ ip ++ frac ++ ex), s4)
        else None
  end.

Definition hex_val (b : N) : option N :=
  if is_digit b then Some (b - 48)
  else if (97 <=? b) && (b <=? 102) then Some (b - 87)
  else if (65 <=? b) && (b <=? 70) then Some (b - 55)
  else None.
Definition hex4 (a b c d : N) : option N :=
  match hex_val a, hex_val b, hex_val c, hex_val d with
  | Some w, Some x, Some y, Some z => Some (((w * 16 + x) * 16 + y) * 16 + z)
  | _, _, _, _ => None
  end.
Definition utf8 (c : N) : bytes :=
  if c <? 128 then [c]
  else if c <? 2048 then [192 + c / 64; 128 + c mod 64]
  else if c <? 65536 then [224 + c / 4096; 128 + (c / 64) mod 64; 128 + c mod 64]
  else [240 + c / 262144; 128 + (c / 4096) mod 64; 128 + (c / 64) mod 64; 128 + c mod 64].
Definition unescape (e : N) : option N :=
  if e =? 34 then Some 34 else if e =? 92 then Some 92 else if e =? 47 then Some 47
  else if e =? 98 then Some 8 else if e =? 102 then Some 12 else if e =? 110 then Some 10
  else if e =? 114 then Some 13 else if e =? 116 then Some 9 else None.
Definition cons_str (p : bytes) (r : option (bytes * bytes)) : option (bytes * bytes) :=
  match r with Some (s, t) => Some (p ++ s, t) | None => None end.

(* the string body after the opening quote -> (content, rest after the closing quote) *)
Fixpoint parse_str (s : bytes) : option (bytes * bytes) :=
  match s with
  | [] => None
  | b :: r =>
      if b =? 34 then Some ([], r)
      else if b <? 32 then None
      else if b =? 92 then
        match r with
        | [] => None
        | e :: r2 =>
            if e =? 117 then
              match r2 with
              | h1 :: h2 :: h3 :: h4 :: r3 =>
                  match hex4 h1 h2 h3 h4 with
                  | None => None
                  | Some c =>
                      if (55296 <=? c) && (c <=? 56319) then
                        match r3 with
                        | b1 :: b2 :: l1 :: l2 :: l3 :: l4 :: r4 =>
                            if (b1 =? 92) && (b2 =? 117) then
                              match hex4 l1 l2 l3 l4 with
                              | Some lo =>
                                  if (56320 <=? lo) && (lo <=? 57343)
                                  then cons_str (utf8 (65536 + (c - 55296) * 1024 + (lo - 56320))) (parse_str r4)
                                  else None
                              | None => None
                              end
                            else None
                        | _ => None
                        end
                      else if (56320 <=? c) && (c <=? 57343) then None
                      else cons_str (utf8 c) (parse_str r3)
                  end
              | _ => None
              end
            else match unescape e with
                 | Some c => cons_str [c] (parse_str r2)
                 | None => None
                 end
        end
      else cons_str [b] (parse_str r)
  end.

Definition expect (lit : bytes) (s : bytes) (v : json) : option (json * bytes) :=
  if is_prefix lit s then Some (v, skipn (length lit) s) else None.

(* ---- parser: recursion on fuel; `depth` is serde_json's remaining_depth (entering an array or
   an object decrements it and fails when it reaches 0) ---- *)
Fixpoint parse_value (fuel depth : nat) (s : bytes) {struct fuel} : option (json * bytes) :=
  match fuel with
  | O => None
  | S f =>
      match skip_ws s with
      | [] => None
      | b :: r =>
          if b =? 110 then expect [117;108;108] r JNull
          else if b =? 116 then expect [114;117;101] r (JBool true)
          else if b =? 102 then expect [97;108;115;101] r (JBool false)
          else if b =? 34 then
            match parse_str r with Some (str, t) => Some (JStr str, t) | None => None end
          else if b =? 91 then
            match depth with
            | S (S d) =>
                match skip_ws r with
                | c :: r' => if c =? 93 then Some (JArr [], r') else parse_elems f (S d) (c :: r') []
                | [] => None
                end
            | _ => None
            end
          else if b =? 123 then
            match depth with
            | S (S d) =>
                match skip_ws r with
                | c :: r' => if c =? 125 then Some (JObj [], r') else parse_members f (S d) (c :: r') []
                | [] => None
                end
            | _ => None
            end
          else if (b =? 45) || is_digit b then lex_number (b :: r)
          else None
      end
  end
with parse_elems (fuel depth : nat) (s : bytes) (acc : list json) {struct fuel} : option (json * bytes) :=
  match fuel with
  | O => None
  | S f =>
      match parse_value f depth s with
      | None => None
      | Some (v, t) =>
          match skip_ws t with
          | c :: t' =>
              if c =? 44 then parse_elems f depth t' (v :: acc)
              else if c =? 93 then Some (JArr (rev (v :: acc)), t')
              else None
          | [] => None
          end
      end
  end
with parse_members (fuel depth : nat) (s : bytes) (acc : list (bytes * json)) {struct fuel} : option (json * bytes) :=
  match fuel with
  | O => None
  | S f =>
      match skip_ws s with
      | q :: r =>
          if q =? 34 then
            match parse_str r with
            | Some (k, t) =>
                match skip_ws t with
                | c :: t1 =>
                    if c =? 58 then
                      match parse_value f depth t1 with
                      | Some (v, t2) =>
                          match skip_ws t2 with
                          | c2 :: t3 =>
                              if c2 =? 44 then parse_members f depth t3 ((k, v) :: acc)
                              else if c2 =? 125 then Some (JObj (rev ((k, v) :: acc)), t3)
                              else None
                          | [] => None
                          end
                      | None => None
                      end
                    else None
                | [] => None
                end
            | None => None
            end
          else None
      | [] => None
      end
  end.

Definition recursion_limit : nat := 128.
Definition fuel_for (s : bytes) : nat := 2 * length s + 4.

(* serde_json::from_slice: one value, then only whitespace *)
Definition parse_json_at (depth : nat) (s : bytes) : option json :=
  match parse_value (fuel_for s) depth s with
  | Some (v, t) => if is_nil (skip_ws t) then Some v else None
  | None => None
  end.
Definition parse_json (s : bytes) : option json := parse_json_at recursion_limit s.

(* ---- serde_json::Value: in this build serde_json has the feature `preserve_order` (pulled in by
   nu-json), so an object is an IndexMap: members keep the order of their FIRST insertion and a
   duplicate key replaces the value in place ---- *)
Fixpoint obj_insert (k : bytes) (v : json) (l : list (bytes * json)) : list (bytes * json) :=
  match l with
  | [] => [(k, v)]
  | (k', v') :: r =>
      if bytes_eqb k k' then (k, v) :: r
      else (k', v') :: obj_insert k v r
  end.

Fixpoint normalize (v : json) : json :=
  match v with
  | JArr l => JArr (map normalize l)
  | JObj l =>
      JObj ((fix go (l : list (bytes * json)) (m : list (bytes * json)) : list (bytes * json) :=
               match l with
               | [] => m
               | (k, x) :: r => go r (obj_insert k (normalize x) m)
               end) l [])
  | _ => v
  end.

(* nesting depth of a value: 0 for scalars *)
Fixpoint nest (v : json) : nat :=
  match v with
  | JArr l => S (fold_right (fun x m => Nat.max (nest x) m) O l)
  | JObj l => S (fold_right (fun kv m => match kv with (_, x) => Nat.max (nest x) m end) O l)
  | _ => O
  end.

(* values the printer/parser pair is exact on: integers in the ranges of u64 / negative i64, no
   float lexemes (f64 is an oracle) *)
Fixpoint wf_lex (v : json) : bool :=
  match v with
  | JInt false n => n <=? max_u64
  | JInt true n => (1 <=? n) && (n <=? two63)
  | JFloat _ => false
  | JArr l => forallb wf_lex l
  | JObj l => forallb (fun kv => match kv with (_, x) => wf_lex x end) l
  | _ => true
  end.
(* ... that are serde_json::Values: object keys pairwise distinct (in any order) *)
Definition key_in (k : bytes) (l : list (bytes * json)) : bool :=
  existsb (fun kv => bytes_eqb k (fst kv)) l.
Fixpoint nodup_keys (l : list (bytes * json)) : bool :=
  match l with
  | (k, _) :: r => negb (key_in k r) && nodup_keys r
  | [] => true
  end.
Fixpoint wf_value (v : json) : bool :=
  match v with
  | JArr l => forallb wf_value l
  | JObj l => nodup_keys l && forallb (fun kv => match kv with (_, x) => wf_value x end) l
  | _ => true
  end.

(* ---- Frame ---- *)
Record jframe := mkJF {
  jf_topic : bytes; jf_ctx : N; jf_id : N;
  jf_hash : option bytes; jf_meta : option json; jf_ttl : option ttl }.

Definition k_topic : bytes := [116;111;112;105;99].
Definition k_context_id : bytes := [99;111;110;116;101;120;116;95;105;100].
Definition k_id : bytes := [105;100].
Definition k_hash : bytes := [104;97;115;104].
Definition k_meta : bytes := [109;101;116;97].
Definition k_jttl : bytes := [116;116;108].

Section FrameCodec.
  Variable print_id : N -> bytes.
  Variable parse_id : bytes -> option N.
  Variable parse_hash : bytes -> option bytes.   (* ssri::Integrity FromStr then Display *)

  (* derive(Serialize): the fields in declaration order, None as null *)
  Definition frame_to_json (f : jframe) : json :=
    JObj [ (k_topic, JStr (jf_topic f));
           (k_context_id, JStr (print_id (jf_ctx f)));
           (k_id, JStr (print_id (jf_id f)));
           (k_hash, match jf_hash f with Some h => JStr h | None => JNull end);
           (k_meta, match jf_meta f with Some v => v | None => JNull end);
           (k_jttl, match jf_ttl f with Some t => JStr (ttl_to_string t) | None => JNull end) ].
  Definition encode_frame (f : jframe) : bytes := print_json (frame_to_json f).

  Definition get_all (k : bytes) (fields : list (bytes * json)) : list json :=
    map snd (filter (fun kv => bytes_eqb (fst kv) k) fields).
  Definition as_str (v : json) : option bytes := match v with JStr s => Some s | _ => None end.
  Definition bind {A B} (o : option A) (f : A -> option B) : option B := match o with Some a => f a | None => None end.
  (* a required field: exactly once *)
  Definition req {A} (vals : list json) (p : json -> option A) : option A :=
    match vals with [v] => p v | _ => None end.
  (* an Option field: absent or null -> None; twice -> error *)
  Definition optf {A} (vals : list json) (p : json -> option A) : option (option A) :=
    match vals with
    | [] => Some None
    | [JNull] => Some None
    | [v] => option_map Some (p v)
    | _ => None
    end.

  (* derive(Deserialize) visit_map: unknown fields ignored, duplicates of known fields rejected *)
  Definition frame_of_fields (fields : list (bytes * json)) : option jframe :=
    match req (get_all k_topic fields) as_str,
          req (get_all k_context_id fields) (fun v => bind (as_str v) parse_id),
          req (get_all k_id fields) (fun v => bind (as_str v) parse_id),
          optf (get_all k_hash fields) (fun v => bind (as_str v) parse_hash),
          optf (get_all k_meta fields) (fun v => Some (normalize v)),
          optf (get_all k_jttl fields) (fun v => bind (as_str v) parse_ttl) with
    | Some t, Some c, Some i, Some h, Some m, Some tl => Some (mkJF t c i h m tl)
    | _, _, _, _, _, _ => None
    end.

  (* serde_json::from_slice::<Frame>: a map, or (visit_seq) the six fields positionally *)
  Definition decode_frame (s : bytes) : option jframe :=
    match parse_json s with
    | Some (JObj fields) => frame_of_fields fields
    | Some (JArr [t; c; i; h; m; tl]) =>
        frame_of_fields [(k_topic, t); (k_context_id, c); (k_id, i); (k_hash, h); (k_meta, m); (k_jttl, tl)]
    | _ => None
    end.

  (* what Store::insert_frame stores is readable again (deserialize_frame would not panic) *)
  Definition readable (f : jframe) : bool :=
    match decode_frame (encode_frame f) with Some _ => true | None => false end.

  (* Store::insert_frame: the pinned code stores whatever it is given; the fixed code refuses a
     frame whose encoding does not decode *)
  Definition accept (fixed : bool) (f : jframe) : bool := if fixed then readable f else true.
End FrameCodec.
