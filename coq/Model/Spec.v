(* The abstract specification machine: the live stream is a list of frames kept
   strictly sorted by id; everything else is a function of it.  Model file:
   definitions only.  Same [op]/[obs] types as the concrete model so the two can
   be compared observation by observation (Proofs/Refine.v) and so that the
   extracted spec can judge the implementation's observations. *)
From XS Require Export Model.Store.

Record astore := mkA {
  a_live  : list frame;      (* strictly increasing f_id *)
  a_gcq   : list gctask;
  a_now   : N;
  a_bcast : list frame }.

Definition a_empty (now : N) : astore := mkA [] [] now [].

Fixpoint a_insert (f : frame) (l : list frame) : list frame :=
  match l with
  | [] => [f]
  | g :: r =>
      if f_id f <? f_id g then f :: l
      else if f_id f =? f_id g then f :: r
      else g :: a_insert f r
  end.

Definition a_delete (i : N) (l : list frame) : list frame :=
  filter (fun g => negb (f_id g =? i)) l.


(* the usable contexts: a function of the live frames alone *)
Definition a_ctxs (l : list frame) : list N := 0 :: map f_id (filter registers l).

Definition a_get (a : astore) (i : N) : option frame :=
  find (fun g => f_id g =? i) (a_live a).

Definition same_topic (c : N) (t : bytes) (g : frame) : bool :=
  (f_ctx g =? c) && bytes_eqb (f_topic g) t.

Definition a_head (a : astore) (t : bytes) (c : N) : option frame :=
  last (map Some (filter (same_topic c t) (a_live a))) None.

Definition in_scope (c : option N) (g : frame) : bool :=
  match c with Some c => f_ctx g =? c | None => true end.
Definition after (l : option N) (g : frame) : bool :=
  match l with Some l => l <? f_id g | None => true end.

Definition a_iter (a : astore) (c : option N) (l : option N) : list frame :=
  filter (fun g => in_scope c g && after l g) (a_live a).

Definition a_enqueue (a : astore) (g : list gctask) : astore :=
  mkA (a_live a) (a_gcq a ++ g) (a_now a) (a_bcast a).

Definition a_read_sync (a : astore) (l lim c : option N) : list frame * astore :=
  let '(o, g) := rs_loop (a_now a) (a_iter a c l) lim in (o, a_enqueue a g).
Definition a_read_hist (a : astore) (l lim c : option N) : list frame * astore :=
  let '(o, g) := rh_loop (a_now a) (a_iter a c l) lim in (o, a_enqueue a g).

(* what a read returns, closed form (proved equal to fst of both loops) *)
Definition spec_read (live : list frame) (now : N) (c l lim : option N) : list frame :=
  let all := filter (fun g => negb (expired now g))
                    (filter (fun g => in_scope c g && after l g) live) in
  match lim with Some n => firstn (N.to_nat n) all | None => all end.

Definition a_append (a : astore) (i : N) (f0 : frame) : result frame * astore :=
  let isctx := is_ctx_topic (f_topic f0) in
  if isctx && negb (f_ctx f0 =? 0) then (Err ErrNotZeroCtx, a)
  else if negb isctx && negb (mem (f_ctx f0) (a_ctxs (a_live a))) then (Err ErrInvalidCtx, a)
  else if has_nul (f_topic f0) then (Err ErrNul, a)
  else
    let f := mkFrame i (f_ctx f0) (f_topic f0) (f_hash f0) (f_meta f0)
                     (if isctx then Some Forever else f_ttl f0) in
    match f_ttl f with
    | Some Ephemeral => (Ok f, mkA (a_live a) (a_gcq a) (a_now a) (a_bcast a ++ [f]))
    | Some (Head n) =>
        (Ok f, mkA (a_insert f (a_live a)) (a_gcq a ++ [GcCheckHead (f_ctx f) (f_topic f) n])
                   (a_now a) (a_bcast a ++ [f]))
    | _ => (Ok f, mkA (a_insert f (a_live a)) (a_gcq a) (a_now a) (a_bcast a ++ [f]))
    end.

Definition a_import (a : astore) (f : frame) : result unit * astore :=
  if has_nul (f_topic f) then (Err ErrNul, a)
  else (Ok tt, mkA (a_insert f (a_live a)) (a_gcq a) (a_now a) (a_bcast a)).

Definition a_remove_live (i : N) (a : astore) : astore :=
  mkA (a_delete i (a_live a)) (a_gcq a) (a_now a) (a_bcast a).

(* head:K retention: keep the K greatest ids of exactly (c, t) *)
Definition a_check_head (c : N) (t : bytes) (keep : N) (l : list frame) : list frame :=
  let victims := map f_id (skipn (N.to_nat keep) (rev (filter (same_topic c t) l))) in
  filter (fun g => negb (mem (f_id g) victims)) l.

Definition a_run_task (a : astore) (t : gctask) : astore :=
  match t with
  | GcRemove i => a_remove_live i a
  | GcCheckHead c t k => mkA (a_check_head c t k (a_live a)) (a_gcq a) (a_now a) (a_bcast a)
  end.

Definition a_gc_step (a : astore) : astore :=
  match a_gcq a with
  | [] => a
  | t :: q => a_run_task (mkA (a_live a) q (a_now a) (a_bcast a)) t
  end.

Definition a_drain (a : astore) : astore :=
  fold_left a_run_task (a_gcq a) (mkA (a_live a) [] (a_now a) (a_bcast a)).

Definition a_reopen (a : astore) : astore :=
  let a0 := mkA (a_live a) [] (a_now a) [] in
  snd (a_read_sync a0 None None (Some 0)).

Definition a_step (a : astore) (o : op) : obs * astore :=
  match o with
  | OAppend i f => let '(r, a') := a_append a i f in (RFrame r, a')
  | OImport f => let '(r, a') := a_import a f in (RUnit r, a')
  | ORemove i => (RUnit (Ok tt), a_remove_live i a)
  | OSetNow n => (RNone, mkA (a_live a) (a_gcq a) n (a_bcast a))
  | OGcStep => (RNone, a_gc_step a)
  | ODrain => (RNone, a_drain a)
  | OReopen => (RNone, a_reopen a)
  | OReadSync l lim c => let '(fs, a') := a_read_sync a l lim c in (RFrames fs, a')
  | ORead l lim c => let '(fs, a') := a_read_hist a l lim c in (RFrames fs, a')
  | OGet i => (ROpt (a_get a i), a)
  | OHead t c => (ROpt (a_head a t c), a)
  end.

(* ---------------------------------------------------------------------------- *)
(* Hypotheses under which the concrete store refines the spec (each one is forced
   by a proof and has a refutation witness, see Props/*.v). *)

Definition id_ok (x : N) : bool := x <? two128.

Definition fresh (i : N) (l : list frame) : bool :=
  forallb (fun g => negb (f_id g =? i)) l.

(* an import may re-insert an id only with the same context and topic *)
Definition import_ok (f : frame) (l : list frame) : bool :=
  forallb (fun g => negb (f_id g =? f_id f)
                    || ((f_ctx g =? f_ctx f) && bytes_eqb (f_topic g) (f_topic f))) l.

Definition ttl_persistent (t : option ttl) : bool :=
  match t with Some (Time _) | Some Ephemeral => false | _ => true end.

Definition hyp_ok (a : astore) (o : op) : bool :=
  match o with
  | OAppend i f => id_ok i && fresh i (a_live a) && negb (f_ctx f =? max128)
  | OImport f =>
      id_ok (f_id f) && id_ok (f_ctx f) && negb (f_ctx f =? max128)
      && (negb (registers f) || ttl_persistent (f_ttl f))
  | ORemove i | OGet i => id_ok i
  | OReadSync l _ c | ORead l _ c =>
      match l with Some l => id_ok l | None => true end
      && match c with Some c => id_ok c && negb (c =? max128) | None => true end
  | OHead t c => id_ok c
  | _ => true
  end.

(* id 0 (which scru128 never produces) must not be the id of an xs.context frame: removing
   such a frame - or overwriting it by an import under another topic - would unregister the zero
   context (Store::remove and the overwrite path of insert_frame delete the frame's id from the
   registry whatever it is) *)
Definition nonzero_reg (o : op) : bool :=
  match o with
  | OAppend i f => negb (is_ctx_topic (f_topic f) && (i =? 0))
  | OImport f => negb (is_ctx_topic (f_topic f) && (f_id f =? 0))
  | _ => true
  end.

Definition hyp_all (a : astore) (o : op) : bool := hyp_ok a o && nonzero_reg o.

Fixpoint hyps_all (ops : list op) (a : astore) : bool :=
  match ops with
  | [] => true
  | o :: r => hyp_all a o && hyps_all r (snd (a_step a o))
  end.

Fixpoint a_run_obs (ops : list op) (a : astore) : list obs :=
  match ops with
  | [] => []
  | o :: r => let '(ob, a') := a_step a o in ob :: a_run_obs r a'
  end.

Fixpoint run_obs (ops : list op) (s : store) : list obs :=
  match ops with
  | [] => []
  | o :: r => let '(ob, s') := step s o in ob :: run_obs r s'
  end.

Fixpoint hyps_ok (ops : list op) (a : astore) : bool :=
  match ops with
  | [] => true
  | o :: r => hyp_ok a o && hyps_ok r (snd (a_step a o))
  end.
