(* Handler dispatch (src/handlers/handler.rs: Handler::serve + process_frame) around an
   opaque closure.  The closure is a parameter: theorems quantify over every closure; the
   small script DSL below only decides which closures the correspondence check samples.
   Model file: definitions only. *)
From XS Require Export Model.Store.

(* what the dispatcher looks at in a delivered frame *)
Record sframe := mkSF {
  sf_id : N; sf_ctx : N; sf_topic : bytes;
  sf_hid : option N }.          (* meta.handler_id, when it is a string holding an id *)

(* one buffered `.append` of the script *)
Record oappend := mkOA {
  oa_topic : bytes; oa_meta : option bytes; oa_ttl : option ttl;
  oa_ctx : option N;            (* --context the script asked for (ignored: forced to the handler's) *)
  oa_content : bytes }.

(* result of evaluating the closure on one frame *)
Inductive cres (E : Type) :=
| CErr (env : E)                                         (* runtime error *)
| COk (bufs : list oappend) (ret : option bytes) (env : E).  (* buffered appends, JSON of the return value (None = nothing) *)
Arguments CErr {E}. Arguments COk {E}.

Record hconf := mkHC {
  h_id : N; h_ctx : N; h_name : bytes;
  h_suffix : bytes;             (* return_options.suffix, default ".out" *)
  h_ttl : option ttl }.         (* return_options.ttl *)

(* a frame the handler appends *)
Record eframe := mkE {
  e_topic : bytes; e_ctx : N; e_hid : N; e_fid : N;
  e_ttl : option ttl; e_content : option bytes; e_meta : option bytes; e_err : bool }.

Definition suffix_register : bytes := [46;114;101;103;105;115;116;101;114].            (* ".register" *)
Definition suffix_unregister : bytes := [46;117;110;114;101;103;105;115;116;101;114].  (* ".unregister" *)
Definition suffix_unregistered : bytes := [46;117;110;114;101;103;105;115;116;101;114;101;100]. (* ".unregistered" *)
Definition suffix_out : bytes := [46;111;117;116].                                     (* ".out" *)

Definition is_reg_traffic (c : hconf) (f : sframe) : bool :=
  bytes_eqb (sf_topic f) (h_name c ++ suffix_register)
  || bytes_eqb (sf_topic f) (h_name c ++ suffix_unregister).

Definition own_output (c : hconf) (f : sframe) : bool :=
  match sf_hid f with Some i => i =? h_id c | None => false end.

Definition stamp (c : hconf) (trig : sframe) (a : oappend) : eframe :=
  mkE (oa_topic a) (h_ctx c) (h_id c) (sf_id trig) (oa_ttl a) (Some (oa_content a)) (oa_meta a) false.

Definition unregistered (c : hconf) (trig : sframe) (err : bool) : eframe :=
  mkE (h_name c ++ suffix_unregistered) (h_ctx c) (h_id c) (sf_id trig) None None None err.

Section Dispatch.
  Context {E : Type}.
  Variable closure : E -> sframe -> cres E.

  (* one delivered frame: (emitted frames, was the closure invoked, new env, still running) *)
  Definition dispatch (c : hconf) (env : E) (f : sframe) : list eframe * bool * E * bool :=
    if is_reg_traffic c f && (sf_id f <=? h_id c) then ([], false, env, true)
    else if is_reg_traffic c f then ([unregistered c f false], false, env, false)
    else if own_output c f then ([], false, env, true)
    else match closure env f with
         | CErr env' => ([unregistered c f true], true, env', false)
         | COk bufs ret env' =>
             let outs := map (stamp c f) bufs
                         ++ match ret with
                            | Some v => [mkE (h_name c ++ h_suffix c) (h_ctx c) (h_id c) (sf_id f)
                                             (h_ttl c) (Some v) None false]
                            | None => []
                            end in
             (outs, true, env', true)
         end.

  (* the serve loop over the delivered stream: everything emitted, and the frames the closure saw *)
  Fixpoint serve (c : hconf) (env : E) (fs : list sframe) : list eframe * list sframe :=
    match fs with
    | [] => ([], [])
    | f :: r =>
        let '(outs, invoked, env', running) := dispatch c env f in
        let '(outs', seen') := if running then serve c env' r else ([], []) in
        (outs ++ outs', if invoked then f :: seen' else seen')
    end.
End Dispatch.

(* ---- the script DSL used by the correspondence check ---- *)
Inductive retk := RNothing | RStr (s : bytes) | RInt (n : N) | RCount | RTopic.
Inductive failk := FNone | FBefore | FBetween (k : nat) | FAfter.
Record prog := mkProg {
  p_guard : option bytes;       (* react only to this topic *)
  p_appends : list oappend;
  p_ret : retk;
  p_fail : failk }.

(* decimal rendering of a counter (the script returns `$env.count`) *)
Fixpoint dec_digits (fuel : nat) (n : N) (acc : bytes) : bytes :=
  match fuel with
  | O => acc
  | S fuel' => let acc' := (48 + n mod 10) :: acc in
               if n / 10 =? 0 then acc' else dec_digits fuel' (n / 10) acc'
  end.
Definition dec (n : N) : bytes := dec_digits 40 n [].
Definition quote (s : bytes) : bytes := 34 :: s ++ [34].

(* env = the invocation counter kept in $env *)
Definition dsl_closure (p : prog) (env : N) (f : sframe) : cres N :=
  match p_guard p with
  | Some t => if bytes_eqb (sf_topic f) t then
                let n := env + 1 in
                match p_fail p with
                | FBefore => CErr n
                | FBetween _ | FAfter => CErr n
                | FNone =>
                    COk (p_appends p)
                        (match p_ret p with
                         | RNothing => None
                         | RStr s => Some (quote s)
                         | RInt k => Some (dec k)
                         | RCount => Some (dec n)
                         | RTopic => Some (quote (sf_topic f))
                         end) n
                end
              else COk [] None env
  | None =>
      let n := env + 1 in
      match p_fail p with
      | FNone =>
          COk (p_appends p)
              (match p_ret p with
               | RNothing => None
               | RStr s => Some (quote s)
               | RInt k => Some (dec k)
               | RCount => Some (dec n)
               | RTopic => Some (quote (sf_topic f))
               end) n
      | _ => CErr n
      end
  end.
