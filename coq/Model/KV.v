(* A fjall partition as a key-sorted association list.  Model file: definitions only.
   Oracle assumption (exercised by the correspondence check, not proved of fjall):
   a partition is an ordered map under memcmp order; range/prefix scans yield the
   matching entries in key order; a batch is applied atomically. *)
From XS Require Export Model.Bytes.

Section KV.
  Context {V : Type}.
  Definition kv := list (bytes * V).

  Fixpoint kv_put (k : bytes) (v : V) (l : kv) : kv :=
    match l with
    | [] => [(k, v)]
    | (k', v') :: r =>
        if lex_ltb k k' then (k, v) :: l
        else if bytes_eqb k k' then (k, v) :: r
        else (k', v') :: kv_put k v r
    end.

  Definition kv_del (k : bytes) (l : kv) : kv :=
    filter (fun e => negb (bytes_eqb k (fst e))) l.

  Definition kv_get (k : bytes) (l : kv) : option V :=
    option_map snd (find (fun e => bytes_eqb k (fst e)) l).

  Inductive bound := Incl (k : bytes) | Excl (k : bytes) | Unb.

  Definition above (lo : bound) (k : bytes) : bool :=
    match lo with Incl b => lex_leb b k | Excl b => lex_ltb b k | Unb => true end.
  Definition below (hi : bound) (k : bytes) : bool :=
    match hi with Incl b => lex_leb k b | Excl b => lex_ltb k b | Unb => true end.

  Definition kv_range (lo hi : bound) (l : kv) : kv :=
    filter (fun e => above lo (fst e) && below hi (fst e)) l.

  Definition kv_prefix (p : bytes) (l : kv) : kv :=
    filter (fun e => is_prefix p (fst e)) l.
End KV.
Arguments kv : clear implicits.
