(* The concurrent protocols of src/store/mod.rs as a labelled transition system whose
   labels are exactly the stretches of code between two verification sync points
   (src/verif.rs), so that every schedule of this model can be replayed on the real
   code by parking threads at those points (engine C).  Model file: definitions only.

   append  = [enter] lock; id := new  [after_id] checks; commit  [after_commit]
             broadcast  [after_broadcast] unlock
   read    = subscribe  [after_subscribe]  history thread: scan / send / threshold /
             hand-off;  live task: recv / filter / send;  heartbeat; bounded queues.

   [g_locked = false] is the pinned code (no critical section in append), kept as a
   regression witness; [g_locked = true] is the code after the fix. *)
From XS Require Export Model.Bytes.

Record cfr := mkC { c_id : N; c_ctx : N; c_eph : bool }.
Record payload := mkP { p_ctx : N; p_eph : bool; p_ok : bool }.   (* p_ok = false: rejected by the checks *)

Inductive wst :=
| WIdle                         (* parked at append.enter of the next payload (or finished) *)
| WBlocked                      (* inside append, waiting for the lock *)
| WAssigned (f : cfr) (ok : bool)   (* parked at append.after_id *)
| WCommitted (f : cfr)          (* parked at append.after_commit *)
| WBcasted (f : cfr).           (* parked at append.after_broadcast *)
Record writer := mkW { w_st : wst; w_todo : list payload }.

Inductive item := IReal (f : cfr) | IThreshold | IPulse.

Record fopts := mkO {
  o_follow : bool; o_tail : bool; o_last : option N; o_limit : option N;
  o_ctx : option N; o_pulse : bool }.

Inductive hst :=
| HNotStarted
| HAtSend (f : cfr)             (* parked at read.hist.before_send *)
| HAtThreshold                  (* parked at read.hist.before_threshold *)
| HAtDone                       (* parked at read.hist.before_done *)
| HFinished (handoff : bool)    (* thread gone; handoff = the done message was sent *)
| HNone.                        (* tail: no history thread *)

Inductive lst :=
| LNone                         (* not following / not started *)
| LWaiting                      (* awaiting the hand-off *)
| LRecvWait                     (* awaiting the broadcast channel *)
| LAtRecv (f : cfr)             (* parked at read.live.after_recv *)
| LAtSent                       (* parked at read.live.after_send *)
| LExited.

Record follower := mkF {
  fo : fopts;
  f_subscribed : bool;
  f_pos : nat;                  (* cursor into g_chan *)
  f_h : hst;
  f_cursor : option N;          (* scan position (exclusive) *)
  f_peek : option cfr;          (* the iterator's one-item look-ahead (see hist_advance) *)
  f_last : option N;            (* last_id of the history thread = hand-off value *)
  f_count : N;                  (* frames sent by the history thread *)
  f_l : lst;
  f_lcount : N;                 (* live task's count *)
  f_hb : bool;                  (* heartbeat task alive (holds a sender) *)
  f_out : list item;            (* mpsc(100) *)
  f_got : list item }.          (* what the consumer has taken, oldest first *)

Record cstate := mkS {
  g_locked : bool;
  g_next : N;                   (* id oracle: strictly increasing *)
  g_lock : option nat;
  g_stream : list cfr;          (* committed frames, in commit order *)
  g_chan : list cfr;            (* broadcast channel history, in send order *)
  g_ws : list writer;
  g_fs : list follower;
  g_ps : list (list cfr) }.     (* pollers: what each has accumulated *)

Definition out_cap : nat := 100.
Definition chan_cap : nat := 1024.

Inductive label :=
| LEnter (w : nat) | LCommit (w : nat) | LBcast (w : nat) | LRelease (w : nat)
| LPoll (p : nat)
| LSubscribe (k : nat) | LStart (k : nat) | LHist (k : nat) | LLive (k : nat)
| LPulse (k : nat) | LConsume (k : nat).

(* ---- list helpers ---- *)
Fixpoint upd {A} (n : nat) (x : A) (l : list A) : list A :=
  match l, n with
  | [], _ => []
  | _ :: r, O => x :: r
  | y :: r, S n' => y :: upd n' x r
  end.

Definition in_scope_c (c : option N) (f : cfr) : bool :=
  match c with Some c => c_ctx f =? c | None => true end.
Definition after_c (l : option N) (f : cfr) : bool :=
  match l with Some l => l <? c_id f | None => true end.

(* the least in-scope committed frame above the cursor, at this instant (live iterator) *)
Definition scan_next (stream : list cfr) (c : option N) (cursor : option N) : option cfr :=
  fold_left (fun best f =>
               if in_scope_c c f && after_c cursor f then
                 match best with
                 | Some b => if c_id f <? c_id b then Some f else best
                 | None => Some f
                 end
               else best) stream None.

Fixpoint insert_by_id (f : cfr) (l : list cfr) : list cfr :=
  match l with
  | [] => [f]
  | g :: r => if c_id f <? c_id g then f :: l else g :: insert_by_id f r
  end.
Definition sort_by_id (l : list cfr) : list cfr := fold_right insert_by_id [] l.

Definition last_id (l : list cfr) : option N :=
  match rev l with [] => None | f :: _ => Some (c_id f) end.

Definition set_w (s : cstate) (w : nat) (x : writer) : cstate :=
  mkS (g_locked s) (g_next s) (g_lock s) (g_stream s) (g_chan s) (upd w x (g_ws s)) (g_fs s) (g_ps s).
Definition set_f (s : cstate) (k : nat) (x : follower) : cstate :=
  mkS (g_locked s) (g_next s) (g_lock s) (g_stream s) (g_chan s) (g_ws s) (upd k x (g_fs s)) (g_ps s).

(* assign the next id to writer w's first payload *)
Definition assign (s : cstate) (w : nat) (wr : writer) : option cstate :=
  match w_todo wr with
  | [] => None
  | p :: rest =>
      let f := mkC (g_next s) (p_ctx p) (p_eph p) in
      Some (mkS (g_locked s) (g_next s + 1) (if g_locked s then Some w else g_lock s)
                (g_stream s) (g_chan s)
                (upd w (mkW (WAssigned f (p_ok p)) rest) (g_ws s)) (g_fs s) (g_ps s))
  end.

Definition find_blocked (ws : list writer) : option nat :=
  (fix go (n : nat) (l : list writer) : option nat :=
     match l with
     | [] => None
     | x :: r => match w_st x with WBlocked => Some n | _ => go (S n) r end
     end) O ws.

(* release the lock; a blocked writer (at most one, by construction of schedules) takes it *)
Definition unlock (s : cstate) : option cstate :=
  let s0 := mkS (g_locked s) (g_next s) None (g_stream s) (g_chan s) (g_ws s) (g_fs s) (g_ps s) in
  if g_locked s then
    match find_blocked (g_ws s) with
    | Some b => match nth_error (g_ws s) b with
                | Some wr => assign s0 b wr
                | None => Some s0
                end
    | None => Some s0
    end
  else Some s0.

Definition lock_free (s : cstate) : bool :=
  negb (g_locked s) || match g_lock s with None => true | Some _ => false end.

Definition writer_step (s : cstate) (l : label) : option cstate :=
  match l with
  | LEnter w =>
      match nth_error (g_ws s) w with
      | Some wr =>
          match w_st wr, w_todo wr with
          | WIdle, _ :: _ =>
              if lock_free s then assign s w wr
              else match find_blocked (g_ws s) with
                   | None => Some (set_w s w (mkW WBlocked (w_todo wr)))
                   | Some _ => None
                   end
          | _, _ => None
          end
      | None => None
      end
  | LCommit w =>
      match nth_error (g_ws s) w with
      | Some wr =>
          match w_st wr with
          | WAssigned f ok =>
              if ok then
                Some (mkS (g_locked s) (g_next s) (g_lock s)
                          (if c_eph f then g_stream s else g_stream s ++ [f]) (g_chan s)
                          (upd w (mkW (WCommitted f) (w_todo wr)) (g_ws s)) (g_fs s) (g_ps s))
              else (* rejected: returns the error, lock released on the way out *)
                unlock (set_w s w (mkW WIdle (w_todo wr)))
          | _ => None
          end
      | None => None
      end
  | LBcast w =>
      match nth_error (g_ws s) w with
      | Some wr =>
          match w_st wr with
          | WCommitted f =>
              Some (mkS (g_locked s) (g_next s) (g_lock s) (g_stream s) (g_chan s ++ [f])
                        (upd w (mkW (WBcasted f) (w_todo wr)) (g_ws s)) (g_fs s) (g_ps s))
          | _ => None
          end
      | None => None
      end
  | LRelease w =>
      match nth_error (g_ws s) w with
      | Some wr =>
          match w_st wr with
          | WBcasted f => unlock (set_w s w (mkW WIdle (w_todo wr)))
          | _ => None
          end
      | None => None
      end
  | _ => None
  end.

(* ---- followers ---- *)
Definition limit_reached (lim : option N) (count : N) : bool :=
  match lim with Some n => n <=? count | None => false end.

(* the history thread pulls the next frame from its iterator and runs up to its next sync
   point.  Observed behaviour of fjall's range iterator (an oracle assumption, exercised by
   engine C): it is live but has a one-item look-ahead - when it yields an item it has
   already fetched that item's successor (or found that there is none) *at that moment*;
   frames committed later are seen only beyond the look-ahead. *)
Definition hist_advance (s : cstate) (fl : follower) : follower :=
  match f_peek fl with
  | Some g =>
      let peek' := scan_next (g_stream s) (o_ctx (fo fl)) (Some (c_id g)) in
      if limit_reached (o_limit (fo fl)) (f_count fl) then
        (* `return` inside the loop: no threshold, no hand-off; the live task sees the
           closed done channel and exits, and the heartbeat ends with the live task *)
        mkF (fo fl) (f_subscribed fl) (f_pos fl) (HFinished false) (Some (c_id g)) peek' (Some (c_id g))
            (f_count fl) (match f_l fl with LNone => LNone | _ => LExited end) (f_lcount fl)
            false (f_out fl) (f_got fl)
      else
        mkF (fo fl) (f_subscribed fl) (f_pos fl) (HAtSend g) (Some (c_id g)) peek' (Some (c_id g))
            (f_count fl) (f_l fl) (f_lcount fl) (f_hb fl) (f_out fl) (f_got fl)
  | None =>
      mkF (fo fl) (f_subscribed fl) (f_pos fl) HAtThreshold (f_cursor fl) None (f_last fl)
          (f_count fl) (f_l fl) (f_lcount fl) (f_hb fl) (f_out fl) (f_got fl)
  end.

Definition out_full (fl : follower) : bool := Nat.leb out_cap (length (f_out fl)).

Definition push (fl : follower) (i : item) : follower :=
  mkF (fo fl) (f_subscribed fl) (f_pos fl) (f_h fl) (f_cursor fl) (f_peek fl) (f_last fl) (f_count fl)
      (f_l fl) (f_lcount fl) (f_hb fl) (f_out fl ++ [i]) (f_got fl).

Definition set_h (fl : follower) (h : hst) : follower :=
  mkF (fo fl) (f_subscribed fl) (f_pos fl) h (f_cursor fl) (f_peek fl) (f_last fl) (f_count fl)
      (f_l fl) (f_lcount fl) (f_hb fl) (f_out fl) (f_got fl).
Definition set_l (fl : follower) (l : lst) : follower :=
  mkF (fo fl) (f_subscribed fl) (f_pos fl) (f_h fl) (f_cursor fl) (f_peek fl) (f_last fl) (f_count fl)
      l (f_lcount fl) (f_hb fl) (f_out fl) (f_got fl).

(* the live task ends; the heartbeat task ends with it (fix: stop the heartbeat when the
   live task of a follow ends) *)
Definition exit_live (fl : follower) : follower :=
  mkF (fo fl) (f_subscribed fl) (f_pos fl) (f_h fl) (f_cursor fl) (f_peek fl) (f_last fl) (f_count fl)
      LExited (f_lcount fl) false (f_out fl) (f_got fl).

Definition lagged (s : cstate) (fl : follower) : bool :=
  Nat.ltb chan_cap (length (g_chan s) - f_pos fl).

Definition follower_step (s : cstate) (l : label) : option cstate :=
  match l with
  | LSubscribe k =>
      match nth_error (g_fs s) k with
      | Some fl =>
          if f_subscribed fl then None
          else Some (set_f s k (mkF (fo fl) true (length (g_chan s)) (f_h fl) (o_last (fo fl)) None None 0
                                    (f_l fl) 0 false [] []))
      | None => None
      end
  | LStart k =>
      match nth_error (g_fs s) k with
      | Some fl =>
          match f_subscribed fl, f_h fl with
          | true, HNotStarted =>
              let o := fo fl in
              let fl1 := mkF o true (f_pos fl) HNone (f_cursor fl)
                             (if o_tail o then None else scan_next (g_stream s) (o_ctx o) (f_cursor fl)) None 0
                             (if o_follow o then (if o_tail o then LRecvWait else LWaiting) else LNone)
                             0 (o_follow o && o_pulse o) [] [] in
              if o_tail o then Some (set_f s k fl1)
              else Some (set_f s k (hist_advance s fl1))
          | _, _ => None
          end
      | None => None
      end
  | LHist k =>
      match nth_error (g_fs s) k with
      | Some fl =>
          match f_h fl with
          | HAtSend f =>
              if out_full fl then None
              else
                let fl1 := push fl (IReal f) in
                let fl2 := mkF (fo fl1) (f_subscribed fl1) (f_pos fl1) (f_h fl1) (f_cursor fl1) (f_peek fl1) (f_last fl1)
                               (f_count fl1 + 1) (f_l fl1) (f_lcount fl1) (f_hb fl1) (f_out fl1) (f_got fl1) in
                Some (set_f s k (hist_advance s fl2))
          | HAtThreshold =>
              if o_follow (fo fl) && match o_limit (fo fl) with None => true | Some _ => false end then
                if out_full fl then None
                else Some (set_f s k (set_h (push fl IThreshold) HAtDone))
              else Some (set_f s k (set_h fl HAtDone))
          | HAtDone =>
              (* hand-off (last_id, count); the live task now owns the count; it ends at once
                 when the history alone already delivered `limit` frames
              (fix: end a limited follow when history alone satisfied the limit) *)
              let fl1 := mkF (fo fl) (f_subscribed fl) (f_pos fl) (HFinished true) (f_cursor fl) (f_peek fl) (f_last fl)
                             (f_count fl) (f_l fl) (f_count fl) (f_hb fl) (f_out fl) (f_got fl) in
              Some (set_f s k (match f_l fl with
                               | LWaiting => if limit_reached (o_limit (fo fl)) (f_count fl) then exit_live fl1 else fl1
                               | _ => fl1
                               end))
          | _ => None
          end
      | None => None
      end
  | LLive k =>
      match nth_error (g_fs s) k with
      | Some fl =>
          let recv (fl : follower) : option cstate :=
            if lagged s fl then Some (set_f s k (exit_live fl))
            else match nth_error (g_chan s) (f_pos fl) with
                 | Some f =>
                     Some (set_f s k (mkF (fo fl) (f_subscribed fl) (S (f_pos fl)) (f_h fl) (f_cursor fl) (f_peek fl)
                                          (f_last fl) (f_count fl) (LAtRecv f) (f_lcount fl) (f_hb fl)
                                          (f_out fl) (f_got fl)))
                 | None => None
                 end in
          match f_l fl with
          | LWaiting => match f_h fl with HFinished true => recv fl | _ => None end
          | LRecvWait => recv fl
          | LAtRecv f =>
              if negb (in_scope_c (o_ctx (fo fl)) f) then Some (set_f s k (set_l fl LRecvWait))
              else if match f_last fl with Some l => c_id f <=? l | None => false end
                   then Some (set_f s k (set_l fl LRecvWait))
              else if out_full fl then None
              else Some (set_f s k (set_l (push fl (IReal f)) LAtSent))
          | LAtSent =>
              match o_limit (fo fl) with
              | Some n =>
                  let c := f_lcount fl + 1 in
                  Some (set_f s k (mkF (fo fl) (f_subscribed fl) (f_pos fl) (f_h fl) (f_cursor fl) (f_peek fl) (f_last fl)
                                       (f_count fl) (if n <=? c then LExited else LRecvWait) c
                                       (if n <=? c then false else f_hb fl)
                                       (f_out fl) (f_got fl)))
              | None => Some (set_f s k (set_l fl LRecvWait))
              end
          | _ => None
          end
      | None => None
      end
  | LPulse k =>
      match nth_error (g_fs s) k with
      | Some fl => if f_hb fl && negb (out_full fl) then Some (set_f s k (push fl IPulse)) else None
      | None => None
      end
  | LConsume k =>
      match nth_error (g_fs s) k with
      | Some fl =>
          match f_out fl with
          | i :: r => Some (set_f s k (mkF (fo fl) (f_subscribed fl) (f_pos fl) (f_h fl) (f_cursor fl) (f_peek fl) (f_last fl)
                                          (f_count fl) (f_l fl) (f_lcount fl) (f_hb fl) r (f_got fl ++ [i])))
          | [] => None
          end
      | None => None
      end
  | _ => None
  end.

Definition poll_step (s : cstate) (p : nat) : option cstate :=
  match nth_error (g_ps s) p with
  | Some acc =>
      let fresh := filter (after_c (last_id acc)) (sort_by_id (g_stream s)) in
      Some (mkS (g_locked s) (g_next s) (g_lock s) (g_stream s) (g_chan s) (g_ws s) (g_fs s)
                (upd p (acc ++ fresh) (g_ps s)))
  | None => None
  end.

Definition cstep (s : cstate) (l : label) : option cstate :=
  match l with
  | LEnter _ | LCommit _ | LBcast _ | LRelease _ => writer_step s l
  | LPoll p => poll_step s p
  | _ => follower_step s l
  end.

Fixpoint crun (s : cstate) (sched : list label) : option cstate :=
  match sched with
  | [] => Some s
  | l :: r => match cstep s l with Some s' => crun s' r | None => None end
  end.

(* the receiver sees the channel closed: every sender is gone and the queue is empty *)
Definition closed (fl : follower) : bool :=
  match f_h fl with HFinished _ | HNone => true | _ => false end
  && match f_l fl with LNone | LExited => true | _ => false end
  && negb (f_hb fl) && match f_out fl with [] => true | _ => false end
  && match f_h fl, f_l fl with HNotStarted, _ => false | _, _ => true end.

Definition init_follower (o : fopts) : follower :=
  mkF o false 0 HNotStarted None None None 0 LNone 0 false [] [].

Definition cinit (locked : bool) (next : N) (stream : list cfr)
           (ws : list (list payload)) (fs : list fopts) (np : nat) : cstate :=
  mkS locked next None stream stream
      (map (fun t => mkW WIdle t) ws) (map init_follower fs) (repeat [] np).

Definition reals (l : list item) : list cfr :=
  flat_map (fun i => match i with IReal f => [f] | _ => [] end) l.
Definition seen (fl : follower) : list cfr := reals (f_got fl ++ f_out fl).
