(* Faithful executable model of src/store/mod.rs (sequential behaviour).
   Model file: definitions only, what the code DOES (including what violates a
   property).  ids come from an oracle (scru128) and are arguments. *)
From XS Require Export Model.KV.

Inductive ttl := Forever | Ephemeral | Time (ms : N) | Head (n : N).

Record frame := mkFrame {
  f_id : N; f_ctx : N; f_topic : bytes;
  f_hash : option bytes; f_meta : option bytes; f_ttl : option ttl }.

Definition ttl_eqb (a b : ttl) : bool :=
  match a, b with
  | Forever, Forever | Ephemeral, Ephemeral => true
  | Time x, Time y | Head x, Head y => x =? y
  | _, _ => false
  end.

Definition opt_eqb {A} (e : A -> A -> bool) (a b : option A) : bool :=
  match a, b with None, None => true | Some x, Some y => e x y | _, _ => false end.

Definition frame_eqb (a b : frame) : bool :=
  (f_id a =? f_id b) && (f_ctx a =? f_ctx b) && bytes_eqb (f_topic a) (f_topic b)
  && opt_eqb bytes_eqb (f_hash a) (f_hash b) && opt_eqb bytes_eqb (f_meta a) (f_meta b)
  && opt_eqb ttl_eqb (f_ttl a) (f_ttl b).

(* "xs.context" *)
Definition xs_context : bytes := [120;115;46;99;111;110;116;101;120;116].
Definition is_ctx_topic (t : bytes) : bool := bytes_eqb t xs_context.

(* key layouts *)
Definition tprefix (c : N) (t : bytes) : bytes := be16 c ++ t ++ [0].
Definition tkey (f : frame) : bytes := tprefix (f_ctx f) (f_topic f) ++ be16 (f_id f).
Definition ckey (f : frame) : bytes := be16 (f_ctx f) ++ be16 (f_id f).
Definition skey (i : N) : bytes := be16 i.
Definition ctx_range_end (c : N) : bytes := be16 (sat_succ128 c).

Inductive gctask := GcRemove (i : N) | GcCheckHead (c : N) (t : bytes) (keep : N).

Record store := mkStore {
  s_stream : kv frame;      (* partition "stream":      id        -> frame json *)
  s_itopic : kv unit;       (* partition "idx_topic":   ctx topic 0 id -> ""    *)
  s_ictx   : kv unit;       (* partition "idx_context": ctx id    -> ""         *)
  s_ctxs   : list N;        (* registry (a set)                                  *)
  s_gcq    : list gctask;   (* GC queue, oldest first                            *)
  s_now    : N;             (* wall clock, ms                                    *)
  s_bcast  : list frame     (* everything broadcast so far, oldest first         *)
}.

Definition empty_store (now : N) : store :=
  mkStore [] [] [] [0] [] now [].

Definition set_now (s : store) (now : N) : store :=
  mkStore (s_stream s) (s_itopic s) (s_ictx s) (s_ctxs s) (s_gcq s) now (s_bcast s).

(* timestamp of a scru128 id: the top 48 of 128 bits *)
Definition ts (i : N) : N := i / 2 ^ 80.

Definition expired (now : N) (f : frame) : bool :=
  match f_ttl f with
  | Some (Time ms) => sat_add64 (ts (f_id f)) ms <=? now
  | _ => false
  end.

Inductive err := ErrNotZeroCtx | ErrInvalidCtx | ErrNul.
Inductive result (A : Type) := Ok (a : A) | Err (e : err).
Arguments Ok {A}. Arguments Err {A}.

Definition mem (x : N) (l : list N) : bool := existsb (N.eqb x) l.
Definition set_add (x : N) (l : list N) : list N := if mem x l then l else x :: l.
Definition set_del (x : N) (l : list N) : list N := filter (fun y => negb (x =? y)) l.

Definition registers (f : frame) : bool := is_ctx_topic (f_topic f) && (f_ctx f =? 0).

Definition get (s : store) (i : N) : option frame := kv_get (skey i) (s_stream s).

(* an import may carry an id that is already stored.  Under the same (context, topic) the three
   keys are the same and the put simply overwrites; under another context or topic the OLD frame's
   two index entries (and its registration, if it was one) must go in the same batch - the fix
   "drop the index entries of a frame that an import overwrites"; [overwrite_leaves_index] is the
   pinned code, which left them behind (F7) *)
Definition same_keys (old f : frame) : bool :=
  (f_ctx old =? f_ctx f) && bytes_eqb (f_topic old) (f_topic f).

Definition drop_old (s : store) (f : frame) : store :=
  match get s (f_id f) with
  | Some old =>
      if same_keys old f then s
      else mkStore (s_stream s)
                   (kv_del (tkey old) (s_itopic s))
                   (kv_del (ckey old) (s_ictx s))
                   (if registers old then set_del (f_id old) (s_ctxs s) else s_ctxs s)
                   (s_gcq s) (s_now s) (s_bcast s)
  | None => s
  end.

(* Store::insert_frame: one atomic batch over the three partitions.
   [reg = true] is the code after the fix "register an imported xs.context frame
   immediately"; [reg = false] is the pinned behaviour, kept as a regression witness. *)
Definition insert_frame_gen (reg : bool) (s0 : store) (f : frame) : result unit * store :=
  if has_nul (f_topic f) then (Err ErrNul, s0)
  else
    let s := drop_old s0 f in
    (Ok tt,
        mkStore (kv_put (skey (f_id f)) f (s_stream s))
                (kv_put (tkey f) tt (s_itopic s))
                (kv_put (ckey f) tt (s_ictx s))
                (if reg && registers f then set_add (f_id f) (s_ctxs s) else s_ctxs s)
                (s_gcq s) (s_now s) (s_bcast s)).
(* the pinned code: no drop_old *)
Definition insert_frame_leaves_index (s : store) (f : frame) : result unit * store :=
  if has_nul (f_topic f) then (Err ErrNul, s)
  else (Ok tt,
        mkStore (kv_put (skey (f_id f)) f (s_stream s))
                (kv_put (tkey f) tt (s_itopic s))
                (kv_put (ckey f) tt (s_ictx s))
                (if registers f then set_add (f_id f) (s_ctxs s) else s_ctxs s)
                (s_gcq s) (s_now s) (s_bcast s)).
Definition insert_frame := insert_frame_gen true.

(* Store::remove *)
Definition remove (s : store) (i : N) : result unit * store :=
  match get s i with
  | None => (Ok tt, s)
  | Some f =>
      if has_nul (f_topic f) then (Err ErrNul, s)
      else (Ok tt,
            mkStore (kv_del (skey i) (s_stream s))
                    (kv_del (tkey f) (s_itopic s))
                    (kv_del (ckey f) (s_ictx s))
                    (if is_ctx_topic (f_topic f) then set_del (f_id f) (s_ctxs s) else s_ctxs s)
                    (s_gcq s) (s_now s) (s_bcast s))
  end.

(* Store::append; [i] is the id scru128::new() returned *)
Definition append (s : store) (i : N) (f0 : frame) : result frame * store :=
  let f := mkFrame i (f_ctx f0) (f_topic f0) (f_hash f0) (f_meta f0) (f_ttl f0) in
  let check :=
    if is_ctx_topic (f_topic f) then
      if f_ctx f =? 0 then
        Ok (mkFrame i (f_ctx f) (f_topic f) (f_hash f) (f_meta f) (Some Forever),
            set_add i (s_ctxs s))
      else Err ErrNotZeroCtx
    else if mem (f_ctx f) (s_ctxs s) then Ok (f, s_ctxs s) else Err ErrInvalidCtx in
  match check with
  | Err e => (Err e, s)
  | Ok (f, ctxs) =>
      let s := mkStore (s_stream s) (s_itopic s) (s_ictx s) ctxs (s_gcq s) (s_now s) (s_bcast s) in
      if has_nul (f_topic f) then (Err ErrNul, s)
      else
        let s1 :=
          match f_ttl f with
          | Some Ephemeral => s
          | _ =>
              let s' := snd (insert_frame s f) in
              match f_ttl f with
              | Some (Head n) =>
                  mkStore (s_stream s') (s_itopic s') (s_ictx s') (s_ctxs s')
                          (s_gcq s' ++ [GcCheckHead (f_ctx f) (f_topic f) n]) (s_now s') (s_bcast s')
              | _ => s'
              end
          end in
        (Ok f, mkStore (s_stream s1) (s_itopic s1) (s_ictx s1) (s_ctxs s1) (s_gcq s1) (s_now s1)
                       (s_bcast s1 ++ [f]))
  end.

Fixpoint filter_map {A B} (g : A -> option B) (l : list A) : list B :=
  match l with
  | [] => []
  | x :: r => match g x with Some y => y :: filter_map g r | None => filter_map g r end
  end.

Fixpoint find_map {A B} (g : A -> option B) (l : list A) : option B :=
  match l with
  | [] => None
  | x :: r => match g x with Some y => Some y | None => find_map g r end
  end.

(* Store::head: newest index entry under the prefix whose frame still exists.  No stored topic
   contains a NUL byte (append and import refuse it), and a NUL inside the QUERIED topic would make
   the prefix ctx|topic|0 match keys of a shorter topic whose id starts with a zero byte: the fixed
   code answers None for such a query; head_unguarded is the pinned code *)
Definition head_unguarded (s : store) (t : bytes) (c : N) : option frame :=
  find_map (fun e => get s (of_be (last16 (fst e))))
           (rev (kv_prefix (tprefix c t) (s_itopic s))).
Definition head (s : store) (t : bytes) (c : N) : option frame :=
  if has_nul t then None else head_unguarded s t c.

(* Store::iter_frames *)
Definition iter_frames (s : store) (c : option N) (last : option N) : list frame :=
  match c with
  | Some c =>
      let lo := match last with
                | Some l => Excl (be16 c ++ be16 l)
                | None => Incl (be16 c)
                end in
      filter_map (fun e =>
                    let idb := skipn 16 (fst e) in
                    if Nat.eqb (length idb) 16 then get s (of_be idb) else None)
                 (kv_range lo (Excl (ctx_range_end c)) (s_ictx s))
  | None =>
      let lo := match last with Some l => Excl (be16 l) | None => Unb end in
      map snd (kv_range lo Unb (s_stream s))
  end.

Definition dec_limit (rem : option N) : option N := option_map N.pred rem.
Definition limit_hit (rem : option N) : bool :=
  match rem with Some 0 => true | _ => false end.

(* iter.filter(not expired, enqueue Remove).take(limit): Take stops pulling once
   [limit] items were yielded, so expired frames behind that point are not met *)
Fixpoint rs_loop (now : N) (fs : list frame) (rem : option N) : list frame * list gctask :=
  if limit_hit rem then ([], [])
  else match fs with
       | [] => ([], [])
       | f :: r =>
           if expired now f then
             let '(o, g) := rs_loop now r rem in (o, GcRemove (f_id f) :: g)
           else
             let '(o, g) := rs_loop now r (dec_limit rem) in (f :: o, g)
       end.

Definition enqueue (s : store) (g : list gctask) : store :=
  mkStore (s_stream s) (s_itopic s) (s_ictx s) (s_ctxs s) (s_gcq s ++ g) (s_now s) (s_bcast s).

(* Store::read_sync, fully consumed *)
Definition read_sync (s : store) (last : option N) (lim : option N) (c : option N)
  : list frame * store :=
  let '(o, g) := rs_loop (s_now s) (iter_frames s c last) lim in (o, enqueue s g).

(* Store::read with follow = Off: the history thread.  A different program: the
   limit is tested after the expiry filter but the loop only ends when the
   (limit+1)-th live frame is met (or the scan ends). *)
Fixpoint rh_loop (now : N) (fs : list frame) (rem : option N) : list frame * list gctask :=
  match fs with
  | [] => ([], [])
  | f :: r =>
      if expired now f then
        let '(o, g) := rh_loop now r rem in (o, GcRemove (f_id f) :: g)
      else if limit_hit rem then ([], [])
      else let '(o, g) := rh_loop now r (dec_limit rem) in (f :: o, g)
  end.

Definition read_hist (s : store) (last : option N) (lim : option N) (c : option N)
  : list frame * store :=
  let '(o, g) := rh_loop (s_now s) (iter_frames s c last) lim in (o, enqueue s g).

(* one task of the GC worker *)
Definition run_task (s : store) (t : gctask) : store :=
  match t with
  | GcRemove i => snd (remove s i)
  | GcCheckHead c t keep =>
      let ids := map (fun e => of_be (last16 (fst e)))
                     (skipn (N.to_nat keep) (rev (kv_prefix (tprefix c t) (s_itopic s)))) in
      fold_left (fun s i => snd (remove s i)) ids s
  end.

Definition gc_step (s : store) : store :=
  match s_gcq s with
  | [] => s
  | t :: q =>
      run_task (mkStore (s_stream s) (s_itopic s) (s_ictx s) (s_ctxs s) q (s_now s) (s_bcast s)) t
  end.

(* wait_for_gc: tasks never enqueue tasks, so draining is a fold over the queue *)
Definition drain (s : store) : store :=
  fold_left run_task (s_gcq s)
            (mkStore (s_stream s) (s_itopic s) (s_ictx s) (s_ctxs s) [] (s_now s) (s_bcast s)).

(* process restart: Store::new on the same directory *)
Definition reopen (s : store) : store :=
  let s0 := mkStore (s_stream s) (s_itopic s) (s_ictx s) [0] [] (s_now s) [] in
  let '(fs, s1) := read_sync s0 None None (Some 0) in
  mkStore (s_stream s1) (s_itopic s1) (s_ictx s1)
          (fold_left (fun cs f => if is_ctx_topic (f_topic f) then set_add (f_id f) cs else cs) fs [0])
          (s_gcq s1) (s_now s1) [].

(* ---------------------------------------------------------------------------- *)
(* operations and observations of engine S *)

Inductive op :=
| OAppend (i : N) (f : frame)            (* i = id handed out by the oracle *)
| OImport (f : frame)
| ORemove (i : N)
| OSetNow (now : N)
| OGcStep
| ODrain
| OReopen
| OReadSync (last : option N) (lim : option N) (c : option N)
| ORead (last : option N) (lim : option N) (c : option N)
| OGet (i : N)
| OHead (t : bytes) (c : N).

Inductive obs :=
| RFrame (r : result frame)     (* append *)
| RUnit (r : result unit)       (* import, remove *)
| RNone                         (* setnow, gcstep, drain, reopen *)
| RFrames (l : list frame)      (* reads *)
| ROpt (o : option frame).      (* get, head *)

Definition step (s : store) (o : op) : obs * store :=
  match o with
  | OAppend i f => let '(r, s') := append s i f in (RFrame r, s')
  | OImport f => let '(r, s') := insert_frame s f in (RUnit r, s')
  | ORemove i => let '(r, s') := remove s i in (RUnit r, s')
  | OSetNow n => (RNone, set_now s n)
  | OGcStep => (RNone, gc_step s)
  | ODrain => (RNone, drain s)
  | OReopen => (RNone, reopen s)
  | OReadSync l lim c => let '(fs, s') := read_sync s l lim c in (RFrames fs, s')
  | ORead l lim c => let '(fs, s') := read_hist s l lim c in (RFrames fs, s')
  | OGet i => (ROpt (get s i), s)
  | OHead t c => (ROpt (head s t c), s)
  end.

Definition run (ops : list op) (s : store) : store :=
  fold_left (fun s o => snd (step s o)) ops s.
