(* Wire grammars (src/store/ttl.rs, FollowOption / ReadOptions in src/store/mod.rs):
   TTL <-> string (used both in JSON and, after "ttl=", in query strings), and ReadOptions <->
   decoded query pairs.  Percent-encoding / form decoding (serde_urlencoded, url) and the
   scru128 text form are oracles: the model works on decoded (key, value) pairs and takes
   id printing/parsing as a parameter with a round-trip hypothesis.
   Model file: definitions only. *)
From XS Require Export Model.Store.

(* ---- decimal numbers as Rust prints and parses them ---- *)
Fixpoint dec_digits (fuel : nat) (n : N) (acc : bytes) : bytes :=
  match fuel with
  | O => acc
  | S fuel' => let acc' := (48 + n mod 10) :: acc in
               if n / 10 =? 0 then acc' else dec_digits fuel' (n / 10) acc'
  end.
(* 40 digits are enough for anything below 10^40 > 2^128 *)
Definition print_dec (n : N) : bytes := dec_digits 40 n [].

Definition digit_val (b : N) : option N :=
  if (48 <=? b) && (b <=? 57) then Some (b - 48) else None.

Fixpoint parse_digits (s : bytes) (acc : N) : option N :=
  match s with
  | [] => Some acc
  | b :: r => match digit_val b with
              | Some d => parse_digits r (acc * 10 + d)
              | None => None
              end
  end.

(* str::parse::<uN>(): optional leading '+', at least one digit, digits only, value <= max *)
Definition parse_unsigned (max : N) (s : bytes) : option N :=
  let body := match s with 43 :: r => r | _ => s end in
  match body with
  | [] => None
  | _ => match parse_digits body 0 with
         | Some v => if v <=? max then Some v else None
         | None => None
         end
  end.

Definition max_u64 : N := 2 ^ 64 - 1.
Definition max_u32 : N := 2 ^ 32 - 1.

(* ---- TTL ---- *)
Definition s_forever : bytes := [102;111;114;101;118;101;114].
Definition s_ephemeral : bytes := [101;112;104;101;109;101;114;97;108].
Definition s_time : bytes := [116;105;109;101;58].      (* "time:" *)
Definition s_head : bytes := [104;101;97;100;58].       (* "head:" *)

Definition ttl_wf (t : ttl) : bool :=
  match t with
  | Time ms => ms <=? max_u64
  | Head n => (1 <=? n) && (n <=? max_u32)
  | _ => true
  end.

Definition ttl_to_string (t : ttl) : bytes :=
  match t with
  | Forever => s_forever
  | Ephemeral => s_ephemeral
  | Time ms => s_time ++ print_dec ms
  | Head n => s_head ++ print_dec n
  end.

Definition parse_ttl (s : bytes) : option ttl :=
  if bytes_eqb s s_forever then Some Forever
  else if bytes_eqb s s_ephemeral then Some Ephemeral
  else if is_prefix s_time s then
    option_map Time (parse_unsigned max_u64 (skipn 5 s))
  else if is_prefix s_head s then
    match parse_unsigned max_u32 (skipn 5 s) with
    | Some n => if n <? 1 then None else Some (Head n)
    | None => None
    end
  else None.

(* TTL::from_query on decoded pairs: the LAST "ttl" pair wins (HashMap collect); absent -> Forever *)
Definition k_ttl : bytes := [116;116;108].
Definition ttl_of_pairs (ps : list (bytes * bytes)) : option ttl :=
  match find (fun p => bytes_eqb (fst p) k_ttl) (rev ps) with
  | Some (_, v) => parse_ttl v
  | None => Some Forever
  end.
Definition ttl_to_pairs (t : ttl) : list (bytes * bytes) := [(k_ttl, ttl_to_string t)].

(* ---- ReadOptions ---- *)
Inductive follow_opt := FOff | FOn | FHeartbeat (ms : N).
Record ropts := mkRO {
  ro_follow : follow_opt; ro_tail : bool; ro_last : option N; ro_limit : option N; ro_ctx : option N }.

Definition s_true : bytes := [116;114;117;101].
Definition s_false : bytes := [102;97;108;115;101].
Definition s_yes : bytes := [121;101;115].
Definition s_no : bytes := [110;111].
Definition s_zero : bytes := [48].
Definition k_follow : bytes := [102;111;108;108;111;119].
Definition k_tail : bytes := [116;97;105;108].
Definition k_last : bytes := [108;97;115;116;45;105;100].                    (* "last-id" *)
Definition k_limit : bytes := [108;105;109;105;116].
Definition k_ctx : bytes := [99;111;110;116;101;120;116;45;105;100].        (* "context-id" *)

(* impl Deserialize for FollowOption *)
Definition parse_follow (s : bytes) : option follow_opt :=
  match s with
  | [] => Some FOn
  | _ =>
      if bytes_eqb s s_yes then Some FOn
      else match parse_unsigned max_u64 s with
           | Some ms => Some (FHeartbeat ms)
           | None =>
               if bytes_eqb s s_true then Some FOn
               else if bytes_eqb s s_false || bytes_eqb s s_no then Some FOff
               else None
           end
  end.

(* deserialize_bool *)
Definition parse_tail (s : bytes) : bool :=
  negb (bytes_eqb s s_false || bytes_eqb s s_no || bytes_eqb s s_zero).

Section IdCodec.
  (* the scru128 text form: an oracle pair *)
  Variable print_id : N -> bytes.
  Variable parse_id : bytes -> option N.

  (* ReadOptions::to_query_string, as decoded pairs in the order written *)
  Definition ro_to_pairs (o : ropts) : list (bytes * bytes) :=
    (match ro_follow o with
     | FOff => []
     | FOn => [(k_follow, s_true)]
     | FHeartbeat ms => [(k_follow, print_dec ms)]
     end)
    ++ (match ro_ctx o with Some c => [(k_ctx, print_id c)] | None => [] end)
    ++ (if ro_tail o then [(k_tail, s_true)] else [])
    ++ (match ro_last o with Some l => [(k_last, print_id l)] | None => [] end)
    ++ (match ro_limit o with Some n => [(k_limit, print_dec n)] | None => [] end).

  (* serde_urlencoded into the derived struct: unknown keys are ignored, a duplicated key is an
     error, each present key must parse *)
  Definition lookup (k : bytes) (ps : list (bytes * bytes)) : list bytes :=
    map snd (filter (fun p => bytes_eqb (fst p) k) ps).

  Definition field {A} (vals : list bytes) (parse : bytes -> option A) (absent : A) : option A :=
    match vals with
    | [] => Some absent
    | [v] => parse v
    | _ => None
    end.

  Definition ro_of_pairs (max_usize : N) (ps : list (bytes * bytes)) : option ropts :=
    match field (lookup k_follow ps) parse_follow FOff,
          field (lookup k_tail ps) (fun v => Some (parse_tail v)) false,
          field (lookup k_last ps) (fun v => option_map Some (parse_id v)) None,
          field (lookup k_limit ps) (fun v => option_map Some (parse_unsigned max_usize v)) None,
          field (lookup k_ctx ps) (fun v => option_map Some (parse_id v)) None with
    | Some f, Some t, Some l, Some n, Some c => Some (mkRO f t l n c)
    | _, _, _, _, _ => None
    end.
End IdCodec.
