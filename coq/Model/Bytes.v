(* Byte strings, lexicographic order (the order fjall keeps keys in), big-endian
   fixed-width encodings (Scru128Id::as_bytes).  Model file: definitions only. *)
From Coq Require Export List NArith Bool.
Export ListNotations.
Open Scope N_scope.

Definition bytes := list N.   (* each element < 256 wherever it matters *)

Fixpoint bytes_eqb (a b : bytes) : bool :=
  match a, b with
  | [], [] => true
  | x :: a', y :: b' => (x =? y) && bytes_eqb a' b'
  | _, _ => false
  end.

(* memcmp-style order: shorter string first when one is a prefix of the other *)
Fixpoint lex_ltb (a b : bytes) : bool :=
  match a, b with
  | _, [] => false
  | [], _ :: _ => true
  | x :: a', y :: b' =>
      if x <? y then true else if x =? y then lex_ltb a' b' else false
  end.

Definition lex_leb (a b : bytes) : bool := negb (lex_ltb b a).

Fixpoint is_prefix (p k : bytes) : bool :=
  match p, k with
  | [], _ => true
  | _ :: _, [] => false
  | x :: p', y :: k' => (x =? y) && is_prefix p' k'
  end.

Definition has_nul (t : bytes) : bool := existsb (fun b => b =? 0) t.

(* big-endian, exactly n digits base 256 (the value is taken mod 256^n) *)
Fixpoint be (n : nat) (x : N) : bytes :=
  match n with
  | O => []
  | S n' => (x / 256 ^ N.of_nat n') mod 256 :: be n' (x mod 256 ^ N.of_nat n')
  end.

Definition be16 (x : N) : bytes := be 16 x.

Definition of_be (k : bytes) : N := fold_left (fun acc b => acc * 256 + b) k 0.

Definition last16 (k : bytes) : bytes := skipn (length k - 16) k.

Definition two128 : N := 2 ^ 128.
Definition max128 : N := two128 - 1.
Definition two64 : N := 2 ^ 64.
Definition max64 : N := two64 - 1.

(* u128::saturating_add(1) *)
Definition sat_succ128 (c : N) : N := if c <? max128 then c + 1 else max128.
(* u64::saturating_add *)
Definition sat_add64 (a b : N) : N := if a + b <=? max64 then a + b else max64.
