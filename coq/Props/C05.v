(* C05 — all lookups agree; head is the newest frame of exactly that topic. *)
From XS Require Import Model.Spec Proofs.Inv Proofs.Refine Proofs.Corollaries Proofs.AppendP Proofs.KeysP Proofs.RefineA.
From XS Require Proofs.SpecP.

Theorem C05_lookups_agree : forall now ops f,
  admissible now (ops ++ [OGet (f_id f)]) ->
  admissible now (ops ++ [OReadSync None None None]) ->
  admissible now (ops ++ [OReadSync None None (Some (f_ctx f))]) ->
  expired (a_now (a_after now ops)) f = false ->
  (get (c_after now ops) (f_id f) = Some f
   <-> In f (fst (read_sync (c_after now ops) None None None))) /\
  (In f (fst (read_sync (c_after now ops) None None None))
   <-> In f (fst (read_sync (c_after now ops) None None (Some (f_ctx f))))).
Proof. exact lookups_agree_concrete. Qed.
Print Assumptions C05_lookups_agree.

Theorem C05_head_is_newest : forall now ops t c f,
  admissible now (ops ++ [OHead t c]) ->
  head (c_after now ops) t c = Some f ->
  In f (a_live (a_after now ops)) /\ f_ctx f = c /\ f_topic f = t /\
  (forall g, In g (a_live (a_after now ops)) -> f_ctx g = c -> f_topic g = t -> f_id g <= f_id f).
Proof. exact head_is_newest. Qed.
Print Assumptions C05_head_is_newest.

Theorem C05_head_none : forall now ops t c,
  admissible now (ops ++ [OHead t c]) ->
  (head (c_after now ops) t c = None
   <-> forall g, In g (a_live (a_after now ops)) -> ~ (f_ctx g = c /\ f_topic g = t)).
Proof. exact head_none_iff. Qed.
Print Assumptions C05_head_none.

(* the key-layout fact behind it, for arbitrary byte strings: the scan prefix ctx||topic||0
   matches the key of a frame iff context and topic are equal byte for byte *)
Theorem C05_prefix_exact : forall c t f,
  c < two128 -> f_ctx f < two128 -> has_nul t = false -> has_nul (f_topic f) = false ->
  (is_prefix (tprefix c t) (tkey f) = true <-> (f_ctx f = c /\ f_topic f = t)).
Proof. exact tprefix_exact. Qed.
Print Assumptions C05_prefix_exact.

(* a topic containing a NUL byte is rejected without leaving any trace *)
Theorem C05_nul_append : forall s i f,
  has_nul (f_topic f) = true -> exists e, append s i f = (Err e, s).
Proof. exact append_nul. Qed.
Theorem C05_nul_import : forall s f,
  has_nul (f_topic f) = true -> insert_frame s f = (Err ErrNul, s).
Proof. exact import_nul. Qed.
Print Assumptions C05_nul_append.
Print Assumptions C05_nul_import.

(* a NUL inside the QUERIED topic (F9, fixed in /repo): the prefix ctx|topic|0 can match the key of
   a shorter topic whose id starts with a zero byte - the unguarded lookup of the pinned code
   returns a frame of ANOTHER topic; the fixed head answers None, as the spec does *)
Example C05_nul_query_refuted :
  exists f t, has_nul t = true /\ f_topic f <> t /\ is_prefix (tprefix 0 t) (tkey f) = true.
Proof.
  exists (mkFrame 0 0 [97] None None None), [97; 0; 0].
  split; [reflexivity|]. split; [discriminate|]. vm_compute. reflexivity.
Qed.
Example C05_unguarded_head_refuted :
  exists s t f, head_unguarded s t 0 = Some f /\ f_topic f <> t.
Proof.
  exists (snd (insert_frame (empty_store 0) (mkFrame 0 0 [97] None None None))), [97; 0; 0],
         (mkFrame 0 0 [97] None None None).
  split; [vm_compute; reflexivity|discriminate].
Qed.
Theorem C05_head_nul_query : forall s t c, has_nul t = true -> head s t c = None.
Proof. intros s t c H. unfold head. rewrite H. reflexivity. Qed.
Print Assumptions C05_head_nul_query.

(* an import that re-uses a stored id under another topic or context (F7, fixed in /repo): the pinned
   insert_frame left the old frame's index entries behind - head of the OLD topic answered with the
   new frame; the fixed one drops them in the same batch, and the refinement theorem no longer has a
   hypothesis about imported ids *)
Check overwrite_leaves_index_refuted.
Check kv_put_del.
Check a_insert_delete.

Example C05_nonvacuous :
  admissible 0 [OAppend 5 (mkFrame 0 0 [97] None None None);
                OAppend 6 (mkFrame 0 0 [97;98] None None None);
                OHead [97] 0].
Proof. reflexivity. Qed.
