(* C16 — handler lifecycle: one active instance per name and context.
   Dispatch-level statements (for every closure).  "Once <name>.registered is visible the handler
   is subscribed" is an ordering of two effects of Handler::spawn: it was FALSE on the pinned tree
   (serve task spawned, then announced without waiting for its subscription) - reproduced on the
   real code by stretching the sync point handler.serve.enter - and holds by construction after
   the fix e263c2d (the subscription is taken before the announcement); engine V replays the race
   with the stretched sync point on every run. *)
From XS Require Import Model.Handler Proofs.HandlerP.

(* a newer .register / .unregister of its own name stops it, without invoking the closure,
   with exactly one <name>.unregistered carrying the handler id and the triggering frame id *)
Theorem C16_replaced : forall {E} (closure : E -> sframe -> cres E) c env f,
  is_reg_traffic c f = true -> h_id c < sf_id f ->
  dispatch closure c env f = ([unregistered c f false], false, env, false).
Proof. intros. apply replaced_by_register; assumption. Qed.
Theorem C16_early_traffic_skipped : forall {E} (closure : E -> sframe -> cres E) c env f,
  is_reg_traffic c f = true -> sf_id f <= h_id c -> dispatch closure c env f = ([], false, env, true).
Proof. intros. apply early_reg_skipped; assumption. Qed.
Print Assumptions C16_replaced.
Print Assumptions C16_early_traffic_skipped.

(* a stopped instance processes nothing further *)
Theorem C16_stop_is_final : forall {E} (closure : E -> sframe -> cres E) c env f r outs inv env',
  dispatch closure c env f = (outs, inv, env', false) ->
  serve closure c env (f :: r) = (outs, if inv then [f] else []).
Proof. intros. apply stop_is_final with (env' := env'). assumption. Qed.
Print Assumptions C16_stop_is_final.

(* every stop is announced by exactly one dispatcher-made .unregistered, at the very end *)
Theorem C16_one_announcement : forall {E} (closure : E -> sframe -> cres E) c env fs,
  (length (filter disp_unreg (fst (serve closure c env fs))) <= 1)%nat.
Proof. intros. apply unregistered_count_le_1. Qed.
Theorem C16_shape : forall {E} (closure : E -> sframe -> cres E) c env fs,
  filter disp_unreg (fst (serve closure c env fs)) = [] \/
  exists pre f b, In f fs /\ fst (serve closure c env fs) = pre ++ [unregistered c f b] /\ filter disp_unreg pre = [].
Proof. intros. apply unregistered_at_most_once. Qed.
Print Assumptions C16_one_announcement.
Print Assumptions C16_shape.
Check serve_shape.   (* the full case analysis incl. the error flag and uniqueness of the stopping frame *)
Check ex_replaced.
