(* placeholder: replaced when Proofs/HttpP.v lands *)
From XS Require Import Model.Http.
Theorem C13_version_total : forall fixed st i, exists b st', handle fixed st i RVersion = (HResp 200 b, st').
Proof. intros. eexists. eexists. reflexivity. Qed.
Print Assumptions C13_version_total.
