(* C13 — the HTTP API is a faithful and total front end to the store.
   Over Model/Http.v: requests are abstract values in which every way a component can be
   malformed is an explicit constructor; [handle true] is the current api.rs, [handle false]
   the pinned one.  Rendering/parsing of bytes (hyper, serde, base64, url) is outside the
   model; it is exercised by engine H, which must classify each malformation the same way. *)
From XS Require Import Model.Route Proofs.RouteP Model.Http Proofs.HttpP.

(* every request, however malformed, receives a response - never a dropped connection *)
Theorem C13_total : forall st i r, exists status b st', handle true st i r = (HResp status b, st').
Proof. exact handle_total. Qed.
Theorem C13_total_sequences : forall rs st, Forall (fun resp => resp <> HDropped) (fst (hrun true st rs)).
Proof. exact hrun_total. Qed.
Print Assumptions C13_total.
Print Assumptions C13_total_sequences.

(* a request that did not succeed changes nothing in the store (an orphaned CAS body is allowed) *)
Theorem C13_errors_pure : forall st i r status b st',
  handle true st i r = (HResp status b, st') -> 400 <= status -> h_store st' = h_store st.
Proof. exact handle_error_pure. Qed.
Print Assumptions C13_errors_pure.

(* each route has exactly the effect and result of the corresponding store operation *)
Theorem C13_get : forall st i j, handle true st i (RGet (QOk j))
  = (match get (h_store st) j with Some f => HResp 200 (BFrame f) | None => HResp 404 BEmpty end, st).
Proof. exact faithful_get. Qed.
Theorem C13_head : forall st i topic c cx, ctx_of c = Some cx -> handle true st i (RHead topic c)
  = (match head (h_store st) topic cx with Some f => HResp 200 (BFrame f) | None => HResp 404 BEmpty end, st).
Proof. exact faithful_head. Qed.
Theorem C13_remove : forall st i j, handle true st i (RRemove (QOk j))
  = (match fst (remove (h_store st) j) with Ok _ => HResp 204 BEmpty | Err _ => HResp 500 BText end,
     mkH (snd (remove (h_store st) j)) (h_cas st)).
Proof. exact faithful_remove. Qed.
Theorem C13_import : forall st i f, handle true st i (RImport (Some f))
  = (match fst (insert_frame (h_store st) f) with Ok _ => HResp 200 (BFrame f) | Err _ => HResp 400 BText end,
     mkH (snd (insert_frame (h_store st) f)) (h_cas st)).
Proof. exact faithful_import. Qed.
Theorem C13_cat : forall st i sse l lim c, handle true st i (RCat sse (Some (l, lim, c)))
  = (HResp 200 (BFrames sse (fst (read_hist (h_store st) l lim c))),
     mkH (snd (read_hist (h_store st) l lim c)) (h_cas st)).
Proof. exact faithful_cat. Qed.
Check faithful_append.          (* POST /{topic}: response and store are those of Store.append *)
Check cat_sse_same_frames.      (* NDJSON and SSE carry the same frames *)
Print Assumptions C13_get.
Print Assumptions C13_head.
Print Assumptions C13_remove.
Print Assumptions C13_import.
Print Assumptions C13_cat.
Print Assumptions faithful_append.
Print Assumptions cat_sse_same_frames.

(* 4xx for client errors: proved for every malformation of the request syntax ... *)
Theorem C13_syntax_errors_400 : forall st i r, syntax_malformed r ->
  exists st', handle true st i r = (HResp 400 BText, st') /\ h_store st' = h_store st.
Proof. exact client_errors_4xx_partial. Qed.
Print Assumptions C13_syntax_errors_400.
(* ... and for a frame the store refuses for what it is (F13b, fixed in /repo: the pinned code said 500) *)
Theorem C13_unregistered_context_400 : forall st i topic cx t m body bh,
  t <> TBad -> (m = MAbsent \/ exists j, m = MOk j) ->
  is_ctx_topic topic = false -> mem cx (s_ctxs (h_store st)) = false ->
  fst (handle true st i (RAppend topic (QOk cx) t m body bh)) = HResp 400 BText.
Proof. exact unregistered_ctx_is_400. Qed.
(* a 400 is given for nothing else, and the only 5xx left is a remove the store itself fails *)
Theorem C13_400_only_client_errors : forall st i r b st',
  handle true st i r = (HResp 400 b, st') -> syntax_malformed r \/ store_refuses st i r.
Proof. exact status_400_only_client_error. Qed.
Theorem C13_5xx_only_failed_remove : forall st i r status b st',
  handle true st i r = (HResp status b, st') -> 500 <= status ->
  exists j e, r = RRemove (QOk j) /\ fst (remove (h_store st) j) = Err e.
Proof. exact status_5xx_only_remove. Qed.
Print Assumptions C13_unregistered_context_400.
Print Assumptions C13_400_only_client_errors.
Print Assumptions C13_5xx_only_failed_remove.
Check pinned_validation_error_is_500.

(* regression witnesses: the pinned handlers dropped the connection (fixed in /repo da523f3, 4e3122e) *)
Check pinned_not_total.
Check pinned_differs_only_there.
(* non-vacuity *)
Check demo_run.

(* route parsing on the raw path (match_route): the head route asks for exactly the topic after
   "/head/" - for every byte string, also one that itself begins with "/head/" -, the append route
   for the path without its leading slash, and nothing but GET / POST / DELETE reaches the store *)
Theorem C13_route_head : forall t, route_path MGet (p_head ++ t) = PHead t.
Proof. exact route_head_exact. Qed.
Theorem C13_route_cas : forall h, route_path MGet (p_cas_ ++ h) = PCasGet h.
Proof. exact route_cas_exact. Qed.
Theorem C13_route_append : forall t,
  starts_slash t = false -> bytes_eqb (47 :: t) p_cas = false -> bytes_eqb (47 :: t) p_import = false ->
  route_path MPost (47 :: t) = PAppend t.
Proof. exact route_append_exact. Qed.
Theorem C13_route_other_methods : forall p, route_path MOther p = PNotFound.
Proof. exact route_other_methods. Qed.
Print Assumptions C13_route_head.
Print Assumptions C13_route_cas.
Print Assumptions C13_route_append.
Print Assumptions C13_route_other_methods.
Theorem C13_param_last_wins : forall k v w ps, param_last k ((k, w) :: ps ++ [(k, v)]) = Some v.
Proof. exact param_last_decoy. Qed.
Print Assumptions C13_param_last_wins.
Check route_head_repeated_strip_refuted.
