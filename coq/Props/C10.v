(* C10 — content store: byte-exact, content-addressed, present before its frame.
   What Coq carries: the ordering/bookkeeping of the HTTP entry points over the front-end model
   (the CAS is a map from the integrity string to the bytes; sha256 itself and the byte-exactness
   of cacache are oracles, checked on every run against an independent sha256 and by reading every
   content back), and the crash form through C04's journal model (the content is committed - a
   rename in cacache - before the frame's batch is written; kill images are enumerated by engine K). *)
From XS Require Import Model.Http Proofs.HttpP.

(* what is written under a hash is returned byte for byte by that hash (first write wins: the
   hash determines the bytes) *)
Theorem C10_read_back : forall bh body c, cas_get bh c = None -> cas_get bh (cas_put bh body c) = Some body.
Proof. exact cas_get_put_fresh. Qed.
Theorem C10_post_then_get : forall st i i' body bh,
  is_nil body = false -> cas_get bh (h_cas st) = None ->
  fst (handle true (snd (handle true st i (RCasPost body bh))) i' (RCasGet (Some bh))) = HResp 200 (BBytes body).
Proof. exact cas_post_then_get. Qed.
Print Assumptions C10_read_back.
Print Assumptions C10_post_then_get.

(* an HTTP append without a body yields a frame without a hash; with a body, the frame carries
   the hash of exactly that body *)
Theorem C10_no_body_no_hash : forall st i topic c cx t m bh f st',
  ctx_of c = Some cx -> t <> TBad -> (m = MAbsent \/ exists j, m = MOk j) ->
  handle true st i (RAppend topic c t m [] bh) = (HResp 200 (BFrame f), st') -> f_hash f = None.
Proof. exact no_body_no_hash. Qed.
Theorem C10_body_hash : forall st i topic c cx t m body bh f st',
  ctx_of c = Some cx -> t <> TBad -> (m = MAbsent \/ exists j, m = MOk j) -> is_nil body = false ->
  handle true st i (RAppend topic c t m body bh) = (HResp 200 (BFrame f), st') -> f_hash f = Some bh.
Proof. exact body_hash. Qed.
Print Assumptions C10_no_body_no_hash.
Print Assumptions C10_body_hash.

(* present before its frame: in the state in which the appended frame is visible, the content is
   already in the CAS (it was committed before the store append, and stays even if the append is
   then rejected) *)
Theorem C10_content_present : forall st i topic c cx t m body bh,
  ctx_of c = Some cx -> t <> TBad -> (m = MAbsent \/ exists j, m = MOk j) -> is_nil body = false ->
  cas_get bh (h_cas (snd (handle true st i (RAppend topic c t m body bh)))) <> None.
Proof.
  intros st i topic c cx t m body bh Hc Ht Hm Hn.
  rewrite (faithful_append_cas st i topic c cx t m body bh Hc Ht Hm). rewrite Hn.
  apply cas_roundtrip. exact Hn.
Qed.
Print Assumptions C10_content_present.
