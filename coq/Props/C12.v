(* C12 — wire formats round-trip; nothing accepted can poison later reads.
   The TTL grammar (one string form used both in JSON and, after "ttl=", in query strings) and the
   ReadOptions query codec on decoded pairs; decimal numbers as Rust prints/parses them.  All by
   induction on digits/numbers, not enumeration.  Percent-encoding, JSON syntax and the scru128
   text form are oracles (exercised by the codec engine on every run). *)
From XS Require Import Model.Codec Model.Json Proofs.CodecP Proofs.JsonP Proofs.JsonP2.

Theorem C12_ttl_roundtrip : forall t, ttl_wf t = true -> parse_ttl (ttl_to_string t) = Some t.
Proof. exact parse_ttl_roundtrip. Qed.
Theorem C12_ttl_query_roundtrip : forall t, ttl_wf t = true -> ttl_of_pairs (ttl_to_pairs t) = Some t.
Proof. exact ttl_pairs_roundtrip. Qed.
(* malformed TTLs are rejected at the boundary: whatever parses is well formed (never head:0,
   never out of range) *)
Theorem C12_ttl_accepts_only_wf : forall s t, parse_ttl s = Some t -> ttl_wf t = true.
Proof. exact parse_ttl_wf. Qed.
Print Assumptions C12_ttl_roundtrip.
Print Assumptions C12_ttl_query_roundtrip.
Print Assumptions C12_ttl_accepts_only_wf.
Check parse_ttl_shape.   (* the accepted language, spelled out *)

(* decimal numbers *)
Theorem C12_decimal_roundtrip : forall max n, n <= max -> n < 10 ^ 40 -> parse_unsigned max (print_dec n) = Some n.
Proof. exact parse_unsigned_print. Qed.
Theorem C12_decimal_bounded : forall max s v, parse_unsigned max s = Some v -> v <= max.
Proof. exact parse_unsigned_bound. Qed.
Print Assumptions C12_decimal_roundtrip.
Print Assumptions C12_decimal_bounded.

(* read options survive the trip from the client's query encoding to the server's parser *)
Theorem C12_read_options_roundtrip : forall print_id parse_id,
  (forall i, i < 2 ^ 128 -> parse_id (print_id i) = Some i) ->
  forall max_usize o, max_usize < 10 ^ 40 -> ro_wf max_usize o ->
  ro_of_pairs parse_id max_usize (ro_to_pairs print_id o) = Some o.
Proof. exact ro_roundtrip. Qed.
Print Assumptions C12_read_options_roundtrip.
Check ro_dup_rejected.      (* a duplicated option is rejected *)
Check ro_unknown_ignored.   (* unknown keys are ignored *)
Check ro_of_pairs_wf.       (* whatever parses is in range *)

(* ---- frames: JSON as serde_json writes and reads it (Model/Json.v) ----
   the printer/parser pair is exact on every value whose nesting stays under the parser's recursion
   limit, and ONLY on those: *)
Theorem C12_json_roundtrip : forall v, wf_lex' v = true -> (nest v < recursion_limit)%nat ->
  parse_json (print_json v) = Some v.
Proof. exact parse_json_print'. Qed.
Theorem C12_json_too_deep : forall v, wf_lex' v = true -> (recursion_limit <= nest v)%nat ->
  parse_json (print_json v) = None.
Proof. exact parse_json_too_deep'. Qed.
(* a serde_json::Value (pairwise distinct keys, in any order: this build's serde_json keeps insertion
   order) is a fixed point of the normalisation; a duplicate key keeps its first position and takes
   the last value *)
Theorem C12_value_normal : forall v, wf_value v = true -> normalize v = v.
Proof. exact normalize_wf. Qed.
Print Assumptions C12_json_roundtrip.
Print Assumptions C12_json_too_deep.
Theorem C12_value_dup_last : forall k v w, normalize (JObj [(k, v); (k, w)]) = JObj [(k, normalize w)].
Proof. exact normalize_dup_last. Qed.
Print Assumptions C12_value_normal.
Print Assumptions C12_value_dup_last.

(* every frame whose meta nests at most 126 levels decodes to the identical frame; a deeper one
   does not decode at all - deserialize_frame would panic on every later read *)
Theorem C12_frame_roundtrip : forall print_id parse_id parse_hash (hash_ok : bytes -> Prop),
  (forall i, i < two128 -> parse_id (print_id i) = Some i) ->
  (forall h, hash_ok h -> parse_hash h = Some h) ->
  forall f, wf_frame hash_ok f -> (meta_nest f < 127)%nat ->
  decode_frame parse_id parse_hash (encode_frame print_id f) = Some f.
Proof. exact frame_roundtrip. Qed.
Theorem C12_frame_poison : forall print_id parse_id parse_hash (hash_ok : bytes -> Prop),
  (forall i, i < two128 -> parse_id (print_id i) = Some i) ->
  (forall h, hash_ok h -> parse_hash h = Some h) ->
  forall f, wf_frame hash_ok f -> (127 <= meta_nest f)%nat ->
  decode_frame parse_id parse_hash (encode_frame print_id f) = None.
Proof. exact frame_poison. Qed.
(* the store as fixed (insert_frame refuses a frame whose encoding does not decode): whatever is
   accepted reads back identically ... *)
Theorem C12_accepted_reads_back : forall print_id parse_id parse_hash (hash_ok : bytes -> Prop),
  (forall i, i < two128 -> parse_id (print_id i) = Some i) ->
  (forall h, hash_ok h -> parse_hash h = Some h) ->
  forall f, wf_frame hash_ok f -> accept print_id parse_id parse_hash true f = true ->
  decode_frame parse_id parse_hash (encode_frame print_id f) = Some f.
Proof. exact accepted_is_readable. Qed.
(* ... which the pinned insert_frame (no such guard) does not give: a computed witness *)
Theorem C12_pinned_accepts_poison_refuted : forall print_id parse_id parse_hash (hash_ok : bytes -> Prop),
  (forall i, i < two128 -> parse_id (print_id i) = Some i) ->
  (forall h, hash_ok h -> parse_hash h = Some h) ->
  exists f, wf_frame hash_ok f /\ accept print_id parse_id parse_hash false f = true /\
            decode_frame parse_id parse_hash (encode_frame print_id f) = None.
Proof. exact accept_pinned_refuted. Qed.
Print Assumptions C12_frame_roundtrip.
Print Assumptions C12_frame_poison.
Print Assumptions C12_accepted_reads_back.
Print Assumptions C12_pinned_accepts_poison_refuted.
Check float_lexeme_ex.

(* the same with float lexemes inside the meta (f64 printing itself stays an oracle) *)
Theorem C12_frame_roundtrip_floats : forall print_id parse_id parse_hash (hash_ok : bytes -> Prop),
  (forall i, i < two128 -> parse_id (print_id i) = Some i) ->
  (forall h, hash_ok h -> parse_hash h = Some h) ->
  forall f, wf_frame' hash_ok f -> (meta_nest f < 127)%nat ->
  decode_frame parse_id parse_hash (encode_frame print_id f) = Some f.
Proof. exact frame_roundtrip'. Qed.
Theorem C12_frame_poison_floats : forall print_id parse_id parse_hash (hash_ok : bytes -> Prop),
  (forall i, i < two128 -> parse_id (print_id i) = Some i) ->
  (forall h, hash_ok h -> parse_hash h = Some h) ->
  forall f, wf_frame' hash_ok f -> (127 <= meta_nest f)%nat ->
  decode_frame parse_id parse_hash (encode_frame print_id f) = None.
Proof. exact frame_poison'. Qed.
(* the parser does not depend on how much fuel it is given beyond what it needs, and ignores
   surrounding whitespace *)
Theorem C12_parser_fuel_mono : forall fuel fuel' depth s r, (fuel <= fuel')%nat ->
  parse_value fuel depth s = Some r -> parse_value fuel' depth s = Some r.
Proof. exact parse_value_fuel_mono. Qed.
Theorem C12_parser_whitespace : forall v s, parse_json s = Some v ->
  parse_json (s ++ [32]) = Some v /\ parse_json (32 :: s) = Some v.
Proof. exact parse_json_ws. Qed.
Print Assumptions C12_frame_roundtrip_floats.
Print Assumptions C12_frame_poison_floats.
Print Assumptions C12_parser_fuel_mono.
Print Assumptions C12_parser_whitespace.
