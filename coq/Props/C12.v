(* C12 — wire formats round-trip; nothing accepted can poison later reads.
   The TTL grammar (one string form used both in JSON and, after "ttl=", in query strings) and the
   ReadOptions query codec on decoded pairs; decimal numbers as Rust prints/parses them.  All by
   induction on digits/numbers, not enumeration.  Percent-encoding, JSON syntax and the scru128
   text form are oracles (exercised by the codec engine on every run). *)
From XS Require Import Model.Codec Proofs.CodecP.

Theorem C12_ttl_roundtrip : forall t, ttl_wf t = true -> parse_ttl (ttl_to_string t) = Some t.
Proof. exact parse_ttl_roundtrip. Qed.
Theorem C12_ttl_query_roundtrip : forall t, ttl_wf t = true -> ttl_of_pairs (ttl_to_pairs t) = Some t.
Proof. exact ttl_pairs_roundtrip. Qed.
(* malformed TTLs are rejected at the boundary: whatever parses is well formed (never head:0,
   never out of range) *)
Theorem C12_ttl_accepts_only_wf : forall s t, parse_ttl s = Some t -> ttl_wf t = true.
Proof. exact parse_ttl_wf. Qed.
Print Assumptions C12_ttl_roundtrip.
Print Assumptions C12_ttl_query_roundtrip.
Print Assumptions C12_ttl_accepts_only_wf.
Check parse_ttl_shape.   (* the accepted language, spelled out *)

(* decimal numbers *)
Theorem C12_decimal_roundtrip : forall max n, n <= max -> n < 10 ^ 40 -> parse_unsigned max (print_dec n) = Some n.
Proof. exact parse_unsigned_print. Qed.
Theorem C12_decimal_bounded : forall max s v, parse_unsigned max s = Some v -> v <= max.
Proof. exact parse_unsigned_bound. Qed.
Print Assumptions C12_decimal_roundtrip.
Print Assumptions C12_decimal_bounded.

(* read options survive the trip from the client's query encoding to the server's parser *)
Theorem C12_read_options_roundtrip : forall print_id parse_id,
  (forall i, i < 2 ^ 128 -> parse_id (print_id i) = Some i) ->
  forall max_usize o, max_usize < 10 ^ 40 -> ro_wf max_usize o ->
  ro_of_pairs parse_id max_usize (ro_to_pairs print_id o) = Some o.
Proof. exact ro_roundtrip. Qed.
Print Assumptions C12_read_options_roundtrip.
Check ro_dup_rejected.      (* a duplicated option is rejected *)
Check ro_unknown_ignored.   (* unknown keys are ignored *)
Check ro_of_pairs_wf.       (* whatever parses is in range *)
