(* C08 — nothing disappears before its retention policy allows.
   Stated on the abstract live list, which the concrete store refines observation for
   observation (C01_refinement): a frame that stops being live in one step of any history
   does so for one of the listed reasons. *)
From XS Require Import Model.Spec Proofs.Inv Proofs.Refine Proofs.Corollaries.
From XS Require Import Proofs.SpecP.

(* every way a live frame can stop being live in one step *)
Theorem C08_lost_reason : forall a o f,
  sorted (a_live a) -> lost a (snd (a_step a o)) f ->
  (o = ORemove (f_id f))
  \/ (exists g, o = OImport g /\ f_id g = f_id f)
  \/ (exists i g, o = OAppend i g /\ i = f_id f)
  \/ ((o = OGcStep \/ o = ODrain) /\
      exists t, In t (a_gcq a) /\
                (t = GcRemove (f_id f) \/ exists k, t = GcCheckHead (f_ctx f) (f_topic f) k)).
Proof. exact step_lost_reason. Qed.
Print Assumptions C08_lost_reason.

(* a head:K collection for (c, t) evicts only frames of exactly (c, t) - byte-for-byte topic,
   same context - that are outside the K newest of (c, t) *)
Theorem C08_head_eviction_exact : forall c t k l g,
  sorted l -> In g l -> ~ In g (a_check_head c t k l) ->
  same_topic c t g = true /\ ~ In g (firstn (N.to_nat k) (rev (filter (same_topic c t) l))).
Proof. exact check_head_lost. Qed.
Print Assumptions C08_head_eviction_exact.

(* ... and never touches another topic (even one sharing a prefix) or another context *)
Theorem C08_other_topics_untouched : forall c t k l g,
  sorted l -> same_topic c t g = false -> (In g (a_check_head c t k l) <-> In g l).
Proof. exact a_check_head_other. Qed.
Print Assumptions C08_other_topics_untouched.

(* reads (which trigger lazy expiry), lookups, clock moves and reopen never remove a frame *)
Theorem C08_reads_keep_everything : forall a o,
  match o with
  | OReadSync _ _ _ | ORead _ _ _ | OGet _ | OHead _ _ | OSetNow _ | OReopen => True
  | _ => False
  end -> a_live (snd (a_step a o)) = a_live a.
Proof. exact a_step_reads_keep_live. Qed.
Print Assumptions C08_reads_keep_everything.

(* a Remove task is queued by a read only for a frame whose own time TTL has elapsed *)
Theorem C08_remove_only_expired : forall now fs lim t,
  In t (snd (rs_loop now fs lim)) -> exists f, In f fs /\ expired now f = true /\ t = GcRemove (f_id f).
Proof. exact rs_loop_tasks. Qed.
Theorem C08_remove_only_expired_stream : forall now fs lim t,
  In t (snd (rh_loop now fs lim)) -> exists f, In f fs /\ expired now f = true /\ t = GcRemove (f_id f).
Proof. exact rh_loop_tasks. Qed.
Print Assumptions C08_remove_only_expired.
Print Assumptions C08_remove_only_expired_stream.

Example C08_nonvacuous :
  let a := a_run [OAppend 5 (mkFrame 0 0 [97] None None (Some (Head 1)));
                  OAppend 6 (mkFrame 0 0 [97;98] None None None);
                  OAppend 7 (mkFrame 0 0 [97] None None (Some (Head 1)))] (a_empty 0) in
  map f_id (a_live a) = [5; 6; 7] /\ map f_id (a_live (a_drain a)) = [6; 7].
Proof. vm_compute. split; reflexivity. Qed.

(* ---- the full statement over histories ----
   [wf_run]: the clock never goes back; appended/imported ids are fresh w.r.t. the live frames
   and w.r.t. queued Remove tasks (scru128 never repeats an id: SpecP2.wfh_run_wf). *)
From XS Require Import Proofs.SpecP2.

(* A frame stops being live only because (1) it was explicitly removed, or (2) its own time:N
   TTL had elapsed, or (3) it was outside the K newest frames of its own (context, topic) at
   some moment after a head:K frame was appended to that topic. *)
Theorem C08_retention : forall now ops o f,
  wf_run (ops ++ [o]) (a_empty now) ->
  lost (after0 now ops) (after0 now (ops ++ [o])) f ->
  (o = ORemove (f_id f)) \/
  (expired (a_now (after0 now ops)) f = true /\ (o = OGcStep \/ o = ODrain)) \/
  ((o = OGcStep \/ o = ODrain) /\
   exists k,
     (exists pre i f0 post g a',
        ops = pre ++ OAppend i f0 :: post /\
        a_append (after0 now pre) i f0 = (Ok g, a') /\
        f_ctx g = f_ctx f /\ f_topic g = f_topic f /\ f_ttl g = Some (Head k)) /\
     exists l', sorted l' /\ In f l' /\
       ~ In f (firstn (N.to_nat k) (rev (filter (same_topic (f_ctx f) (f_topic f)) l')))).
Proof. exact retention. Qed.
Print Assumptions C08_retention.

(* a frame without a time TTL, in a topic that never sees a head TTL, never removed, is never lost *)
Theorem C08_forever_safe : forall now pre post f,
  wf_run (pre ++ post) (a_empty now) ->
  In f (a_live (after0 now pre)) ->
  (forall ms, f_ttl f <> Some (Time ms)) ->
  ~ In (ORemove (f_id f)) post ->
  (forall p i f0 q g a' k, pre ++ post = p ++ OAppend i f0 :: q ->
     a_append (after0 now p) i f0 = (Ok g, a') ->
     f_ctx g = f_ctx f -> f_topic g = f_topic f -> f_ttl g <> Some (Head k)) ->
  In f (a_live (after0 now (pre ++ post))).
Proof. exact forever_safe. Qed.
Print Assumptions C08_forever_safe.

(* the hypothesis is natural: it follows from "no id is ever handed out twice" *)
Theorem C08_wf_from_unique_ids : forall now ops, wfh_run [] ops (a_empty now) -> wf_run ops (a_empty now).
Proof. exact wfh_run_wf. Qed.
Print Assumptions C08_wf_from_unique_ids.

(* and it is needed: with id reuse a stale Remove task collects an innocent frame *)
Check retention_needs_queue_freshness.
