(* C14 — a handler sees each frame once, in order, and never its own output.
   Over Model/Handler.v: the dispatch loop of Handler::serve around an OPAQUE closure - every
   theorem is for every closure, every configuration, every delivered stream.  That the stream
   delivered to the handler is every frame of its context exactly once in id order is C02/C03
   (its subscription is a context-scoped follow); the tie of this model to the code is engine V
   (the observed stream replayed through the extracted model must reproduce the handler's output). *)
From XS Require Import Model.Handler Proofs.HandlerP.

(* each delivered frame at most once, in delivery order *)
Theorem C14_once_in_order : forall {E} (closure : E -> sframe -> cres E) c env fs,
  sublist (snd (serve closure c env fs)) fs.
Proof. intros. apply seen_sublist. Qed.
Print Assumptions C14_once_in_order.

(* while it is active it is invoked for EVERY frame delivered, except its own output and the
   registration traffic of its own name that preceded it *)
Theorem C14_every_frame : forall {E} (closure : E -> sframe -> cres E) c env fs,
  running_through closure c env fs = true ->
  snd (serve closure c env fs) = filter (fun f => negb (is_reg_traffic c f) && negb (own_output c f)) fs.
Proof. intros. apply seen_all_until_stop. assumption. Qed.
Print Assumptions C14_every_frame.

(* never its own output, never registration traffic of its own name *)
Theorem C14_never_own : forall {E} (closure : E -> sframe -> cres E) c env fs,
  Forall (fun f => own_output c f = false /\ is_reg_traffic c f = false) (snd (serve closure c env fs)).
Proof. intros. apply seen_never_own. Qed.
Print Assumptions C14_never_own.

(* so a handler that reacts to every frame cannot feed itself: whatever it emitted, re-delivered
   with whatever id the store gave it, is never passed to the closure - for any closure *)
Theorem C14_no_self_feeding : forall {E E'} (closure : E -> sframe -> cres E) (closure' : E' -> sframe -> cres E')
    c env env' fs fs' e i,
  In e (fst (serve closure c env fs)) -> ~ In (redeliver i e) (snd (serve closure' c env' fs')).
Proof. intros E E' closure closure'. exact (no_self_feeding closure closure'). Qed.
Print Assumptions C14_no_self_feeding.

(* environment set by one invocation is what the next invocation starts from *)
Theorem C14_env_threading : forall {E} (closure : E -> sframe -> cres E) c env fs,
  threaded closure env (envs closure c env fs) (snd (serve closure c env fs)).
Proof. intros. apply serve_env_threading. Qed.
Print Assumptions C14_env_threading.

(* non-vacuity: a counting script sees f1 f2 f3 (its own output in between is skipped) and returns 1 2 3 *)
Check ex_seen.
Check ex_counts.
