(* C18 — generator lifecycle: start, ordered output, stop, restart, duplex input. *)
From XS Require Import Model.Service Proofs.ServiceP.

Theorem C18_lifecycle_shape : forall g outs,
  lifecycle g outs
  = mkE (g_name g ++ suffix_start) (g_ctx g) (g_spawn g) (g_spawn g) None None None false
    :: map (fun v => mkE (g_name g ++ suffix_grecv) (g_ctx g) (g_spawn g) (g_spawn g) None (Some v) None false) outs
    ++ [mkE (g_name g ++ suffix_stop) (g_ctx g) (g_spawn g) (g_spawn g) None None None false].
Proof. exact lifecycle_shape. Qed.
(* all frames carry the spawn's id as source and live in the spawn's context *)
Theorem C18_stamped : forall g runs,
  Forall (fun e => e_hid e = g_spawn g /\ e_ctx e = g_ctx g) (lifecycles g runs).
Proof. exact lifecycles_stamped. Qed.
(* one recv per produced string, in production order, with that string as content *)
Theorem C18_contents_in_order : forall g runs, contents (lifecycles g runs) = concat runs.
Proof. exact lifecycles_contents_in_order. Qed.
(* after a stop the generator is started again *)
Theorem C18_restart : forall g r rs, lifecycles g (r :: rs) = lifecycle g r ++ lifecycles g rs.
Proof. exact lifecycles_cons. Qed.
Print Assumptions C18_lifecycle_shape.
Print Assumptions C18_stamped.
Print Assumptions C18_contents_in_order.
Print Assumptions C18_restart.

(* duplex: every .send after the start is fed exactly once, in order *)
Theorem C18_duplex_in_order : forall g start s1 s2,
  duplex_input g start (s1 ++ s2) = duplex_input g start s1 ++ duplex_input g start s2.
Proof. exact duplex_input_app. Qed.
Theorem C18_duplex_send : forall g start f b s, start < sf_id f -> sf_ctx f = g_ctx g -> sf_topic f = g_name g ++ suffix_send ->
  duplex_input g start ((f, b) :: s) = b :: duplex_input g start s.
Proof. exact duplex_send_after_start. Qed.
Theorem C18_duplex_other_context : forall g start f b s, sf_ctx f <> g_ctx g ->
  duplex_input g start ((f, b) :: s) = duplex_input g start s.
Proof. exact duplex_other_context. Qed.
Theorem C18_duplex_other : forall g start f b s, sf_topic f <> g_name g ++ suffix_send ->
  duplex_input g start ((f, b) :: s) = duplex_input g start s.
Proof. exact duplex_not_send. Qed.
(* restarts: each instance is fed exactly the sends appended while it runs (after its own .start,
   before its .stop), and instances that do not overlap share no input *)
Theorem C18_instance_fed : forall g a b f c s,
  a < sf_id f -> sf_id f < b -> sf_ctx f = g_ctx g -> sf_topic f = g_name g ++ suffix_send ->
  instance_input g a b ((f, c) :: s) = c :: instance_input g a b s.
Proof. exact instance_fed_while_running. Qed.
Theorem C18_instance_not_refed : forall g a b f c s,
  sf_id f <= a -> instance_input g a b ((f, c) :: s) = instance_input g a b s.
Proof. exact instance_not_fed_earlier. Qed.
Theorem C18_instances_disjoint : forall g a1 b1 a2 b2 f c,
  b1 <= a2 -> instance_input g a1 b1 [(f, c)] <> [] -> instance_input g a2 b2 [(f, c)] = [].
Proof. exact instances_disjoint. Qed.
Print Assumptions C18_instance_fed.
Print Assumptions C18_instance_not_refed.
Print Assumptions C18_instances_disjoint.
Print Assumptions C18_duplex_in_order.
Print Assumptions C18_duplex_send.
Check ex_lifecycles.
Check ex_duplex.
