(* C06 — contexts are isolated (store-level access paths: both read programs and head). *)
From XS Require Import Model.Spec Proofs.Inv Proofs.Refine Proofs.Corollaries Proofs.KeysP.

Theorem C06_read_sync : forall now ops l lim b f,
  admissible now (ops ++ [OReadSync l lim (Some b)]) ->
  In f (fst (read_sync (c_after now ops) l lim (Some b))) -> f_ctx f = b.
Proof. exact read_sync_ctx. Qed.
Print Assumptions C06_read_sync.

Theorem C06_read_stream : forall now ops l lim b f,
  admissible now (ops ++ [ORead l lim (Some b)]) ->
  In f (fst (read_hist (c_after now ops) l lim (Some b))) -> f_ctx f = b.
Proof. exact read_hist_ctx. Qed.
Print Assumptions C06_read_stream.

Theorem C06_head : forall now ops t b f,
  admissible now (ops ++ [OHead t b]) -> head (c_after now ops) t b = Some f -> f_ctx f = b.
Proof. exact head_ctx. Qed.
Print Assumptions C06_head.

(* the range [ctx, ctx+1) over the context index selects exactly that context, also for
   numerically adjacent context ids *)
Theorem C06_range_exact : forall c f, c < max128 -> idok f ->
  (above (Incl (be16 c)) (ckey f) && below (Excl (ctx_range_end c)) (ckey f)) = (f_ctx f =? c).
Proof. exact ckey_range_all. Qed.
Print Assumptions C06_range_exact.

(* known finding F8: for the context 2^128-1 the range is empty *)
Theorem C06_max_context_refuted : forall f, idok f ->
  (above (Incl (be16 max128)) (ckey f) && below (Excl (ctx_range_end max128)) (ckey f)) = false.
Proof. exact ckey_range_max_empty. Qed.
Print Assumptions C06_max_context_refuted.
