(* C19 — command calls: ordered results, exactly one terminal event, no replay.
   Over Model/Service.v; the script result is a parameter (every theorem is for every result). *)
From XS Require Import Model.Service Proofs.ServiceP.

(* every frame of a call carries the definition's id and the call's id, in the caller's context *)
Theorem C19_stamped : forall c call r,
  Forall (fun e => e_hid e = c_def c /\ e_fid e = sf_id call /\ e_ctx e = sf_ctx call) (call_frames c call r).
Proof. exact call_all_stamped. Qed.
(* exactly one terminal event, last: .complete, or else .error *)
Theorem C19_one_terminal : forall c call r, exists pre t,
  call_frames c call r = pre ++ [t] /\ terminal t = true /\ Forall (fun e => terminal e = false) pre /\
  (e_err t = true <-> exists apps, r = CmdErr apps) /\
  e_topic t = c_name c ++ (if e_err t then suffix_error else suffix_complete).
Proof. exact call_one_terminal. Qed.
(* one result frame per value of the output, in order, on <name><suffix> with the configured TTL *)
Theorem C19_results_in_order : forall c call r apps vals, r = CmdOk apps vals -> exists pre,
  call_frames c call r
  = pre ++ map (fun v => mkE (c_name c ++ c_suffix c) (sf_ctx call) (c_def c) (sf_id call) (c_ttl c) (Some v) None false) vals
        ++ [mkE (c_name c ++ suffix_complete) (sf_ctx call) (c_def c) (sf_id call) None None None false]
  /\ length pre = length apps.
Proof. exact call_results_in_order. Qed.
Print Assumptions C19_stamped.
Print Assumptions C19_one_terminal.
Print Assumptions C19_results_in_order.

(* the latest valid definition wins; an invalid definition is reported and changes nothing *)
Theorem C19_latest_valid_definition : forall n es, ctable_get n (table_after [] es) = last_valid_def n es.
Proof. exact table_after_spec. Qed.
Theorem C19_call_runs_latest : forall es f n,
  cserve [] (es ++ [ECall f n]) = cserve [] es ++ [match last_valid_def n es with Some d => ARun d f | None => ANone end].
Proof. exact cserve_call_runs_latest. Qed.
Theorem C19_invalid_definition : forall t f n, cserve_step t (EDefine f n false) = (t, ADefError f n).
Proof. exact cstep_invalid_define. Qed.
Print Assumptions C19_latest_valid_definition.
Print Assumptions C19_call_runs_latest.

(* never executed twice, never re-executed after a restart: one action per event while serving,
   and start-up only rebuilds the table (historical calls have no influence) *)
Theorem C19_one_action_per_event : forall t es, length (cserve t es) = length es.
Proof. intros t es. apply cserve_length. Qed.
Theorem C19_no_replay : forall h1 f n h2, cboot (h1 ++ ECall f n :: h2) = cboot (h1 ++ h2).
Proof. intros h1 f n h2. apply cboot_ignores_calls. Qed.
(* concurrent calls cannot mix their stamps: they are a function of the call alone *)
Theorem C19_stamps_independent : forall c call r,
  map (fun e => (e_hid e, e_fid e, e_ctx e)) (call_frames c call r)
  = repeat (c_def c, sf_id call, sf_ctx call) (length (call_frames c call r)).
Proof. exact call_frames_independent. Qed.
Print Assumptions C19_one_action_per_event.
Print Assumptions C19_no_replay.
Print Assumptions C19_stamps_independent.
Check ex_serve.
