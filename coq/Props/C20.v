(* C20 — export then import reproduces the store. *)
From XS Require Import Model.Spec Proofs.Inv Proofs.Refine Proofs.Corollaries Proofs.AppendP.
From XS Require Import Proofs.SpecP.

(* importing the frames of a store in any order, with any duplication, gives the same store *)
Theorem C20_any_order : forall fs fs',
  (forall f g, In f fs -> In g fs -> f_id f = f_id g -> f = g) ->
  (forall f, In f fs <-> In f fs') ->
  fold_left (fun l f => a_insert f l) fs [] = fold_left (fun l f => a_insert f l) fs' [].
Proof. exact import_all_perm. Qed.
Print Assumptions C20_any_order.

(* ... namely the original live list: same ids, order and fields *)
Theorem C20_roundtrip : forall l fs',
  sorted l -> (forall f, In f l <-> In f fs') ->
  fold_left (fun acc f => a_insert f acc) fs' [] = l.
Proof. exact import_all_roundtrip_gen. Qed.
Print Assumptions C20_roundtrip.

(* an imported frame appears at its id's position, not at the end *)
Theorem C20_keeps_position : forall f l,
  sorted l ->
  exists l1 l2, a_insert f l = l1 ++ f :: l2 /\
                (forall g, In g l1 -> f_id g < f_id f) /\ (forall g, In g l2 -> f_id f < f_id g).
Proof. exact a_insert_position. Qed.
Print Assumptions C20_keeps_position.

(* importing the same frame again changes nothing *)
Theorem C20_idempotent : forall f l, sorted l -> a_insert f (a_insert f l) = a_insert f l.
Proof. exact a_insert_idem. Qed.
Print Assumptions C20_idempotent.

(* a frame that cannot be stored consistently (NUL in the topic) is rejected whole *)
Theorem C20_rejected_whole : forall s f,
  has_nul (f_topic f) = true -> insert_frame s f = (Err ErrNul, s).
Proof. exact import_nul. Qed.
Print Assumptions C20_rejected_whole.

(* the same usable contexts: the registry is a function of the live list (C07), and the
   concrete store built by the imports is observationally the abstract one (refinement) *)
Theorem C20_observably_equal : forall now ops,
  hyps_all ops (a_empty now) = true ->
  run_obs ops (empty_store now) = a_run_obs ops (a_empty now).
Proof. exact refinement. Qed.
Theorem C20_same_contexts : forall now ops c,
  admissible now ops ->
  mem c (s_ctxs (c_after now ops)) = mem c (a_ctxs (a_live (a_after now ops))).
Proof. exact registry_function. Qed.
Print Assumptions C20_observably_equal.
Print Assumptions C20_same_contexts.

Example C20_nonvacuous :
  let f1 := mkFrame 5 0 xs_context None None None in
  let f2 := mkFrame 9 5 [97] None None (Some (Head 2)) in
  let f3 := mkFrame 7 5 [98] None None None in
  fold_left (fun l f => a_insert f l) [f2; f3; f1; f2] [] = [f1; f3; f2]
  /\ admissible 0 [OImport f2; OImport f3; OImport f1; OImport f2;
                   OAppend 11 (mkFrame 0 5 [97] None None None)].
Proof. vm_compute. split; reflexivity. Qed.
