(* C03 — follow delivers every frame exactly once, in order, across history -> live.
   Over the transition system of Model/Conc.v (locked appends; labels = code between two
   sync points), any number of writers and followers, ANY schedule, any pre-existing history.
   [seen fl] = the real frames delivered so far (consumed or queued), in delivery order. *)
From XS Require Import Model.Conc Proofs.ConcP Proofs.FollowP.

(* exactly once, in increasing id order, across the hand-off *)
Theorem C03_in_order_once : forall s k fl, reach s -> nth_error (g_fs s) k = Some fl ->
  inc (seen fl) /\ NoDup (seen fl).
Proof. intros s k fl R E. split; [exact (seen_increasing s k fl R E)|exact (seen_nodup s k fl R E)]. Qed.
Print Assumptions C03_in_order_once.

(* only frames of its scope, after its start position *)
Theorem C03_in_scope : forall s k fl, reach s -> nth_error (g_fs s) k = Some fl ->
  Forall (fun f => in_scope_c (o_ctx (fo fl)) f = true) (seen fl).
Proof. exact seen_in_scope. Qed.
Theorem C03_after_start : forall s k fl, reach s -> nth_error (g_fs s) k = Some fl ->
  o_tail (fo fl) = false -> f_last fl <> None ->
  Forall (fun f => after_c (o_last (fo fl)) f = true) (seen fl).
Proof. exact seen_after_last. Qed.
Print Assumptions C03_in_scope.
Print Assumptions C03_after_start.

(* NO GAP: every stored in-scope frame after the start position whose id is at most that of
   some delivered frame has itself been delivered - at every reachable state, however
   appends interleave with subscribe / scan / hand-off / live receive *)
Theorem C03_no_gap : forall s k fl, reach s -> nth_error (g_fs s) k = Some fl ->
  o_tail (fo fl) = false ->
  forall g h, In g (g_stream s) -> scope_ok (fo fl) g = true ->
              In h (seen fl) -> c_id g <= c_id h -> In g (seen fl).
Proof. exact no_gap. Qed.
Print Assumptions C03_no_gap.

(* everything broadcast after the subscription point (ephemeral frames included) that the live
   task has processed, in scope and above the hand-off id, has been delivered *)
Theorem C03_live_complete : forall s k s1 sched s2 fl2,
  reach s -> cstep s (LSubscribe k) = Some s1 -> crun s1 sched = Some s2 ->
  nth_error (g_fs s2) k = Some fl2 ->
  forall i x, (length (g_chan s) <= i < qp (f_l fl2) (f_pos fl2))%nat ->
    nth_error (g_chan s2) i = Some x -> in_scope_c (o_ctx (fo fl2)) x = true ->
    leL (f_last fl2) x = false -> In x (seen fl2).
Proof. exact live_complete. Qed.
Print Assumptions C03_live_complete.

(* exactly one threshold marker, after everything replayed from history and before anything live *)
Theorem C03_threshold_once : forall s k fl pre post, reach s -> nth_error (g_fs s) k = Some fl ->
  f_got fl ++ f_out fl = pre ++ IThreshold :: post -> ~ In IThreshold pre /\ ~ In IThreshold post.
Proof. exact threshold_once. Qed.
Theorem C03_threshold_present : forall s k fl, reach s -> nth_error (g_fs s) k = Some fl ->
  f_h fl = HAtDone \/ f_h fl = HFinished true -> wants_threshold (fo fl) = true ->
  In IThreshold (f_got fl ++ f_out fl).
Proof. exact threshold_present. Qed.
Theorem C03_threshold_position : forall s k fl pre post, reach s -> nth_error (g_fs s) k = Some fl ->
  f_got fl ++ f_out fl = pre ++ IThreshold :: post ->
  (forall a b, In a (reals pre) -> In b (reals post) -> c_id a < c_id b) /\
  (forall a, In a (reals pre) -> match f_last fl with Some l => c_id a <= l | None => False end) /\
  (forall b, In b (reals post) -> match f_last fl with Some l => l < c_id b | None => True end).
Proof. exact threshold_position. Qed.
Print Assumptions C03_threshold_once.
Print Assumptions C03_threshold_present.
Print Assumptions C03_threshold_position.

(* KNOWN FINDING (C03-ephemeral-dropped-in-replay-window): the full statement "plus every frame
   (ephemeral ones included) appended after it subscribed" is FALSE for an ephemeral frame that
   is broadcast inside the replay window when the scan later yields a larger stored id: it is
   below the hand-off id and is skipped by the live task.  Computed witness, replayed on the
   implementation on every run (corpus/C03/ephemeral_dropped.json): *)
Check ephemeral_dropped_witness.
Check ephemeral_never_delivered.
(* a second corner the proof exposed: a last-id above every stored id is not applied to live frames *)
Check future_last_id_not_filtered_live.
(* non-vacuity *)
Check history_then_live_reachable.
