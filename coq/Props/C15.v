(* C15 — handler output is stamped, scoped, ordered and all-or-nothing per call. *)
From XS Require Import Model.Handler Proofs.HandlerP.

(* every emitted frame carries the handler's id and lands in the handler's context, whatever
   --context the script asked for *)
Theorem C15_stamped_scoped : forall {E} (closure : E -> sframe -> cres E) c env fs,
  Forall (fun e => e_hid e = h_id c /\ e_ctx e = h_ctx c) (fst (serve closure c env fs)).
Proof. intros. apply emitted_stamped. Qed.
Print Assumptions C15_stamped_scoped.

(* one successful invocation: the explicit appends in call order, then the return value on
   <name><suffix> with the configured TTL, all stamped with the triggering frame's id *)
Theorem C15_outputs_of_one_call : forall {E} (closure : E -> sframe -> cres E) c env f bufs ret env',
  closure env f = COk bufs ret env' -> is_reg_traffic c f = false -> own_output c f = false ->
  dispatch closure c env f
  = (map (stamp c f) bufs
     ++ match ret with
        | Some v => [mkE (h_name c ++ h_suffix c) (h_ctx c) (h_id c) (sf_id f) (h_ttl c) (Some v) None false]
        | None => []
        end, true, env', true).
Proof. intros. apply dispatch_outputs_ok; assumption. Qed.
Theorem C15_trigger_id : forall {E} (closure : E -> sframe -> cres E) c env f outs inv env' run,
  dispatch closure c env f = (outs, inv, env', run) -> Forall (fun e => e_fid e = sf_id f) outs.
Proof. intros. eapply dispatch_outputs_fid. eassumption. Qed.
Print Assumptions C15_outputs_of_one_call.
Print Assumptions C15_trigger_id.

(* all-or-nothing: if the closure fails, none of its appends appear; the handler is unregistered
   with the error instead, and stops *)
Theorem C15_all_or_nothing : forall {E} (closure : E -> sframe -> cres E) c env f env',
  closure env f = CErr env' -> is_reg_traffic c f = false -> own_output c f = false ->
  dispatch closure c env f = ([unregistered c f true], true, env', false).
Proof. intros. apply dispatch_error; assumption. Qed.
Print Assumptions C15_all_or_nothing.

Check ex_emitted.   (* context forced to the handler's (7) although the script asked for 9 *)
Check ex_error.     (* a failure between two appends: nothing but .unregistered *)
