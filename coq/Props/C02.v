(* C02 — the stream is append-only even with concurrent writers.
   Over the transition system of Model/Conc.v (labels = code between two sync points of
   Store::append / Store::read), locked variant, ANY number of writers, frames, pollers and
   followers, ANY schedule.  [reach s] = reachable from an initial state whose history is
   id-sorted.  [g_stream] is the committed stream in COMMIT order, [g_chan] the broadcast
   channel in SEND order. *)
From XS Require Import Model.Conc Proofs.ConcP.

(* commit order = id order and broadcast order = id order, always *)
Theorem C02_commit_and_broadcast_in_id_order : forall s, reach s ->
  inc (g_stream s) /\ inc (g_chan s) /\
  Forall (fun f => c_id f < g_next s) (g_stream s) /\
  Forall (fun f => c_id f < g_next s) (g_chan s).
Proof. exact stream_increasing. Qed.
Print Assumptions C02_commit_and_broadcast_in_id_order.

(* the visible stream only ever grows at its end: whatever a step (or a whole schedule)
   adds lies above everything already visible - in any scope *)
Theorem C02_grows_at_end : forall s sched s', reach s -> crun s sched = Some s' ->
  (exists suf, g_stream s' = g_stream s ++ suf /\
               Forall (fun f => Forall (fun g => c_id g < c_id f) (g_stream s)) suf) /\
  (exists suf, g_chan s' = g_chan s ++ suf /\
               Forall (fun f => Forall (fun g => c_id g < c_id f) (g_chan s)) suf).
Proof. exact run_appends_at_end. Qed.
Print Assumptions C02_grows_at_end.

Theorem C02_grows_at_end_in_scope : forall (p : cfr -> bool) s l s',
  reach s -> cstep s l = Some s' ->
  exists suf, filter p (g_stream s') = filter p (g_stream s) ++ suf /\
              Forall (fun f => Forall (fun g => c_id g < c_id f) (g_stream s)) suf /\
              Forall (fun f => Forall (fun g => c_id g < c_id f) (filter p (g_stream s))) suf.
Proof. exact step_appends_at_end_filtered. Qed.
Print Assumptions C02_grows_at_end_in_scope.

(* a client polling with last-id = the last frame it saw holds, at every moment, exactly a
   prefix of the committed stream (every frame once, none skipped), and after each poll all of it *)
Theorem C02_poller_never_misses : forall s p acc, reach s -> nth_error (g_ps s) p = Some acc ->
  exists rest, g_stream s = acc ++ rest.
Proof. exact poller_prefix. Qed.
Theorem C02_poll_complete : forall s p s', reach s -> cstep s (LPoll p) = Some s' ->
  nth_error (g_ps s') p = Some (g_stream s').
Proof. exact poll_complete. Qed.
Print Assumptions C02_poller_never_misses.
Print Assumptions C02_poll_complete.

(* live subscribers are sent frames in increasing id order *)
Theorem C02_subscribers_increasing : forall s i j f g, reach s ->
  nth_error (g_chan s) i = Some f -> nth_error (g_chan s) j = Some g -> (i < j)%nat ->
  c_id f < c_id g.
Proof. exact chan_nth_increasing. Qed.
Print Assumptions C02_subscribers_increasing.

(* at most one writer is between id assignment and the end of its broadcast *)
Theorem C02_mutual_exclusion : forall s w1 w2 wr1 wr2, reach s ->
  nth_error (g_ws s) w1 = Some wr1 -> nth_error (g_ws s) w2 = Some wr2 ->
  in_cs wr1 -> in_cs wr2 -> w1 = w2.
Proof. exact mutual_exclusion. Qed.
Print Assumptions C02_mutual_exclusion.

(* regression witness: the pinned code (no critical section in append, g_locked = false)
   violates the property - A is assigned id 0, B is assigned id 1, B commits and broadcasts,
   a poller sees frame 1, A commits frame 0 below it: frame 0 is never returned.  This
   schedule is replayed on the implementation on every run (corpus/C02). *)
Theorem C02_unlocked_refuted :
  exists s, crun unlocked_witness unlocked_sched = Some s /\ ~ inc (g_stream s) /\
            In (mkC 0 0 false) (g_stream s) /\
            (forall s', cstep s (LPoll 0) = Some s' ->
                        nth_error (g_ps s') 0 = Some [mkC 1 0 false] /\ g_stream s' = g_stream s /\
                        nth_error (g_ps s') 0 <> Some (g_stream s')).
Proof. exact unlocked_not_increasing. Qed.
Print Assumptions C02_unlocked_refuted.

(* ... and the same schedule is not runnable under the lock *)
Theorem C02_locked_blocks :
  crun (cinit true 0 [] [[mkP 0 false true]; [mkP 0 false true]] [] 1) unlocked_sched = None.
Proof. exact locked_blocks. Qed.

(* non-vacuity: two writers really do reach a state with two committed frames *)
Check two_writers_reachable.
Check two_writers_contended.
