(* C01 — reads return exactly the live history, once each, in id order.
   Property theorems only ([exact lemma] + [Print Assumptions]).
   [c_after now ops] is the concrete store model (byte-keyed partitions) after the history
   [ops] from an empty store; [a_after now ops] is the abstract live list after the same
   history: exactly the frames accepted (appended or imported) and not since removed,
   expired-and-collected or evicted (Model/Spec.v).  [admissible] = the refinement hypotheses
   (fresh ids < 2^128, no import re-using an id under another topic/context, no context
   2^128-1, persistent TTL on imported registrations, id 0 not an xs.context frame). *)
From XS Require Import Model.Spec Proofs.Inv Proofs.Refine Proofs.Corollaries.
From XS Require Proofs.SpecP.

Theorem C01_read_sync : forall now ops l lim c,
  admissible now (ops ++ [OReadSync l lim c]) ->
  fst (read_sync (c_after now ops) l lim c)
  = spec_read (a_live (a_after now ops)) (a_now (a_after now ops)) c l lim.
Proof. exact read_sync_exact. Qed.
Print Assumptions C01_read_sync.

(* the streaming read (history thread, follow = off) is a different program with the same result *)
Theorem C01_read_stream : forall now ops l lim c,
  admissible now (ops ++ [ORead l lim c]) ->
  fst (read_hist (c_after now ops) l lim c)
  = spec_read (a_live (a_after now ops)) (a_now (a_after now ops)) c l lim.
Proof. exact read_hist_exact. Qed.
Print Assumptions C01_read_stream.

(* what spec_read is: exactly the live, in-scope, after-last-id, unexpired frames ... *)
Theorem C01_members : forall live now c l f,
  In f (spec_read live now c l None)
  <-> In f live /\ in_scope c f = true /\ after l f = true /\ expired now f = false.
Proof. exact SpecP.spec_read_in. Qed.
Print Assumptions C01_members.

(* ... cut to the first [limit] of those ... *)
Theorem C01_limit : forall live now c l n,
  spec_read live now c l (Some n) = firstn (N.to_nat n) (spec_read live now c l None).
Proof. exact SpecP.spec_read_limit. Qed.
Print Assumptions C01_limit.

(* ... each exactly once, in strictly increasing id order *)
Theorem C01_sorted_nodup : forall now ops l lim c,
  admissible now ops ->
  let r := spec_read (a_live (a_after now ops)) (a_now (a_after now ops)) c l lim in
  StronglySorted SpecP.sid_lt r /\ NoDup r.
Proof. exact read_sorted_nodup. Qed.
Print Assumptions C01_sorted_nodup.

(* lookup by id returns exactly the live frame with that id *)
Theorem C01_get : forall now ops i f,
  admissible now (ops ++ [OGet i]) ->
  (get (c_after now ops) i = Some f <-> In f (a_live (a_after now ops)) /\ f_id f = i).
Proof. exact get_iff. Qed.
Print Assumptions C01_get.

(* ... which is what was accepted, field for field *)
Theorem C01_accepted_fields : forall a i f0 f a',
  a_append a i f0 = (Ok f, a') ->
  f_id f = i /\ f_ctx f = f_ctx f0 /\ f_topic f = f_topic f0 /\ f_hash f = f_hash f0 /\
  f_meta f = f_meta f0 /\ f_ttl f = (if is_ctx_topic (f_topic f0) then Some Forever else f_ttl f0).
Proof. exact SpecP.a_append_ok_fields. Qed.
Print Assumptions C01_accepted_fields.

(* the refinement itself: every observation of every operation, for every admissible history *)
Theorem C01_refinement : forall now ops,
  hyps_all ops (a_empty now) = true ->
  run_obs ops (empty_store now) = a_run_obs ops (a_empty now).
Proof. exact refinement. Qed.
Print Assumptions C01_refinement.

(* non-vacuity: a history with two contexts, a removal and a limited read is admissible *)
Example C01_nonvacuous :
  admissible 1000
    [OAppend 5 (mkFrame 0 0 xs_context None None None);
     OAppend 6 (mkFrame 0 5 [97] None None (Some (Time 10)));
     OAppend 7 (mkFrame 0 0 [97;98] None None (Some (Head 1)));
     ORemove 6; OSetNow 2000; OGcStep;
     OReadSync (Some 5) (Some 1) None].
Proof. reflexivity. Qed.

(* "precisely the frames that were accepted": every live frame was put there by an accepted
   append or an import earlier in the history (and C08 says exactly how frames leave) *)
From XS Require Proofs.SpecP2.
Theorem C01_live_provenance : forall ops now f,
  In f (a_live (SpecP2.after0 now ops)) ->
  exists pre o post, ops = pre ++ o :: post /\
    (o = OImport f \/ exists i f0 a', o = OAppend i f0 /\ a_append (SpecP2.after0 now pre) i f0 = (Ok f, a')).
Proof. exact SpecP2.live_provenance. Qed.
Print Assumptions C01_live_provenance.
