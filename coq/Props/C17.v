(* C17 — restart restores exactly the active handlers, generators and commands.
   Over Model/Restart.v: the start-up replay of the three dispatchers as pure folds over the
   historical frames, vs a specification keyed by (context, name).  [true] = tables keyed by
   (context, name) (handlers, generators after the fixes e1f1ebb and the generator fix); [false] =
   the pinned name-keyed tables, refuted by computed witnesses.  Historical triggers and calls are
   not re-executed by construction of the serve loops (phase 1 only rebuilds the tables; a handler
   replays history only when its own resume_from says so): that part is carried by engine V. *)
From XS Require Import Model.Restart Proofs.RestartP.

Theorem C17_handlers : forall fs, ids_inc fs -> compact_handlers true fs = spec_handlers fs.
Proof. exact compact_handlers_correct. Qed.
Theorem C17_generators : forall fs, ids_inc fs -> compact_generators true fs = spec_generators fs.
Proof. exact compact_generators_correct. Qed.
Theorem C17_commands : forall fs, ids_inc fs -> compact_commands true fs = spec_commands fs.
Proof. exact compact_commands_correct. Qed.
Print Assumptions C17_handlers.
Print Assumptions C17_generators.
Print Assumptions C17_commands.

(* exactly those, with their ids; nothing unregistered, replaced or failed comes back *)
Theorem C17_only_registers : forall fs e, In e (spec_handlers fs) -> r_kind e = KRegister /\ In e fs.
Proof. exact spec_handlers_only_registers. Qed.
Theorem C17_ended_stay_ended : forall pre e post g, ids_inc (pre ++ e :: post) -> In g post -> same_cn e g = true ->
  (r_kind g = KRegister \/ ((r_kind g = KUnregister \/ r_kind g = KUnregistered) /\ r_ref g = Some (r_id e))) ->
  ~ In e (spec_handlers (pre ++ e :: post)).
Proof. exact spec_handlers_ended_absent. Qed.
Print Assumptions C17_only_registers.
Print Assumptions C17_ended_stay_ended.

(* regression witnesses: the pinned name-keyed tables lose the handler / generator of another context *)
Check name_keyed_handlers_refuted.
Check name_keyed_generators_refuted.
Check name_keyed_commands_refuted.
(* ... and are right when a name is used in one context only *)
Check compact_handlers_name_keyed_correct.
Check compact_generators_name_keyed_correct.
Check compact_commands_name_keyed_correct.
(* non-vacuity *)
Check ex_compact_handlers.
