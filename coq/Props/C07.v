(* C07 — a context accepts appends iff it is registered, across restarts.
   Property theorems only: each closed by [exact lemma], pinned by [Check], followed by
   [Print Assumptions]. *)
From XS Require Import Model.Store Model.Spec Proofs.AppendP.

Theorem C07_reject_no_trace : forall s i f e s', append s i f = (Err e, s') -> s' = s.
Proof. exact append_err_unchanged. Qed.
Check C07_reject_no_trace : forall s i f e s', append s i f = (Err e, s') -> s' = s.
Print Assumptions C07_reject_no_trace.

Theorem C07_accept_iff : forall s i f,
  is_ctx_topic (f_topic f) = false -> has_nul (f_topic f) = false ->
  ((exists g s', append s i f = (Ok g, s')) <-> mem (f_ctx f) (s_ctxs s) = true).
Proof. exact append_accept_iff. Qed.
Print Assumptions C07_accept_iff.

Theorem C07_ctx_frame : forall s i f,
  is_ctx_topic (f_topic f) = true ->
  (f_ctx f <> 0 -> exists s', append s i f = (Err ErrNotZeroCtx, s')) /\
  (f_ctx f = 0 -> exists g s', append s i f = (Ok g, s') /\ f_ttl g = Some Forever /\ f_id g = i
                               /\ mem i (s_ctxs s') = true /\ get s' i = Some g).
Proof. exact append_ctx_frame. Qed.
Print Assumptions C07_ctx_frame.

(* the set of usable contexts is a function of the stored frames alone, at every reachable
   state, however those frames got there (append or import) ... *)
From XS Require Import Proofs.Inv Proofs.Refine Proofs.Corollaries.
Theorem C07_registry_function : forall now ops c,
  admissible now ops ->
  mem c (s_ctxs (c_after now ops)) = mem c (a_ctxs (a_live (a_after now ops))).
Proof. exact registry_function. Qed.
Print Assumptions C07_registry_function.

(* ... so it is the same before and after the store is reopened *)
Theorem C07_reopen : forall now ops c,
  admissible now ops ->
  mem c (s_ctxs (c_after now (ops ++ [OReopen]))) = mem c (s_ctxs (c_after now ops)).
Proof. exact registry_reopen. Qed.
Print Assumptions C07_reopen.

Theorem C07_accept_reachable : forall now ops i f,
  admissible now (ops ++ [OAppend i f]) ->
  is_ctx_topic (f_topic f) = false -> has_nul (f_topic f) = false ->
  ((exists g s', append (c_after now ops) i f = (Ok g, s'))
   <-> mem (f_ctx f) (a_ctxs (a_live (a_after now ops))) = true).
Proof. exact append_accept_reachable. Qed.
Print Assumptions C07_accept_reachable.

(* regression witness for the defect fixed in /repo (fix: register an imported xs.context
   frame immediately): with the pinned insert_frame the registry is NOT a function of the
   stored frames - an imported registration is unusable until restart *)
Example C07_pinned_import_refuted :
  let f := mkFrame 7 0 xs_context None None None in
  let s := snd (insert_frame_gen false (empty_store 0) f) in
  get s 7 = Some f /\ mem 7 (s_ctxs s) = false /\ mem 7 (s_ctxs (reopen s)) = true.
Proof. vm_compute. repeat split; reflexivity. Qed.

Example C07_nonvacuous :
  admissible 0 [OImport (mkFrame 7 0 xs_context None None None);
                OAppend 9 (mkFrame 0 7 [97] None None None); ORemove 7; OReopen;
                OAppend 10 (mkFrame 0 7 [97] None None None)].
Proof. reflexivity. Qed.

(* an import that turns a stored non-registration into the registration of the same id, and back, is inside the
   hypotheses (since the F7 fix): the id is usable from exactly that moment, not usable after the reverse import,
   and a reopen changes nothing *)
Definition C07_flip_hist : list op :=
  [OImport (mkFrame 3 0 xs_context None None None);
   OImport (mkFrame 7 3 xs_context None None None);
   OAppend 9 (mkFrame 0 7 [97] None None None);
   OImport (mkFrame 7 0 xs_context None None None);
   OAppend 10 (mkFrame 0 7 [97] None None None);
   OImport (mkFrame 7 3 [97] None None None);
   OAppend 11 (mkFrame 0 7 [97] None None None)].
Example C07_flip_admissible : admissible 0 C07_flip_hist.
Proof. reflexivity. Qed.
Example C07_flip_usable :
  mem 7 (s_ctxs (c_after 0 (firstn 2 C07_flip_hist))) = false /\
  mem 7 (s_ctxs (c_after 0 (firstn 4 C07_flip_hist))) = true /\
  mem 7 (s_ctxs (c_after 0 (firstn 6 C07_flip_hist))) = false /\
  mem 7 (s_ctxs (c_after 0 (firstn 4 C07_flip_hist ++ [OReopen]))) = true.
Proof. vm_compute. repeat split; reflexivity. Qed.
