(* C07 — a context accepts appends iff it is registered, across restarts.
   Property theorems only: each closed by [exact lemma], pinned by [Check], followed by
   [Print Assumptions]. *)
From XS Require Import Model.Store Model.Spec Proofs.AppendP.

Theorem C07_reject_no_trace : forall s i f e s', append s i f = (Err e, s') -> s' = s.
Proof. exact append_err_unchanged. Qed.
Check C07_reject_no_trace : forall s i f e s', append s i f = (Err e, s') -> s' = s.
Print Assumptions C07_reject_no_trace.

Theorem C07_accept_iff : forall s i f,
  is_ctx_topic (f_topic f) = false -> has_nul (f_topic f) = false ->
  ((exists g s', append s i f = (Ok g, s')) <-> mem (f_ctx f) (s_ctxs s) = true).
Proof. exact append_accept_iff. Qed.
Print Assumptions C07_accept_iff.

Theorem C07_ctx_frame : forall s i f,
  is_ctx_topic (f_topic f) = true ->
  (f_ctx f <> 0 -> exists s', append s i f = (Err ErrNotZeroCtx, s')) /\
  (f_ctx f = 0 -> exists g s', append s i f = (Ok g, s') /\ f_ttl g = Some Forever /\ f_id g = i
                               /\ mem i (s_ctxs s') = true /\ get s' i = Some g).
Proof. exact append_ctx_frame. Qed.
Print Assumptions C07_ctx_frame.
