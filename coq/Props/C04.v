(* C04 — acknowledged writes survive a crash; each write is all-or-nothing.
   Over the journal model of Model/Crash.v (fjall as an oracle: a journal of atomic batches,
   recovery = replay of the complete batches; persist = flush + fsync), the protocol of
   Store::insert_frame / Store::remove is: ONE batch over the three partitions, acknowledged
   only after persist.  The partitions computed here are exactly those of Store.v (K1), so the
   lock-step invariant of C01/C05 (by id <-> in its context <-> under its topic) holds of every
   recovered image. *)
From XS Require Import Model.Crash Model.Spec Proofs.CrashP Proofs.Inv Proofs.RefineA Proofs.Corollaries Proofs.CrashInvP.
From Coq Require Import Sorted.

(* the journal model computes the partitions of the store model *)
Theorem C04_model_link_insert : forall s f,
  parts_of (snd (insert_frame s f))
  = match batch_of (parts_of s) (JInsert f) with Some b => apply_batch (parts_of s) b | None => parts_of s end.
Proof. exact insert_frame_batch. Qed.
Theorem C04_model_link_remove : forall s i,
  parts_of (snd (remove s i))
  = match batch_of (parts_of s) (JRemove i) with Some b => apply_batch (parts_of s) b | None => parts_of s end.
Proof. exact remove_batch. Qed.
Print Assumptions C04_model_link_insert.
Print Assumptions C04_model_link_remove.

(* process kill at ANY instant inside operation k (after n of its steps): the reopened store is
   the state after k operations or after k+1 - never anything in between *)
Theorem C04_kill_all_or_nothing : forall ops k, (k < length ops)%nat -> forall n,
  replay (kill_image (crash_state ops k n)) = fst (exec_ops (firstn k ops)) \/
  replay (kill_image (crash_state ops k n)) = fst (exec_ops (firstn (S k) ops)).
Proof. exact kill_all_or_nothing. Qed.
Print Assumptions C04_kill_all_or_nothing.

(* once the operation has returned (all its steps ran) it is reflected *)
Theorem C04_kill_acked : forall ops k, (k < length ops)%nat -> forall n o,
  nth_error ops k = Some o ->
  (length (program (fst (exec_ops (firstn k ops))) o) <= n)%nat ->
  replay (kill_image (crash_state ops k n)) = fst (exec_ops (firstn (S k) ops)).
Proof. exact kill_acked. Qed.
Print Assumptions C04_kill_acked.

(* the same for power loss: any prefix of the un-fsynced segment may be lost *)
Theorem C04_power_all_or_nothing : forall ops k, (k < length ops)%nat -> forall n img,
  In img (power_images (crash_state ops k n)) ->
  replay img = fst (exec_ops (firstn k ops)) \/ replay img = fst (exec_ops (firstn (S k) ops)).
Proof. exact power_all_or_nothing. Qed.
Theorem C04_power_acked : forall ops k, (k < length ops)%nat -> forall n o img,
  nth_error ops k = Some o ->
  (length (program (fst (exec_ops (firstn k ops))) o) <= n)%nat ->
  In img (power_images (crash_state ops k n)) ->
  replay img = fst (exec_ops (firstn (S k) ops)).
Proof. exact power_acked. Qed.
Print Assumptions C04_power_all_or_nothing.
Print Assumptions C04_power_acked.

(* the recovered image is not just "some prefix": it is the partition triple of a store state that
   satisfies the lock-step invariant of C01/C05 (InvZ: the three partitions are the key-sorted
   encodings of one id-sorted list of valid frames, and the registry is the set of live context
   frames) - for every admissible journal (the hypotheses of the refinement theorem) *)
Theorem C04_crash_image_consistent : forall now js k n,
  (k < length js)%nat -> admissible now (map jop_to_op js) ->
  exists s a, InvZ s a /\
    replay (kill_image (crash_state js k n)) = parts_of s /\
    (s = c_after now (map jop_to_op (firstn k js)) \/
     s = c_after now (map jop_to_op (firstn (S k) js))).
Proof. exact crash_image_is_consistent. Qed.
Theorem C04_power_image_consistent : forall now js k n img,
  (k < length js)%nat -> admissible now (map jop_to_op js) ->
  In img (power_images (crash_state js k n)) ->
  exists s a, InvZ s a /\ replay img = parts_of s /\
    (s = c_after now (map jop_to_op (firstn k js)) \/
     s = c_after now (map jop_to_op (firstn (S k) js))).
Proof. exact power_image_is_consistent. Qed.
Theorem C04_crash_stream_sorted : forall now js k n,
  (k < length js)%nat -> admissible now (map jop_to_op js) ->
  exists live,
    p_stream (replay (kill_image (crash_state js k n))) = map enc live /\
    StronglySorted id_lt live /\ Forall frame_ok live.
Proof. exact crash_stream_is_sorted_frames. Qed.
(* acknowledged = reflected, as a state of the store model that satisfies the invariant *)
Theorem C04_acked_survives_kill : forall now js k n o,
  (k < length js)%nat -> admissible now (map jop_to_op js) ->
  nth_error js k = Some o ->
  (length (program (fst (exec_ops (firstn k js))) o) <= n)%nat ->
  InvZ (c_after now (map jop_to_op (firstn (S k) js))) (a_after now (map jop_to_op (firstn (S k) js))) /\
  replay (kill_image (crash_state js k n)) = parts_of (c_after now (map jop_to_op (firstn (S k) js))).
Proof. exact acked_kill_image_is_store. Qed.
Theorem C04_acked_survives_power_loss : forall now js k n o img,
  (k < length js)%nat -> admissible now (map jop_to_op js) ->
  nth_error js k = Some o ->
  (length (program (fst (exec_ops (firstn k js))) o) <= n)%nat ->
  In img (power_images (crash_state js k n)) ->
  InvZ (c_after now (map jop_to_op (firstn (S k) js))) (a_after now (map jop_to_op (firstn (S k) js))) /\
  replay img = parts_of (c_after now (map jop_to_op (firstn (S k) js))).
Proof. exact acked_power_image_is_store. Qed.
Print Assumptions C04_acked_survives_kill.
Print Assumptions C04_acked_survives_power_loss.
Print Assumptions C04_crash_image_consistent.
Print Assumptions C04_power_image_consistent.
Print Assumptions C04_crash_stream_sorted.
Check js7_admissible.
Check js7_crash.

(* what persist(SyncAll) is for: acknowledging after the commit alone loses the write on kill *)
Check weak_persist_refuted.
(* non-vacuity *)
Check crash_mid_op1.
