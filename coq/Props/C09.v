(* C09 — TTL policies are enforced: ephemeral, time:N, head:N. *)
From XS Require Import Model.Spec Proofs.Inv Proofs.Refine Proofs.Corollaries Proofs.AppendP.
From XS Require Import Proofs.SpecP.

(* ephemeral: nothing is stored - the three partitions, registry and GC queue of the concrete
   store are untouched; the frame only goes to the subscribers of that moment *)
Theorem C09_ephemeral_not_stored : forall s i f g s',
  append s i f = (Ok g, s') -> f_ttl g = Some Ephemeral ->
  s_stream s' = s_stream s /\ s_itopic s' = s_itopic s /\ s_ictx s' = s_ictx s /\
  s_gcq s' = s_gcq s /\ s_bcast s' = s_bcast s ++ [g] /\ s_ctxs s' = s_ctxs s.
Proof. exact append_ephemeral_not_stored. Qed.
Print Assumptions C09_ephemeral_not_stored.

(* time:N - never returned by either read path once expired, at any point of any history *)
Theorem C09_time_read_sync : forall now ops l lim c f,
  admissible now (ops ++ [OReadSync l lim c]) ->
  In f (fst (read_sync (c_after now ops) l lim c)) -> expired (a_now (a_after now ops)) f = false.
Proof. exact read_sync_not_expired. Qed.
Theorem C09_time_read_stream : forall now ops l lim c f,
  admissible now (ops ++ [ORead l lim c]) ->
  In f (fst (read_hist (c_after now ops) l lim c)) -> expired (a_now (a_after now ops)) f = false.
Proof. exact read_hist_not_expired. Qed.
Print Assumptions C09_time_read_sync.
Print Assumptions C09_time_read_stream.

(* an unlimited read queues the removal of every expired frame it meets *)
Theorem C09_time_queued : forall now fs f,
  In f fs -> expired now f = true -> In (GcRemove (f_id f)) (snd (rs_loop now fs None)).
Proof. exact rs_loop_tasks_all. Qed.
Print Assumptions C09_time_queued.

(* head:N - one collection leaves at most N frames of (c, t), the newest ones: every evicted
   frame has an id below every survivor of (c, t) *)
Theorem C09_head_bound : forall c t k l,
  sorted l -> (length (filter (same_topic c t) (a_check_head c t k l)) <= N.to_nat k)%nat.
Proof. exact a_check_head_bound. Qed.
Theorem C09_head_newest_survive : forall c t k l g,
  sorted l -> In g l -> same_topic c t g = true -> ~ In g (a_check_head c t k l) ->
  forall h, In h (a_check_head c t k l) -> same_topic c t h = true -> f_id g < f_id h.
Proof. exact a_check_head_suffix. Qed.
Print Assumptions C09_head_bound.
Print Assumptions C09_head_newest_survive.

Example C09_nonvacuous :
  let a := a_run [OAppend 5 (mkFrame 0 0 [97] None None (Some (Time 10)));
                  OAppend 6 (mkFrame 0 0 [97] None None (Some Ephemeral));
                  OSetNow 100; OReadSync None None None; ODrain] (a_empty 0) in
  a_live a = [] /\ length (a_bcast a) = 2%nat.
Proof. vm_compute. split; reflexivity. Qed.

From XS Require Import Proofs.SpecP2.
(* time:N - physically gone once the collector has drained after a read that covered it *)
Theorem C09_time_gone_after_drain : forall a c f,
  In f (a_live a) -> in_scope c f = true -> expired (a_now a) f = true ->
  ~ In f (a_live (a_drain (snd (a_read_sync a None None c)))).
Proof. exact expired_collected. Qed.
Theorem C09_time_gone_after_drain_stream : forall a c f,
  In f (a_live a) -> in_scope c f = true -> expired (a_now a) f = true ->
  ~ In f (a_live (a_drain (snd (a_read_hist a None None c)))).
Proof. exact expired_collected_hist. Qed.
Print Assumptions C09_time_gone_after_drain.
Print Assumptions C09_time_gone_after_drain_stream.

(* head:N - after the collector has drained, a (context, topic) whose newest frame carries
   head:N holds at most N frames.  Hypotheses [wf4_run]: no imports, appended ids are newer
   than every live id, and NO RESTART: *)
Theorem C09_head_bound_after_drain : forall now ops c t g n,
  wf4_run ops (a_empty now) ->
  let a := after0 now ops in
  a_gcq a = [] -> a_head a t c = Some g -> f_ttl g = Some (Head n) ->
  (length (filter (same_topic c t) (a_live a)) <= N.to_nat n)%nat.
Proof. exact head_bound_after_drain. Qed.
Print Assumptions C09_head_bound_after_drain.

(* KNOWN FINDING (C09-restart-forgets-head-gc): the full statement is FALSE across a restart -
   queued head collections live in memory only, so a restart before the collector ran leaves
   more than N frames until the next append to that topic.  Witness (replayed on the
   implementation on every run, corpus/C09/restart_forgets_head_gc.txt): *)
Check head_bound_needs_no_reopen.
