(* placeholder until Proofs/FollowP.v lands: pins the model the schedules are generated from *)
From XS Require Import Model.Conc Proofs.ConcP.
Theorem C11_channel_increasing : forall s i j f g, reach s ->
  nth_error (g_chan s) i = Some f -> nth_error (g_chan s) j = Some g -> (i < j)%nat -> c_id f < c_id g.
Proof. exact chan_nth_increasing. Qed.
Print Assumptions C11_channel_increasing.
