(* C11 — follow options: limit is exact, tail skips history, never a silent gap.
   Same transition system as C03 (after the fixes 6dee0cb and 480faa4). *)
From XS Require Import Model.Conc Proofs.ConcP Proofs.FollowP.

(* limit = n: never more than n frames, whether they come from history, live or both ... *)
Theorem C11_limit_exact : forall s k fl n, reach s -> nth_error (g_fs s) k = Some fl ->
  o_limit (fo fl) = Some n -> o_tail (fo fl) = false \/ n <> 0 ->
  (length (seen fl) <= N.to_nat n)%nat.
Proof. exact limit_exact. Qed.
(* ... once n are delivered nothing more ever is ... *)
Theorem C11_limit_closes : forall s k fl n, reach s -> nth_error (g_fs s) k = Some fl ->
  o_limit (fo fl) = Some n -> o_tail (fo fl) = false \/ n <> 0 ->
  length (seen fl) = N.to_nat n ->
  forall sched s' fl', crun s sched = Some s' -> nth_error (g_fs s') k = Some fl' -> seen fl' = seen fl.
Proof. exact limit_closes. Qed.
(* ... and the stream ends: every sender is gone (heartbeat included) *)
Theorem C11_limit_ends_stream : forall s k fl n, reach s -> nth_error (g_fs s) k = Some fl ->
  o_limit (fo fl) = Some n -> o_tail (fo fl) = false \/ n <> 0 ->
  length (seen fl) = N.to_nat n ->
  (exists b, f_h fl = HFinished b \/ f_h fl = HNone) -> f_l fl <> LAtSent ->
  f_hb fl = false /\ (f_l fl = LExited \/ f_l fl = LNone) /\ (f_out fl = [] -> closed fl = true).
Proof. exact limit_ends_stream. Qed.
Print Assumptions C11_limit_exact.
Print Assumptions C11_limit_closes.
Print Assumptions C11_limit_ends_stream.

(* tail delivers no historical frame: everything delivered was broadcast after the subscription *)
Theorem C11_tail_no_history : forall s k s1 sched s2 fl2,
  reach s -> cstep s (LSubscribe k) = Some s1 -> crun s1 sched = Some s2 ->
  nth_error (g_fs s2) k = Some fl2 -> o_tail (fo fl2) = true ->
  Forall (fun f => exists i, (length (g_chan s) <= i < f_pos fl2)%nat /\ nth_error (g_chan s2) i = Some f) (seen fl2) /\
  (forall i x, (length (g_chan s) <= i < qp (f_l fl2) (f_pos fl2))%nat ->
     nth_error (g_chan s2) i = Some x -> in_scope_c (o_ctx (fo fl2)) x = true -> In x (seen fl2)).
Proof. exact tail_after_subscription. Qed.
Print Assumptions C11_tail_no_history.

(* synthetic frames go only to the subscriber that asked for them (they are items of one
   follower's queue: never in g_stream / g_chan by construction, never counted: C11_limit_exact
   counts real frames only) *)
Theorem C11_pulse_only_if_asked : forall s k fl, reach s -> nth_error (g_fs s) k = Some fl ->
  In IPulse (f_got fl ++ f_out fl) -> o_pulse (fo fl) = true /\ o_follow (fo fl) = true.
Proof. exact pulse_only_if_asked. Qed.
Theorem C11_threshold_only_if_following : forall s k fl, reach s -> nth_error (g_fs s) k = Some fl ->
  In IThreshold (f_got fl ++ f_out fl) ->
  o_follow (fo fl) = true /\ o_tail (fo fl) = false /\ o_limit (fo fl) = None.
Proof. exact threshold_only_if_following. Qed.
Print Assumptions C11_pulse_only_if_asked.
Print Assumptions C11_threshold_only_if_following.

(* never a silent gap: once the live task has ended (lag, limit, closed hand-off) the heartbeat
   is gone and NOTHING - neither frames nor pulses - is delivered afterwards *)
Theorem C11_exit_stops_heartbeat : forall s k fl, reach s -> nth_error (g_fs s) k = Some fl ->
  f_l fl = LExited -> f_hb fl = false.
Proof. exact exited_is_final. Qed.
Theorem C11_nothing_after_exit : forall s k fl, reach s -> nth_error (g_fs s) k = Some fl ->
  f_l fl = LExited -> f_h fl = HFinished true \/ f_h fl = HFinished false \/ f_h fl = HNone ->
  forall sched s' fl', crun s sched = Some s' -> nth_error (g_fs s') k = Some fl' ->
  f_got fl' ++ f_out fl' = f_got fl ++ f_out fl.
Proof. exact exited_no_more. Qed.
Print Assumptions C11_exit_stops_heartbeat.
Print Assumptions C11_nothing_after_exit.

(* corner exposed by the proof: tail + limit = 0 delivers one frame (the live task counts, then
   compares); the property quantifies over n >= 1 *)
Check tail_limit_zero_delivers_one.
(* non-vacuity *)
Check limit_reached_reachable.
