/* LD_PRELOAD crash shim for engine K.
 * Tracks the system calls that change what is on disk under $XSV_TRACK (a path prefix):
 *   write, pwrite64, fsync, fdatasync, rename, renameat, ftruncate64, unlink, open/openat(O_CREAT)
 * Modes (env):
 *   XSV_COUNT_FILE=<path> : append one line per tracked call ("<n> <name> <fd-or-path> <len>")
 *   XSV_CRASH_AT=<n>      : the n-th tracked call does not happen: the process _exit(77)s instead
 *   XSV_TORN=<k>          : (with CRASH_AT on a write) write only len*k/4 bytes of it first (k = 1..3)
 *   XSV_POWER=1           : power loss instead of process kill: before exiting, every byte
 *                           range written to a tracked file since that file's last fsync is zeroed
 */
#define _GNU_SOURCE
#include <dlfcn.h>
#include <errno.h>
#include <fcntl.h>
#include <stdarg.h>
#include <stdio.h>
#include <stdlib.h>
#include <string.h>
#include <sys/types.h>
#include <unistd.h>
#include <pthread.h>

static ssize_t (*real_write)(int, const void *, size_t);
static ssize_t (*real_pwrite64)(int, const void *, size_t, off_t);
static int (*real_fsync)(int);
static int (*real_fdatasync)(int);
static int (*real_rename)(const char *, const char *);
static int (*real_renameat)(int, const char *, int, const char *);
static int (*real_ftruncate64)(int, off_t);
static int (*real_unlink)(const char *);
static int (*real_openat)(int, const char *, int, ...);
static int (*real_open)(const char *, int, ...);

static const char *track;
static size_t track_len;
static long crash_at = -1;
static int torn = 0, power = 0;
static int count_fd = -1;
static long counter = 0;
static pthread_mutex_t mu = PTHREAD_MUTEX_INITIALIZER;
static int inited = 0;

#define MAXR 4096
static struct { int fd; off_t off; size_t len; } ranges[MAXR];
static int nranges = 0;

static void init(void) {
    if (inited) return;
    inited = 1;
    real_write = dlsym(RTLD_NEXT, "write");
    real_pwrite64 = dlsym(RTLD_NEXT, "pwrite64");
    real_fsync = dlsym(RTLD_NEXT, "fsync");
    real_fdatasync = dlsym(RTLD_NEXT, "fdatasync");
    real_rename = dlsym(RTLD_NEXT, "rename");
    real_renameat = dlsym(RTLD_NEXT, "renameat");
    real_ftruncate64 = dlsym(RTLD_NEXT, "ftruncate64");
    real_unlink = dlsym(RTLD_NEXT, "unlink");
    real_openat = dlsym(RTLD_NEXT, "openat");
    real_open = dlsym(RTLD_NEXT, "open");
    track = getenv("XSV_TRACK");
    track_len = track ? strlen(track) : 0;
    if (getenv("XSV_CRASH_AT")) crash_at = atol(getenv("XSV_CRASH_AT"));
    if (getenv("XSV_TORN")) torn = atoi(getenv("XSV_TORN"));
    if (getenv("XSV_POWER")) power = 1;
    const char *cf = getenv("XSV_COUNT_FILE");
    if (cf) count_fd = real_open(cf, O_WRONLY | O_CREAT | O_APPEND, 0644);
}

static int fd_tracked(int fd) {
    if (!track) return 0;
    char link[64], path[4096];
    snprintf(link, sizeof link, "/proc/self/fd/%d", fd);
    ssize_t n = readlink(link, path, sizeof path - 1);
    if (n <= 0) return 0;
    path[n] = 0;
    return strncmp(path, track, track_len) == 0;
}

static int path_tracked(const char *p) {
    if (!track || !p) return 0;
    if (p[0] == '/') return strncmp(p, track, track_len) == 0;
    char cwd[4096];
    if (!getcwd(cwd, sizeof cwd)) return 0;
    char full[8300];
    snprintf(full, sizeof full, "%s/%s", cwd, p);
    return strncmp(full, track, track_len) == 0;
}

static void power_loss(void) {
    static char zeros[65536];
    for (int i = 0; i < nranges; i++) {
        size_t left = ranges[i].len;
        off_t off = ranges[i].off;
        while (left > 0) {
            size_t k = left > sizeof zeros ? sizeof zeros : left;
            if (real_pwrite64(ranges[i].fd, zeros, k, off) <= 0) break;
            left -= k;
            off += k;
        }
    }
}

/* returns 1 when this call must not happen (the caller then exits) */
static int tick(const char *name, int fd, const char *path, size_t len) {
    pthread_mutex_lock(&mu);
    counter++;
    long n = counter;
    if (count_fd >= 0) {
        char line[512];
        int k = snprintf(line, sizeof line, "%ld %s %d %s %zu\n", n, name, fd, path ? path : "-", len);
        real_write(count_fd, line, k);
    }
    int crash = (crash_at > 0 && n == crash_at);
    pthread_mutex_unlock(&mu);
    return crash;
}

static void die(void) {
    if (power) power_loss();
    _exit(77);
}

static void note_write(int fd, off_t off, size_t len) {
    if (!power) return;
    pthread_mutex_lock(&mu);
    if (nranges < MAXR) { ranges[nranges].fd = fd; ranges[nranges].off = off; ranges[nranges].len = len; nranges++; }
    pthread_mutex_unlock(&mu);
}

static void note_sync(int fd) {
    if (!power) return;
    pthread_mutex_lock(&mu);
    int j = 0;
    for (int i = 0; i < nranges; i++) if (ranges[i].fd != fd) ranges[j++] = ranges[i];
    nranges = j;
    pthread_mutex_unlock(&mu);
}

ssize_t write(int fd, const void *buf, size_t len) {
    init();
    if (fd_tracked(fd)) {
        off_t off = lseek(fd, 0, SEEK_CUR);
        if (tick("write", fd, NULL, len)) {
            if (torn > 0 && torn < 4 && len > 1) {
                size_t part = len * torn / 4;
                if (part == 0) part = 1;
                real_write(fd, buf, part);
                note_write(fd, off, part);
            }
            die();
        }
        ssize_t r = real_write(fd, buf, len);
        if (r > 0) note_write(fd, off, (size_t)r);
        return r;
    }
    return real_write(fd, buf, len);
}

ssize_t pwrite64(int fd, const void *buf, size_t len, off_t off) {
    init();
    if (fd_tracked(fd)) {
        if (tick("pwrite", fd, NULL, len)) {
            if (torn > 0 && torn < 4 && len > 1) {
                size_t part = len * torn / 4;
                if (part == 0) part = 1;
                real_pwrite64(fd, buf, part, off);
                note_write(fd, off, part);
            }
            die();
        }
        ssize_t r = real_pwrite64(fd, buf, len, off);
        if (r > 0) note_write(fd, off, (size_t)r);
        return r;
    }
    return real_pwrite64(fd, buf, len, off);
}
ssize_t pwrite(int fd, const void *buf, size_t len, off_t off) { return pwrite64(fd, buf, len, off); }

int fsync(int fd) {
    init();
    if (fd_tracked(fd)) {
        if (tick("fsync", fd, NULL, 0)) die();
        int r = real_fsync(fd);
        note_sync(fd);
        return r;
    }
    return real_fsync(fd);
}

int fdatasync(int fd) {
    init();
    if (fd_tracked(fd)) {
        if (tick("fdatasync", fd, NULL, 0)) die();
        int r = real_fdatasync(fd);
        note_sync(fd);
        return r;
    }
    return real_fdatasync(fd);
}

int rename(const char *a, const char *b) {
    init();
    if (path_tracked(b) || path_tracked(a)) { if (tick("rename", -1, b, 0)) die(); }
    return real_rename(a, b);
}

int renameat(int afd, const char *a, int bfd, const char *b) {
    init();
    if (path_tracked(b) || path_tracked(a)) { if (tick("renameat", -1, b, 0)) die(); }
    return real_renameat(afd, a, bfd, b);
}

int ftruncate64(int fd, off_t len) {
    init();
    if (fd_tracked(fd)) { if (tick("ftruncate", fd, NULL, (size_t)len)) die(); }
    return real_ftruncate64(fd, len);
}
int ftruncate(int fd, off_t len) { return ftruncate64(fd, len); }

int unlink(const char *p) {
    init();
    if (path_tracked(p)) { if (tick("unlink", -1, p, 0)) die(); }
    return real_unlink(p);
}

int openat(int dfd, const char *p, int flags, ...) {
    init();
    mode_t mode = 0;
    if (flags & (O_CREAT | O_TMPFILE)) { va_list ap; va_start(ap, flags); mode = va_arg(ap, mode_t); va_end(ap); }
    if ((flags & O_CREAT) && dfd == AT_FDCWD && path_tracked(p)) { if (tick("creat", -1, p, 0)) die(); }
    return real_openat(dfd, p, flags, mode);
}
int openat64(int dfd, const char *p, int flags, ...) {
    init();
    mode_t mode = 0;
    if (flags & (O_CREAT | O_TMPFILE)) { va_list ap; va_start(ap, flags); mode = va_arg(ap, mode_t); va_end(ap); }
    if ((flags & O_CREAT) && dfd == AT_FDCWD && path_tracked(p)) { if (tick("creat", -1, p, 0)) die(); }
    return real_openat(dfd, p, flags, mode);
}
int open(const char *p, int flags, ...) {
    init();
    mode_t mode = 0;
    if (flags & (O_CREAT | O_TMPFILE)) { va_list ap; va_start(ap, flags); mode = va_arg(ap, mode_t); va_end(ap); }
    if ((flags & O_CREAT) && path_tracked(p)) { if (tick("creat", -1, p, 0)) die(); }
    return real_open(p, flags, mode);
}
int open64(const char *p, int flags, ...) {
    init();
    mode_t mode = 0;
    if (flags & (O_CREAT | O_TMPFILE)) { va_list ap; va_start(ap, flags); mode = va_arg(ap, mode_t); va_end(ap); }
    if ((flags & O_CREAT) && path_tracked(p)) { if (tick("creat", -1, p, 0)) die(); }
    return real_open(p, flags, mode);
}
