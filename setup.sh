#!/bin/sh
# MANIFEST.setup_cmd: build the framework from files on disk only (offline).
set -e
cd "$(dirname "$0")"
export CARGO_NET_OFFLINE=true
python3 - <<'PY'
from verif import build
import sys
bad = build.audit()
if bad:
    print("audit:", bad); sys.exit(1)
r = build.build_coq(None)
if r.get("failed"):
    print(r["make_log"]); sys.exit(1)
build.build_model()
print(build.build_harness())
print("setup ok")
PY
