//! Hook-free stress: many writers, last-id pollers and followers running freely on the
//! real Store. No sync points are used (no callback installed), so this is independent
//! of the model; the python oracles judge the output directly against the properties.
//!
//! usage: xsv stress <workdir> <out.json> <writers> <per_writer> <pollers> <seed>

use std::path::PathBuf;
use std::sync::atomic::{AtomicBool, AtomicUsize, Ordering};
use std::sync::Arc;
use std::time::{Duration, Instant};

use xs::store::{FollowOption, Frame, ReadOptions, Store, TTL, ZERO_CONTEXT};

use crate::common::id_hex;

struct Rng(u64);
impl Rng {
    fn next(&mut self) -> u64 {
        self.0 ^= self.0 << 13;
        self.0 ^= self.0 >> 7;
        self.0 ^= self.0 << 17;
        self.0
    }
}

pub fn main(args: &[String]) -> i32 {
    let workdir = PathBuf::from(&args[0]);
    let out = PathBuf::from(&args[1]);
    let n_writers: usize = args[2].parse().unwrap();
    let per_writer: usize = args[3].parse().unwrap();
    let n_pollers: usize = args[4].parse().unwrap();
    let seed: u64 = args[5].parse().unwrap();

    let store = Store::new(workdir.join("store"));
    let rt = tokio::runtime::Builder::new_multi_thread()
        .worker_threads(8)
        .enable_all()
        .build()
        .unwrap();

    // two extra contexts + some history
    let c1 = store
        .append(Frame::builder("xs.context", ZERO_CONTEXT).build())
        .unwrap()
        .id;
    let c2 = store
        .append(Frame::builder("xs.context", ZERO_CONTEXT).build())
        .unwrap()
        .id;
    let ctxs = vec![ZERO_CONTEXT, c1, c2];
    for i in 0..7 {
        store
            .append(Frame::builder("hist", ctxs[i % 3]).build())
            .unwrap();
    }
    let hist_last = store.read_sync(None, None, None).last().map(|f| f.id);

    // followers: (name, options)
    let mut fspecs: Vec<(String, ReadOptions)> = vec![
        ("all".into(), ReadOptions::builder().follow(FollowOption::On).build()),
        (
            "ctx1".into(),
            ReadOptions::builder().follow(FollowOption::On).context_id(c1).build(),
        ),
        (
            "tail".into(),
            ReadOptions::builder().follow(FollowOption::On).tail(true).build(),
        ),
        (
            "limit5".into(),
            ReadOptions::builder().follow(FollowOption::On).limit(5).build(),
        ),
        (
            "limit9hb".into(),
            ReadOptions::builder()
                .follow(FollowOption::WithHeartbeat(Duration::from_millis(20)))
                .limit(9)
                .build(),
        ),
        (
            // a heartbeat subscriber without history: pulses are its own, and do not count against its limit
            "hb_tail_limit7".into(),
            ReadOptions::builder()
                .follow(FollowOption::WithHeartbeat(Duration::from_millis(15)))
                .tail(true)
                .limit(7)
                .build(),
        ),
        (
            "hb_tail".into(),
            ReadOptions::builder()
                .follow(FollowOption::WithHeartbeat(Duration::from_millis(15)))
                .tail(true)
                .context_id(c1)
                .build(),
        ),
        (
            "lastid".into(),
            ReadOptions::builder()
                .follow(FollowOption::On)
                .maybe_last_id(hist_last)
                .context_id(c2)
                .build(),
        ),
        (
            "tail_limit3_ctx2".into(),
            ReadOptions::builder()
                .follow(FollowOption::On)
                .tail(true)
                .limit(3)
                .context_id(c2)
                .build(),
        ),
    ];
    let _ = &mut fspecs;

    let done = Arc::new(AtomicBool::new(false));
    let appended = Arc::new(AtomicUsize::new(0));

    // start followers first (they subscribe before any writer runs)
    let mut fhandles = Vec::new();
    for (name, opts) in fspecs.iter().cloned() {
        let st = store.clone();
        let done = done.clone();
        let h = rt.spawn(async move {
            let (items, closed) = follow(st, opts, done, 0).await;
            (name, items, closed)
        });
        fhandles.push(h);
    }
    // make sure every follower has subscribed: give the runtime a moment
    std::thread::sleep(Duration::from_millis(150));

    // pollers
    let mut phandles = Vec::new();
    for _ in 0..n_pollers {
        let st = store.clone();
        let done = done.clone();
        phandles.push(std::thread::spawn(move || {
            let mut acc: Vec<String> = Vec::new();
            let mut last = None;
            loop {
                let finished = done.load(Ordering::SeqCst);
                let fs: Vec<Frame> = st.read_sync(last.as_ref(), None, None).collect();
                for f in &fs {
                    acc.push(id_hex(&f.id));
                }
                if let Some(f) = fs.last() {
                    last = Some(f.id);
                }
                if finished {
                    break;
                }
                std::thread::yield_now();
            }
            acc
        }));
    }

    // writers
    let t0 = Instant::now();
    let mut whandles = Vec::new();
    for w in 0..n_writers {
        let st = store.clone();
        let ctxs = ctxs.clone();
        let appended = appended.clone();
        whandles.push(std::thread::spawn(move || {
            let mut rng = Rng(seed.wrapping_mul(0x9E3779B97F4A7C15).wrapping_add(w as u64 + 1) | 1);
            let mut eph = Vec::new();
            for i in 0..per_writer {
                let c = ctxs[(rng.next() % 3) as usize];
                let is_eph = rng.next() % 5 == 0;
                let b = Frame::builder(format!("w{}", w), c);
                let f = if is_eph { b.ttl(TTL::Ephemeral).build() } else { b.build() };
                match st.append(f) {
                    Ok(f) => {
                        if is_eph {
                            eph.push(format!("{}:{}", id_hex(&f.id), id_hex(&f.context_id)));
                        }
                        appended.fetch_add(1, Ordering::SeqCst);
                    }
                    Err(e) => panic!("append failed: {e} ({i})"),
                }
            }
            eph
        }));
    }
    // late followers join in the middle of the burst and consume their first items slowly: their historical
    // replay is still running while stored and ephemeral frames keep arriving (the history -> live hand-off)
    let total = n_writers * per_writer;
    while appended.load(Ordering::SeqCst) < total / 3 {
        std::thread::sleep(Duration::from_millis(1));
    }
    for (name, opts) in [
        ("late_all".to_string(), ReadOptions::builder().follow(FollowOption::On).build()),
        ("late_ctx1".to_string(), ReadOptions::builder().follow(FollowOption::On).context_id(c1).build()),
    ] {
        let st = store.clone();
        let done = done.clone();
        fhandles.push(rt.spawn(async move {
            let (items, closed) = follow(st, opts, done, 150).await;
            (name, items, closed)
        }));
    }
    let mut ephemeral: Vec<String> = Vec::new();
    for h in whandles {
        ephemeral.extend(h.join().unwrap());
    }
    let write_s = t0.elapsed().as_secs_f64();
    done.store(true, Ordering::SeqCst);
    let pollers: Vec<Vec<String>> = phandles.into_iter().map(|h| h.join().unwrap()).collect();
    let followers: Vec<(String, Vec<String>, bool)> = rt.block_on(async {
        let mut v = Vec::new();
        for h in fhandles {
            v.push(h.await.unwrap());
        }
        v
    });
    let final_all: Vec<String> = store
        .read_sync(None, None, None)
        .map(|f| format!("{}:{}", id_hex(&f.id), id_hex(&f.context_id)))
        .collect();

    let j = serde_json::json!({
        "contexts": ctxs.iter().map(id_hex).collect::<Vec<_>>(),
        "hist_last": hist_last.map(|i| id_hex(&i)),
        "final": final_all,
        "ephemeral": ephemeral,
        "pollers": pollers,
        "followers": followers.iter().map(|(n, i, c)| serde_json::json!({"name": n, "items": i, "closed": c})).collect::<Vec<_>>(),
        "appended": appended.load(Ordering::SeqCst),
        "write_s": write_s,
    });
    std::fs::write(out, serde_json::to_vec(&j).unwrap()).unwrap();
    unsafe { libc::_exit(0) }
}


/// one follower: everything it is sent until the stream closes or the writers are done and nothing
/// arrives any more; the first `slow_first` items are consumed slowly (stretches the historical replay
/// through the reader channel's back-pressure)
async fn follow(st: Store, opts: ReadOptions, done: Arc<AtomicBool>, slow_first: usize) -> (Vec<String>, bool) {
    let mut rx = st.read(opts).await;
    let mut items: Vec<String> = Vec::new();
    let mut closed = false;
    let label = |f: &Frame| {
        if f.topic == "xs.threshold" {
            "t".to_string()
        } else if f.topic == "xs.pulse" {
            "p".to_string()
        } else {
            format!("r:{}:{}", id_hex(&f.id), id_hex(&f.context_id))
        }
    };
    let mut last_real = Instant::now();
    loop {
        if items.len() < slow_first {
            tokio::time::sleep(Duration::from_millis(2)).await;
        }
        // a heartbeat subscriber never sees a quiet channel: it is done when the writers are and only pulses arrive
        if done.load(Ordering::SeqCst) && last_real.elapsed() > Duration::from_millis(450) {
            break;
        }
        match tokio::time::timeout(Duration::from_millis(50), rx.recv()).await {
            Ok(Some(f)) => {
                if f.topic != "xs.pulse" {
                    last_real = Instant::now();
                }
                items.push(label(&f))
            }
            Ok(None) => {
                closed = true;
                break;
            }
            Err(_) => {
                if done.load(Ordering::SeqCst) {
                    // writers finished and nothing arrived for a while: one more grace period
                    match tokio::time::timeout(Duration::from_millis(400), rx.recv()).await {
                        Ok(Some(f)) => items.push(label(&f)),
                        Ok(None) => {
                            closed = true;
                            break;
                        }
                        Err(_) => break,
                    }
                }
            }
        }
    }
    (items, closed)
}
