//! Engine C: replay a model-generated schedule on the real code. Threads park at the
//! verification sync points; every `go` line releases one entity and states where the
//! model says entities arrive next. Arrivals are waited for with a long timeout
//! (a slow machine never causes a false alarm); non-arrival ("blocked") is checked with a
//! short one (a slow machine can only cause a missed detection).

use std::cell::RefCell;
use std::collections::HashMap;
use std::io::Write;
use std::path::PathBuf;
use std::sync::{Arc, Condvar, Mutex};
use std::time::{Duration, Instant};

use xs::store::{FollowOption, Frame, ReadOptions, Store, TTL};

#[derive(Clone, Debug, PartialEq, Eq, Hash)]
enum Ent {
    W(usize),
    FC(usize), // follower caller
    FH(usize), // history thread
    FL(usize), // live task
}

impl Ent {
    fn name(&self) -> String {
        match self {
            Ent::W(i) => format!("W{i}"),
            Ent::FC(k) => format!("F{k}C"),
            Ent::FH(k) => format!("F{k}H"),
            Ent::FL(k) => format!("F{k}L"),
        }
    }
}

#[derive(Clone, Debug, PartialEq)]
enum Park {
    Running,
    Parked(String), // "point#rank" or "point"
    Released,
}

#[derive(Default)]
struct World {
    free: std::collections::HashSet<usize>, // writers running without parking
    free_f: std::collections::HashSet<usize>, // followers whose threads run without parking
    park: HashMap<Ent, Park>,
    arrivals: Vec<(Ent, String)>, // log of arrivals since last drain
    ranks: HashMap<u128, usize>,
    next_rank: usize,
    tag2f: HashMap<u64, usize>,
    finished: HashMap<Ent, bool>,
}

struct Shared {
    m: Mutex<World>,
    cv: Condvar,
}

thread_local! {
    static ACTOR: RefCell<Option<Ent>> = RefCell::new(None);
}

fn rank_of(w: &mut World, f: &Frame) -> usize {
    let id = f.id.to_u128();
    if let Some(r) = w.ranks.get(&id) {
        return *r;
    }
    let r = w.next_rank;
    w.next_rank += 1;
    w.ranks.insert(id, r);
    r
}

fn install(sh: Arc<Shared>) {
    xs::verif::set_callback(Some(Arc::new(move |name, tag, frame| {
        let actor = ACTOR.with(|a| a.borrow().clone());
        let mut w = sh.m.lock().unwrap();
        // rank bookkeeping: ids are ranked in order of assignment
        if name == "append.after_id" {
            if let Some(f) = frame {
                rank_of(&mut w, f);
            }
        }
        let ent = match name {
            "append.enter" | "append.after_id" | "append.after_commit" | "append.after_broadcast" => {
                match actor {
                    Some(Ent::W(i)) => {
                        if w.free.contains(&i) {
                            return;
                        }
                        Ent::W(i)
                    }
                    _ => return,
                }
            }
            "read.after_subscribe" => match actor {
                Some(Ent::FC(k)) => {
                    w.tag2f.insert(tag, k);
                    Ent::FC(k)
                }
                _ => return,
            },
            "read.hist.before_send" | "read.hist.before_threshold" | "read.hist.before_done" => {
                match w.tag2f.get(&tag) {
                    Some(k) if w.free_f.contains(k) => return,
                    Some(k) => Ent::FH(*k),
                    None => return,
                }
            }
            "read.live.after_recv" | "read.live.after_send" => match w.tag2f.get(&tag) {
                Some(k) if w.free_f.contains(k) => return,
                Some(k) => Ent::FL(*k),
                None => return,
            },
            _ => return,
        };
        let short = name.rsplit('.').next().unwrap();
        let label = match (name, frame) {
            ("append.enter", _) => short.to_string(),
            ("read.after_subscribe", _) | ("read.hist.before_threshold", _) | ("read.hist.before_done", _)
            | ("read.live.after_send", _) => short.to_string(),
            (_, Some(f)) => {
                let known = w.ranks.contains_key(&f.id.to_u128());
                if known {
                    format!("{}#{}", short, w.ranks[&f.id.to_u128()])
                } else {
                    format!("{}#?", short)
                }
            }
            (_, None) => short.to_string(),
        };
        w.park.insert(ent.clone(), Park::Parked(label.clone()));
        w.arrivals.push((ent.clone(), label));
        sh.cv.notify_all();
        loop {
            if w.park.get(&ent) == Some(&Park::Released) {
                w.park.insert(ent.clone(), Park::Running);
                break;
            }
            w = sh.cv.wait(w).unwrap();
        }
    })));
}

struct Follower {
    rx: Arc<Mutex<Option<tokio::sync::mpsc::Receiver<Frame>>>>,
    ctx_scope: Option<usize>,
}

pub fn main(args: &[String]) -> i32 {
    if args.len() < 3 {
        eprintln!("usage: xsv sched <schedule> <workdir> <out>");
        return 2;
    }
    let sched = std::fs::read_to_string(&args[0]).expect("schedule");
    let workdir = PathBuf::from(&args[1]);
    let mut out = std::fs::File::create(&args[2]).expect("out");
    let short_ms: u64 = std::env::var("XSV_SHORT_MS").ok().and_then(|s| s.parse().ok()).unwrap_or(250);
    let long = Duration::from_millis(
        std::env::var("XSV_LONG_MS").ok().and_then(|s| s.parse().ok()).unwrap_or(30000),
    );

    let sh = Arc::new(Shared {
        m: Mutex::new(World::default()),
        cv: Condvar::new(),
    });
    install(sh.clone());
    let store = Store::new(workdir.join("store"));
    let rt = tokio::runtime::Builder::new_multi_thread()
        .worker_threads(8)
        .enable_all()
        .build()
        .unwrap();

    let mut ctxs: Vec<u128> = vec![0];
    let mut followers: HashMap<usize, Follower> = HashMap::new();
    let mut fopts: HashMap<usize, (ReadOptions, Option<usize>)> = HashMap::new();
    let mut wpayloads: HashMap<usize, Vec<(usize, bool, bool)>> = HashMap::new();
    let mut poll_last: HashMap<usize, Option<scru128::Scru128Id>> = HashMap::new();
    let mut mismatches = 0usize;

    let ctx_idx_of = |ctxs: &Vec<u128>, id: u128| ctxs.iter().position(|c| *c == id);

    for (ln, line) in sched.lines().enumerate() {
        let line = line.trim();
        if line.is_empty() || line.starts_with("//") {
            continue;
        }
        let toks: Vec<&str> = line.split_whitespace().collect();
        match toks[0] {
            "ctx" => {
                let f = store
                    .append(Frame::builder("xs.context", xs::store::ZERO_CONTEXT).build())
                    .expect("ctx");
                ctxs.push(f.id.to_u128());
            }
            "pre" => {
                let c: usize = toks[1].parse().unwrap();
                let n: usize = toks.get(2).map(|s| s.parse().unwrap()).unwrap_or(1);
                for _ in 0..n {
                    store
                        .append(Frame::builder("t", crate::common::id_from_u128(ctxs[c])).build())
                        .expect("pre");
                }
            }
            "writer" => {
                let w: usize = toks[1].parse().unwrap();
                let mut ps = Vec::new();
                for p in &toks[2..] {
                    let (p, reps) = match p.split_once('*') {
                        Some((a, n)) => (a, n.parse::<usize>().unwrap()),
                        None => (*p, 1),
                    };
                    let parts: Vec<&str> = p.split(':').collect();
                    for _ in 0..reps {
                        ps.push((parts[0].parse::<usize>().unwrap(), parts[1] == "e", parts[2] == "ok"));
                    }
                }
                wpayloads.insert(w, ps);
            }
            "follower" => {
                let k: usize = toks[1].parse().unwrap();
                let follow = toks[2] == "1";
                let tail = toks[3] == "1";
                let last = if toks[4] == "-" {
                    None
                } else {
                    let r: usize = toks[4].parse().unwrap();
                    let w = sh.m.lock().unwrap();
                    w.ranks
                        .iter()
                        .find(|(_, v)| **v == r)
                        .map(|(id, _)| crate::common::id_from_u128(*id))
                };
                let limit: Option<usize> = if toks[5] == "-" { None } else { Some(toks[5].parse().unwrap()) };
                let ctx: Option<usize> = if toks[6] == "-" { None } else { Some(toks[6].parse().unwrap()) };
                let pulse: Option<u64> = if toks[7] == "-" { None } else { Some(toks[7].parse().unwrap()) };
                let fo = if !follow {
                    FollowOption::Off
                } else if let Some(ms) = pulse {
                    FollowOption::WithHeartbeat(Duration::from_millis(ms))
                } else {
                    FollowOption::On
                };
                let opts = ReadOptions::builder()
                    .follow(fo)
                    .tail(tail)
                    .maybe_last_id(last)
                    .maybe_limit(limit)
                    .maybe_context_id(ctx.map(|c| crate::common::id_from_u128(ctxs[c])))
                    .build();
                fopts.insert(k, (opts, ctx));
            }
            "poller" => {
                poll_last.insert(toks[1].parse().unwrap(), None);
            }
            "sleep" => std::thread::sleep(Duration::from_millis(toks[1].parse().unwrap())),
            "go" => {
                // go <label> <idx> => <expectations...>
                let label = toks[1];
                let idx: usize = toks[2].parse().unwrap();
                let exp: Vec<&str> = toks.iter().skip_while(|t| **t != "=>").skip(1).cloned().collect();
                let mut actual: Vec<String> = Vec::new();
                match label {
                    "enter" | "tryenter" | "burst" => {
                        if label == "burst" {
                            sh.m.lock().unwrap().free.insert(idx);
                        }
                        let first = {
                            let w = sh.m.lock().unwrap();
                            !w.park.contains_key(&Ent::W(idx))
                        };
                        if first {
                            // spawn the writer thread; it parks at append.enter at once
                            let ps = wpayloads.get(&idx).cloned().unwrap_or_default();
                            let st = store.clone();
                            let cx = ctxs.clone();
                            let sh2 = sh.clone();
                            std::thread::spawn(move || {
                                ACTOR.with(|a| *a.borrow_mut() = Some(Ent::W(idx)));
                                for (c, eph, ok) in ps {
                                    let ctx = if ok { cx[c] } else { 0xdead_beef_u128 };
                                    let mut b = Frame::builder("t", crate::common::id_from_u128(ctx));
                                    let f = if eph { b.ttl(TTL::Ephemeral).build() } else { b.build() };
                                    let _ = st.append(f);
                                }
                                let mut w = sh2.m.lock().unwrap();
                                w.finished.insert(Ent::W(idx), true);
                                w.park.insert(Ent::W(idx), Park::Parked("done".into()));
                                w.arrivals.push((Ent::W(idx), "done".into()));
                                sh2.cv.notify_all();
                            });
                            if label != "burst" {
                                wait_parked(&sh, &Ent::W(idx), "enter", long);
                                sh.m.lock().unwrap().arrivals.retain(|(e, _)| *e != Ent::W(idx));
                            }
                        }
                        release(&sh, &Ent::W(idx));
                    }
                    "commit" | "bcast" | "release" => release(&sh, &Ent::W(idx)),
                    "subscribe" => {
                        let (opts, ctx) = fopts.get(&idx).cloned().expect("follower opts");
                        let slot = Arc::new(Mutex::new(None));
                        followers.insert(
                            idx,
                            Follower {
                                rx: slot.clone(),
                                ctx_scope: ctx,
                            },
                        );
                        let st = store.clone();
                        let h = rt.handle().clone();
                        std::thread::spawn(move || {
                            ACTOR.with(|a| *a.borrow_mut() = Some(Ent::FC(idx)));
                            let rx = h.block_on(async move { st.read(opts).await });
                            *slot.lock().unwrap() = Some(rx);
                        });
                    }
                    "start" => release(&sh, &Ent::FC(idx)),
                    "hist" => release(&sh, &Ent::FH(idx)),
                    "live" => release(&sh, &Ent::FL(idx)),
                    "consume" => {
                        let f = followers.get(&idx).expect("follower");
                        let deadline = Instant::now() + long;
                        let item = loop {
                            let mut g = f.rx.lock().unwrap();
                            if let Some(rx) = g.as_mut() {
                                match rx.try_recv() {
                                    Ok(fr) => break Some(fr),
                                    Err(tokio::sync::mpsc::error::TryRecvError::Disconnected) => break None,
                                    Err(_) => {}
                                }
                            }
                            drop(g);
                            if Instant::now() > deadline {
                                break None;
                            }
                            std::thread::sleep(Duration::from_millis(2));
                        };
                        let s = match item {
                            None => "item:none".to_string(),
                            Some(fr) if fr.topic == "xs.threshold" => "item:threshold".into(),
                            Some(fr) if fr.topic == "xs.pulse" => "item:pulse".into(),
                            Some(fr) => {
                                let mut w = sh.m.lock().unwrap();
                                let known = w.ranks.contains_key(&fr.id.to_u128());
                                let c = ctx_idx_of(&ctxs, fr.context_id.to_u128())
                                    .map(|c| c.to_string())
                                    .unwrap_or("?".into());
                                if known {
                                    format!("item:real#{}@{}", rank_of(&mut w, &fr), c)
                                } else {
                                    format!("item:real#?@{}", c)
                                }
                            }
                        };
                        let _ = f.ctx_scope;
                        actual.push(s);
                    }
                    "drain" => {
                        // not a model step: let the follower's threads run freely and take whatever
                        // it still gets for a while
                        {
                            let mut w = sh.m.lock().unwrap();
                            w.free_f.insert(idx);
                            for e in [Ent::FH(idx), Ent::FL(idx)] {
                                if let Some(Park::Parked(_)) = w.park.get(&e) {
                                    w.park.insert(e, Park::Released);
                                }
                            }
                            w.arrivals.retain(|(e, _)| *e != Ent::FH(idx) && *e != Ent::FL(idx));
                            sh.cv.notify_all();
                        }
                        let f = followers.get(&idx).expect("follower");
                        let mut last = Instant::now();
                        let mut items: Vec<String> = Vec::new();
                        while last.elapsed() < Duration::from_millis(400) && items.len() < 3000 {
                            let mut g = f.rx.lock().unwrap();
                            if let Some(rx) = g.as_mut() {
                                match rx.try_recv() {
                                    Ok(fr) => {
                                        last = Instant::now();
                                        let mut w = sh.m.lock().unwrap();
                                        if fr.topic == "xs.threshold" || fr.topic == "xs.pulse" {
                                            items.push(format!("item:{}", &fr.topic[3..]));
                                        } else {
                                            let c = ctx_idx_of(&ctxs, fr.context_id.to_u128()).map(|c| c.to_string()).unwrap_or("?".into());
                                            items.push(format!("item:real#{}@{}", rank_of(&mut w, &fr), c));
                                        }
                                    }
                                    Err(tokio::sync::mpsc::error::TryRecvError::Disconnected) => break,
                                    Err(_) => {}
                                }
                            }
                            drop(g);
                            std::thread::sleep(Duration::from_millis(1));
                        }
                        actual.extend(items);
                    }
                    "probe" => {
                        // expected: closed (senders gone, queue empty) | draining (senders gone,
                        // items pending) | open (a sender is alive). Never consumes an item.
                        let want = exp.first().cloned().unwrap_or("open");
                        let f = followers.get(&idx).expect("follower");
                        let deadline = Instant::now()
                            + if want == "open" { Duration::from_millis(short_ms) } else { long };
                        let st = loop {
                            let g = f.rx.lock().unwrap();
                            let cur = match g.as_ref() {
                                Some(rx) => {
                                    if rx.is_closed() {
                                        if rx.is_empty() { "closed" } else { "draining" }
                                    } else {
                                        "open"
                                    }
                                }
                                None => "open",
                            };
                            drop(g);
                            if (want != "open" && cur == want) || Instant::now() > deadline {
                                break cur.to_string();
                            }
                            std::thread::sleep(Duration::from_millis(2));
                        };
                        actual.push(st);
                    }
                    "poll" => {
                        let last = poll_last.get(&idx).cloned().flatten();
                        let fs: Vec<Frame> = store.read_sync(last.as_ref(), None, None).collect();
                        if let Some(l) = fs.last() {
                            poll_last.insert(idx, Some(l.id));
                        }
                        let mut w = sh.m.lock().unwrap();
                        let mut s = String::from("frames");
                        for f in &fs {
                            s.push_str(&format!(":#{}", rank_of(&mut w, f)));
                        }
                        actual.push(s);
                    }
                    other => panic!("unknown label {other}"),
                }
                // wait for the expected arrivals
                let mut ok = true;
                let arrivals_expected: Vec<&str> = exp
                    .iter()
                    .filter(|e| e.contains('@') && !e.starts_with("item:"))
                    .cloned()
                    .collect();
                let blocked_expected: Vec<&str> = exp.iter().filter(|e| e.ends_with("!blocked")).cloned().collect();
                for e in &arrivals_expected {
                    let (ename, point) = e.split_once('@').unwrap();
                    let got = wait_arrival(&sh, ename, long);
                    match got {
                        Some(p) if p == point => actual.push(format!("{ename}@{p}")),
                        Some(p) => {
                            ok = false;
                            actual.push(format!("{ename}@{p}"));
                        }
                        None => {
                            ok = false;
                            actual.push(format!("{ename}@MISSING"));
                        }
                    }
                }
                for e in &blocked_expected {
                    let ename = e.trim_end_matches("!blocked");
                    let got = wait_arrival(&sh, ename, Duration::from_millis(short_ms));
                    match got {
                        None => actual.push(format!("{ename}!blocked")),
                        Some(p) => {
                            ok = false;
                            actual.push(format!("{ename}@{p}"));
                        }
                    }
                }
                // data expectations (items, polls, probes) compare textually
                for e in exp.iter().filter(|e| {
                    e.starts_with("item:") || e.starts_with("frames") || **e == "closed" || **e == "open" || **e == "draining"
                }) {
                    if !actual.iter().any(|a| a == e) {
                        ok = false;
                    }
                }
                // unexpected arrivals so far (entities the model did not mention)
                {
                    let mut w = sh.m.lock().unwrap();
                    for (ent, p) in w.arrivals.drain(..) {
                        ok = false;
                        actual.push(format!("{}@{}(unexpected)", ent.name(), p));
                    }
                }
                if ok {
                    writeln!(out, "ok {} | {}", ln, actual.join(" ")).unwrap();
                } else {
                    mismatches += 1;
                    writeln!(out, "MISMATCH {} | {} | expected {} | actual {}", ln, line, exp.join(" "), actual.join(" "))
                        .unwrap();
                    if mismatches >= 1 && std::env::var("XSV_CONTINUE").is_err() {
                        break; // after the first divergence the schedule is meaningless
                    }
                }
            }
            other => panic!("unknown command {other}"),
        }
    }
    writeln!(out, "END mismatches={}", mismatches).unwrap();
    out.flush().unwrap();
    unsafe { libc::_exit(0) }
}

fn release(sh: &Arc<Shared>, ent: &Ent) {
    let mut w = sh.m.lock().unwrap();
    if let Some(Park::Parked(_)) = w.park.get(ent) {
        w.park.insert(ent.clone(), Park::Released);
        sh.cv.notify_all();
    }
}

fn wait_parked(sh: &Arc<Shared>, ent: &Ent, point: &str, timeout: Duration) -> bool {
    let deadline = Instant::now() + timeout;
    let mut w = sh.m.lock().unwrap();
    loop {
        if let Some(Park::Parked(p)) = w.park.get(ent) {
            if p.starts_with(point) {
                return true;
            }
        }
        let now = Instant::now();
        if now >= deadline {
            return false;
        }
        w = sh.cv.wait_timeout(w, deadline - now).unwrap().0;
    }
}

/// wait until entity `name` has an arrival in the log; returns the point
fn wait_arrival(sh: &Arc<Shared>, name: &str, timeout: Duration) -> Option<String> {
    let deadline = Instant::now() + timeout;
    let mut w = sh.m.lock().unwrap();
    loop {
        if let Some(pos) = w.arrivals.iter().position(|(e, _)| e.name() == name) {
            let (_, p) = w.arrivals.remove(pos);
            return Some(p);
        }
        let now = Instant::now();
        if now >= deadline {
            return None;
        }
        w = sh.cv.wait_timeout(w, deadline - now).unwrap().0;
    }
}
