//! Engine S, codec mode: the real TTL / ReadOptions parsers and printers on strings read from stdin.
//!   ttl <xhex>         parse_ttl(s) and the serde JSON deserializer of TTL on the same string
//!   ttlq <xhex>        TTL::from_query(Some(q))
//!   ttl2s <canon ttl>  to_query() and the JSON serialisation
//!   ro <xhex>          ReadOptions::from_query(Some(q))
//!   ro2q <follow> <tail> <last|-> <limit|-> <ctx|->   to_query_string()

use std::io::{BufRead, Write};
use std::time::Duration;

use xs::store::{parse_ttl, FollowOption, ReadOptions, TTL};

use crate::common::*;

fn ro_canon(o: &ReadOptions) -> String {
    let f = match &o.follow {
        FollowOption::Off => "off".to_string(),
        FollowOption::On => "on".to_string(),
        FollowOption::WithHeartbeat(d) => format!("hb:{:x}", d.as_millis()),
    };
    format!(
        "ok follow={} tail={} last={} limit={} ctx={}",
        f,
        if o.tail { 1 } else { 0 },
        o.last_id.map(|i| id_hex(&i)).unwrap_or("-".into()),
        o.limit.map(|l| format!("{:x}", l)).unwrap_or("-".into()),
        o.context_id.map(|i| id_hex(&i)).unwrap_or("-".into())
    )
}

pub fn main(_args: &[String]) -> i32 {
    let stdin = std::io::stdin();
    let out = std::io::stdout();
    let mut out = out.lock();
    for line in stdin.lock().lines() {
        let line = line.unwrap();
        let toks: Vec<&str> = line.split_whitespace().collect();
        if toks.is_empty() {
            continue;
        }
        let res = std::panic::catch_unwind(|| match toks[0] {
            "ttl" => {
                let s = String::from_utf8_lossy(&unxhex(toks[1])).to_string();
                let a = parse_ttl(&s).ok();
                let j: Option<TTL> = serde_json::from_value(serde_json::Value::String(s.clone())).ok();
                let both = if a == j { "" } else { " json-differs" };
                match a {
                    Some(t) => format!("ok {}{}", ttl_str(&Some(t)), both),
                    None => format!("err{}", both),
                }
            }
            "ttlq" => {
                let s = String::from_utf8_lossy(&unxhex(toks[1])).to_string();
                match TTL::from_query(Some(&s)) {
                    Ok(t) => format!("ok {}", ttl_str(&Some(t))),
                    Err(_) => "err".into(),
                }
            }
            "ttl2s" => {
                let t = ttl_parse(toks[1]).unwrap();
                let q = t.to_query();
                let j = serde_json::to_string(&t).unwrap();
                format!("q={} j={}", xhex(q.as_bytes()), xhex(j.as_bytes()))
            }
            "ro" => {
                let s = String::from_utf8_lossy(&unxhex(toks[1])).to_string();
                match ReadOptions::from_query(Some(&s)) {
                    Ok(o) => ro_canon(&o),
                    Err(_) => "err".into(),
                }
            }
            "ro2q" => {
                let follow = match toks[1] {
                    "off" => FollowOption::Off,
                    "on" => FollowOption::On,
                    hb => FollowOption::WithHeartbeat(Duration::from_millis(
                        u64::from_str_radix(&hb[3..], 16).unwrap(),
                    )),
                };
                let id = |t: &str| {
                    if t == "-" {
                        None
                    } else {
                        Some(id_from_u128(u128::from_str_radix(t, 16).unwrap()))
                    }
                };
                let o = ReadOptions::builder()
                    .follow(follow)
                    .tail(toks[2] == "1")
                    .maybe_last_id(id(toks[3]))
                    .maybe_limit(if toks[4] == "-" { None } else { Some(usize::from_str_radix(toks[4], 16).unwrap()) })
                    .maybe_context_id(id(toks[5]))
                    .build();
                let q = o.to_query_string();
                // the implementation's own round trip
                let back = ReadOptions::from_query(if q.is_empty() { None } else { Some(&q) })
                    .map(|b| if b == o { "same" } else { "DIFFERENT" })
                    .unwrap_or("REJECTED");
                format!("q={} roundtrip={}", xhex(q.as_bytes()), back)
            }
            _ => "?".into(),
        });
        writeln!(out, "{}", res.unwrap_or_else(|_| "panic".into())).unwrap();
    }
    0
}
