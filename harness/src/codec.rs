//! Engine S, codec mode: the real TTL / ReadOptions parsers and printers on strings read from stdin.
//!   ttl <xhex>         parse_ttl(s) and the serde JSON deserializer of TTL on the same string
//!   ttlq <xhex>        TTL::from_query(Some(q))
//!   ttl2s <canon ttl>  to_query() and the JSON serialisation
//!   ro <xhex>          ReadOptions::from_query(Some(q))
//!   ro2q <follow> <tail> <last|-> <limit|-> <ctx|->   to_query_string()

use std::io::{BufRead, Write};
use std::time::Duration;

use xs::store::{parse_ttl, FollowOption, ReadOptions, TTL};

use crate::common::*;

fn ro_canon(o: &ReadOptions) -> String {
    let f = match &o.follow {
        FollowOption::Off => "off".to_string(),
        FollowOption::On => "on".to_string(),
        FollowOption::WithHeartbeat(d) => format!("hb:{:x}", d.as_millis()),
    };
    format!(
        "ok follow={} tail={} last={} limit={} ctx={}",
        f,
        if o.tail { 1 } else { 0 },
        o.last_id.map(|i| id_hex(&i)).unwrap_or("-".into()),
        o.limit.map(|l| format!("{:x}", l)).unwrap_or("-".into()),
        o.context_id.map(|i| id_hex(&i)).unwrap_or("-".into())
    )
}

static BASE: std::sync::OnceLock<std::path::PathBuf> = std::sync::OnceLock::new();
static PCOUNT: std::sync::atomic::AtomicUsize = std::sync::atomic::AtomicUsize::new(0);

pub fn main(args: &[String]) -> i32 {
    if let Some(p) = args.first() {
        let _ = BASE.set(std::path::PathBuf::from(p));
    }
    let stdin = std::io::stdin();
    let out = std::io::stdout();
    let mut out = out.lock();
    for line in stdin.lock().lines() {
        let line = line.unwrap();
        let toks: Vec<&str> = line.split_whitespace().collect();
        if toks.is_empty() {
            continue;
        }
        let res = std::panic::catch_unwind(std::panic::AssertUnwindSafe(|| match toks[0] {
            "ttl" => {
                let s = String::from_utf8_lossy(&unxhex(toks[1])).to_string();
                let a = parse_ttl(&s).ok();
                let j: Option<TTL> = serde_json::from_value(serde_json::Value::String(s.clone())).ok();
                let both = if a == j { "" } else { " json-differs" };
                match a {
                    Some(t) => format!("ok {}{}", ttl_str(&Some(t)), both),
                    None => format!("err{}", both),
                }
            }
            "ttlq" => {
                let s = String::from_utf8_lossy(&unxhex(toks[1])).to_string();
                match TTL::from_query(Some(&s)) {
                    Ok(t) => format!("ok {}", ttl_str(&Some(t))),
                    Err(_) => "err".into(),
                }
            }
            "ttl2s" => {
                let t = ttl_parse(toks[1]).unwrap();
                let q = t.to_query();
                let j = serde_json::to_string(&t).unwrap();
                format!("q={} j={}", xhex(q.as_bytes()), xhex(j.as_bytes()))
            }
            "ro" => {
                let s = String::from_utf8_lossy(&unxhex(toks[1])).to_string();
                match ReadOptions::from_query(Some(&s)) {
                    Ok(o) => ro_canon(&o),
                    Err(_) => "err".into(),
                }
            }
            "ro2q" => {
                let follow = match toks[1] {
                    "off" => FollowOption::Off,
                    "on" => FollowOption::On,
                    hb => FollowOption::WithHeartbeat(Duration::from_millis(
                        u64::from_str_radix(&hb[3..], 16).unwrap(),
                    )),
                };
                let id = |t: &str| {
                    if t == "-" {
                        None
                    } else {
                        Some(id_from_u128(u128::from_str_radix(t, 16).unwrap()))
                    }
                };
                let o = ReadOptions::builder()
                    .follow(follow)
                    .tail(toks[2] == "1")
                    .maybe_last_id(id(toks[3]))
                    .maybe_limit(if toks[4] == "-" { None } else { Some(usize::from_str_radix(toks[4], 16).unwrap()) })
                    .maybe_context_id(id(toks[5]))
                    .build();
                let q = o.to_query_string();
                // the implementation's own round trip
                let back = ReadOptions::from_query(if q.is_empty() { None } else { Some(&q) })
                    .map(|b| if b == o { "same" } else { "DIFFERENT" })
                    .unwrap_or("REJECTED");
                format!("q={} roundtrip={}", xhex(q.as_bytes()), back)
            }
            // serde_json text -> Value -> text
            "J" => match serde_json::from_slice::<serde_json::Value>(&unxhex(toks[1])) {
                Ok(v) => format!("OK {}", xhex(&serde_json::to_vec(&v).unwrap())),
                Err(_) => "ERR".into(),
            },
            // serde_json text -> Frame -> text (what deserialize_frame / the import route do)
            "F" => match serde_json::from_slice::<xs::store::Frame>(&unxhex(toks[1])) {
                Ok(f) => format!("OK {}", xhex(&serde_json::to_vec(&f).unwrap())),
                Err(_) => "ERR".into(),
            },
            // a frame whose meta is built in memory (as nu's value_to_json does), nested as the spec says
            // ('a' = array, 'o' = object, outside in), through Store::append and back through Store::get
            "P" => {
                let mut v = serde_json::Value::Null;
                for c in toks[1].chars().rev() {
                    v = match c {
                        'a' => serde_json::Value::Array(vec![v]),
                        'o' => serde_json::json!({ "k": v }),
                        _ => v,
                    };
                }
                // a poisoned store cannot be repaired through the API (remove reads the frame first): one store per line
                let n = PCOUNT.fetch_add(1, std::sync::atomic::Ordering::SeqCst);
                let base = BASE.get().expect("codec mode needs a scratch path for P lines");
                let store = xs::store::Store::new(base.join(format!("p{n}")));
                let frame = xs::store::Frame::builder("poison", xs::store::ZERO_CONTEXT).meta(v).build();
                let text = xhex(&serde_json::to_vec(&frame).unwrap());
                match store.append(frame) {
                    Err(_) => format!("rejected {}", text),
                    Ok(f) => {
                        let back = std::panic::catch_unwind(std::panic::AssertUnwindSafe(|| store.get(&f.id)));
                        match back {
                            Ok(Some(g)) if g == f => format!("accepted readable {}", text),
                            Ok(_) => format!("accepted DIFFERENT {}", text),
                            Err(_) => format!("accepted POISON {}", text),
                        }
                    }
                }
            }
            _ => "?".into(),
        }));
        writeln!(out, "{}", res.unwrap_or_else(|_| "panic".into())).unwrap();
    }
    0
}
