//! Canonical text forms shared by all engines (must match ocaml/driver.ml).

use scru128::Scru128Id;
use xs::store::{Frame, TTL};

pub fn id_hex(id: &Scru128Id) -> String {
    format!("{:032x}", id.to_u128())
}

pub fn id_from_u128(x: u128) -> Scru128Id {
    Scru128Id::from(x)
}

pub fn xhex(b: &[u8]) -> String {
    let mut s = String::with_capacity(1 + 2 * b.len());
    s.push('x');
    for c in b {
        s.push_str(&format!("{:02x}", c));
    }
    s
}

pub fn unxhex(s: &str) -> Vec<u8> {
    assert!(s.starts_with('x'), "bad xhex {s}");
    let h = &s[1..];
    (0..h.len() / 2)
        .map(|i| u8::from_str_radix(&h[2 * i..2 * i + 2], 16).expect("hex"))
        .collect()
}

pub fn ttl_str(t: &Option<TTL>) -> String {
    match t {
        None => "-".into(),
        Some(TTL::Forever) => "forever".into(),
        Some(TTL::Ephemeral) => "ephemeral".into(),
        Some(TTL::Time(d)) => format!("time:{:x}", d.as_millis()),
        Some(TTL::Head(n)) => format!("head:{:x}", n),
    }
}

/// script form: `-`, `forever`, `ephemeral`, `time:<hex ms>`, `head:<hex n>`
pub fn ttl_parse(s: &str) -> Option<TTL> {
    match s {
        "-" => None,
        "forever" => Some(TTL::Forever),
        "ephemeral" => Some(TTL::Ephemeral),
        _ if s.starts_with("time:") => Some(TTL::Time(std::time::Duration::from_millis(
            u64::from_str_radix(&s[5..], 16).expect("ttl ms"),
        ))),
        _ if s.starts_with("head:") => {
            Some(TTL::Head(u32::from_str_radix(&s[5..], 16).expect("ttl n")))
        }
        _ => panic!("bad ttl {s}"),
    }
}

pub fn frame_str(f: &Frame) -> String {
    format!(
        "{},{},{},{},{},{}",
        id_hex(&f.id),
        id_hex(&f.context_id),
        xhex(f.topic.as_bytes()),
        f.hash
            .as_ref()
            .map(|h| xhex(h.to_string().as_bytes()))
            .unwrap_or_else(|| "-".into()),
        f.meta
            .as_ref()
            .map(|m| xhex(serde_json::to_string(m).unwrap().as_bytes()))
            .unwrap_or_else(|| "-".into()),
        ttl_str(&f.ttl)
    )
}

pub fn frames_str(fs: &[Frame]) -> String {
    let mut s = format!("= frames {}", fs.len());
    for f in fs {
        s.push(' ');
        s.push_str(&frame_str(f));
    }
    s
}

pub fn opt_frame_str(f: &Option<Frame>) -> String {
    match f {
        None => "= none".into(),
        Some(f) => format!("= some {}", frame_str(f)),
    }
}
