//! Engines H and V: the real server (api::serve plus, optionally, the handler / generator /
//! command dispatchers) in-process on `<path>/sock`, with a side channel on stdin/stdout:
//!   dump  -> "DUMP <n> <frame> ..."   every stored frame, through the Rust API
//!   gc    -> wait for the GC worker to drain, prints "GC"
//!   quit
//! usage: xsv serve <store path> <api[,handlers][,generators][,commands]>

use std::io::{BufRead, Write};
use std::path::PathBuf;

use xs::store::{Frame, Store};

use crate::common::frames_str;

pub fn main(args: &[String]) -> i32 {
    let path = PathBuf::from(&args[0]);
    let services: Vec<&str> = args.get(1).map(|s| s.split(',').collect()).unwrap_or(vec!["api"]);
    let rt = tokio::runtime::Builder::new_multi_thread()
        .worker_threads(8)
        .enable_all()
        .build()
        .unwrap();
    // XSV_HOOK_SLEEP="<sync point>:<ms>[,...]": stretch a race window deterministically
    if let Ok(spec) = std::env::var("XSV_HOOK_SLEEP") {
        let table: Vec<(String, u64)> = spec
            .split(',')
            .filter_map(|e| e.split_once(':').map(|(n, ms)| (n.to_string(), ms.parse().unwrap_or(0))))
            .collect();
        xs::verif::set_callback(Some(std::sync::Arc::new(move |name, _tag, _frame| {
            for (n, ms) in &table {
                if n == name {
                    std::thread::sleep(std::time::Duration::from_millis(*ms));
                }
            }
        })));
    }
    // a stale socket file of a previous (killed) server must not be mistaken for readiness
    let _ = std::fs::remove_file(path.join("sock"));
    let store = Store::new(path.clone());
    let engine = xs::nu::Engine::new().expect("nu engine");
    rt.block_on(async {
        if services.contains(&"generators") {
            let (s, e) = (store.clone(), engine.clone());
            tokio::spawn(async move {
                let _ = xs::generators::serve(s, e).await;
            });
        }
        if services.contains(&"handlers") {
            let (s, e) = (store.clone(), engine.clone());
            tokio::spawn(async move {
                let _ = xs::handlers::serve(s, e).await;
            });
        }
        if services.contains(&"commands") {
            let (s, e) = (store.clone(), engine.clone());
            tokio::spawn(async move {
                let _ = xs::commands::serve(s, e).await;
            });
        }
        {
            let (s, e) = (store.clone(), engine.clone());
            tokio::spawn(async move {
                if let Err(e) = xs::api::serve(s, e, None).await {
                    eprintln!("api::serve ended: {e}");
                }
            });
        }
        // wait for the socket
        for _ in 0..2000 {
            if path.join("sock").exists() {
                break;
            }
            tokio::time::sleep(std::time::Duration::from_millis(5)).await;
        }
    });
    println!("READY");
    std::io::stdout().flush().unwrap();
    let stdin = std::io::stdin();
    for line in stdin.lock().lines() {
        let line = line.unwrap();
        match line.trim() {
            "dump" => {
                let fs: Vec<Frame> = store.read_sync(None, None, None).collect();
                println!("DUMP{}", &frames_str(&fs)[8..]);
            }
            "gc" => {
                rt.block_on(store.wait_for_gc());
                println!("GC");
            }
            "quit" => break,
            _ => println!("?"),
        }
        std::io::stdout().flush().unwrap();
    }
    unsafe { libc::_exit(0) }
}
