//! Engine S: run a script of store operations against the real Store, one op at a
//! time, with the clock and the GC worker under control of the script.
//! `reopen` is a real process restart (exec of ourselves on the same directory).

use std::io::Write;
use std::panic::{catch_unwind, AssertUnwindSafe};
use std::path::{Path, PathBuf};
use std::sync::{Arc, Condvar, Mutex};

use scru128::Scru128Id;
use xs::store::{FollowOption, Frame, ReadOptions, Store};

use crate::common::*;

const DUMMY_ID: u128 = 0xffff_ffff_ffff_ffff_ffff_ffff_ffff_fff0;

#[derive(Default)]
struct GateSt {
    permits: u64,
    enq: u64,
    done: u64,
}

pub struct Gate {
    m: Mutex<GateSt>,
    cv: Condvar,
}

impl Gate {
    pub fn install() -> Arc<Gate> {
        let gate = Arc::new(Gate {
            m: Mutex::new(GateSt::default()),
            cv: Condvar::new(),
        });
        let g = gate.clone();
        xs::verif::set_callback(Some(Arc::new(move |name, _tag, _frame| match name {
            "gc.enqueue" => {
                g.m.lock().unwrap().enq += 1;
            }
            "gc.before_task" => {
                let mut st = g.m.lock().unwrap();
                while st.permits == 0 {
                    st = g.cv.wait(st).unwrap();
                }
                st.permits -= 1;
            }
            "gc.after_task" => {
                g.m.lock().unwrap().done += 1;
                g.cv.notify_all();
            }
            _ => {}
        })));
        gate
    }

    /// let the collector run one task; -> number of tasks that were announced (hook gc.enqueue) but never
    /// reached the collector (0 unless the queue loses tasks)
    pub fn step(&self) -> u64 {
        let mut st = self.m.lock().unwrap();
        if st.enq == st.done {
            return 0;
        }
        let target = st.done + 1;
        st.permits += 1;
        self.cv.notify_all();
        while st.done < target {
            let (g, to) = self.cv.wait_timeout(st, std::time::Duration::from_secs(3)).unwrap();
            st = g;
            if to.timed_out() && st.done < target {
                let lost = st.enq - st.done;
                st.permits = 0;
                st.enq = st.done;
                return lost;
            }
        }
        0
    }

    /// let the collector run every task that was enqueued; -> number of enqueued tasks that never
    /// reached the collector (0 unless the queue loses tasks)
    pub fn drain(&self) -> u64 {
        let mut st = self.m.lock().unwrap();
        let target = st.enq;
        st.permits += st.enq - st.done;
        self.cv.notify_all();
        let mut last = st.done;
        while st.done < target {
            let (g, to) = self.cv.wait_timeout(st, std::time::Duration::from_secs(3)).unwrap();
            st = g;
            if to.timed_out() {
                if st.done == last {
                    // no task finished for 3 s although permits are available: the tasks are not in the queue
                    let lost = target - st.done;
                    st.permits = 0;
                    st.enq = st.done;
                    return lost;
                }
                last = st.done;
            }
        }
        0
    }
}

#[derive(serde::Serialize, serde::Deserialize)]
struct State {
    next: usize,
    ids: Vec<Option<String>>,
    now: u64,
}

fn id_expr(tok: &str, ids: &[Option<u128>]) -> Option<u128> {
    if tok == "-" {
        return None;
    }
    if let Some(h) = tok.strip_prefix('#') {
        return Some(u128::from_str_radix(h, 16).expect("id literal"));
    }
    let t = tok.strip_prefix('@').expect("id expr");
    let (k, off): (&str, i128) = if let Some(p) = t.find('+') {
        (&t[..p], t[p + 1..].parse::<i128>().unwrap())
    } else if let Some(p) = t.find('-') {
        (&t[..p], -t[p + 1..].parse::<i128>().unwrap())
    } else {
        (t, 0)
    };
    let base = ids[k.parse::<usize>().unwrap()].unwrap_or(7) as i128;
    Some((base.wrapping_add(off)) as u128)
}

fn opt_hex(x: Option<u128>) -> String {
    x.map(|v| format!("{:032x}", v)).unwrap_or_else(|| "-".into())
}

fn opt_tok<'a>(t: &'a str) -> Option<&'a str> {
    if t == "-" {
        None
    } else {
        Some(t)
    }
}

fn mk_frame(
    id: Option<u128>,
    ctx: u128,
    topic: &str,
    hash: Option<&str>,
    meta: Option<&str>,
    ttl: &str,
) -> Frame {
    let topic = String::from_utf8(unxhex(topic)).expect("topic utf8");
    let mut f = Frame::builder(topic, id_from_u128(ctx))
        .maybe_hash(hash.map(|h| {
            String::from_utf8(unxhex(h))
                .unwrap()
                .parse::<ssri::Integrity>()
                .expect("integrity")
        }))
        .maybe_meta(meta.map(|m| serde_json::from_slice(&unxhex(m)).expect("meta json")))
        .maybe_ttl(ttl_parse(ttl))
        .build();
    if let Some(id) = id {
        f.id = id_from_u128(id);
    }
    f
}

pub fn main(args: &[String]) -> i32 {
    if args.len() < 3 {
        eprintln!("usage: xsv seq <script> <workdir> <trace> [--resume]");
        return 2;
    }
    let script_path = PathBuf::from(&args[0]);
    let workdir = PathBuf::from(&args[1]);
    let trace_path = PathBuf::from(&args[2]);
    let resume = args.get(3).map(|s| s == "--resume").unwrap_or(false);
    let script = std::fs::read_to_string(&script_path).expect("script");
    let lines: Vec<&str> = script.lines().collect();

    let mut trace = std::fs::OpenOptions::new()
        .create(true)
        .append(true)
        .open(&trace_path)
        .expect("trace");

    let (start, mut ids, mut now): (usize, Vec<Option<u128>>, u64) = if resume {
        let st: State =
            serde_json::from_slice(&std::fs::read(workdir.join("state.json")).unwrap()).unwrap();
        (
            st.next,
            st.ids
                .iter()
                .map(|o| o.as_ref().map(|h| u128::from_str_radix(h, 16).unwrap()))
                .collect(),
            st.now,
        )
    } else {
        let now = std::time::SystemTime::now()
            .duration_since(std::time::UNIX_EPOCH)
            .unwrap()
            .as_millis() as u64;
        writeln!(trace, "NEW {:x}", now).unwrap();
        (0, vec![None; lines.len()], now)
    };


    xs::verif::set_now_ms(now);
    let gate = Gate::install();
    let store = Store::new(workdir.join("store"));
    let rt = tokio::runtime::Builder::new_multi_thread()
        .worker_threads(2)
        .enable_all()
        .build()
        .unwrap();

    for (ln, line) in lines.iter().enumerate().skip(start) {
        let toks: Vec<&str> = line.split_whitespace().collect();
        if toks.is_empty() || toks[0].starts_with("//") {
            continue;
        }
        let (op_echo, obs): (String, String) = match toks[0] {
            "append" => {
                // append <ctx> <topic> <content|-> <meta|-> <ttl>
                let ctx = id_expr(toks[1], &ids).unwrap_or(0);
                let hash: Option<String> = opt_tok(toks[3]).map(|c| {
                    xhex(
                        store
                            .cas_insert_sync(unxhex(c))
                            .expect("cas")
                            .to_string()
                            .as_bytes(),
                    )
                });
                let frame = mk_frame(None, ctx, toks[2], hash.as_deref(), opt_tok(toks[4]), toks[5]);
                let meta_echo = frame
                    .meta
                    .as_ref()
                    .map(|m| xhex(serde_json::to_string(m).unwrap().as_bytes()))
                    .unwrap_or_else(|| "-".into());
                writeln!(
                    trace,
                    "PRE append ? {:032x} {} {} {} {}",
                    ctx,
                    toks[2],
                    hash.as_deref().unwrap_or("-"),
                    meta_echo,
                    toks[5]
                )
                .unwrap();
                let r = catch_unwind(AssertUnwindSafe(|| store.append(frame)));
                let (id, obs) = match r {
                    Ok(Ok(f)) => {
                        ids[ln] = Some(f.id.to_u128());
                        (f.id.to_u128(), format!("= ok {}", frame_str(&f)))
                    }
                    // a rejected append never shows its id; echo a dummy one no frame has
                    Ok(Err(_)) => (DUMMY_ID, "= err".to_string()),
                    Err(_) => (DUMMY_ID, "= panic".to_string()),
                };
                (
                    format!(
                        "append {:032x} {:032x} {} {} {} {}",
                        id,
                        ctx,
                        toks[2],
                        hash.as_deref().unwrap_or("-"),
                        meta_echo,
                        toks[5]
                    ),
                    obs,
                )
            }
            "import" => {
                // import <id> <ctx> <topic> <hash|-> <meta|-> <ttl>
                let id = id_expr(toks[1], &ids).unwrap_or(0);
                let ctx = id_expr(toks[2], &ids).unwrap_or(0);
                let frame = mk_frame(Some(id), ctx, toks[3], opt_tok(toks[4]), opt_tok(toks[5]), toks[6]);
                let meta_echo = frame
                    .meta
                    .as_ref()
                    .map(|m| xhex(serde_json::to_string(m).unwrap().as_bytes()))
                    .unwrap_or_else(|| "-".into());
                writeln!(
                    trace,
                    "PRE import {:032x} {:032x} {} {} {} {}",
                    id, ctx, toks[3], toks[4], meta_echo, toks[6]
                )
                .unwrap();
                let r = catch_unwind(AssertUnwindSafe(|| store.insert_frame(&frame)));
                let obs = match r {
                    Ok(Ok(())) => {
                        ids[ln] = Some(id);
                        "= unit".to_string()
                    }
                    Ok(Err(_)) => "= err".to_string(),
                    Err(_) => "= panic".to_string(),
                };
                (
                    format!(
                        "import {:032x} {:032x} {} {} {} {}",
                        id, ctx, toks[3], toks[4], meta_echo, toks[6]
                    ),
                    obs,
                )
            }
            "remove" => {
                let id = id_expr(toks[1], &ids).unwrap_or(0);
                writeln!(trace, "PRE remove {:032x}", id).unwrap();
                let r = catch_unwind(AssertUnwindSafe(|| store.remove(&id_from_u128(id))));
                let obs = match r {
                    Ok(Ok(())) => "= unit",
                    Ok(Err(_)) => "= err",
                    Err(_) => "= panic",
                };
                (format!("remove {:032x}", id), obs.to_string())
            }
            "tick" => {
                now = now.saturating_add(toks[1].parse::<u64>().unwrap());
                xs::verif::set_now_ms(now);
                (format!("setnow {:x}", now), "= done".into())
            }
            "tickto" => {
                // tickto <idexpr> <ttl ms> <signed delta>: now := max(now, ts(id)+ttl+delta)
                let id = id_expr(toks[1], &ids).unwrap_or(0);
                let ts = (id >> 80) as i128;
                let target = ts + toks[2].parse::<i128>().unwrap() + toks[3].parse::<i128>().unwrap();
                let target = target.clamp(1, u64::MAX as i128) as u64;
                now = now.max(target);
                xs::verif::set_now_ms(now);
                (format!("setnow {:x}", now), "= done".into())
            }
            "gcstep" => {
                writeln!(trace, "PRE gcstep").unwrap();
                let lost = gate.step();
                if lost == 0 {
                    ("gcstep".into(), "= done".into())
                } else {
                    ("gcstep".into(), format!("= {} collector tasks were enqueued but never reached the collector", lost))
                }
            }
            "rawdump" => {
                // the raw keys of the three partitions (hook Store::verif_raw_keys): compared with the model's partitions
                let (a, b, c) = store.verif_raw_keys();
                let hx = |v: &Vec<Vec<u8>>| {
                    v.iter().map(|k| k.iter().map(|x| format!("{:02x}", x)).collect::<String>()).collect::<Vec<_>>().join(",")
                };
                ("rawdump".into(), format!("= raw S[{}] T[{}] C[{}]", hx(&a), hx(&b), hx(&c)))
            }
            "drain" => {
                writeln!(trace, "PRE drain").unwrap();
                let lost = gate.drain();
                if lost == 0 {
                    ("drain".into(), "= done".into())
                } else {
                    ("drain".into(), format!("= {} collector tasks were enqueued but never reached the collector", lost))
                }
            }
            "reopen" => {
                writeln!(trace, "OP reopen\n= done").unwrap();
                trace.flush().unwrap();
                let st = State {
                    next: ln + 1,
                    ids: ids.iter().map(|o| o.map(|v| format!("{:x}", v))).collect(),
                    now,
                };
                std::fs::write(workdir.join("state.json"), serde_json::to_vec(&st).unwrap()).unwrap();
                exec_self(&script_path, &workdir, &trace_path);
            }
            "readsync" | "read" => {
                let last = id_expr(toks[1], &ids);
                let limit: Option<usize> = opt_tok(toks[2]).map(|l| l.parse().unwrap());
                let ctx = id_expr(toks[3], &ids);
                let sync = toks[0] == "readsync";
                let r = catch_unwind(AssertUnwindSafe(|| {
                    if sync {
                        let last_id = last.map(id_from_u128);
                        store
                            .read_sync(last_id.as_ref(), limit, ctx.map(id_from_u128))
                            .collect::<Vec<Frame>>()
                    } else {
                        let opts = ReadOptions::builder()
                            .follow(FollowOption::Off)
                            .maybe_last_id(last.map(id_from_u128))
                            .maybe_limit(limit)
                            .maybe_context_id(ctx.map(id_from_u128))
                            .build();
                        rt.block_on(async {
                            let mut rx = store.read(opts).await;
                            let mut v = Vec::new();
                            while let Some(f) = rx.recv().await {
                                v.push(f);
                            }
                            v
                        })
                    }
                }));
                let obs = match r {
                    Ok(fs) => frames_str(&fs),
                    Err(_) => "= panic".into(),
                };
                (
                    format!(
                        "{} {} {} {}",
                        toks[0],
                        opt_hex(last),
                        limit.map(|l| format!("{:x}", l)).unwrap_or_else(|| "-".into()),
                        opt_hex(ctx)
                    ),
                    obs,
                )
            }
            "get" => {
                let id = id_expr(toks[1], &ids).unwrap_or(0);
                let r = catch_unwind(AssertUnwindSafe(|| store.get(&id_from_u128(id))));
                (
                    format!("get {:032x}", id),
                    r.map(|f| opt_frame_str(&f)).unwrap_or_else(|_| "= panic".into()),
                )
            }
            "head" => {
                let topic = String::from_utf8(unxhex(toks[1])).expect("topic utf8");
                let ctx = id_expr(toks[2], &ids).unwrap_or(0);
                let r = catch_unwind(AssertUnwindSafe(|| store.head(&topic, id_from_u128(ctx))));
                (
                    format!("head {} {:032x}", toks[1], ctx),
                    r.map(|f| opt_frame_str(&f)).unwrap_or_else(|_| "= panic".into()),
                )
            }
            "cas" => {
                // cas <integrity xhex>: is the content retrievable, and does it hash to its name?
                let h: ssri::Integrity = String::from_utf8(unxhex(toks[1])).unwrap().parse().expect("integrity");
                let obs = match store.cas_read_sync(&h) {
                    Ok(bytes) => {
                        let again = ssri::Integrity::from(&bytes);
                        format!("= present {} {}", bytes.len(), if again.to_string() == h.to_string() { "hash-ok" } else { "hash-mismatch" })
                    }
                    Err(_) => "= missing".to_string(),
                };
                (format!("cas {}", toks[1]), obs)
            }
            other => panic!("unknown op {other}"),
        };
        writeln!(trace, "OP {}\n{}", op_echo, obs).unwrap();
    }
    trace.flush().unwrap();
    let _ = Scru128Id::from(0u128);
    // the GC thread keeps a Store clone alive; leave without running destructors
    unsafe { libc::_exit(0) }
}

fn exec_self(script: &Path, workdir: &Path, trace: &Path) -> ! {
    use std::os::unix::process::CommandExt;
    let exe = std::env::current_exe().unwrap();
    let err = std::process::Command::new(exe)
        .arg("seq")
        .arg(script)
        .arg(workdir)
        .arg(trace)
        .arg("--resume")
        .exec();
    panic!("exec failed: {err}");
}
