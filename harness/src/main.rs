//! xsv — implementation-side driver for the correspondence checks.
//! Every subcommand runs the real code of the tree it was built against.

mod codec;
mod common;
mod sched;
mod seq;
mod serve;
mod stress;

fn main() {
    let args: Vec<String> = std::env::args().collect();
    if args.len() < 2 {
        eprintln!("usage: xsv <seq|...> ...");
        std::process::exit(2);
    }
    let code = match args[1].as_str() {
        "seq" => seq::main(&args[2..]),
        "sched" => sched::main(&args[2..]),
        "stress" => stress::main(&args[2..]),
        "serve" => serve::main(&args[2..]),
        "codec" => codec::main(&args[2..]),
        other => {
            eprintln!("unknown subcommand {other}");
            2
        }
    };
    std::process::exit(code);
}
