"""Engine S, codec mode: the real TTL / ReadOptions parsers and printers (xsv codec) against the
extracted grammars (Model/Codec.v) on structured values and on strings near the grammar."""
import random, subprocess, urllib.parse

from . import build
from . import httpengine as H
from .seqengine import xh, unxh


def _run(binary, mode, lines):
    p = subprocess.run([binary, mode], input=("\n".join(lines) + "\n").encode(), stdout=subprocess.PIPE,
                       stderr=subprocess.PIPE, timeout=300)
    return p.stdout.decode().splitlines(), p.returncode, p.stderr.decode()[-500:]


BOUNDS = [0, 1, 2, 9, 10, 99, 100, 2 ** 32 - 1, 2 ** 32, 2 ** 63, 2 ** 64 - 1]


def gen_ttl_values(r, n):
    vals = ["forever", "ephemeral"]
    for b in BOUNDS:
        vals.append("time:%x" % b)
    for b in [1, 2, 9, 10, 2 ** 32 - 1]:
        vals.append("head:%x" % b)
    while len(vals) < n:
        k = r.random()
        if k < 0.5:
            vals.append("time:%x" % r.choice([r.randrange(2 ** 64), r.randrange(1000), 10 ** r.randrange(20) % 2 ** 64]))
        else:
            vals.append("head:%x" % r.choice([r.randrange(1, 2 ** 32), r.randrange(1, 100)]))
    return vals


def gen_ttl_strings(r, n):
    base = ["forever", "ephemeral", "time:1000", "head:5", "time:0", "head:1"]
    out = ["", "head:0", "head:", "time:", "time:-1", "time:+5", "time:007", "head:+01", "time:18446744073709551616",
           "time:18446744073709551615", "head:4294967296", "head:4294967295", "never", "Forever", "time: 5", "time:5 ",
           " forever", "forever ", "time:٥", "head:1.0", "time:1e3", "head:-0", "time:0x10", "time::5", "ttl=forever",
           "time:99999999999999999999999999999999999999999"]
    alphabet = "0123456789:+- forevphmtidaFT.x"
    while len(out) < n:
        s = list(r.choice(base))
        for _ in range(r.choice([1, 1, 2])):
            k = r.random()
            pos = r.randrange(len(s) + 1)
            if k < 0.35 and s:
                del s[min(pos, len(s) - 1)]
            elif k < 0.7:
                s.insert(pos, r.choice(alphabet))
            elif s:
                s[min(pos, len(s) - 1)] = r.choice(alphabet)
        out.append("".join(s))
    return out


def canon_pairs_for_model(pairs):
    """ids travel as ID:<hex32> for the model (the scru128 text form is an oracle)"""
    out = []
    for k, v in pairs:
        if k in ("last-id", "context-id"):
            try:
                if len(v) == 25:
                    i = H.s_to_id(v)
                    if i < 2 ** 128:
                        v = "ID:" + H.hex32(i)
            except Exception:
                pass
        out.append((k, v))
    return out


def run(seed, n_values, n_strings):
    r = random.Random(seed)
    viol, stats = [], dict(ttl_values=0, ttl_strings=0, ttl_queries=0, ro_values=0, ro_queries=0, accepted=0, rejected=0)
    # ---- TTL values: print on both sides, parse on both sides
    vals = gen_ttl_values(r, n_values)
    impl, rc, err = _run(build.XSV, "codec", [f"ttl2s {v}" for v in vals])
    model, _, _ = _run(build.XSMODEL, "codec", [f"ttl2s {v}" for v in vals])
    if rc != 0 or len(impl) != len(vals):
        return dict(violations=[dict(what=f"codec harness failed rc={rc} {err}", no_input=True)], stats=stats)
    back = []
    for v, i, m in zip(vals, impl, model):
        stats["ttl_values"] += 1
        q = unxh(i.split(" ")[0][2:]).decode(); j = unxh(i.split(" ")[1][2:]).decode()
        ms = unxh(m).decode()
        if q != "ttl=" + ms or j != '"' + ms + '"':
            viol.append(dict(what=f"TTL {v} is written as query `{q}` / JSON `{j}`, the grammar says `{ms}`", input=v))
        back.append("ttl " + xh(ms))
    impl2, _, _ = _run(build.XSV, "codec", back)
    for v, i in zip(vals, impl2):
        if i != "ok " + v:
            viol.append(dict(what=f"TTL {v} does not survive the round trip through its string form: parsed back as `{i}`", input=v))
    # ---- strings near the grammar: same accept/reject and same value; JSON and query spellings agree
    strs = gen_ttl_strings(r, n_strings)
    impl, _, _ = _run(build.XSV, "codec", ["ttl " + xh(s) for s in strs])
    model, _, _ = _run(build.XSMODEL, "codec", ["ttl " + xh(s) for s in strs])
    for s_, i, m in zip(strs, impl, model):
        stats["ttl_strings"] += 1
        stats["accepted" if i.startswith("ok") else "rejected"] += 1
        if "json-differs" in i:
            viol.append(dict(what=f"TTL string {s_!r}: the JSON deserializer and parse_ttl disagree ({i})", input=s_))
        if i.replace(" json-differs", "") != m:
            viol.append(dict(what=f"TTL string {s_!r}: implementation `{i}`, grammar `{m}`", input=s_))
    # ---- query strings for TTL (decoded pairs)
    qs, pl = [], []
    for _ in range(n_strings // 4):
        pairs = []
        for _ in range(r.choice([0, 1, 1, 2, 3])):
            pairs.append((r.choice(["ttl", "ttl", "context", "x", "TTL"]), r.choice(strs)))
        q = urllib.parse.urlencode(pairs)
        qs.append("ttlq " + xh(q)); pl.append("ttlp " + " ".join(xh(k) + " " + xh(v) for k, v in pairs))
    impl, _, _ = _run(build.XSV, "codec", qs)
    model, _, _ = _run(build.XSMODEL, "codec", pl)
    for q, i, m in zip(qs, impl, model):
        stats["ttl_queries"] += 1
        if i != m:
            viol.append(dict(what=f"TTL query `{unxh(q.split()[1]).decode()}`: implementation `{i}`, grammar `{m}`", input=q))
    # ---- ReadOptions values: client encoding -> server parser
    ros = []
    for _ in range(n_values):
        f = r.choice(["off", "on", "hb:%x" % r.choice(BOUNDS), "hb:%x" % r.randrange(2 ** 64)])
        idv = lambda: r.choice(["-", H.hex32(r.choice([0, 1, 2 ** 127, 2 ** 128 - 1, r.randrange(2 ** 128)]))])
        lim = r.choice(["-", "%x" % r.choice(BOUNDS), "%x" % r.randrange(2 ** 64)])
        ros.append(f"{f} {r.choice([0, 1])} {idv()} {lim} {idv()}")
    impl, _, _ = _run(build.XSV, "codec", ["ro2q " + o for o in ros])
    model, _, _ = _run(build.XSMODEL, "codec", ["ro2p " + o for o in ros])
    for o, i, m in zip(ros, impl, model):
        stats["ro_values"] += 1
        q = unxh(i.split(" ")[0][2:]).decode()
        if "roundtrip=same" not in i:
            viol.append(dict(what=f"ReadOptions {o} -> `{q}` does not parse back to the same options ({i.split()[-1]})", input=o))
        pairs = canon_pairs_for_model(urllib.parse.parse_qsl(q, keep_blank_values=True))
        mt = m.split()
        mpairs = [(unxh(mt[k]).decode(), unxh(mt[k + 1]).decode()) for k in range(0, len(mt) - 1, 2)]
        if pairs != mpairs:
            viol.append(dict(what=f"ReadOptions {o}: client writes {pairs}, the grammar says {mpairs}", input=o))
    # ---- option strings over the option alphabet
    vals_pool = ["", "true", "false", "yes", "no", "0", "1", "5", "+5", "-1", "maybe", "18446744073709551615",
                 "18446744073709551616", "1e3", " 1", "x", H.id_to_s(5), H.id_to_s(2 ** 128 - 1), "zzzzzzzzzzzzzzzzzzzzzzzzz",
                 "0" * 24, "03GYTLKYIHXC2UBN08IRYCA9F"]
    qs, pl = [], []
    for _ in range(n_strings):
        pairs = []
        for _ in range(r.choice([0, 1, 2, 2, 3, 4])):
            pairs.append((r.choice(["follow", "tail", "last-id", "limit", "context-id", "context", "ttl", "Follow"]), r.choice(vals_pool)))
        q = urllib.parse.urlencode(pairs)
        mp = canon_pairs_for_model(pairs)
        qs.append("ro " + xh(q)); pl.append("ro " + " ".join(xh(k) + " " + xh(v) for k, v in mp))
    impl, _, _ = _run(build.XSV, "codec", qs)
    model, _, _ = _run(build.XSMODEL, "codec", pl)
    for q, i, m in zip(qs, impl, model):
        stats["ro_queries"] += 1
        stats["accepted" if i.startswith("ok") else "rejected"] += 1
        if i != m:
            viol.append(dict(what=f"option string `{unxh(q.split()[1]).decode()}`: implementation `{i}`, grammar `{m}`", input=q))
    return dict(violations=viol, stats=stats, samples=[strs[30:34], ros[:2]])
