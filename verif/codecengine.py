"""Engine S, codec mode: the real TTL / ReadOptions parsers and printers (xsv codec) against the
extracted grammars (Model/Codec.v) on structured values and on strings near the grammar."""
import random, subprocess, urllib.parse

from . import build
from . import httpengine as H
from .seqengine import xh, unxh


def _run(binary, mode, lines):
    p = subprocess.run([binary, mode], input=("\n".join(lines) + "\n").encode(), stdout=subprocess.PIPE,
                       stderr=subprocess.PIPE, timeout=300)
    return p.stdout.decode().splitlines(), p.returncode, p.stderr.decode()[-500:]


BOUNDS = [0, 1, 2, 9, 10, 99, 100, 2 ** 32 - 1, 2 ** 32, 2 ** 63, 2 ** 64 - 1]


def gen_ttl_values(r, n):
    vals = ["forever", "ephemeral"]
    for b in BOUNDS:
        vals.append("time:%x" % b)
    for b in [1, 2, 9, 10, 2 ** 32 - 1]:
        vals.append("head:%x" % b)
    while len(vals) < n:
        k = r.random()
        if k < 0.5:
            vals.append("time:%x" % r.choice([r.randrange(2 ** 64), r.randrange(1000), 10 ** r.randrange(20) % 2 ** 64]))
        else:
            vals.append("head:%x" % r.choice([r.randrange(1, 2 ** 32), r.randrange(1, 100)]))
    return vals


def gen_ttl_strings(r, n):
    base = ["forever", "ephemeral", "time:1000", "head:5", "time:0", "head:1"]
    out = ["", "head:0", "head:", "time:", "time:-1", "time:+5", "time:007", "head:+01", "time:18446744073709551616",
           "time:18446744073709551615", "head:4294967296", "head:4294967295", "never", "Forever", "time: 5", "time:5 ",
           " forever", "forever ", "time:٥", "head:1.0", "time:1e3", "head:-0", "time:0x10", "time::5", "ttl=forever",
           "time:99999999999999999999999999999999999999999"]
    alphabet = "0123456789:+- forevphmtidaFT.x"
    while len(out) < n:
        s = list(r.choice(base))
        for _ in range(r.choice([1, 1, 2])):
            k = r.random()
            pos = r.randrange(len(s) + 1)
            if k < 0.35 and s:
                del s[min(pos, len(s) - 1)]
            elif k < 0.7:
                s.insert(pos, r.choice(alphabet))
            elif s:
                s[min(pos, len(s) - 1)] = r.choice(alphabet)
        out.append("".join(s))
    return out


def canon_pairs_for_model(pairs):
    """ids travel as ID:<hex32> for the model (the scru128 text form is an oracle)"""
    out = []
    for k, v in pairs:
        if k in ("last-id", "context-id"):
            try:
                if len(v) == 25:
                    i = H.s_to_id(v)
                    if i < 2 ** 128:
                        v = "ID:" + H.hex32(i)
            except Exception:
                pass
        out.append((k, v))
    return out


def run(seed, n_values, n_strings):
    r = random.Random(seed)
    viol, stats = [], dict(ttl_values=0, ttl_strings=0, ttl_queries=0, ro_values=0, ro_queries=0, accepted=0, rejected=0)
    # ---- TTL values: print on both sides, parse on both sides
    vals = gen_ttl_values(r, n_values)
    impl, rc, err = _run(build.XSV, "codec", [f"ttl2s {v}" for v in vals])
    model, _, _ = _run(build.XSMODEL, "codec", [f"ttl2s {v}" for v in vals])
    if rc != 0 or len(impl) != len(vals):
        return dict(violations=[dict(what=f"codec harness failed rc={rc} {err}", no_input=True)], stats=stats)
    back = []
    for v, i, m in zip(vals, impl, model):
        stats["ttl_values"] += 1
        q = unxh(i.split(" ")[0][2:]).decode(); j = unxh(i.split(" ")[1][2:]).decode()
        ms = unxh(m).decode()
        if q != "ttl=" + ms or j != '"' + ms + '"':
            viol.append(dict(what=f"TTL {v} is written as query `{q}` / JSON `{j}`, the grammar says `{ms}`", input=v))
        back.append("ttl " + xh(ms))
    impl2, _, _ = _run(build.XSV, "codec", back)
    for v, i in zip(vals, impl2):
        if i != "ok " + v:
            viol.append(dict(what=f"TTL {v} does not survive the round trip through its string form: parsed back as `{i}`", input=v))
    # ---- strings near the grammar: same accept/reject and same value; JSON and query spellings agree
    strs = gen_ttl_strings(r, n_strings)
    impl, _, _ = _run(build.XSV, "codec", ["ttl " + xh(s) for s in strs])
    model, _, _ = _run(build.XSMODEL, "codec", ["ttl " + xh(s) for s in strs])
    for s_, i, m in zip(strs, impl, model):
        stats["ttl_strings"] += 1
        stats["accepted" if i.startswith("ok") else "rejected"] += 1
        if "json-differs" in i:
            viol.append(dict(what=f"TTL string {s_!r}: the JSON deserializer and parse_ttl disagree ({i})", input=s_))
        if i.replace(" json-differs", "") != m:
            viol.append(dict(what=f"TTL string {s_!r}: implementation `{i}`, grammar `{m}`", input=s_))
    # ---- query strings for TTL (decoded pairs)
    qs, pl = [], []
    for _ in range(n_strings // 4):
        pairs = []
        for _ in range(r.choice([0, 1, 1, 2, 3])):
            pairs.append((r.choice(["ttl", "ttl", "context", "x", "TTL"]), r.choice(strs)))
        q = urllib.parse.urlencode(pairs)
        qs.append("ttlq " + xh(q)); pl.append("ttlp " + " ".join(xh(k) + " " + xh(v) for k, v in pairs))
    impl, _, _ = _run(build.XSV, "codec", qs)
    model, _, _ = _run(build.XSMODEL, "codec", pl)
    for q, i, m in zip(qs, impl, model):
        stats["ttl_queries"] += 1
        if i != m:
            viol.append(dict(what=f"TTL query `{unxh(q.split()[1]).decode()}`: implementation `{i}`, grammar `{m}`", input=q))
    # ---- ReadOptions values: client encoding -> server parser
    ros = []
    for _ in range(n_values):
        f = r.choice(["off", "on", "hb:%x" % r.choice(BOUNDS), "hb:%x" % r.randrange(2 ** 64)])
        idv = lambda: r.choice(["-", H.hex32(r.choice([0, 1, 2 ** 127, 2 ** 128 - 1, r.randrange(2 ** 128)]))])
        lim = r.choice(["-", "%x" % r.choice(BOUNDS), "%x" % r.randrange(2 ** 64)])
        ros.append(f"{f} {r.choice([0, 1])} {idv()} {lim} {idv()}")
    impl, _, _ = _run(build.XSV, "codec", ["ro2q " + o for o in ros])
    model, _, _ = _run(build.XSMODEL, "codec", ["ro2p " + o for o in ros])
    for o, i, m in zip(ros, impl, model):
        stats["ro_values"] += 1
        q = unxh(i.split(" ")[0][2:]).decode()
        if "roundtrip=same" not in i:
            viol.append(dict(what=f"ReadOptions {o} -> `{q}` does not parse back to the same options ({i.split()[-1]})", input=o))
        pairs = canon_pairs_for_model(urllib.parse.parse_qsl(q, keep_blank_values=True))
        mt = m.split()
        mpairs = [(unxh(mt[k]).decode(), unxh(mt[k + 1]).decode()) for k in range(0, len(mt) - 1, 2)]
        if pairs != mpairs:
            viol.append(dict(what=f"ReadOptions {o}: client writes {pairs}, the grammar says {mpairs}", input=o))
    # ---- option strings over the option alphabet
    vals_pool = ["", "true", "false", "yes", "no", "0", "1", "5", "+5", "-1", "maybe", "18446744073709551615",
                 "18446744073709551616", "1e3", " 1", "x", H.id_to_s(5), H.id_to_s(2 ** 128 - 1), "zzzzzzzzzzzzzzzzzzzzzzzzz",
                 "0" * 24, "03GYTLKYIHXC2UBN08IRYCA9F"]
    qs, pl = [], []
    for _ in range(n_strings):
        pairs = []
        for _ in range(r.choice([0, 1, 2, 2, 3, 4])):
            pairs.append((r.choice(["follow", "tail", "last-id", "limit", "context-id", "context", "ttl", "Follow"]), r.choice(vals_pool)))
        q = urllib.parse.urlencode(pairs)
        mp = canon_pairs_for_model(pairs)
        qs.append("ro " + xh(q)); pl.append("ro " + " ".join(xh(k) + " " + xh(v) for k, v in mp))
    impl, _, _ = _run(build.XSV, "codec", qs)
    model, _, _ = _run(build.XSMODEL, "codec", pl)
    for q, i, m in zip(qs, impl, model):
        stats["ro_queries"] += 1
        stats["accepted" if i.startswith("ok") else "rejected"] += 1
        if i != m:
            viol.append(dict(what=f"option string `{unxh(q.split()[1]).decode()}`: implementation `{i}`, grammar `{m}`", input=q))
    return dict(violations=viol, stats=stats, samples=[strs[30:34], ros[:2]])


# ---- JSON values and frames (Model/Json.v) -------------------------------------------------------
import json as _json, os, shutil, tempfile

STR_POOL = ["", "a", "k", "topic", "héllo", "日本", "\U0001F600", "q\"uote", "back\\slash", "sl/ash", "\n\r\t\b\f", "\x00\x01\x1f", "\x7f",
            "x" * 40, "ID", "meta", "null", "\u2028", "é" * 3]
INT_POOL = [0, 1, -1, 7, 10, 100, 2 ** 31, 2 ** 32 - 1, 2 ** 53, 2 ** 63 - 1, 2 ** 63, -2 ** 63, 2 ** 64 - 1]
FLOAT_LEX = ["1.5", "-0.25", "0.5", "3.125", "100.0", "1e21", "2.5e-3", "-0", "18446744073709551616", "-9223372036854775809",
             "1E2", "1e+2", "0.0"]


def gen_value(r, depth=0, floats=True):
    k = r.random()
    if depth > 4 or k < 0.45:
        c = r.random()
        if c < 0.1:
            return None
        if c < 0.2:
            return r.choice([True, False])
        if c < 0.5:
            return r.choice(INT_POOL + [r.randrange(-2 ** 63, 2 ** 64)])
        if c < 0.6 and floats:
            return ("float", r.choice(FLOAT_LEX))
        return r.choice(STR_POOL)
    if k < 0.7:
        return [gen_value(r, depth + 1, floats) for _ in range(r.choice([0, 1, 2, 3]))]
    return ("obj", [(r.choice(STR_POOL[:8] + ["a", "b", "b"]), gen_value(r, depth + 1, floats)) for _ in range(r.choice([0, 1, 2, 3, 4]))])


def render_str(r, s, plain=False):
    out = ['"']
    for ch in s:
        o = ord(ch)
        style = 0 if plain else r.random()
        if ch == '"':
            out.append('\\"')
        elif ch == "\\":
            out.append("\\\\")
        elif o < 0x20:
            out.append({8: "\\b", 12: "\\f", 10: "\\n", 13: "\\r", 9: "\\t"}.get(o, "\\u%04x" % o) if style < 0.7 else "\\u%04X" % o)
        elif ch == "/" and style > 0.5:
            out.append("\\/")
        elif style > 0.9 and o < 0x10000 and not (0xD800 <= o <= 0xDFFF):
            out.append("\\u%04x" % o)
        elif style > 0.9 and o >= 0x10000:
            v = o - 0x10000
            out.append("\\u%04x\\u%04x" % (0xD800 + (v >> 10), 0xDC00 + (v & 0x3FF)))
        else:
            out.append(ch)
    out.append('"')
    return "".join(out)


def render(r, v, ws=True):
    sp = (lambda: r.choice(["", "", "", " ", "\n", "\t ", "\r\n"])) if ws else (lambda: "")
    if v is None:
        return "null"
    if v is True:
        return "true"
    if v is False:
        return "false"
    if isinstance(v, int):
        return str(v)
    if isinstance(v, str):
        return render_str(r, v, plain=not ws)
    if isinstance(v, tuple) and v[0] == "float":
        return v[1]
    if isinstance(v, tuple) and v[0] == "raw":
        return v[1]
    if isinstance(v, list):
        return "[" + sp() + ",".join(sp() + render(r, x, ws) + sp() for x in v) + "]"
    return "{" + sp() + ",".join(sp() + render_str(r, k, plain=not ws) + sp() + ":" + sp() + render(r, x, ws) + sp() for k, x in v[1]) + "}"


def mutate(r, t):
    if not t:
        return t
    k = r.random()
    i = r.randrange(len(t))
    if k < 0.3:
        return t[:i] + t[i + 1:]
    if k < 0.6:
        return t[:i] + r.choice(',]}[{":0-+.eE \\u\x01\x1f\'tnf') + t[i:]
    if k < 0.7:
        return t + r.choice([",", " x", "]", "}", " ", "\n", "1"])
    if k < 0.8:
        return t.replace("[", "[,", 1) if "[" in t else t + ","
    if k < 0.9:
        return t.replace("1", "01", 1)
    return t.replace('"', '"\\ud800', 1)


import re as _re
_NUM = _re.compile(r"-?\d+(?:\.\d+)?(?:[eE][+-]?\d+)?")


def outside_f64_oracle(t):
    """a number lexeme whose f64 value overflows (serde_json: 'number out of range'), or an integer too long for the
    decimal model (> 38 digits): the model keeps float lexemes as they are, f64 arithmetic is an oracle"""
    for m in _NUM.finditer(t):
        lx = m.group(0)
        try:
            f = float(lx)
        except Exception:
            return True
        if f in (float("inf"), float("-inf")) or len(lx) > 38:
            return True
    return False


def _num_hook(s):
    i = int(s)
    return i if (-2 ** 63 <= i <= 2 ** 64 - 1 and s != "-0") else float(s)


def canon_json_text(b):
    """parsed form for comparing two printers modulo the f64 oracle (a float lexeme vs ryu's spelling); objects stay
    ORDERED lists of pairs - member order is part of what is compared"""
    return _json.loads(b.decode(), parse_int=_num_hook, object_pairs_hook=lambda ps: ("obj", list(ps)))


def json_close(x, y):
    """same structure, same member order, equal scalars; floats within 1e-14 relative (serde_json without its
    float_roundtrip feature parses long mantissas a few ULP off the correctly rounded value: f64 is an oracle)"""
    import math
    if isinstance(x, float) or isinstance(y, float):
        return isinstance(x, (int, float)) and isinstance(y, (int, float)) and not isinstance(x, bool) and not isinstance(y, bool) \
            and (x == y or math.isclose(float(x), float(y), rel_tol=1e-14, abs_tol=0.0))
    if type(x) != type(y):
        return False
    if isinstance(x, tuple):
        return len(x[1]) == len(y[1]) and all(k1 == k2 and json_close(v1, v2) for (k1, v1), (k2, v2) in zip(x[1], y[1]))
    if isinstance(x, list):
        return len(x) == len(y) and all(json_close(a, b) for a, b in zip(x, y))
    return x == y


def has_float_lexeme(t):
    for m in _NUM.finditer(t):
        lx = m.group(0)
        if any(c in lx for c in ".eE") or lx == "-0" or len(lx.lstrip("-")) > 19 or not (-2 ** 63 <= int(lx) <= 2 ** 64 - 1):
            return True
    return False


def same_output(a, b, text=None):
    """byte-for-byte, unless the input carries a float lexeme (then: same structure, same order, numbers equal as f64)"""
    if a == b:
        return True
    if text is not None and not has_float_lexeme(text):
        return False
    if a.startswith("OK ") and b.startswith("OK "):
        try:
            return json_close(canon_json_text(unxh(a[3:])), canon_json_text(unxh(b[3:])))
        except Exception:
            return False
    return False


def nest_of(spec_text):
    d = m = 0
    ins = False
    esc = False
    for ch in spec_text:
        if ins:
            if esc:
                esc = False
            elif ch == "\\":
                esc = True
            elif ch == '"':
                ins = False
        elif ch == '"':
            ins = True
        elif ch in "[{":
            d += 1; m = max(m, d)
        elif ch in "]}":
            d -= 1
    return m


def gen_frame_text(r, metas, ttl_strs):
    """a frame object (or array) as text, mostly valid; -> text"""
    idp = lambda: r.choice([H.id_to_s(r.choice([0, 1, 2 ** 127, 2 ** 128 - 1, r.randrange(2 ** 128)]))] * 6 +
                           [H.id_to_s(r.randrange(2 ** 128)).upper(), "0" * 24, "0" * 26, "z" * 25, "f5lxx1zz5pnorynqglhzmsp34", "", "ID:00"])
    fields = [("topic", ("raw", render_str(r, r.choice(STR_POOL + ["a.b", "xs.context"])))),
              ("context_id", ("raw", _json.dumps(idp()))),
              ("id", ("raw", _json.dumps(idp()))),
              ("hash", ("raw", r.choice(["null", "null", '"sha256-47DEQpj8HBSa+/TImW+5JCeuQeRkm5NMpJWZG3hSuFU="',
                                        '"sha512-z4PhNX7vuL3xVChQ1m2AB9Yg5AULVxXcg/SpIdNs6c5H0NE8XYXysP+DGNKHfuwvY7kxvUdBeoGlODJ6+SfaPg=="']))),
              ("meta", ("raw", r.choice(metas))),
              ("ttl", ("raw", r.choice(["null", "null"] + [_json.dumps(t) for t in ttl_strs])))]
    k = r.random()
    if k < 0.08:
        return "[" + ",".join(v[1] for _, v in fields[: r.choice([6, 6, 6, 5, 7]) if r.random() < 0.5 else 6]) + "]"
    if k < 0.5:
        r.shuffle(fields)
    if r.random() < 0.15:
        fields.pop(r.randrange(len(fields)))
    if r.random() < 0.1:
        fields.insert(r.randrange(len(fields) + 1), r.choice(fields))
    if r.random() < 0.15:
        fields.insert(r.randrange(len(fields) + 1), (r.choice(["extra", "Topic", "ttl2"]), ("raw", r.choice(['1', '"x"', '[1,{"a":null}]', 'null']))))
    if r.random() < 0.08:
        j = r.randrange(len(fields))
        fields[j] = (fields[j][0], ("raw", r.choice(["1", "null", "[]", "{}", "true", '""'])))
    return render(r, ("obj", fields))


def run_json(seed, n_values, n_frames, fixed=True):
    """-> dict(violations, stats)"""
    r = random.Random(seed)
    viol = []
    stats = dict(json_texts=0, json_accepted=0, json_rejected=0, frame_texts=0, frames_accepted=0, frames_rejected=0,
                 deep_values=0, store_probes=0, store_accepted=0, store_rejected=0, float_texts=0)
    # ---- JSON texts
    texts = []
    for _ in range(n_values):
        v = gen_value(r)
        t = render(r, v)
        texts.append(t)
        if r.random() < 0.5:
            texts.append(mutate(r, t))
    for d in (1, 2, 100, 125, 126, 127, 128, 129, 130, 200, 600):
        for kind in ("a", "o", "mix"):
            spec = {"a": "a" * d, "o": "o" * d}.get(kind) or "".join(r.choice("ao") for _ in range(d))
            t = "".join("[" if c == "a" else '{"k":' for c in spec) + r.choice(["null", "1", '"x"']) + "".join("]" if c == "a" else "}" for c in reversed(spec))
            texts.append(t); stats["deep_values"] += 1
    lines = ["J " + xh(t) for t in texts]
    impl, rc, err = _run(build.XSV, "codec", lines)
    model, rc2, err2 = _run(build.XSMODEL, "json", lines)
    if len(impl) != len(lines) or len(model) != len(lines):
        return dict(violations=[dict(what=f"json harness failed rc={rc}/{rc2} {err} {err2}", no_input=True)], stats=stats)
    for t, i, m in zip(texts, impl, model):
        if outside_f64_oracle(t):
            stats["outside_f64_oracle"] = stats.get("outside_f64_oracle", 0) + 1
            continue
        stats["json_texts"] += 1
        stats["json_accepted" if i.startswith("OK") else "json_rejected"] += 1
        if not same_output(i, m, t):
            viol.append(dict(what=f"JSON text {t[:120]!r} (nesting {nest_of(t)}): serde_json {'-> ' + unxh(i[3:]).decode()[:120] if i.startswith('OK') else 'rejects'}, "
                                  f"the model {'-> ' + unxh(m[3:]).decode()[:120] if m.startswith('OK') else 'rejects'}", input=t))
        elif i.startswith("OK"):
            # whatever serde_json printed parses back to the same value (round trip of the implementation itself)
            pass
    # ---- frame texts
    metas = ["null", "null", '{"a":1}', '{}', '"s"', '7', '[1,2]'] + [render(r, gen_value(r, floats=False), ws=False) for _ in range(40)]
    for d in (125, 126, 127, 128):
        metas.append("[" * d + "]" * d)
    ttl_strs = ["forever", "ephemeral", "time:0", "time:1500", "head:1", "head:4294967295", "head:0", "head:4294967296", "time:-1", "Time:5", "time:18446744073709551616", ""]
    ftexts = [gen_frame_text(r, metas, ttl_strs) for _ in range(n_frames)]
    ftexts += [mutate(r, t) for t in ftexts[: n_frames // 5]]
    lines = ["F " + xh(t) for t in ftexts]
    impl, rc, err = _run(build.XSV, "codec", lines)
    model, rc2, err2 = _run(build.XSMODEL, "json", lines)
    if len(impl) != len(lines) or len(model) != len(lines):
        return dict(violations=[dict(what=f"frame harness failed rc={rc}/{rc2} {err} {err2}", no_input=True)], stats=stats)
    reenc = []
    canon_hash = _re.compile(r"^(sha(256|512|384|1)-[A-Za-z0-9+/]+=*)?$")
    def outside_hash_oracle(t):
        # ssri::Integrity is an oracle: the tie only speaks about absent hashes and single well-formed `<algo>-<base64>` entries
        # (ssri cuts a digest at a second '-', accepts any text as digest, sorts several entries, ...)
        try:
            j = _json.loads(t)
        except Exception:
            return False
        h = j.get("hash") if isinstance(j, dict) else (j[3] if isinstance(j, list) and len(j) > 3 else None)
        return isinstance(h, str) and not canon_hash.match(h)
    for t, i, m in zip(ftexts, impl, model):
        if outside_hash_oracle(t):
            stats["outside_hash_oracle"] = stats.get("outside_hash_oracle", 0) + 1
            if i.startswith("OK"):
                reenc.append(i[3:])
            continue
        if outside_f64_oracle(t):
            stats["outside_f64_oracle"] = stats.get("outside_f64_oracle", 0) + 1
            if i.startswith("OK"):
                reenc.append(i[3:])
            continue
        stats["frame_texts"] += 1
        stats["frames_accepted" if i.startswith("OK") else "frames_rejected"] += 1
        if not same_output(i, m, t):
            viol.append(dict(what=f"frame text {t[:200]!r}: Frame deserializer {'-> ' + unxh(i[3:]).decode()[:160] if i.startswith('OK') else 'rejects'}, "
                                  f"the model {'-> ' + unxh(m[3:]).decode()[:160] if m.startswith('OK') else 'rejects'}", input=t))
        if i.startswith("OK"):
            reenc.append(i[3:])
    # what the implementation wrote must be read back by it, to the same bytes (nothing accepted fails later)
    again, _, _ = _run(build.XSV, "codec", ["F " + x for x in reenc])
    for x, a in zip(reenc, again):
        if a != "OK " + x:
            viol.append(dict(what=f"a frame the deserializer produced does not survive its own round trip: {unxh(x).decode()[:200]!r} -> {a[:80]}",
                             input=unxh(x).decode()))
    # ---- the store: a frame whose meta is built in memory (as nu's value_to_json does) - accepted iff readable
    # (a meta of Some(Null) is indistinguishable from no meta in every encoding and reads back as None: outside wf_frame)
    specs = ["a", "o", "ao"] + ["".join(r.choice("ao") for _ in range(d)) for d in (5, 60, 120, 124, 125, 126, 126, 127, 127, 128, 129, 130, 200, 500)]
    d = tempfile.mkdtemp(prefix="c12", dir=os.path.join(build.BUILD, "work")) if os.path.isdir(os.path.join(build.BUILD, "work")) else tempfile.mkdtemp(prefix="c12", dir=build.BUILD)
    try:
        p = subprocess.run([build.XSV, "codec", d], input=("\n".join("P " + (s_ or "-") for s_ in specs) + "\n").encode(),
                           stdout=subprocess.PIPE, stderr=subprocess.PIPE, timeout=300)
        impl = p.stdout.decode().splitlines()
    finally:
        shutil.rmtree(d, ignore_errors=True)
    if len(impl) != len(specs):
        return dict(violations=viol + [dict(what=f"store probe harness failed: {p.stderr.decode()[-300:]}", no_input=True)], stats=stats)
    enc = [l.split(" ")[-1] for l in impl]
    model, _, _ = _run(build.XSMODEL, "json", ["F " + x for x in enc])
    for s_, i, m in zip(specs, impl, model):
        stats["store_probes"] += 1
        verdict = " ".join(i.split(" ")[:-1])
        stats["store_accepted" if verdict.startswith("accepted") else "store_rejected"] += 1
        readable = m.startswith("OK")
        if verdict == "accepted POISON":
            viol.append(dict(what=f"Store::append accepted a frame whose meta nests {len(s_)} levels (spec {s_[:12]}..): reading it back panics "
                                  f"(deserialize_frame) - one stored frame makes later reads fail; the model says the encoding "
                                  f"{'decodes' if readable else 'does not decode (recursion limit 128)'}", input="P " + s_, poison=True))
        elif verdict == "accepted DIFFERENT":
            viol.append(dict(what=f"Store::append then get returned a different frame for meta nesting {len(s_)}", input="P " + s_))
        elif verdict == "accepted readable" and not readable:
            viol.append(dict(what=f"meta nesting {len(s_)}: the store reads the frame back, the model says its encoding does not decode", input="P " + s_))
        elif verdict == "rejected" and readable:
            viol.append(dict(what=f"meta nesting {len(s_)}: the store refuses a frame whose encoding decodes (model)", input="P " + s_))
        elif verdict not in ("accepted readable", "rejected"):
            viol.append(dict(what=f"store probe {s_[:20]}: {i[:100]}", input="P " + s_))
    return dict(violations=viol, stats=stats)
